"""C41 -- fetch_table queries return exactly the matching rows (engine.py Engine.fetch_table)."""
import copy
import logging

from harness import core
from harness.props import c41_gen
from harness.pyval import enc, Unencodable, strict_eq, to_json, from_json

ID = 'C41'
TITLE = 'fetch_table queries return exactly the matching rows'
PROPS = ['Props/C41']
RULE = ('documents built through the real engine (AddTable with Any/Text/Numeric/ChoiceList/Choice data columns, formula '
        'columns returning lists, tuples, tuples containing lists and a lookup count (creates virtual #lookup columns); '
        '0-9 rows of mixed-type values incl. 1/1.0/True, 0/0.0/False, strings, lists, nested lists, dicts; random row '
        'removals and a second batch of rows); per document ~15 calls fetch_table(table, formulas, private, query) on '
        'the user table and on metadata tables (which have private formula columns): queries over 0-3 columns '
        '(also id, manualSort, a virtual column, a missing column), 0-4 requested values per column drawn from the '
        "column's own cells, cross-type equal variants (1 <-> 1.0 <-> True, list <-> tuple), and a mixed pool with "
        'unhashable lists/dicts/tuples-containing-lists; a case is non-trivial when the query is non-empty and the '
        'table has a live row (the filter loop ran) or the query names a missing column')
TRUSTED = ['harness/imp2v.py (fail-closed translator Python subset -> monadic Gallina, Lib/PyImp.v): Engine.fetch_table is '
           'translated from engine.py into coq/gen/FetchQuery_gen.v on every run, proved equal to the hand model '
           '(C41_source_bridge) and evaluated against the running method on every generated case',
           'Model/FetchQueryPy.v: the typed primitives the library calls map to (get_column/KeyError, set()/TypeError, '
           '`in` on a set/TypeError, raw_get, column flags)',
           'Model/FetchQuery.v is hand-written; also tied to engine.fetch_table by evaluating both on the same generated '
           'tables/flags/queries on every run (vm_compute inside Coq)',
           'Lib/PyVal.v py_eq/hashable as the model of Python == / hash on None, bool, int, half-integer floats, str, '
           'list, tuple (nested); CPython set membership = existence of an ==-equal element for these types '
           '(hash consistent with ==)',
           'the harness encoder of Python values into the model value type (objects outside it - dicts, Records, '
           'inf, non-half-integer floats - become opaque tokens compared by type and repr)']
ASSUMPTIONS = ['column ids of a table are distinct (all_columns is a dict; hypothesis of C41_source_bridge)',
               'query is None or a dict mapping column id -> list of values (a non-iterable "values" is swallowed by the '
               'same except TypeError and yields no rows; not modelled)',
               'no NaN among cells or requested values (Python containers test identity before ==)',
               '1 == 1.0 == True and 0 == 0.0 == False mixes ARE part of the main stream and are modelled (floats as '
               'twice their value; only half-integer floats of magnitude < 2^40 are generated as numbers)']
TECHNIQUE = ('Coq proof over a hand-written model bridged to fetch_table as translated from source on every run '
             '(imp2v) + differential cases against the real engine + naive-filter oracle')
LEVEL_TEXT = ('Kernel-checked theorems, for all tables, flags and queries: the model of Engine.fetch_table equals the '
              'declarative filter (live row ids, strictly ascending, whose stored value in every queried column == a '
              'requested value; KeyError exactly for a missing column; columns chosen by the formulas/private flags, '
              'never id or virtual columns, each list parallel to the row ids), and the set branch, the unhashable-list '
              'fallback and the caught TypeError for unhashable cells all decide "cell == some requested value". '
              'The model is compared with the running engine on generated tables and queries on every run, and a '
              'naive filter oracle is run on the implementation.')
LEVEL_NOTE = ('Trusted: Coq kernel; py_eq/hashable as model of Python ==/hash on the generated value types (set '
              'membership abstracted as existence of an equal element); the value encoder. Not modelled: NaN, '
              'non-list "values".')

logging.disable(logging.CRITICAL)


def regenerate(ctx):
  c41_gen.regenerate(ctx)

# ---------------------------------------------------------------------------------------------
# documents

COLS = [
  {'id': 'A', 'type': 'Any', 'isFormula': False},
  {'id': 'B', 'type': 'Text', 'isFormula': False},
  {'id': 'N', 'type': 'Numeric', 'isFormula': False},
  {'id': 'C', 'type': 'ChoiceList', 'isFormula': False},
  {'id': 'Ch', 'type': 'Choice', 'isFormula': False},
  {'id': 'F', 'type': 'Any', 'isFormula': True, 'formula': '[$A, $B]'},
  {'id': 'H', 'type': 'Any', 'isFormula': True, 'formula': '($A, $B)'},
  {'id': 'K', 'type': 'Any', 'isFormula': True, 'formula': '($N, [$B])'},
  {'id': 'G', 'type': 'Any', 'isFormula': True, 'formula': 'len(T.lookupRecords(B=$B))'},
]
POOL_A = [None, 0, 1, 2, -1, True, False, 1.0, 0.0, 1.5, 2.0, '', 'a', 'b', '1', u'é', 10 ** 12,
          ['L', 'a'], ['L'], ['L', 1], ['L', True], ['L', 1, ['L', 2]], ['L', 'a', 'b'], ['O', {'a': 1}], ['O', {'b': 'x'}]]
POOL_B = ['a', 'b', '', None, '1', 'True', 'a']
POOL_N = [0, 1, 2, 1.5, 1.0, None, 'x', True, 2.5, -1]
POOL_C = [None, ['L', 'a'], ['L', 'a', 'b'], ['L', 'b', 'a'], 'alt', ['L', '1']]
POOL_CH = ['a', 'b', '', None, 5, '1']
# requested values (Python objects, as a caller of Engine.fetch_table passes them)
QPOOL = [None, 0, 1, 2, True, False, 1.0, 0.0, 1.5, 2.0, '', 'a', 'b', '1', u'é', 7, 3,
         ['a'], [], [1], [True], [1.0], [1, [2]], ('a', 'b'), ('a',), (), (1, 'a'), (1.0, 'a'), (None, 'a'), ('a', 'a'),
         [1, 'a'], [None, 'a'], [None, 'b'], (1, ['a']), (1.5, ['a']), (None, ['b']), (['a'], 'a'), {'a': 1}, {'b': 'x'},
         (1, ('a',)), ('a', ['a'])]
META = ['_grist_Tables_column', '_grist_Tables', '_grist_Views_section']
META_QCOLS = {'_grist_Tables_column': ['parentId', 'colId', 'isFormula', 'tableId', 'type', 'id', 'numDisplayColUsers'],
              '_grist_Tables': ['tableId', 'primaryViewId', 'id', 'onDemand'],
              '_grist_Views_section': ['parentKey', 'isRaw', 'tableRef', 'id', 'isRecordCard']}


def ua(*a):
  import useractions
  return useractions.from_repr(list(a))


def new_engine():
  import engine
  e = engine.Engine()
  e.load_empty()
  e.apply_user_actions([ua('InitNewDoc')])
  return e


def gen_doc(rng):
  def batch(k):
    return {'A': [rng.choice(POOL_A) for _ in range(k)], 'B': [rng.choice(POOL_B) for _ in range(k)],
            'N': [rng.choice(POOL_N) for _ in range(k)], 'C': [rng.choice(POOL_C) for _ in range(k)],
            'Ch': [rng.choice(POOL_CH) for _ in range(k)]}
  k = rng.choice([0, 1, 2, 3, 4, 5, 6, 8, 9])
  doc = {'n': k, 'data': batch(k), 'remove': [], 'n2': 0, 'data2': None}
  if k and rng.random() < 0.6:
    doc['remove'] = sorted(rng.sample(range(1, k + 1), rng.randint(1, max(1, k // 3))))
  if rng.random() < 0.3:
    doc['n2'] = rng.randint(1, 3)
    doc['data2'] = batch(doc['n2'])
  return doc


def build_doc(doc):
  e = new_engine()
  e.apply_user_actions([ua('AddTable', 'T', copy.deepcopy(COLS))])   # AddTable mutates its argument
  if doc['n']:
    e.apply_user_actions([ua('BulkAddRecord', 'T', [None] * doc['n'], copy.deepcopy(doc['data']))])
  if doc['remove']:
    e.apply_user_actions([ua('BulkRemoveRecord', 'T', doc['remove'])])
  if doc.get('n2'):
    e.apply_user_actions([ua('BulkAddRecord', 'T', [None] * doc['n2'], copy.deepcopy(doc['data2']))])
  return e


# ---------------------------------------------------------------------------------------------
# JSON form of requested values (for replay files) and Coq form of values

def enc_table(t):
  size = t._id_column.size()
  ids = [t._id_column.raw_get(i) for i in range(size)]
  cols = []
  for c in t.all_columns.values():
    cols.append('(mkCol %s %s %s %s %s)' % (
      core.strlit(c.col_id), core.boollit(c.is_formula()), core.boollit(c.is_private()),
      core.coq_list([enc(c.raw_get(i)) for i in range(size)]), enc(c.getdefault())))
  return '(mkTable %s %s)' % (core.zlist(ids), core.coq_list(cols))


def enc_query(query):
  if not query:
    return '[]'
  return core.coq_list(['(%s, %s)' % (core.strlit(c), core.coq_list([enc(v) for v in vals])) for c, vals in query.items()])


def enc_result(res):
  if isinstance(res, KeyError):
    return '(ErrKeyError %s)' % core.strlit(res.args[0])
  cols = core.coq_list(['(%s, %s)' % (core.strlit(c), core.coq_list([enc(v) for v in vs])) for c, vs in res.columns.items()])
  return '(Ok (%s, %s))' % (core.zlist(list(res.row_ids)), cols)


# ---------------------------------------------------------------------------------------------
# queries

def variants(rng, v):
  if isinstance(v, (bool, int, float)) and v == v and abs(v) < 2 ** 40:
    out = [int(v) if v == int(v) else v, float(v)]
    if v in (0, 1):
      out.append(bool(v))
    return rng.choice(out)
  if isinstance(v, list):
    return rng.choice([tuple(v), list(v)])
  if isinstance(v, tuple):
    return rng.choice([list(v), tuple(v)])
  if isinstance(v, str):
    return rng.choice([v, v + 'x', v.upper()])
  return v


def gen_query(rng, e, target):
  t = e.tables[target]
  live = list(t.row_ids)
  if target == 'T':
    cands = ['A', 'A', 'B', 'N', 'N', 'C', 'Ch', 'F', 'F', 'H', 'H', 'K', 'K', 'G', 'id', 'manualSort', '#lookup#B']
  else:
    cands = META_QCOLS[target]
  r = rng.random()
  if r < 0.06:
    return rng.choice([None, {}])
  ncols = rng.choice([1, 1, 1, 2, 2, 3])
  cols = rng.sample(sorted(set(cands)), min(ncols, len(set(cands)))) if rng.random() < 0.5 else \
      list(dict.fromkeys(rng.choice(cands) for _ in range(ncols)))
  if rng.random() < 0.07:
    cols.insert(rng.randint(0, len(cols)), 'Zmissing')
  query = {}
  for cid in cols:
    n = rng.choice([0, 1, 1, 2, 2, 3, 4])
    vals = []
    cells = [t.get_column(cid).raw_get(r) for r in live] if t.has_column(cid) else []
    cells = [c for c in cells if type(c).__name__ not in ('RecordList', 'RecordSet', 'Record')]
    for _ in range(n):
      x = rng.random()
      if cells and x < 0.65:
        v = rng.choice(cells)
        if rng.random() < 0.4:
          v = variants(rng, v)
      elif cid == 'id' and x < 0.9:
        v = rng.randint(0, 10)
      else:
        v = rng.choice(QPOOL)
      vals.append(v)
    query[cid] = vals
  return query


def run_impl(e, target, formulas, private, query):
  try:
    return e.fetch_table(target, formulas=formulas, private=private, query=query)
  except KeyError as ex:
    return ex


# ---------------------------------------------------------------------------------------------
# the property's own oracle on the implementation

def oracle(e, target, formulas, private, query, res):
  t = e.tables[target]
  missing = [c for c in (query or {}) if c not in t.all_columns]
  if isinstance(res, KeyError):
    return None if missing and res.args[0] in missing else 'KeyError %r although all queried columns exist' % (res.args[0],)
  if missing:
    return 'no KeyError for missing column %r' % (missing[0],)
  full = e.fetch_table(target, formulas=True, private=True)          # every record of the table
  all_rows = list(full.row_ids)
  if all_rows != sorted(set(all_rows)) or all_rows != list(t.row_ids):
    return 'unfiltered row ids are not the ascending list of record ids'
  exp = []
  for r in all_rows:
    ok = True
    for cid, vals in (query or {}).items():
      cell = t.get_column(cid).raw_get(r)
      if not any(cell == v for v in vals):
        ok = False
    if ok:
      exp.append(r)
  got = list(res.row_ids)
  if got != exp:
    extra = [r for r in got if r not in exp]
    lost = [r for r in exp if r not in got]
    if extra:
      return 'row %r returned although it does not match the query' % (extra[0],)
    if lost:
      return 'matching row %r not returned' % (lost[0],)
    return 'rows not in row id order: %r' % (got,)
  # columns: by the flags, judged from the metadata of user tables where it exists
  expcols = []
  for cid, c in t.all_columns.items():
    if cid == 'id' or cid.startswith('#'):
      continue
    if c.is_formula() and not formulas:
      continue
    if c.is_private() and not private:
      continue
    expcols.append(cid)
  if not target.startswith('_grist_'):
    meta = {c.colId: bool(c.isFormula) for c in e.docmodel.columns.all if c.tableId == target}
    bymeta = [cid for cid in t.all_columns if cid in meta and (formulas or not meta[cid])]
    if [c for c in expcols if c != 'manualSort'] != [c for c in bymeta if c != 'manualSort']:
      return 'column flags disagree with _grist_Tables_column'
  if list(res.columns.keys()) != expcols:
    return 'columns returned %r, expected %r' % (list(res.columns.keys()), expcols)
  for cid, vs in res.columns.items():
    want = [t.get_column(cid).raw_get(r) for r in got]
    if len(vs) != len(got) or not all(strict_eq(a, b) for a, b in zip(vs, want)):
      return 'column %r is not parallel to the row ids' % (cid,)
  return None


def features(e, target, query, res):
  t = e.tables[target]
  f = []
  if not query:
    return ['no-query']
  live = list(t.row_ids)
  for cid, vals in query.items():
    if cid not in t.all_columns:
      f.append('missing-column')
      continue
    if not vals:
      f.append('empty-values')
    try:
      set(vals)
      f.append('values:set')
      for r in live:
        try:
          hash(t.get_column(cid).raw_get(r))
        except TypeError:
          f.append('unhashable-cell-vs-set')
          break
    except TypeError:
      f.append('values:list-fallback')
  if not isinstance(res, KeyError):
    n = len(res.row_ids)
    f.append('rows:none' if n == 0 else ('rows:all' if n == len(live) else 'rows:some'))
  if target != 'T':
    f.append('meta-table')
  return sorted(set(f))


# ---------------------------------------------------------------------------------------------

def gen_cases(ctx):
  """yields (doc index, doc, engine, target, formulas, private, query)"""
  ndocs = ctx.n(26, 420)
  per = 15
  for di in range(ndocs):
    doc = gen_doc(ctx.rng)
    e = build_doc(doc)
    for _ in range(per):
      target = 'T' if ctx.rng.random() < 0.85 else ctx.rng.choice(META)
      formulas = ctx.rng.random() < 0.6
      private = ctx.rng.random() < (0.15 if target == 'T' else 0.5)
      yield di, doc, e, target, formulas, private, gen_query(ctx.rng, e, target)


def correspond(ctx):
  groups = {}      # (doc index, target) -> [table term or None, [case terms], [witnesses]]
  for di, doc, e, target, formulas, private, query in gen_cases(ctx):
    w = {'doc': doc, 'target': target, 'formulas': formulas, 'private': private,
         'query': None if query is None else [[c, [to_json(v) for v in vs]] for c, vs in query.items()]}
    try:
      res = run_impl(e, target, formulas, private, query)
    except Exception as ex:
      ctx.violation('exception', 'fetch_table raised %r' % (ex,), w)
      continue
    desc = oracle(e, target, formulas, private, query, res)
    if desc:
      ctx.violation('oracle', desc, w)
    key = (di, target)
    if key not in groups:
      try:
        groups[key] = [enc_table(e.tables[target]), [], []]
      except Unencodable:
        groups[key] = [None, [], []]
    g = groups[key]
    feats = features(e, target, query, res)
    live = len(list(e.tables[target].row_ids))
    nontrivial = ('missing-column' in feats) or (bool(query) and live > 0)
    ctx.count((doc, target, formulas, private, w['query']), nontrivial=nontrivial,
              sample={'target': target, 'formulas': formulas, 'private': private, 'query': w['query'],
                      'rows': None if isinstance(res, KeyError) else list(res.row_ids)} if nontrivial else None)
    for f in feats:
      ctx.bump(f)
    if g[0] is None:
      ctx.bump('skipped:unencodable')
      continue
    try:
      g[1].append('(mk_q %s %s %s %s)' % (core.boollit(formulas), core.boollit(private), enc_query(query),
                                        enc_result(res)))
      g[2].append(w)
    except Unencodable:
      ctx.bump('skipped:unencodable')
  gs = [g for g in groups.values() if g[0] is not None and g[1]]
  coq = ['(mk_group %s %s)' % (g[0], core.coq_list(g[1])) for g in gs]
  ctx.log('cases: %d on %d tables' % (sum(len(g[1]) for g in gs), len(gs)))
  # one Coq case = one table with all its queries; a failing query makes its whole group fail
  # both the hand model and the function translated from the source this run are evaluated on every case
  bad = ctx.run_cases('fetch', ['Grist.Lib.PyVal', 'Grist.Lib.PyImp', 'Grist.Model.FetchQuery', 'Grist.Model.FetchQueryPy',
                                'GristGen.FetchQuery_gen'],
                      "fun c => forallb (fun x => let '(f, p, q, e) := x in result_eqb (fetch (fst c) f p q) e && "
                      "result_eqb (unlift (fetch_table (fun _ => fst c) [] f p (query_in q))) e) (snd c)",
                      coq, shard=12,
                      # typed constructors, so empty queries / row lists / column lists never leave a type open
                      extra_defs='Definition unlift (r : exc table_data) : result table_data := match r with Val x => Ok x '
                                 '| Exn (KeyError c) => ErrKeyError c | Exn _ => ErrKeyError [] end.\n'
                                 'Definition mk_q (f p : bool) (q : query) (e : result table_data) := (f, p, q, e).\n'
                                 'Definition mk_group (t : table) (l : list (bool * bool * query * result table_data)) '
                                 ':= (t, l).')
  for i in bad[:3]:
    ctx.broken('correspondence:model fetch or translated fetch_table differs from engine.fetch_table',
               'one of the queries %r on the table of %r' % ([(w['formulas'], w['private'], w['query']) for w in gs[i][2]],
                                                            {k: gs[i][2][0][k] for k in ('doc', 'target')}))


def search(ctx):
  # the oracle runs on every case inside correspond (same engine objects); here: exhaustive small scope
  # in the thorough tier and a dedicated stream for the equality corner cases
  e = new_engine()
  e.apply_user_actions([ua('AddTable', 'T', copy.deepcopy(COLS))])   # AddTable mutates its argument
  vals = [None, 0, 1, True, False, 1.0, 0.0, 1.5, '', 'a', '1', ['L', 'a'], ['L', 1], ['L'], ['O', {'a': 1}]]
  e.apply_user_actions([ua('BulkAddRecord', 'T', [None] * len(vals),
                           {'A': vals, 'B': ['a', 'b'] * 7 + ['a'], 'N': [1, 2, 1.5] * 5})])
  e.apply_user_actions([ua('BulkRemoveRecord', 'T', [2, 9])])
  doc = {'n': len(vals), 'data': {'A': vals, 'B': ['a', 'b'] * 7 + ['a'], 'N': [1, 2, 1.5] * 5, 'C': [None] * 15,
                                  'Ch': [''] * 15}, 'remove': [2, 9], 'n2': 0, 'data2': None}
  qv = [None, 0, 1, True, 1.0, 0.0, 1.5, '', 'a', ['a'], ('a',), [1], [True], {'a': 1}, (1, 'a'), [1, 'a'], (1, ['a'])]
  cols = ['A', 'F', 'H', 'K', 'N']
  n = 0
  for cid in cols:
    for i, v1 in enumerate(qv):
      for v2 in ([None] + qv[i + 1:] if ctx.tier == 'thorough' else [None, qv[(i * 7 + 3) % len(qv)]]):
        vs = [v1] if v2 is None else [v1, v2]
        query = {cid: vs}
        w = {'doc': doc, 'target': 'T', 'formulas': True, 'private': False,
             'query': [[cid, [to_json(v) for v in vs]]]}
        n += 1
        ctx.count(('pairs', cid, w['query']), nontrivial=True, kind='equality-corner-stream')
        try:
          res = run_impl(e, 'T', True, False, query)
        except Exception as ex:      # pylint: disable=broad-except
          ctx.violation('exception', 'fetch_table raised %r' % (ex,), w)
          continue
        desc = oracle(e, 'T', True, False, query, res)
        if desc:
          ctx.violation('oracle', desc, w)
  ctx.log('search: %d equality-corner queries' % n)


def replay(ctx, w):
  e = build_doc(w['doc'])
  query = None if w['query'] is None else {c: [from_json(v) for v in vs] for c, vs in w['query']}
  try:
    res = run_impl(e, w['target'], w['formulas'], w['private'], query)
  except Exception as ex:
    return 'fetch_table raised %r' % (ex,)
  return oracle(e, w['target'], w['formulas'], w['private'], query, res)
