"""C07 -- Reopening a saved document changes nothing (Engine.load_meta_tables/load_table/add_records,
main.table_data_from_db/_decode_db_value, column.<Class>.set, Engine._recompute_step / equal_encoding)."""
import collections
import copy
import marshal
import random
import traceback

from harness import core, pyvalues as pv

ID = 'C07'
TITLE = 'Reopening a saved document changes nothing'
PROPS = ['Props/C07']
FUEL = 200


def TIMEOUT(ctx):
  return 600 if ctx.tier == 'quick' else 2400      # per shard; the build machine is shared

RULE = ('cells: values from the grammar of harness/pyvalues.py plus edge lists (0/1/1.0 for Bool, ints for Numeric, JSON-looking and '
        'RecordList-looking strings, tuples and nested tuples, bytes, naive/aware/end-of-calendar datetimes, records, big ints, errors '
        'with and without user input and with .error missing, stubs) x every column type; each is stored the way the engine stores it '
        '(column.convert then column.set; or decode_object then set; or raw for Any/Blob), then sent through the real load path '
        '(encode_object, blob, marshal, main.table_data_from_db, column.set) and through the model; strict_equal/equal_encoding on '
        '(saved, reloaded) pairs, clones, re-decoded and random pairs; get_cell_value of every error cell. search: histories from '
        'harness/histgen.py extended with trigger-formula data columns (every third history starts from an Any/Text/Blob/Numeric '
        'trigger column with a rich formula and a formula inspecting it); after every successful bundle of a clean document the REAL '
        'reload (fetch_table(formulas=True) -> get_action_repr -> blobs -> marshal -> table_data_from_db -> load_meta_tables/load_table '
        '-> Calculate) must store nothing and report the same tables; histories contain formula columns of every type whose formulas '
        'return texts the type may re-parse (JSON lists, numeric/bool/date-looking) and values of the wrong type; the same per cell: '
        'result -> convert -> set -> save -> load against the recomputed convert(result), on the implementation and in the model. '
        'A cell case is non-trivial when the encoding is a list or the '
        'reloaded object differs; a search case when the document has rows.')
TRUSTED = ['hand-written model Model/Reload.v (column.<Class>.set, main._decode_db_value, strict_equal, equal_encoding, the change '
           'detection of _recompute_step/_changes_to_actions, what get_cell_value raises) on top of Model/Values.v (C22/C24), compared '
           'with the running functions on every case',
           'marshal.dumps/loads are not modelled: Section variables; the model names marshalled bytes by a digest',
           'oracles of Model/Values.v (repr/str of objects, json.loads, tz database, ...) filled per case from the running library',
           'harness/pyvalues.py: Python value -> Coq literal; harness/histgen.py: history generator']
ASSUMPTIONS = ['marshal_rt (monitored on every value): marshal.loads(marshal.dumps(x)) = x for an encoded cell and for the blob holding it',
               'lib_facts (monitored; C24): UTC is a zone, timedelta(seconds=total_seconds) exact on whole days and within 16 us otherwise, '
               'zone offsets below a day and self-consistent',
               'node_ok / node_dt (C24): unencoded fields of errors and stubs are marshalable, no str-subclass dict keys, dates inside the '
               'calendar, datetimes a day inside it',
               'the observation of a cell by a formula is a function of the column and the raw object (monitored by reading twice)',
               'Node-side number typing and volatile formulas are outside the property; documents are clean and acyclic (histgen); a formula '
               'whose text result shows the memory address of an object (default repr, e.g. str() of an UnmarshallableValue) is volatile: '
               'addresses are scrubbed and an update that only changes one is not counted',
               'objects with user-defined __eq__ and NaN inside containers (CPython identity shortcut) are outside the modelled domain of ==']
TECHNIQUE = 'Coq proof over a hand-written executable model of the load path + differential cases (vm_compute) + real reload of generated documents'
LEVEL_TEXT = ('Kernel-checked theorems about the model of the load path, for every column type, any recursion fuel, arbitrary library '
              'oracles and arbitrary marshal functions that round-trip the cell: the reloaded cell has the encoding of the saved one '
              '(C07_value_roundtrip_partial), a recomputed cell with an unchanged encoding produces no stored action (C07_no_stored, '
              'C07_reloaded_cell_quiet_partial), storable covers everything column.set stores (C07_storable_covers_set), and cells made of '
              'None/bool/int/float/str/lists (every right-type value and alt text of the typed columns) come back as the same object, so a '
              'dependent formula observes the same (C07_reload_observably_equal_partial); an error cell comes back as an error of the same '
              'name, message and details with a stand-in .error of that class and message, so a reader is shown the same class and text '
              '(C07_reload_error_cell, C07_reload_observably_equal_error_partial). The full observation statement is refuted by a rich '
              'object in an Any cell, replayed on the engine.')
LEVEL_NOTE = ('Kernel level for the cell; the document level ("Calculate emits nothing, same tables") is the composition with C05 '
              '(recalculation from scratch) and is exercised by the real-reload search. Findings: (1, repaired by 2fb0387, kept as a '
              'regression Example and corpus documents) decoded error cells lost .error, dependents recomputed to [E, NoneType]; (2) Any/Blob data cells hold objects richer than their encoding '
              '(tuple, naive datetime, Record, bytes, big int, ...), dependents recompute differently; (3) datetime.max reloads as an '
              'OverflowError value (C24 defect).')

# ---- the real reload -----------------------------------------------------------------------------------------


def db_cell(enc):
  """DocStorage: an encoded list is kept as a marshalled blob, other encoded values as they are."""
  return marshal.dumps(enc, 2) if isinstance(enc, list) else enc


def db_blob(e, table_id):
  """What the database hands back for one table: the engine's own reply (fetch_table with stored formula values,
  encoded by get_action_repr), cells stored as DocStorage stores them, marshalled column-wise."""
  import actions
  rep = actions.get_action_repr(e.fetch_table(table_id, formulas=True))
  cols = {'id': list(rep[2])}
  for c, vals in rep[3].items():
    cols[c] = [db_cell(v) for v in vals]
  return marshal.dumps({k.encode('utf8'): v for k, v in cols.items()}, 2)


def real_reload(e, hook=None):
  """A new engine loaded from what `e` reports; returns (engine, ActionGroup of Calculate).
  hook(f): called after load_table of every table and before Calculate (used only to classify a failure)."""
  import engine as engine_mod
  import main
  from harness import gristenv as G
  f = engine_mod.Engine()
  mt = main.table_data_from_db('_grist_Tables', db_blob(e, '_grist_Tables'))
  mc = main.table_data_from_db('_grist_Tables_column', db_blob(e, '_grist_Tables_column'))
  names = f.load_meta_tables(mt, mc)
  for t in names:
    f.load_table(main.table_data_from_db(t, db_blob(e, t)))
  if hook is not None:
    hook(f)
  out = G.apply(f, [['Calculate']])
  return f, out


# ---- real column objects of every type (for the cell-level correspondence) ---------------------------------

COLTYPES = ['Text', 'Blob', 'Any', 'Bool', 'Int', 'Numeric', 'Date', 'DateTime:America/New_York', 'DateTime:UTC', 'Choice',
            'ChoiceList', 'PositionNumber', 'ManualSortPos', 'Id', 'Ref:T', 'RefList:T', 'Attachments']
_fixture = {}


def fixture():
  """One engine with a table T that has a data column of every column type; returns {type name: column object}."""
  if 'cols' in _fixture:
    return _fixture['cols']
  from harness import gristenv as G
  e, _ = G.new_doc()
  G.apply(e, [['AddTable', 'T', [{'id': 'c%d' % i, 'type': t, 'isFormula': False} for i, t in enumerate(COLTYPES)]]])
  G.apply(e, [['BulkAddRecord', 'T', [None] * 3, {}]])
  table = e.tables['T']
  cols = {}
  for i, t in enumerate(COLTYPES):
    col = table.get_column('c%d' % i)
    want = t.split(':')[0]
    want = {'Ref': 'Reference', 'RefList': 'ReferenceList'}.get(want, want)
    if type(col.type_obj).__name__ != want:
      raise core.TieBroken('column of type %s has type object %s' % (t, type(col.type_obj).__name__))
    cols[t] = col
  _fixture['engine'] = e
  _fixture['cols'] = cols
  return cols


def ctype_lit(t):
  base, _, arg = t.partition(':')
  if base == 'DateTime':
    return '(TDateTime %s)' % pv.slit(arg)
  if base == 'Ref':
    return '(TRef %s)' % pv.slit(arg)
  if base == 'RefList':
    return '(TRefList %s)' % pv.slit(arg)
  return 'T' + base


def real_set(t, v):
  """column.set on the real column object; ('ok', stored raw) or ('raise', class name)."""
  col = fixture()[t]

  def reset():
    if hasattr(col, '_sorted_rows'):
      col._sorted_rows.clear()      # PositionColumn keeps rows sorted by value: junk values must not meet each other
    col._data[2] = col.getdefault()
  reset()
  try:
    col.set(2, v)
    raw = col.raw_get(2)
  except Exception as ex:
    reset()
    return 'raise', type(ex).__name__
  reset()
  return 'ok', raw


def real_cell_reload(t, v):
  """One cell through the real load path: encode_object -> DocStorage cell -> marshalled table data ->
  main.table_data_from_db -> column.set; ('ok', raw) / ('raise', name), and the marshal pairs the model needs."""
  import main
  import objtypes
  enc = objtypes.encode_object(v)
  x = db_cell(enc)
  pairs = []
  if isinstance(enc, list):
    pairs.append((enc, x))
  pairs.append((x, marshal.dumps(x, 2)))
  blob = marshal.dumps({b'id': [2], b'A': [x]}, 2)
  td = main.table_data_from_db('T', blob)
  if list(td.row_ids) != [2] or list(td.columns) != ['A']:
    raise core.TieBroken('main.table_data_from_db returned %r' % (td,))
  return real_set(t, td.columns['A'][0]), pairs


def innermost(err):
  import objtypes
  while isinstance(err, objtypes.CellError):
    err = err.error
  return err


def err_field(raw):
  """model's second cell component: (class name, str) of the innermost exception in raw.error; None when there is none"""
  import objtypes
  if isinstance(raw, objtypes.RaisedException) and raw.error is not None:
    inner = innermost(raw.error)
    return type(inner).__name__, str(inner)
  return None


def err_lit(d):
  return 'None' if d is None else '(Some (%s, Some %s))' % (pv.slit(d[0]), pv.slit(d[1]))


# ---- cell values ---------------------------------------------------------------------------------------------

def collect_encoded(b, e, depth=0):
  """oracle entries decode_object needs for the encoded form e (zones and their offsets)"""
  import datetime
  if depth > 80:
    return
  if isinstance(e, (list, tuple)):
    if len(e) >= 3 and isinstance(e[0], str) and e[0] == 'D':
      b.add_zone(e[2])
      if isinstance(e[2], str) and isinstance(e[1], (int, float)):
        try:
          td = datetime.timedelta(seconds=e[1])
          b.add_ts_offset(str(e[2]), pv.td_us(td))
        except Exception:
          pass
    for x in e:
      collect_encoded(b, x, depth + 1)
  elif isinstance(e, dict):
    for k, x in e.items():
      collect_encoded(b, k, depth + 1)
      collect_encoded(b, x, depth + 1)


EDGE_VALUES = [
  None, True, False, 0, 1, -1, 2, 5, 2 ** 31 - 1, 2 ** 31, 2 ** 40, 10 ** 400, 0.0, -0.0, 1.0, 2.0, 5.0, 5.5, -3.0, 2.0 ** 31, 2.0 ** 31 - 1,
  float('inf'), float('nan'), 1e300, '', 'a', '5', '[1, 2]', '["a", "b"]', '[1, -2]', '[]', '[1', '[true]', '[1.5]', '[[1]]', '{"a": 1}',
  'RecordList([1, 2], group_by=None, sort_by=None)', 'RecordList([1.5])', 'true', '2020-01-01', b'abc', b'[1]', b'\xff',
  [], [1, 2], ['a', 'b'], [1, [2, (3,)]], (), (1, 2), ('a', 'b'), ('a', 1), {'a': 1}, {'a': (1, 2)}, {1: 2}, set([1]),
  [float('nan')], [True], [1.0], [0],
]


def edge_objects():
  import datetime
  import moment
  import objtypes
  return [
    datetime.date(2020, 1, 1), datetime.date(1, 1, 1), datetime.date.max, datetime.datetime(2020, 1, 1, 10, 30),
    datetime.datetime(2020, 1, 1, tzinfo=moment.tzinfo('America/New_York')), datetime.datetime(2020, 1, 1, tzinfo=datetime.timezone.utc),
    datetime.datetime.max, pv.record('T', 1), pv.record('T', 0), pv.recordset('T', [1, 2]), pv.recordset('T', []),
    objtypes.RecordList([1, 2], group_by=('A',), sort_by='B'), objtypes.RecordList([]), objtypes.AltText('x'), objtypes.AltText('[1]'),
    objtypes.RaisedException(NameError("name 'NoSuch' is not defined"), user_input=''),
    objtypes.RaisedException(ZeroDivisionError('division by zero')),
    objtypes.RaisedException(objtypes.CellError('T', 'A', 1, KeyError('k')), user_input=(1, 2)),
    objtypes.RaisedException(ValueError('x'), user_input=objtypes.RaisedException(TypeError('y'))),
    objtypes.RaisedException.decode_args('NameError', None, None, None), objtypes.RaisedException.decode_args(None),
    objtypes.RaisedException.decode_args('X', 'm', 'd', {'u': ['L', 1]}),
    objtypes.RecordStub('T', 5), objtypes.RecordSetStub('T', [1, 2]), objtypes.UnmarshallableValue('<x>'),
    objtypes._pending_sentinel, objtypes._censored_sentinel, objtypes.ReferenceLookup('x'),
    pv.IntSub(1), pv.IntSub(5), pv.FloatSub(1.0), pv.FloatSub(4.0), pv.StrSub('[1]'), pv.StrSub('a'), 1j, pv.Named('[1, 2]'),
  ]


# encoded forms a document file (or an ApplyDocActions / undo) can hand to load_table / set
ENCODED = [
  ['L'], ['L', 1, 2], ['L', 'a', 'b'], ['L', ['L', 1]], ['d', 86400.0], ['d', 1e18], ['D', 1577836800.0, 'UTC'], ['D', 1.5, 'Asia/Tokyo'],
  ['D', 1.0, 'Nowhere/Land'], ['E', 'NameError'], ['E', 'ValueError', 'm', 'd', {'u': 5}], ['E', 'X', None, None, {'u': ['L', 1]}],
  ['E'], ['E', 'X', 'm', 'd', 5], ['E', 'AttributeError'], ['R', 'T', 1], ['r', 'T', [1, 2]], ['O', {'a': ['L', 1]}], ['P'], ['C'],
  ['U', 'x'], ['X'], [], ['l', 1], 1, 0, 1.0, 0.0, 5, 5.0, 2.5, True, False, None, 'x', '[1, 2]', '["a"]', 7.0, -7.0, 2.0 ** 31,
  ['L', ['E', 'X']], ['L', float('nan')], ['E', 'X', None, None, {'v': 1}],
]


def gen_cells(ctx):
  """(type name, value handed to column.set, how it arose)"""
  import objtypes
  rng = ctx.rng
  cols = fixture()
  out = []
  vals = [pv.gen_value(rng) for _ in range(ctx.n(25, 1500))] + EDGE_VALUES + edge_objects()
  for v in vals:
    edge = len(out) >= 0 and (v is None or not isinstance(v, (int, float, str)) or rng.random() < 0.3)
    ts = [rng.choice(COLTYPES)]
    if rng.random() < (0.9 if edge else 0.3):
      ts.append(rng.choice(COLTYPES))
    for t in set(ts):
      try:
        w = cols[t].convert(v)
      except BaseException:
        continue            # C22's business
      out.append((t, w, 'converted'))
      if t in ('Any', 'Blob') or rng.random() < 0.15:
        out.append((t, v, 'raw'))
      try:
        d = objtypes.decode_object(marshal.loads(marshal.dumps(objtypes.encode_object(w), 2)))
      except Exception:
        continue
      out.append((t, d, 'decoded'))
  for x in ENCODED:
    d = objtypes.decode_object(x)
    for t in (COLTYPES if ctx.tier == 'thorough' else rng.sample(COLTYPES, 3)):
      out.append((t, d, 'decoded-fixed'))
  if ctx.tier == 'thorough':
    for v in EDGE_VALUES + edge_objects():
      for t in COLTYPES:
        out.append((t, v, 'raw-edge'))
  for t, vs in DIRECTED.items():
    for v in vs:
      out.append((t, v, 'raw-directed'))
  return out


# what a database file can hold in a column of the type (Node stores bools as 0/1, whole floats as ints, lists as JSON text ...):
# the values each column class's set() has a branch for
DIRECTED = {
  'Bool': [0, 1, 0.0, 1.0, -0.0, True, False, 2, '1', '0', None, pv.IntSub(1)],
  'Numeric': [5, 0, -7, 2 ** 31, 2 ** 53 + 1, 10 ** 400, True, 5.0, None, 'x'],
  'Date': [86400, 0, 1e9, None], 'DateTime:UTC': [86400, 1.5, None], 'PositionNumber': [3, 2.5], 'ManualSortPos': [3, 2.5],
  'ChoiceList': ['[1, 2]', '["a", "b"]', '[]', '[1', '{"a": 1}', 'a', ['a', 'b'], ('a', 'b'), [], None, '[[1]]', pv.StrSub('["a"]')],
  'Ref:T': [5.0, 0.0, -3.0, 2.0 ** 31, 2.0 ** 31 - 1, 5.5, 5, float('inf'), float('nan'), pv.FloatSub(4.0), None],
  'RefList:T': ['[1, 2]', '[1, -2]', '[0]', '[true]', '[2147483648]', '[1.5]', '{"a": 1}', '[', 'RecordList([1, 2], group_by=None, sort_by=None)',
                'RecordList([a])', 'x', [1, 2], None, pv.StrSub('[3]')],
  'Attachments': ['[1, 2]', '[2147483647]', '[2147483648]', 'RecordList([4])', [1]],
  'Text': [5, b'a', None], 'Int': [5.0, True, '5'], 'Any': [(1, 2), 0, 1.0], 'Choice': ['[1]'], 'Id': [5.0], 'Blob': [b'a', 'a'],
}


def lit_case(vl, tl, *rest):
  rest = list(rest)
  if len(vl) > 40:
    tl = tl.replace(vl, 'v0')
    rest = [r.replace(vl, 'v0') for r in rest]
    return '(let v0 := %s in (v0, %s, %s))' % (vl, tl, ', '.join(rest))
  return '(%s, %s, %s)' % (vl, tl, ', '.join(rest))


def res_lit(b, res, with_err):
  kind, x = res
  if kind == 'raise':
    return '(Raise %s)' % pv.slit(x)
  if with_err:
    return '(Ok (%s, %s))' % (b.val(x), err_lit(err_field(x)))
  return '(Ok %s)' % b.val(x)


def digest(m):
  """the model never looks inside marshalled bytes: they are named by a digest (short literals)"""
  import hashlib
  return list(hashlib.sha1(bytes(m)).digest()[:8])


def short_bytes(b, x):
  return '(PBytes false %s)' % pv.zl(digest(x)) if type(x) is bytes else b.val(x)


def pairs_lit(b, pairs):
  return '[%s]' % '; '.join('(%s, %s)' % (short_bytes(b, x), pv.zl(digest(m))) for x, m in pairs)


IMPORTS = ['Grist.Lib.PyFloat', 'Grist.Model.Values', 'Grist.Model.Reload', 'Grist.Model.ReloadPrims', 'GristGen.Reload_gen']
# the oracle tables encode_f / decode_f / col_set / py_eq can consult (read off Model/Values.v and Model/Reload.v)
NEED = set(['str', 'repr', 'type_name', 'float_repr', 'utf8', 'dt_offset', 'ts_offset', 'zone_known', 'truthy', 'json', 'int_of_str', 'iter'])


def clone(v):
  """a distinct but equal object where Python can build one (containers rebuilt, leaves shared)"""
  if type(v) is list:
    return [clone(x) for x in v]
  if type(v) is tuple:
    return tuple([clone(x) for x in v]) if v else ()
  if type(v) is dict:
    return dict((k, clone(x)) for k, x in v.items())
  if type(v) is float:
    return float(repr(v)) if v == v else v
  if type(v) is str and v:
    return ''.join(list(v))
  if type(v) is int and abs(v) > 300:
    return int(repr(v))
  return v


def correspond_cells(ctx):
  import objtypes
  cells = gen_cells(ctx)
  set_cases, set_meta, rl_cases, rl_meta = [], [], [], []
  seen = set()
  stored = []          # (type, raw as stored, reloaded raw or None): reused by the comparison cases and by search
  for t, v, how in cells:
    try:
      b = pv.Builder()
      b.collect(v)
      res = real_set(t, v)
      if res[0] == 'ok':
        b.collect(res[1])
      lit = lit_case(b.val(v), b.tables(NEED), ctype_lit(t), res_lit(b, res, False))
    except RecursionError:
      continue
    if lit not in seen:
      seen.add(lit)
      set_cases.append(lit)
      set_meta.append((t, v))
      changed = res[0] != 'ok' or not pv.same(res[1], v)
      ctx.count(lit, nontrivial=changed, kind='set:%s:%s' % (t.split(':')[0], how.split('-')[0]),
                sample={'type': t, 'value': pv.to_expr(v)[:80], 'stored': pv.to_expr(res[1])[:80] if res[0] == 'ok' else res[1]})
    if res[0] != 'ok':
      continue
    raw = res[1]
    try:
      b = pv.Builder()
      b.collect(raw)
      enc = objtypes.encode_object(raw)
      collect_encoded(b, enc)
      res2, pairs = real_cell_reload(t, raw)
      if res2[0] == 'ok':
        b.collect(res2[1])
      for x, _m in pairs:
        if type(x) is not bytes:
          b.collect(x)
      lit = lit_case(b.val(raw), b.tables(NEED), ctype_lit(t), pairs_lit(b, pairs), err_lit(err_field(raw)), res_lit(b, res2, True))
    except RecursionError:
      continue
    except ValueError as ex:
      if 'unmarshallable' not in str(ex):
        raise
      ctx.bump('skipped:encoding refused by marshal (C24)')
      continue
    stored.append((t, raw, res2[1] if res2[0] == 'ok' else None))
    if lit not in seen:
      seen.add(lit)
      rl_cases.append(lit)
      rl_meta.append((t, raw))
      same = res2[0] == 'ok' and pv.same(res2[1], raw) and err_field(res2[1]) == err_field(raw)
      ctx.count(lit, nontrivial=isinstance(enc, list) or not same,
                kind='reload:%s:%s' % (t.split(':')[0], 'same' if same else ('raise' if res2[0] != 'ok' else 'differs')))
  ctx._c07_stored = stored
  ctx.log('literals: %d set, %d reload cases' % (len(set_cases), len(rl_cases)))
  def _report(bad):
    for k in bad[:6]:
      t, v = set_meta[k]
      ctx.broken('correspondence:model col_set differs from column.set',
                 'type %s value %s -> %r' % (t, pv.to_expr(v)[:160], real_set(t, v)))
  defer(ctx, _report, 'set', IMPORTS,
                      'fun c => match c with (v, tbl, T, r) => res_eqb value_eqb (gen_col_set (oracles_of tbl) T v) r end',
                      set_cases, shard=170, timeout=TIMEOUT(ctx), case_type='(value * tables * ctype * result value)%type')
  def _report(bad):
    for k in bad[:6]:
      t, v = rl_meta[k]
      r2 = real_cell_reload(t, v)[0]
      ctx.broken('correspondence:model reload differs from the real load path',
                 'type %s cell %s -> %s (error field %r)' % (t, pv.to_expr(v)[:160], pv.to_expr(r2[1])[:160] if r2[0] == 'ok' else r2,
                                                             err_field(r2[1]) if r2[0] == 'ok' else None))
  defer(ctx, _report, 'reload', IMPORTS,
                      'fun c => match c with (v, tbl, T, mp, err, r) => res_eqb cell_eqb '
                      '(code_reload (oracles_of tbl) (marshal_of mp) (unmarshal_of mp) T %d (v, err)) r end' % FUEL,
                      rl_cases, shard=170, timeout=TIMEOUT(ctx),
                      case_type='(value * tables * ctype * list (value * list Z) * option errdesc * result cell)%type')
  ctx.extra['cases_in_coq'] = len(set_cases) + len(rl_cases)


# ---- change detection and reading: strict_equal / equal_encoding / get_cell_value --------------------------------

def comparable(v, depth=0, top=True):
  """inside the modelled domain of Python's ==: None/bool/int/float/str/bytes/list/tuple/str-keyed dict/date/datetime (no NaN
  inside a container: CPython's identity shortcut), and at top level the Grist objects that have no __eq__"""
  import datetime
  import objtypes
  t = type(v)
  if v is None or t in (bool, int, str, bytes):
    return True
  if t is float:
    return top or v == v
  if t in (list, tuple):
    return depth < 30 and all(comparable(x, depth + 1, False) for x in v)
  if t is dict:
    return depth < 30 and all(type(k) is str and comparable(x, depth + 1, False) for k, x in v.items())
  if t is datetime.date:
    return True
  if t is datetime.datetime:
    import moment
    return v.tzinfo is None or isinstance(v.tzinfo, moment.TzInfo)
  if top and (t in (objtypes.RaisedException, objtypes.RecordStub, objtypes.RecordSetStub, objtypes.UnmarshallableValue)
              or v is objtypes._pending_sentinel or v is objtypes._censored_sentinel):
    return True
  return False


def encodable_plain(v):
  """equal_encoding compares encodings: any value whose encoding has no NaN inside a container"""
  import objtypes
  try:
    e = objtypes.encode_object(v)
  except Exception:
    return False
  stack, top = [e], True
  while stack:
    x = stack.pop()
    if isinstance(x, float) and x != x and not top:
      return False
    top = False
    if isinstance(x, (list, tuple)):
      stack.extend(x)
    elif isinstance(x, dict):
      stack.extend(x.values())
  return True


def correspond_compare(ctx):
  import objtypes
  rng = ctx.rng
  stored = getattr(ctx, '_c07_stored', [])
  pairs = []
  pool = [raw for _t, raw, _r in stored]
  for t, raw, rl in (stored if ctx.tier == 'thorough' else rng.sample(stored, min(len(stored), 160))):
    if rl is not None:
      pairs.append((raw, rl, 'saved-vs-reloaded'))
  for _ in range(ctx.n(60, 2500)):
    a = rng.choice(pool)
    k = rng.random()
    if k < 0.35:
      pairs.append((a, clone(a), 'copy'))
    elif k < 0.6:
      try:
        b = objtypes.decode_object(objtypes.encode_object(a))
      except Exception:
        continue
      pairs.append((a, b, 'recoded'))
    else:
      pairs.append((a, rng.choice(pool), 'random'))
  fixed = [(1, 1.0), (1, True), (True, True), (0.0, -0.0), (float('nan'), float('nan')), ([1], [1.0]), ([True], [1]), ((1, 2), [1, 2]),
           ('a', 'a'), ('a', b'a'), (None, None), (None, 0), ({'a': 1, 'b': 2}, {'b': 2, 'a': 1}), ({'a': 1}, {'a': 2}), ([], ()), ([], []),
           (2 ** 40, 2 ** 40), (2 ** 40, float(2 ** 40)), ([1, [2, 3]], [1, [2, 3]]), ([1, [2, 3]], [1, [2, 4]]), (5, 5), (5, 6), (1.5, 1.5),
           (pv.IntSub(5), 5), (pv.StrSub('a'), 'a'), (b'a', b'a'), ('1', 1)]
  pairs += [(a, b, 'fixed') for a, b in fixed]
  se_cases, se_meta, ee_cases, ee_meta = [], [], [], []
  seen = set()
  for a, b, how in pairs:
    if a is b:
      continue
    try:
      bd = pv.Builder()
      bd.collect(a)
      bd.collect(b)
      la, lb, tb = bd.val(a), bd.val(b), bd.tables(NEED)
    except RecursionError:
      continue
    if comparable(a) and comparable(b):
      r = objtypes.strict_equal(a, b)
      lit = '(%s, %s, %s, %s)' % (la, lb, tb, pv.blit(r))
      if ('s', lit) not in seen:
        seen.add(('s', lit))
        se_cases.append(lit)
        se_meta.append((a, b))
        ctx.count('s' + lit, nontrivial=r or type(a) is type(b), kind='strict_equal:%s:%s' % (how, r))
    if encodable_plain(a) and encodable_plain(b):
      r = objtypes.equal_encoding(a, b)
      lit = '(%s, %s, %s, %s)' % (la, lb, tb, pv.blit(r))
      if ('e', lit) not in seen:
        seen.add(('e', lit))
        ee_cases.append(lit)
        ee_meta.append((a, b))
        ctx.count('e' + lit, nontrivial=True, kind='equal_encoding:%s:%s' % (how, r))
  ctype = '(value * value * tables * bool)%type'
  def _report(bad):
    for k in bad[:6]:
      a, b = se_meta[k]
      ctx.broken('correspondence:model strict_equal differs from objtypes.strict_equal',
                 '%s vs %s -> %r' % (pv.to_expr(a)[:100], pv.to_expr(b)[:100], objtypes.strict_equal(a, b)))
  defer(ctx, _report, 'strict', IMPORTS, 'fun c => match c with (a, b, tbl, r) => res_eqb Bool.eqb (gen_strict_equal (oracles_of tbl) a b) (Ok r) end',
                      se_cases, shard=170, timeout=TIMEOUT(ctx), case_type=ctype)
  def _report(bad):
    for k in bad[:6]:
      a, b = ee_meta[k]
      ctx.broken('correspondence:model equal_encoding differs from objtypes.equal_encoding',
                 '%s vs %s -> %r' % (pv.to_expr(a)[:100], pv.to_expr(b)[:100], objtypes.equal_encoding(a, b)))
  defer(ctx, _report, 'equalenc', IMPORTS,
                      'fun c => match c with (a, b, tbl, r) => res_eqb Bool.eqb (gen_equal_encoding (oracles_of tbl) (encode_f (oracles_of tbl) %d) a b) (Ok r) end' % FUEL,
                      ee_cases, shard=170, timeout=TIMEOUT(ctx), case_type=ctype)
  ctx.extra['cases_in_coq'] = ctx.extra.get('cases_in_coq', 0) + len(se_cases) + len(ee_cases)


def real_observe(t, raw):
  """What a reader of the cell gets from column.get_cell_value: ('raise', (class name, text) its own error is built from) or
  ('see', raw)."""
  import objtypes
  col = fixture()[t]
  col._data[2] = raw                     # the raw object itself (set would normalise it)
  try:
    col.get_cell_value(2)
    res = ('see', raw)
  except Exception as ex:
    inner = innermost(ex)
    if objtypes.RaisedException(ex)._name != type(inner).__name__:
      raise core.TieBroken('RaisedException._name is not the class name of the innermost exception')
    res = ('raise', (type(inner).__name__, str(inner)))
  col._data[2] = col.getdefault()
  return res


def correspond_observe(ctx):
  import objtypes
  cases, meta = [], []
  seen = set()
  for t, raw, rl in getattr(ctx, '_c07_stored', []):
    for c in (raw, rl):
      if not isinstance(c, objtypes.RaisedException):
        continue
      kind, shown = real_observe(t, c)
      if kind != 'raise':
        raise core.TieBroken('get_cell_value of an error cell did not raise')
      b = pv.Builder()
      lit = '((%s, %s), (%s, %s))' % (b.val(c), err_lit(err_field(c)), pv.slit(shown[0]), pv.slit(shown[1]))
      if lit not in seen:
        seen.add(lit)
        cases.append(lit)
        meta.append((t, c))
        ctx.count('o' + lit, nontrivial=True, kind='observe:error:%s' % ('no .error' if c.error is None else type(c.error).__module__.split('.')[0]))
  def _report(bad):
    for k in bad[:6]:
      t, c = meta[k]
      ctx.broken('correspondence:model observe differs from column.get_cell_value',
                 '%s cell %s reports %r' % (t, pv.to_expr(c)[:120], real_observe(t, c)))
  defer(ctx, _report, 'observe', IMPORTS, 'fun c => obs_eqb (observe (fst c)) (ORaise (fst (snd c)) (Some (snd (snd c))))', cases, shard=300, timeout=TIMEOUT(ctx),
                      case_type='((value * option (list Z * option (list Z))) * (list Z * list Z))%type')
  # a value that is not an error is handed to the reader as a function of (column, raw object): checked by reading twice
  for t, raw, _rl in getattr(ctx, '_c07_stored', [])[:400]:
    if isinstance(raw, objtypes.RaisedException):
      continue
    col = fixture()[t]
    col._data[2] = raw

    def read():
      try:
        return 'value', type(col.get_cell_value(2)).__name__
      except Exception as ex:
        return 'raise', type(ex).__name__
    ok = read() == read()
    col._data[2] = col.getdefault()
    if not ok:
      ctx.broken('monitor:get_cell_value is not a function of the raw object', '%s %s' % (t, pv.to_expr(raw)[:100]))
      break


def deep_same(a, b):
  stack = [(a, b)]
  while stack:
    a, b = stack.pop()
    if type(a) is not type(b):
      return False
    if isinstance(a, float):
      if pv.fkey(a) != pv.fkey(b):
        return False
    elif isinstance(a, (list, tuple)):
      if len(a) != len(b):
        return False
      stack.extend(zip(a, b))
    elif isinstance(a, dict):
      if len(a) != len(b):
        return False
      for (k1, v1), (k2, v2) in zip(a.items(), b.items()):
        stack.append((k1, k2))
        stack.append((v1, v2))
    elif a != b:
      return False
  return True


def monitors(ctx):
  """marshal_rt on everything the reload hands to marshal; the library facts of C24 on the dates met."""
  import datetime
  import moment
  import objtypes
  n = 0
  for t, raw, _rl in getattr(ctx, '_c07_stored', []):
    try:
      enc = objtypes.encode_object(raw)
      x = db_cell(enc)
    except Exception:
      continue
    for y in ([enc, x] if isinstance(enc, list) else [x]):
      n += 1
      if not deep_same(marshal.loads(marshal.dumps(y, 2)), y):
        ctx.broken('monitor:marshal.loads(marshal.dumps(x)) differs from x', repr(y)[:200])
        return
  ctx.extra['marshal_roundtrips_checked'] = n
  if 'UTC' not in moment.get_tz_data():
    ctx.broken('monitor:UTC is not a known zone', '')
  rng = ctx.rng
  for _ in range(ctx.n(300, 5000)):
    d = rng.randint(-719162, 2932896)
    td = datetime.timedelta(days=d)
    if datetime.timedelta(seconds=td.total_seconds()) != td:
      ctx.broken('monitor:timedelta(seconds=total_seconds) not exact on whole days', str(d))
      break
    u = rng.randint(-62135596800000000, 253402300799999999)
    td = datetime.timedelta(microseconds=u)
    back = datetime.timedelta(seconds=td.total_seconds())
    if abs((back - td) // pv.US) > 16 or back.total_seconds() != td.total_seconds():
      ctx.broken('monitor:timedelta(seconds=total_seconds) off by more than 16 microseconds', str(u))
      break


CHANGE_VALUES = [None, True, False, 0, 1, 2, -1, 2 ** 31, 2 ** 40, 0.0, -0.0, 1.0, 2.0, 1.5, float('nan'), float('inf'), '', 'a', '1', 'True',
                 [], [1], [1.0], [True], [1, 2], ['a'], (), (1,), (1, 2), [(1, 2)], [[1, 2]], {}, {'a': 1}, {'a': 1.0}, {'a': (1,)}, [None], b'a']


def correspond_engine_changes(ctx):
  """recompute_cell / flush_cell against the engine itself: a formula cell of an Any column goes from `prev` to `new` because a
  data cell it reads was updated; the model must say whether the cell's object was replaced and whether a stored action names it."""
  from harness import gristenv as G
  rng = ctx.rng
  k0 = 12 if ctx.tier == 'thorough' else 9
  pairs = [(a, b) for a in CHANGE_VALUES[:k0] for b in CHANGE_VALUES[:k0]]
  pairs += [(rng.choice(CHANGE_VALUES), rng.choice(CHANGE_VALUES)) for _ in range(ctx.n(40, 600))]
  pairs += [(v, clone(v)) for v in CHANGE_VALUES]
  cases, meta = [], []
  for k in range(0, len(pairs), 40):
    part = pairs[k:k + 40]
    e, _ = G.new_doc()
    cols = [{'id': 'A', 'type': 'Int', 'isFormula': False}]
    for i, (a, b) in enumerate(part):
      cols.append({'id': 'F%d' % i, 'type': 'Any', 'isFormula': True, 'formula': '(%s) if $A == 0 else (%s)' % (pv.to_expr(a), pv.to_expr(b))})
    G.apply(e, [['AddTable', 'T', cols]])
    G.apply(e, [['AddRecord', 'T', None, {'A': 0}]])
    before = [e.tables['T'].get_column('F%d' % i).raw_get(1) for i in range(len(part))]
    out = G.apply(e, [['UpdateRecord', 'T', 1, {'A': 1}]])
    named = set()
    for a in G.reprs(out.stored):
      if a[0] in ('UpdateRecord', 'BulkUpdateRecord') and a[1] == 'T':
        named.update(a[3].keys())
    for i, (a, b) in enumerate(part):
      prev, after = before[i], e.tables['T'].get_column('F%d' % i).raw_get(1)
      if not pv.same(prev, a):
        raise core.TieBroken('formula cell F%d holds %r, not %r' % (i, prev, a))
      replaced = after is not prev
      bd = pv.Builder()
      bd.collect(prev)
      bd.collect(after)
      lit = '(%s, %s, %s, %s, %s)' % (bd.val(prev), bd.val(b), bd.tables(NEED), pv.blit(replaced), pv.blit(('F%d' % i) in named))
      cases.append(lit)
      meta.append((a, b, replaced, ('F%d' % i) in named))
      ctx.count('c' + lit, nontrivial=True, kind='engine-change:%s:%s' % ('replaced' if replaced else 'kept', 'stored' if ('F%d' % i) in named else 'quiet'))
  def _report(bad):
    for k in bad[:6]:
      a, b, replaced, stored = meta[k]
      ctx.broken('correspondence:model recompute_cell/flush_cell differ from Engine._recompute_step / _changes_to_actions',
                 'cell going from %s to %s: object replaced=%r, named in a stored action=%r' % (pv.to_expr(a), pv.to_expr(b), replaced, stored))
  defer(ctx, _report, 'changes', IMPORTS,
                      'fun c => match c with (p, n, tbl, replaced, stored) => '
                      'match code_recompute_cell (oracles_of tbl) p n with Ok chg => '
                      'Bool.eqb (match chg with Some _ => true | None => false end) replaced && '
                      'match code_flush_cell (oracles_of tbl) %d chg with Ok f => '
                      'Bool.eqb (match f with Some _ => true | None => false end) stored | Raise _ => false end '
                      '| Raise _ => false end end' % FUEL,
                      cases, shard=200, timeout=TIMEOUT(ctx), case_type='(value * value * tables * bool * bool)%type')
  ctx.extra['cases_in_coq'] = ctx.extra.get('cases_in_coq', 0) + len(cases)


# ---- formula cells: what a formula returns -> convert -> set -> save -> load, against the recomputed convert(result) -------

FORMULA_TEXTS = ['[2021, 7]', '["a", "b"]', '["a", null]', '[true]', '[[1]]', '[["a"]]', '[]', '[1', '[1.5]', '["a", 1]', '[1, 2]', '[1, -2]',
                 '[0]', '[2147483648]', '{"a": 1}', '5', '1.5', ' 12 ', '1e3', 'true', 'no', 'YES', '0', '2020-01-02', '2020-01-02T10:00:00',
                 '2020-01-02 10:00:00+02:00', 'RecordList([1, 2], group_by=None, sort_by=None)', 'RecordList([7])', '', 'abc', 'inf', 'nan']


def formula_results():
  import datetime
  return FORMULA_TEXTS + [
    5, 0, 1, -3, 2.5, 5.0, 0.0, -0.0, True, False, None, 2 ** 31, 2 ** 40, [1, 2], ['a', 'b'], ('a', 'b'), (1, 2), [], (), ['a', 1], [1.5], [[1]],
    b'x', b'[1]', datetime.date(2020, 1, 2), datetime.datetime(2020, 1, 2, 10, 30), float('nan'), float('inf'), [float('nan')], (float('nan'), 1),
    {'a': 1}, {'a': float('nan')}, [None], [True], 86400, 86400.0, 1e18]


def formula_cell(t, r):
  """A formula of a column of type t returned r. None if the pipeline does not get through; else (x, s, w, emitted):
  x = column.convert(r) is what _recompute_step compares and sets, s what set stores, w what the saved cell is loaded as, and
  emitted says whether recomputing the cell right after the load (x against w) ends in a stored action."""
  import objtypes
  col = fixture()[t]
  try:
    x = col.convert(r)
  except BaseException:
    return None
  st = real_set(t, x)
  if st[0] != 'ok':
    return None
  try:
    res2, pairs = real_cell_reload(t, st[1])
  except ValueError:
    return None
  if res2[0] != 'ok':
    return None
  w = res2[1]
  emitted = (not objtypes.strict_equal(x, w)) and (not objtypes.equal_encoding(w, x))
  return x, st[1], w, emitted, pairs


def formula_cell_stream(ctx):
  rng = ctx.rng
  out = []
  for r in formula_results():
    for t in COLTYPES:
      out.append((t, r))
  for _ in range(ctx.n(120, 3000)):
    out.append((rng.choice(COLTYPES), pv.gen_value(rng)))
  return out


def classify_formula_cell(r, x, s, w):
  """why a recomputed formula cell differs from its own saved value"""
  import datetime
  import objtypes
  if not encodable_plain(x):
    return 'nan_inside_container'
  if isinstance(s, datetime.datetime) and isinstance(w, objtypes.RaisedException) and w._name == 'OverflowError':
    return 'datetime_end_of_calendar'
  if not isinstance(r, str) and isinstance(x, str) and not pv.same(s, x):
    return 'fallback_text_reparsed_by_set'
  return 'formula_cell_not_fixpoint'


def correspond_formula_cells(ctx):
  """the model of the same pipeline: col_set T (convert T r), reload, flush_cell (recompute_cell w (convert T r))"""
  import objtypes
  rng = ctx.rng
  stream = [c for c in formula_cell_stream(ctx) if c[0].split(':')[0] not in ('Ref', 'RefList', 'Attachments')]
  if ctx.tier != 'thorough':
    texts = [c for c in stream if isinstance(c[1], str) and c[1] in FORMULA_TEXTS]      # always: the re-parsable texts x every type
    rest = [c for c in stream if not (isinstance(c[1], str) and c[1] in FORMULA_TEXTS)]
    stream = rng.sample(texts, min(len(texts), 220)) + rng.sample(rest, min(len(rest), 90))
  cases, meta = [], []
  seen = set()
  for t, r in stream:
    try:
      fc = formula_cell(t, r)
      if fc is None:
        continue
      x, s, w, emitted, pairs = fc
      if not (comparable(r) and comparable(x) and comparable(w)):
        continue          # the model side is run on plain data, dates and texts; search_formula_cells runs on everything
      b = pv.Builder()
      zones = (t.split(':', 1)[1],) if t.startswith('DateTime') else ()
      for z in zones:
        b.add_zone(z)
      for v in (r, x, s, w):
        b.collect(v, zones)
      collect_encoded(b, objtypes.encode_object(s))
      for y, _m in pairs:
        if type(y) is not bytes:
          b.collect(y)
      lit = lit_case(b.val(r), b.tables(), ctype_lit(t), pairs_lit(b, pairs), pv.blit(emitted))
    except RecursionError:
      continue
    if lit in seen:
      continue
    seen.add(lit)
    cases.append(lit)
    meta.append((t, r, emitted))
    ctx.count('f' + lit, nontrivial=not pv.same(x, r) or not pv.same(s, x), kind='formula-cell:%s:%s' % (t.split(':')[0], 'emits' if emitted else 'quiet'))
  def _report(bad):
    for k in bad[:6]:
      t, r, emitted = meta[k]
      ctx.broken('correspondence:model of convert/set/reload/flush differs from the implementation on a formula cell',
                 'type %s, formula result %s: stored action after reload = %r' % (t, pv.to_expr(r)[:120], emitted))
  defer(ctx, _report, 'formulacell', IMPORTS,
                      'fun c => match c with (r, tbl, T, mp, em) => let orc := oracles_of tbl in let x := convert orc T r in '
                      'match col_set orc T x with Ok s => match reload orc (marshal_of mp) (unmarshal_of mp) T %d (s, None) with '
                      '| Ok (w, _) => Bool.eqb (match flush_cell orc %d (recompute_cell orc w x) with Some _ => true | None => false end) em '
                      '| Raise _ => false end | Raise _ => false end end' % (FUEL, FUEL),
                      cases, shard=170, timeout=TIMEOUT(ctx),
                      case_type='(value * tables * ctype * list (value * list Z) * bool)%type')
  ctx.extra['cases_in_coq'] = ctx.extra.get('cases_in_coq', 0) + len(cases)


def search_formula_cells(ctx):
  """the property on the implementation, one cell at a time: a formula cell recomputed right after the load stores nothing"""
  reported = collections.Counter()
  for t, r in formula_cell_stream(ctx):
    fc = formula_cell(t, r)
    if fc is None:
      ctx.bump('formula-cell:pipeline stops')
      continue
    x, s, w, emitted, _pairs = fc
    ctx.count(('fcell', t, pv.to_expr(r)[:200]), nontrivial=not pv.same(x, r) or not pv.same(s, x),
              kind='search-cell:%s' % ('emits' if emitted else 'quiet'))
    if emitted:
      kind = classify_formula_cell(r, x, s, w)
      reported[kind] += 1
      if reported[kind] <= 3:
        doc = [[['AddTable', 'T', [{'id': 'A', 'type': t, 'isFormula': True, 'formula': pv.to_expr(r)}]]], [['AddRecord', 'T', None, {}]]]
        try:
          res = check_reload(build(doc))
        except Exception:
          res = []
        if res and kind == 'formula_cell_not_fixpoint':
          # the same failure as a document: one formula column of that type returning that value, one record
          ctx.violation(res[0][0], 'document with a %s formula column returning %s: %s' % (t, pv.to_expr(r)[:80], res[0][1]),
                        {'history': doc, 'kind': res[0][0]})
          continue
        ctx.violation(kind, 'a %s formula cell whose formula returns %s is converted to %s, stored as %s, loaded as %s: recomputing it after the '
                      'load stores an action' % (t, pv.to_expr(r)[:80], pv.to_expr(x)[:60], pv.to_expr(s)[:60], pv.to_expr(w)[:60]),
                      {'cell': {'type': t, 'expr': pv.to_expr(r)}, 'kind': kind})


# ---- the translated code (harness/rl2v.py -> coq/gen/Reload_gen.v) ---------------------------------------------------

# sha1 of the AST of the glue the model was written from (untranslated; layout and comments do not matter)
PINS = {
  'main.py:table_data_from_db': '4d2708ce4f481da8', 'column.py:BaseColumn.set': '568dc30ccabb2a50',
  'column.py:BaseReferenceColumn.set': 'b56b8aeb5109ce6a', 'column.py:PositionColumn.set': '981f1f760851052f',
  'objtypes.py:RaisedException.__init__': '15b499bb0b602ab3', 'objtypes.py:is_int_short': 'f8690ebc19a65847',
  'actions.py:decode_bulk_values': 'cb7eb2cd2f311918', 'engine.py:_recompute_step:if save_value': '2e81bcb035e05678',
  'action_summary.py:_changes_to_actions:full_row_ids': '70600eb5435c54cb',
}


def regenerate(ctx):
  import os
  from harness import rl2v
  core.setup_impl_path()
  try:
    text = rl2v.translate_all(core.GRIST)
    got = rl2v.pin_hashes(core.GRIST)
  except rl2v.Untranslatable as e:
    raise core.TieBroken('the code C07 decides on left the translated subset: %s' % e)
  core.write_if_changed(os.path.join(core.COQ, 'gen', 'Reload_gen.v'), text)
  changed = sorted(k for k in PINS if got.get(k) != PINS[k])
  if changed:
    raise core.TieBroken('untranslated glue differs from the text the model was written from: %s' % ', '.join(changed))
  ctx.extra['regenerated'] = {'file': 'coq/gen/Reload_gen.v', 'functions': [t[4] for t in rl2v.TARGETS] + ['gen_set_kind', 'gen_col_set'],
                              'pinned_glue': sorted(PINS)}


DECODE_ARGS = [
  ['NameError'], ['ValueError', 'm', 'd', {'u': 5}], ['X', None, None, {'u': ['L', 1]}], ['X', 'm', 'd', 5], ['AttributeError'], [None],
  [None, 'm'], ['X', None, 'd'], ['X', 'm', None, {}], ['X', 'm', 'd', {'v': 1}], ['X', 'm', 'd', {'u': None}], ['X', 'm', 'd', None],
  ['X', 'm', 'd', {'u': ['D', 1.0, 'UTC']}], ['X', 'm', 'd', {'u': 5}, 'extra'], [5], [['L']], ['X', 7], ['X', ['L', 1]], [''], ['X', ''],
  ['X', 'm', 'd', []], ['X', 'm', 'd', 'text'], [True, False], ['X', None, None, {'u': ['E', 'Y', 'n']}], [],
]


def correspond_translated(ctx):
  """the translator itself, differentially: generated decode_args / safe_shift / _decode_db_value evaluated by vm_compute
  against the running functions (the generated set / reload / equality functions are evaluated in the other streams)"""
  import main
  import objtypes
  cases, meta = [], []

  def exc_fields(exc):
    ui = exc.user_input
    err = None if exc.error is None else (type(exc.error).__name__, list(exc.error.args))
    return exc._name, exc._message, exc.details, ui, err
  for args in DECODE_ARGS:
    b = pv.Builder()
    b.collect(args)
    collect_encoded(b, args)
    try:
      name, msg, det, ui, err = exc_fields(objtypes.RaisedException.decode_args(*copy.deepcopy(args)))
      for v in (name, msg, det):
        b.collect(v)
      if ui is not objtypes.RaisedException.NO_INPUT:
        b.collect(ui)
      uil = 'NO_INPUT' if ui is objtypes.RaisedException.NO_INPUT else b.val(ui)
      errl = 'PNone' if err is None else '(PTuple [%s; PList LPlain %s])' % (b.val(err[0]), b.vals(err[1]))
      want = '(Ok (PTuple [%s; %s; %s; %s; %s]))' % (b.val(name), b.val(msg), b.val(det), uil, errl)
    except Exception as ex:
      want = '(Raise %s)' % pv.slit(type(ex).__name__)
    cases.append('(inl (PTuple %s, %s, %s))' % (b.vals(args), b.tables(NEED), want))
    meta.append(('decode_args', args))
    ctx.count(('dargs', repr(args)), nontrivial=True, kind='translated:decode_args')
  for lst in [[], [None], [1, 2], [None, 3], ['a'], [0], [False, None]]:
    for dflt in (None, {}):
      l2 = list(lst)
      r = objtypes.safe_shift(l2, dflt)
      b = pv.Builder()
      cases.append('(inr (%s, %s, (%s, %s)))' % (b.val(lst), b.val(dflt), b.val(r), b.val(l2)))
      meta.append(('safe_shift', (lst, dflt)))
      ctx.count(('shift', repr(lst), repr(dflt)), nontrivial=bool(lst), kind='translated:safe_shift')
  check = ('fun c => match c with '
           '| inl (args, tbl, want) => res_eqb value_eqb (gen_decode_args (oracles_of tbl) (decode_f (oracles_of tbl) %d) args) want '
           '| inr (l, d, (r, l2)) => match gen_safe_shift (oracles_of (Build_tables [] [] [] [] [] [] [] [] [] [] [] [] [] [] [] [] [] [])) l d '
           'with Ok (r1, l1) => value_eqb r1 r && value_eqb l1 l2 | Raise _ => false end end' % FUEL)
  def _report(bad):
    for k in bad[:6]:
      ctx.broken('translation:generated %s differs from the running function' % meta[k][0], repr(meta[k][1])[:200])
  defer(ctx, _report, 'translated', IMPORTS, check, cases, shard=100, timeout=TIMEOUT(ctx),
                      case_type='((value * tables * result value) + (value * value * (value * value)))%type')
  # _decode_db_value on blobs and plain values
  dcases, dmeta = [], []
  for enc in ENCODED + ['text', 5]:
    x = db_cell(enc) if not isinstance(enc, bytes) else marshal.dumps(enc, 2)
    try:
      d = main._decode_db_value(x)
    except Exception:
      continue
    b = pv.Builder()
    collect_encoded(b, enc)
    b.collect(d)
    pairs = [(marshal.loads(x), x)] if isinstance(x, bytes) else []
    for y, _m in pairs:
      if type(y) is not bytes:
        b.collect(y)
    dcases.append('(%s, %s, %s, %s)' % (short_bytes(b, x), b.tables(NEED), pairs_lit(b, pairs), b.val(d)))
    dmeta.append(enc)
    ctx.count(('ddb', repr(enc)), nontrivial=isinstance(x, bytes), kind='translated:_decode_db_value')
  def _report(bad):
    for k in bad[:6]:
      ctx.broken('translation:generated _decode_db_value differs from the running function', repr(dmeta[k])[:200])
  defer(ctx, _report, 'decodedb', IMPORTS,
                      'fun c => match c with (x, tbl, mp, d) => res_eqb value_eqb (gen_decode_db_value (decode_f (oracles_of tbl) %d) '
                      '(loads_of (unmarshal_of mp)) x) (Ok d) end' % FUEL, dcases, shard=100, timeout=TIMEOUT(ctx),
                      case_type='(value * tables * list (value * list Z) * value)%type')
  ctx.extra['translator_validation'] = {'decode_args': len(DECODE_ARGS), 'safe_shift': 14, '_decode_db_value': len(dcases),
                                        'note': 'gen_col_set, code_reload, gen_strict_equal, gen_equal_encoding and the change detection '
                                                'are evaluated on every case of the set / reload / comparison / engine-change streams'}


def defer(ctx, report, *args, **kw):
  """queue one ctx.run_cases call; run_deferred evaluates all of them side by side (one coqc start-up time instead of nine)"""
  if not hasattr(ctx, '_c07_jobs'):
    ctx._c07_jobs = []
  ctx._c07_jobs.append((report, args, kw))


def run_deferred(ctx):
  import concurrent.futures
  jobs, ctx._c07_jobs = getattr(ctx, '_c07_jobs', []), []
  with concurrent.futures.ThreadPoolExecutor(max_workers=3) as ex:
    futs = [(report, args[0], ex.submit(ctx.run_cases, *args, **kw)) for report, args, kw in jobs]
    for report, name, fut in futs:
      try:
        bad = fut.result()
      except core.TieBroken as e:
        ctx.broken('correspondence:C07 cases %s' % name, str(e))
        continue
      report(bad)


def correspond(ctx):
  core.setup_impl_path()
  try:
    correspond_all(ctx)
  finally:
    run_deferred(ctx)


def correspond_all(ctx):
  correspond_translated(ctx)
  correspond_engine_changes(ctx)
  correspond_formula_cells(ctx)
  ctx.log('engine change detection evaluated')
  correspond_cells(ctx)
  ctx.log('cells evaluated')
  correspond_compare(ctx)
  correspond_observe(ctx)
  monitors(ctx)
  ctx.log('comparisons, reads and monitors done')


# ---- search: real reloads of documents reached by histories ---------------------------------------------------

RICH_FORMULAS = ['(1, 2)', '[1, (2, 3)]', 'datetime.datetime(2020, 1, 1, 10, 30)', 'datetime.date(2020, 1, 2)', '2 ** 40', 'b"ab"',
                 '{1: 2}', '{"a": (1,)}', 'set([1])', 'NoSuchName', '1 / 0', 'rec', '1j', 'float("nan")', 'float("inf")', '-0.0',
                 '"[1, 2]"', '[$id, None, 1.5, "x"]', 'True', 'None', '10 ** 400']
PROBES = ['type($%s).__name__', 'repr($%s)', '$%s', 'str($%s)', '$%s == (1, 2)', 'bool($%s)']


def _err_doc(formula, typ, reader, recalc=0):
  return [[['AddTable', 'T', [{'id': 'A', 'type': typ, 'isFormula': False, 'formula': formula, 'recalcWhen': recalc},
                              {'id': 'Z', 'type': 'Any', 'isFormula': True, 'formula': reader}]]], [['AddRecord', 'T', None, {}]]]


# C07-decoded-error-cell-loses-error (fixed by 2fb0387): an error cell of a data column read by a formula
CORPUS = [
  ('error-cell-read', _err_doc('NoSuchName', 'Text', '$A')),
  ('error-cell-read-int', _err_doc('1 / 0', 'Int', '$A')),
  ('error-cell-read-any', _err_doc('NoSuchName', 'Any', 'IFERROR($A, "caught")')),
  ('error-cell-read-chain', [[['AddTable', 'T', [{'id': 'A', 'type': 'Numeric', 'isFormula': False, 'formula': 'int("x")', 'recalcWhen': 2},
                                                 {'id': 'Y', 'type': 'Any', 'isFormula': True, 'formula': '$A'},
                                                 {'id': 'Z', 'type': 'Text', 'isFormula': True, 'formula': '$Y'}]]],
                             [['BulkAddRecord', 'T', [None, None], {}]]]),
]


def make_gen(rng, rich):
  from harness import histgen

  class Gen(histgen.HistGen):
    """HistGen plus data columns with trigger formulas (computed for new records / on manual updates) and, in the `rich`
    stream, formulas returning objects richer than their encoding and formulas that inspect what they read."""

    def gen(self, kind, meta):
      r = self.r
      if kind == 'addtypedformula':
        t = self.pick_table(meta)
        if t is None:
          return None
        cid = r.choice(histgen.COL_NAMES)
        self.pend(t['tableId'], cid, 1)
        ty = r.choice(histgen.TYPES + ['Ref:' + t['tableId'], 'RefList:' + t['tableId'], 'Int', 'Bool', 'ChoiceList', 'ChoiceList'])
        return ['AddColumn', t['tableId'], cid, {'type': ty, 'isFormula': True, 'formula': pv.to_expr(r.choice(formula_results()))}]
      if kind not in ('addtrigger', 'addprobe'):
        return histgen.HistGen.gen(self, kind, meta)
      t = self.pick_table(meta)
      if t is None:
        return None
      tid, tref = t['tableId'], t['id']
      cid = r.choice(histgen.COL_NAMES)
      if kind == 'addtrigger':
        level = r.choice([1, 2])
        self.pend(tid, cid, level)
        f = r.choice(RICH_FORMULAS) if (rich and r.random() < 0.7) else self.formula(meta, tref, level)
        return ['AddColumn', tid, cid, {'type': r.choice(['Any', 'Any', 'Text', 'Int', 'Numeric', 'ChoiceList', 'Date', 'Bool']),
                                        'isFormula': False, 'formula': f, 'recalcWhen': r.choice([0, 2])}]
      level = 3
      own = self.lower_cols(meta, tref, level)
      trig = [c for c in own if c['formula'] and not c['isFormula']]
      if trig and r.random() < 0.75:
        own = trig
      if not own:
        return None
      self.pend(tid, cid, level)
      return ['AddColumn', tid, cid, {'type': 'Any', 'isFormula': True, 'formula': r.choice(PROBES) % r.choice(own)['colId']}]

  w = {'addtrigger': 6, 'addtypedformula': 5, 'addprobe': 8 if rich else 3, 'todata': 3, 'invalid': 1, 'summary': 1, 'label': 0}
  return Gen(rng, weights=w)


def build(history):
  """Engine after the bundles of `history` (failed bundles are skipped and the document cleaned, as in the search)."""
  from harness import gristenv as G
  e, _ = G.new_doc()
  for b in history:
    try:
      G.apply(e, copy.deepcopy(b))
    except Exception:
      G.clean(e)
  return e


def richer_than_encoding(v, depth=0):
  """The object (or an object inside it) is of a class its encoding cannot tell: tuple, bytes, int outside 32 bits, subclass
  instance, naive or foreign-zone datetime, record, record set, RecordList, set, dict with non-str keys, AltText, any other object."""
  import datetime
  import moment
  t = type(v)
  if v is None or t in (bool, float, str):
    return False
  if t is int:
    return not (-2 ** 31 <= v < 2 ** 31)
  if t is list:
    return depth > 40 or any(richer_than_encoding(x, depth + 1) for x in v)
  if t is dict:
    return depth > 40 or any(type(k) is not str or richer_than_encoding(x, depth + 1) for k, x in v.items())
  if t is datetime.date:
    return False
  if t is datetime.datetime:
    return not isinstance(v.tzinfo, moment.TzInfo)
  return True


def lossy_cells(e, f):
  """data cells whose reloaded raw object differs from the saved one: (table, col, row, kind)"""
  import datetime
  import objtypes
  out = []
  for t in e.tables:
    if t.startswith('_grist_') or t not in f.tables:
      continue
    te, tf = e.tables[t], f.tables[t]
    for cid, col in te.all_columns.items():
      if col.is_formula() or cid == 'id' or cid not in tf.all_columns:
        continue
      for r in te.row_ids:
        a, b = col.raw_get(r), tf.all_columns[cid].raw_get(r)
        ea, eb = isinstance(a, objtypes.RaisedException), isinstance(b, objtypes.RaisedException)
        if ea and eb:
          if a.error is not None and b.error is None:
            out.append((t, cid, r, 'err'))
        elif isinstance(a, datetime.datetime) and eb and b._name == 'OverflowError':
          out.append((t, cid, r, 'dtmax'))
        elif not pv.same(a, b) and not (ea or eb):
          try:
            stub = type(a).__name__ in ('RecordStub', 'RecordSetStub', 'UnmarshallableValue') and type(a) is type(b) and vars(a) == vars(b)
          except Exception:
            stub = False
          tn0 = type(col.type_obj).__name__
          if stub and tn0 in ('Any', 'Blob'):
            # an equal-looking stand-in, but these classes compare by identity: the reloaded object is not the one other
            # cells (group keys of a summary table, lookup keys) were matched with
            out.append((t, cid, r, 'ident'))
          if not stub:
            # only objects of the known lossy classes count as the known finding; a differing cell whose saved object is
            # made of None/bool/short int/float/str/list/str-keyed dict/date only is something else
            # ... and only where the column class stores what it is given: Any and Blob (and the RecordList a
            # reference-list column keeps); the other types normalise on set, which is what the theorems rely on
            tn = type(col.type_obj).__name__
            where = tn in ('Any', 'Blob') or (tn in ('ReferenceList', 'Attachments') and type(a).__name__ == 'RecordList')
            out.append((t, cid, r, 'rich' if where and richer_than_encoding(a) else 'other'))
  return out


def raw_clone(e):
  """The same load, without the encoding leg: the new engine is handed the saved engine's own Python objects."""
  import engine as engine_mod
  from harness import gristenv as G
  f = engine_mod.Engine()
  names = f.load_meta_tables(e.fetch_table('_grist_Tables'), e.fetch_table('_grist_Tables_column'))
  for t in names:
    f.load_table(e.fetch_table(t, formulas=True))
  out = G.apply(f, [['Calculate']])
  return f, out


_ADDR = None


def scrub(x):
  """Memory addresses in the default repr of objects (`<objtypes.UnmarshallableValue object at 0x7f..>`, produced by formulas
  like str($A)) are not document data: a formula showing them is volatile in the sense of the property."""
  global _ADDR
  import re
  if _ADDR is None:
    _ADDR = re.compile(r' at 0x[0-9a-fA-F]+>')
  if isinstance(x, str):
    return _ADDR.sub(' at 0x?>', x) if ' at 0x' in x else x
  if isinstance(x, list):
    return [scrub(i) for i in x]
  if isinstance(x, dict):
    return dict((k, scrub(v)) for k, v in x.items())
  return x


def has_nested_nan(x, top=True):
  if isinstance(x, list):
    return any(i == 'NaN' or has_nested_nan(i, False) for i in x)
  if isinstance(x, dict):
    return any(v == 'NaN' or has_nested_nan(v, False) for v in x.values())
  return False


def outcome(f, out, saved=None, notes=None):
  """(tables, stored actions) of a load, addresses scrubbed; an update that only rewrites an address-bearing text to the
  same text with another address (saved: the scrubbed tables of the saved engine) is dropped."""
  from harness import gristenv as G
  stored = scrub(G.norm(G.reprs(out.stored)))
  if saved is not None:
    kept = []
    for a in stored:
      if a and a[0] in ('UpdateRecord', 'BulkUpdateRecord') and a[1] in saved:
        rows = [a[2]] if a[0] == 'UpdateRecord' else a[2]
        ids = saved[a[1]]['ids']
        volatile = True
        for c, vals in a[3].items():
          vals = [vals] if a[0] == 'UpdateRecord' else vals
          col = saved[a[1]]['cols'].get(c)
          for r, v in zip(rows, vals):
            same = col is not None and r in ids and col[ids.index(r)] == v
            if same and has_nested_nan(v):
              # the known finding nan_inside_container: the cell is rewritten with the value it already has, because a NaN
              # inside a container never compares equal to another NaN object
              if notes is not None:
                notes.append((a[1], c, r))
            elif not (same and isinstance(v, str) and ' at 0x?>' in v):
              volatile = False
        if volatile:
          continue
      kept.append(a)
    stored = kept
  return scrub(G.snapshot(f)), stored


def check_reload(e, classify=True):
  """[] or a list of (kind, description): what reopening the document `e` reports changes."""
  from harness import gristenv as G
  s1 = scrub(G.snapshot(e))
  quiet = (s1, [])
  nan_cells = []
  try:
    got = outcome(*real_reload(e), saved=s1, notes=nan_cells)
  except Exception:
    return [('reload-raises', 'loading the saved document raised: ' + traceback.format_exc()[-300:])]
  nan_issue = []
  if nan_cells:
    t, c, r = nan_cells[0]
    nan_issue = [('nan_inside_container', 'Calculate after reload rewrites %d cell(s) holding a NaN inside a list/dict with the value they '
                  'already have, e.g. %s.%s row %s' % (len(nan_cells), t, c, r))]
  if got == quiet:
    return nan_issue
  what = 'Calculate after reload stored %s; %s' % (repr(got[1])[:260], '; '.join(G.diff_snapshots(s1, got[0], limit=3)))
  if not classify:
    return [('changed', what)]
  issues = list(nan_issue)
  # Was the document stale before it was saved?  A load of the engine's own objects (no encoding, no marshal, no decoding)
  # that already changes something is recalculation from scratch disagreeing with the incremental state: C05's subject.
  target = quiet
  try:
    base = outcome(*raw_clone(e), saved=s1)
  except Exception:
    base = None
  if base is not None and base[0] != s1:      # the TABLES differ: formula values the saved engine holds are not what a fresh engine computes
    issues.append(('stale_before_save', 'a load of the saved engine\'s own objects (no encoding leg) already changes the document: '
                   'Calculate stored %s; %s' % (repr(base[1])[:200], '; '.join(G.diff_snapshots(s1, base[0], limit=2)))))
    target = base
    if got == base:
      return issues
  f = real_reload(e)[0]
  cells = lossy_cells(e, f)
  for modes, kind in ((('err',), 'decoded_error_cell_loses_error'), (('rich',), 'rich_cell_value_not_restored'),
                      (('rich', 'ident'), 'rich_cell_value_not_restored'),
                      (('dtmax',), 'datetime_end_of_calendar'), (('rich', 'dtmax'), 'lossy_cells_mixed'),
                      (('err', 'rich', 'dtmax'), 'lossy_cells_mixed_with_error')):
    sel = [c for c in cells if c[3] in modes]
    if not sel:
      continue

    def hook(g, sel=sel):
      # the counterfactual: the same reload, with exactly these cells given back what the saved engine held
      for (t, cid, r, mode) in sel:
        a = e.tables[t].all_columns[cid].raw_get(r)
        col = g.tables[t].all_columns[cid]
        if mode == 'err':
          col.raw_get(r).error = a.error
        else:
          col._data[r] = a
    try:
      got2 = outcome(*real_reload(e, hook), saved=s1)
    except Exception:
      continue
    if got2 == target:
      t, cid, r, _m = sel[0]
      issues.append((kind, '%s [cured by restoring %d cell(s), e.g. %s.%s row %s = %s]' % (
        what, len(sel), t, cid, r, pv.to_expr(e.tables[t].all_columns[cid].raw_get(r))[:80])))
      return issues
  issues.append(('unexplained', what))
  return issues


def search(ctx):
  from harness import gristenv as G
  from harness import histgen
  core.setup_impl_path()
  n_hist, nb = ctx.n(18, 400), ctx.n(8, 14)
  reported = collections.Counter()
  search_formula_cells(ctx)
  # regression corpus first: witnesses of repaired findings (they must stay quiet) and their variations
  for name, history in CORPUS:
    res = check_reload(build(history))
    ctx.count(('corpus', name), nontrivial=True, kind='corpus:%s' % ('+'.join(k for k, _w in res) if res else 'ok'))
    for kind, what in res:
      ctx.violation(kind, 'corpus document %s: %s' % (name, what), {'history': history, 'kind': kind})
  for h in range(n_hist):
    rich = h % 3 == 2
    typed = h % 3 == 1
    seed = ctx.rng.getrandbits(48)
    rng = random.Random(seed)
    gen = make_gen(rng, rich)
    e, _ = G.new_doc()
    history = []
    for step in range(nb + 2):
      bundle = [gen.gen_addtable(histgen.Meta(e))] if step < 1 else gen.bundle(e)
      if typed and step < 2:
        # the typed stream starts from one data column of each type and formulas that show the exact objects read from them
        if step == 0:
          tys = ['ChoiceList', 'Bool', 'Numeric', 'Date', 'Int', 'Text', 'Choice', 'DateTime:UTC', 'Any']
          cols = [{'id': 'c%d' % i, 'type': ty, 'isFormula': False} for i, ty in enumerate(tys)]
          cols += [{'id': 'p%d' % i, 'type': 'Any', 'isFormula': True, 'formula': rng.choice(['repr($c%d)', 'type($c%d).__name__']) % i}
                   for i in range(len(tys))]
          # formula columns of every type whose formulas return texts the type may re-parse and values of the wrong type
          fr = formula_results()
          cols += [{'id': 'f%d' % i, 'type': ty, 'isFormula': True, 'formula': pv.to_expr(rng.choice(fr))}
                   for i, ty in enumerate(tys + ['ChoiceList', 'ChoiceList', 'Ref:Typed', 'RefList:Typed'])]
          bundle = [['AddTable', 'Typed', cols]]
        else:
          tys = ['ChoiceList', 'Bool', 'Numeric', 'Date', 'Int', 'Text', 'Choice', 'DateTime:UTC', 'Any']
          bundle = [['BulkAddRecord', 'Typed', [None] * 3, {'c%d' % i: [gen.value(ty) for _ in range(3)] for i, ty in enumerate(tys)}]]
      if rich and step < 2:
        # the rich stream starts from a data column R filled by a trigger formula and a formula P that inspects it
        if step == 0:
          bundle[0][2] += [{'id': 'R', 'type': rng.choice(['Any', 'Any', 'Text', 'Blob', 'Numeric']), 'isFormula': False,
                            'formula': rng.choice(RICH_FORMULAS), 'recalcWhen': 0},
                           {'id': 'P', 'type': 'Any', 'isFormula': True, 'formula': rng.choice(PROBES) % 'R'}]
        else:
          bundle = [['BulkAddRecord', G.user_tables(e)[0], [None, None], {}]]
      try:
        G.apply(e, copy.deepcopy(bundle))
      except Exception:
        G.clean(e)
        ctx.bump('bundle:failed')
        history.append(bundle)      # build() replays failed bundles too: what they leave behind is part of the state
        continue
      gen.after_bundle(e)
      history.append(bundle)
      ctx.bump('bundle:ok')
      try:
        if G.apply(e, [['Calculate']]).stored:
          ctx.bump('skipped:document not clean')      # C04's business
          continue
      except Exception:
        continue
      res = check_reload(e)
      n_err = sum(1 for t in G.user_tables(e) for c in e.tables[t].all_columns.values() for r in e.tables[t].row_ids
                  if type(c.raw_get(r)).__name__ == 'RaisedException')
      ctx.count(('reload', seed, step), nontrivial=len(G.user_tables(e)) > 0 and any(e.tables[t].row_ids for t in G.user_tables(e)),
                kind='search:%s:%s' % ('rich' if rich else ('typed' if typed else 'plain'), '+'.join(k for k, _w in res) if res else ('ok+errors' if n_err else 'ok')))
      for kind, what in res:
        reported[kind] += 1
        if reported[kind] > (1 if kind != 'unexplained' else 4):
          continue          # keep walking: a later state may fail for a reason the known repairs do not cure
        # shrink the history while the same kind of failure remains
        def fails(hs, kind=kind):
          try:
            r2 = check_reload(build(hs))
          except Exception:
            return False
          return any(k == kind for k, _w in r2)
        small = histgen.shrink_list(history, fails, max_steps=ctx.n(40, 120))
        ctx.violation(kind, what, {'history': small, 'kind': kind})
  ctx.extra['search_histories'] = n_hist


def replay(ctx, w):
  core.setup_impl_path()
  if 'cell' in w:
    r = pv.from_expr(w['cell']['expr'])
    fc = formula_cell(w['cell']['type'], r)
    if fc is None or not fc[3]:
      return None
    kind = classify_formula_cell(r, fc[0], fc[1], fc[2])
    if w.get('kind') and kind != w['kind']:
      return None
    return '%s: %s formula cell returning %s stores an action when recomputed after the load' % (kind, w['cell']['type'], w['cell']['expr'])
  res = check_reload(build(w['history']))
  for kind, what in res:
    if not w.get('kind') or kind == w['kind']:
      return '%s: %s' % (kind, what)
  return None


def _mixed_or(kind):
  def m(violation, entry):
    return violation.get('kind') in (kind, 'lossy_cells_mixed') and entry.get('violation_kind') == kind
  return m


# A violation is attributed to a known root cause only by the counterfactual of check_reload: the same reload, with exactly
# the cells of that kind given back their saved objects, changes nothing. 'lossy_cells_mixed' = cured only by restoring both
# the rich objects and an end-of-calendar datetime. (decoded_error_cell_loses_error was repaired by 2fb0387: its entry is
# 'fixed' and suppresses nothing; a failure that needs error attributes restored is reported under its own kind.)
MATCHERS = {
  'rich_cell_value_not_restored': _mixed_or('rich_cell_value_not_restored'),
}
