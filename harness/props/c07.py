"""C07 -- Reopening a saved document changes nothing (Engine.load_meta_tables/load_table/add_records,
main.table_data_from_db/_decode_db_value, column.<Class>.set, Engine._recompute_step / equal_encoding)."""
import collections
import copy
import marshal
import random
import traceback

from harness import core, pyvalues as pv

ID = 'C07'
TITLE = 'Reopening a saved document changes nothing'
PROPS = ['Props/C07']
DISABLED = True
FUEL = 200

# ---- the real reload -----------------------------------------------------------------------------------------


def db_cell(enc):
  """DocStorage: an encoded list is kept as a marshalled blob, other encoded values as they are."""
  return marshal.dumps(enc, 2) if isinstance(enc, list) else enc


def db_blob(e, table_id):
  """What the database hands back for one table: the engine's own reply (fetch_table with stored formula values,
  encoded by get_action_repr), cells stored as DocStorage stores them, marshalled column-wise."""
  import actions
  rep = actions.get_action_repr(e.fetch_table(table_id, formulas=True))
  cols = {'id': list(rep[2])}
  for c, vals in rep[3].items():
    cols[c] = [db_cell(v) for v in vals]
  return marshal.dumps({k.encode('utf8'): v for k, v in cols.items()}, 2)


def real_reload(e, hook=None):
  """A new engine loaded from what `e` reports; returns (engine, ActionGroup of Calculate).
  hook(f): called after load_table of every table and before Calculate (used only to classify a failure)."""
  import engine as engine_mod
  import main
  from harness import gristenv as G
  f = engine_mod.Engine()
  mt = main.table_data_from_db('_grist_Tables', db_blob(e, '_grist_Tables'))
  mc = main.table_data_from_db('_grist_Tables_column', db_blob(e, '_grist_Tables_column'))
  names = f.load_meta_tables(mt, mc)
  for t in names:
    f.load_table(main.table_data_from_db(t, db_blob(e, t)))
  if hook is not None:
    hook(f)
  out = G.apply(f, [['Calculate']])
  return f, out


# ---- real column objects of every type (for the cell-level correspondence) ---------------------------------

COLTYPES = ['Text', 'Blob', 'Any', 'Bool', 'Int', 'Numeric', 'Date', 'DateTime:America/New_York', 'DateTime:UTC', 'Choice',
            'ChoiceList', 'PositionNumber', 'ManualSortPos', 'Id', 'Ref:T', 'RefList:T', 'Attachments']
_fixture = {}


def fixture():
  """One engine with a table T that has a data column of every column type; returns {type name: column object}."""
  if 'cols' in _fixture:
    return _fixture['cols']
  from harness import gristenv as G
  e, _ = G.new_doc()
  G.apply(e, [['AddTable', 'T', [{'id': 'c%d' % i, 'type': t, 'isFormula': False} for i, t in enumerate(COLTYPES)]]])
  G.apply(e, [['BulkAddRecord', 'T', [None] * 3, {}]])
  table = e.tables['T']
  cols = {}
  for i, t in enumerate(COLTYPES):
    col = table.get_column('c%d' % i)
    want = t.split(':')[0]
    want = {'Ref': 'Reference', 'RefList': 'ReferenceList'}.get(want, want)
    if type(col.type_obj).__name__ != want:
      raise core.TieBroken('column of type %s has type object %s' % (t, type(col.type_obj).__name__))
    cols[t] = col
  _fixture['engine'] = e
  _fixture['cols'] = cols
  return cols


def ctype_lit(t):
  base, _, arg = t.partition(':')
  if base == 'DateTime':
    return '(TDateTime %s)' % pv.slit(arg)
  if base == 'Ref':
    return '(TRef %s)' % pv.slit(arg)
  if base == 'RefList':
    return '(TRefList %s)' % pv.slit(arg)
  return 'T' + base


def real_set(t, v):
  """column.set on the real column object; ('ok', stored raw) or ('raise', class name)."""
  col = fixture()[t]
  try:
    col.set(2, v)
    raw = col.raw_get(2)
  except Exception as ex:
    col.set(2, col.getdefault())
    return 'raise', type(ex).__name__
  col.set(2, col.getdefault())
  return 'ok', raw


def real_cell_reload(t, v):
  """One cell through the real load path: encode_object -> DocStorage cell -> marshalled table data ->
  main.table_data_from_db -> column.set; ('ok', raw) / ('raise', name), and the marshal pairs the model needs."""
  import main
  import objtypes
  enc = objtypes.encode_object(v)
  x = db_cell(enc)
  pairs = []
  if isinstance(enc, list):
    pairs.append((enc, x))
  pairs.append((x, marshal.dumps(x, 2)))
  blob = marshal.dumps({b'id': [2], b'A': [x]}, 2)
  td = main.table_data_from_db('T', blob)
  if list(td.row_ids) != [2] or list(td.columns) != ['A']:
    raise core.TieBroken('main.table_data_from_db returned %r' % (td,))
  return real_set(t, td.columns['A'][0]), pairs


def err_field(raw):
  """model's second cell component: class name of raw.error, None when there is none"""
  import objtypes
  if isinstance(raw, objtypes.RaisedException) and raw.error is not None:
    return objtypes.RaisedException(objtypes.CellError('T', 'A', 2, raw.error))._name
  return None


# ---- cell values ---------------------------------------------------------------------------------------------

def collect_encoded(b, e, depth=0):
  """oracle entries decode_object needs for the encoded form e (zones and their offsets)"""
  import datetime
  if depth > 80:
    return
  if isinstance(e, (list, tuple)):
    if len(e) >= 3 and isinstance(e[0], str) and e[0] == 'D':
      b.add_zone(e[2])
      if isinstance(e[2], str) and isinstance(e[1], (int, float)):
        try:
          td = datetime.timedelta(seconds=e[1])
          b.add_ts_offset(str(e[2]), pv.td_us(td))
        except Exception:
          pass
    for x in e:
      collect_encoded(b, x, depth + 1)
  elif isinstance(e, dict):
    for k, x in e.items():
      collect_encoded(b, k, depth + 1)
      collect_encoded(b, x, depth + 1)


EDGE_VALUES = [
  None, True, False, 0, 1, -1, 2, 5, 2 ** 31 - 1, 2 ** 31, 2 ** 40, 10 ** 400, 0.0, -0.0, 1.0, 2.0, 5.0, 5.5, -3.0, 2.0 ** 31, 2.0 ** 31 - 1,
  float('inf'), float('nan'), 1e300, '', 'a', '5', '[1, 2]', '["a", "b"]', '[1, -2]', '[]', '[1', '[true]', '[1.5]', '[[1]]', '{"a": 1}',
  'RecordList([1, 2], group_by=None, sort_by=None)', 'RecordList([1.5])', 'true', '2020-01-01', b'abc', b'[1]', b'\xff',
  [], [1, 2], ['a', 'b'], [1, [2, (3,)]], (), (1, 2), ('a', 'b'), ('a', 1), {'a': 1}, {'a': (1, 2)}, {1: 2}, set([1]),
  [float('nan')], [True], [1.0], [0],
]


def edge_objects():
  import datetime
  import moment
  import objtypes
  return [
    datetime.date(2020, 1, 1), datetime.date(1, 1, 1), datetime.date.max, datetime.datetime(2020, 1, 1, 10, 30),
    datetime.datetime(2020, 1, 1, tzinfo=moment.tzinfo('America/New_York')), datetime.datetime(2020, 1, 1, tzinfo=datetime.timezone.utc),
    datetime.datetime.max, pv.record('T', 1), pv.record('T', 0), pv.recordset('T', [1, 2]), pv.recordset('T', []),
    objtypes.RecordList([1, 2], group_by=('A',), sort_by='B'), objtypes.RecordList([]), objtypes.AltText('x'), objtypes.AltText('[1]'),
    objtypes.RaisedException(NameError("name 'NoSuch' is not defined"), user_input=''),
    objtypes.RaisedException(ZeroDivisionError('division by zero')),
    objtypes.RaisedException(objtypes.CellError('T', 'A', 1, KeyError('k')), user_input=(1, 2)),
    objtypes.RaisedException(ValueError('x'), user_input=objtypes.RaisedException(TypeError('y'))),
    objtypes.RaisedException.decode_args('NameError', None, None, None), objtypes.RaisedException.decode_args(None),
    objtypes.RaisedException.decode_args('X', 'm', 'd', {'u': ['L', 1]}),
    objtypes.RecordStub('T', 5), objtypes.RecordSetStub('T', [1, 2]), objtypes.UnmarshallableValue('<x>'),
    objtypes._pending_sentinel, objtypes._censored_sentinel, objtypes.ReferenceLookup('x'),
    pv.IntSub(1), pv.IntSub(5), pv.FloatSub(1.0), pv.FloatSub(4.0), pv.StrSub('[1]'), pv.StrSub('a'), 1j, pv.Named('[1, 2]'),
  ]


# encoded forms a document file (or an ApplyDocActions / undo) can hand to load_table / set
ENCODED = [
  ['L'], ['L', 1, 2], ['L', 'a', 'b'], ['L', ['L', 1]], ['d', 86400.0], ['d', 1e18], ['D', 1577836800.0, 'UTC'], ['D', 1.5, 'Asia/Tokyo'],
  ['D', 1.0, 'Nowhere/Land'], ['E', 'NameError'], ['E', 'ValueError', 'm', 'd', {'u': 5}], ['E', 'X', None, None, {'u': ['L', 1]}],
  ['E'], ['E', 'X', 'm', 'd', 5], ['E', 'AttributeError'], ['R', 'T', 1], ['r', 'T', [1, 2]], ['O', {'a': ['L', 1]}], ['P'], ['C'],
  ['U', 'x'], ['X'], [], ['l', 1], 1, 0, 1.0, 0.0, 5, 5.0, 2.5, True, False, None, 'x', '[1, 2]', '["a"]', 7.0, -7.0, 2.0 ** 31,
  ['L', ['E', 'X']], ['L', float('nan')], ['E', 'X', None, None, {'v': 1}],
]


def gen_cells(ctx):
  """(type name, value handed to column.set, how it arose)"""
  import objtypes
  rng = ctx.rng
  cols = fixture()
  out = []
  vals = [pv.gen_value(rng) for _ in range(ctx.n(110, 4000))] + EDGE_VALUES + edge_objects()
  for v in vals:
    edge = len(out) >= 0 and (v is None or not isinstance(v, (int, float, str)) or rng.random() < 0.3)
    ts = [rng.choice(COLTYPES)]
    if rng.random() < (0.9 if edge else 0.3):
      ts.append(rng.choice(COLTYPES))
    for t in set(ts):
      try:
        w = cols[t].convert(v)
      except BaseException:
        continue            # C22's business
      out.append((t, w, 'converted'))
      if t in ('Any', 'Blob') or rng.random() < 0.15:
        out.append((t, v, 'raw'))
      try:
        d = objtypes.decode_object(marshal.loads(marshal.dumps(objtypes.encode_object(w), 2)))
      except Exception:
        continue
      out.append((t, d, 'decoded'))
  for x in ENCODED:
    d = objtypes.decode_object(x)
    for t in (COLTYPES if ctx.tier == 'thorough' else rng.sample(COLTYPES, 5)):
      out.append((t, d, 'decoded-fixed'))
  if ctx.tier == 'thorough':
    for v in EDGE_VALUES + edge_objects():
      for t in COLTYPES:
        out.append((t, v, 'raw-edge'))
  return out


def lit_case(vl, tl, *rest):
  rest = list(rest)
  if len(vl) > 40:
    tl = tl.replace(vl, 'v0')
    rest = [r.replace(vl, 'v0') for r in rest]
    return '(let v0 := %s in (v0, %s, %s))' % (vl, tl, ', '.join(rest))
  return '(%s, %s, %s)' % (vl, tl, ', '.join(rest))


def res_lit(b, res, with_err):
  kind, x = res
  if kind == 'raise':
    return '(Raise %s)' % pv.slit(x)
  if with_err:
    return '(Ok (%s, %s))' % (b.val(x), pv.opt(err_field(x), pv.slit))
  return '(Ok %s)' % b.val(x)


def digest(m):
  """the model never looks inside marshalled bytes: they are named by a digest (short literals)"""
  import hashlib
  return list(hashlib.sha1(bytes(m)).digest()[:8])


def short_bytes(b, x):
  return '(PBytes false %s)' % pv.zl(digest(x)) if type(x) is bytes else b.val(x)


def pairs_lit(b, pairs):
  return '[%s]' % '; '.join('(%s, %s)' % (short_bytes(b, x), pv.zl(digest(m))) for x, m in pairs)


IMPORTS = ['Grist.Lib.PyFloat', 'Grist.Model.Values', 'Grist.Model.Reload']
# the oracle tables encode_f / decode_f / col_set / py_eq can consult (read off Model/Values.v and Model/Reload.v)
NEED = set(['str', 'repr', 'type_name', 'float_repr', 'utf8', 'dt_offset', 'ts_offset', 'zone_known', 'truthy', 'json', 'int_of_str', 'iter'])


def clone(v):
  """a distinct but equal object where Python can build one (containers rebuilt, leaves shared)"""
  if type(v) is list:
    return [clone(x) for x in v]
  if type(v) is tuple:
    return tuple([clone(x) for x in v]) if v else ()
  if type(v) is dict:
    return dict((k, clone(x)) for k, x in v.items())
  if type(v) is float:
    return float(repr(v)) if v == v else v
  if type(v) is str and v:
    return ''.join(list(v))
  if type(v) is int and abs(v) > 300:
    return int(repr(v))
  return v


def correspond_cells(ctx):
  import objtypes
  cells = gen_cells(ctx)
  set_cases, set_meta, rl_cases, rl_meta = [], [], [], []
  seen = set()
  stored = []          # (type, raw as stored, reloaded raw or None): reused by the comparison cases and by search
  for t, v, how in cells:
    try:
      b = pv.Builder()
      b.collect(v)
      res = real_set(t, v)
      if res[0] == 'ok':
        b.collect(res[1])
      lit = lit_case(b.val(v), b.tables(NEED), ctype_lit(t), res_lit(b, res, False))
    except RecursionError:
      continue
    if lit not in seen:
      seen.add(lit)
      set_cases.append(lit)
      set_meta.append((t, v))
      changed = res[0] != 'ok' or not pv.same(res[1], v)
      ctx.count(lit, nontrivial=changed, kind='set:%s:%s' % (t.split(':')[0], how.split('-')[0]),
                sample={'type': t, 'value': pv.to_expr(v)[:80], 'stored': pv.to_expr(res[1])[:80] if res[0] == 'ok' else res[1]})
    if res[0] != 'ok':
      continue
    raw = res[1]
    try:
      b = pv.Builder()
      b.collect(raw)
      enc = objtypes.encode_object(raw)
      collect_encoded(b, enc)
      res2, pairs = real_cell_reload(t, raw)
      if res2[0] == 'ok':
        b.collect(res2[1])
      for x, _m in pairs:
        if type(x) is not bytes:
          b.collect(x)
      lit = lit_case(b.val(raw), b.tables(NEED), ctype_lit(t), pairs_lit(b, pairs), pv.opt(err_field(raw), pv.slit), res_lit(b, res2, True))
    except RecursionError:
      continue
    except ValueError as ex:
      if 'unmarshallable' not in str(ex):
        raise
      ctx.bump('skipped:encoding refused by marshal (C24)')
      continue
    stored.append((t, raw, res2[1] if res2[0] == 'ok' else None))
    if lit not in seen:
      seen.add(lit)
      rl_cases.append(lit)
      rl_meta.append((t, raw))
      same = res2[0] == 'ok' and pv.same(res2[1], raw) and err_field(res2[1]) == err_field(raw)
      ctx.count(lit, nontrivial=isinstance(enc, list) or not same,
                kind='reload:%s:%s' % (t.split(':')[0], 'same' if same else ('raise' if res2[0] != 'ok' else 'differs')))
  ctx._c07_stored = stored
  ctx.log('literals: %d set, %d reload cases' % (len(set_cases), len(rl_cases)))
  bad = ctx.run_cases('set', IMPORTS,
                      'fun c => match c with (v, tbl, T, r) => res_eqb value_eqb (col_set (oracles_of tbl) T v) r end',
                      set_cases, shard=120, case_type='value * tables * ctype * result value')
  for k in bad[:6]:
    t, v = set_meta[k]
    ctx.broken('correspondence:model col_set differs from column.set',
               'type %s value %s -> %r' % (t, pv.to_expr(v)[:160], real_set(t, v)))
  bad = ctx.run_cases('reload', IMPORTS,
                      'fun c => match c with (v, tbl, T, mp, err, r) => res_eqb cell_eqb '
                      '(reload (oracles_of tbl) (marshal_of mp) (unmarshal_of mp) T %d (v, err)) r end' % FUEL,
                      rl_cases, shard=120,
                      case_type='value * tables * ctype * list (value * list Z) * option str * result cell')
  for k in bad[:6]:
    t, v = rl_meta[k]
    r2 = real_cell_reload(t, v)[0]
    ctx.broken('correspondence:model reload differs from the real load path',
               'type %s cell %s -> %s (error field %r)' % (t, pv.to_expr(v)[:160], pv.to_expr(r2[1])[:160] if r2[0] == 'ok' else r2,
                                                           err_field(r2[1]) if r2[0] == 'ok' else None))
  ctx.extra['cases_in_coq'] = len(set_cases) + len(rl_cases)


# ---- change detection and reading: strict_equal / equal_encoding / get_cell_value --------------------------------

def comparable(v, depth=0, top=True):
  """inside the modelled domain of Python's ==: None/bool/int/float/str/bytes/list/tuple/str-keyed dict/date/datetime (no NaN
  inside a container: CPython's identity shortcut), and at top level the Grist objects that have no __eq__"""
  import datetime
  import objtypes
  t = type(v)
  if v is None or t in (bool, int, str, bytes):
    return True
  if t is float:
    return top or v == v
  if t in (list, tuple):
    return depth < 30 and all(comparable(x, depth + 1, False) for x in v)
  if t is dict:
    return depth < 30 and all(type(k) is str and comparable(x, depth + 1, False) for k, x in v.items())
  if t is datetime.date:
    return True
  if t is datetime.datetime:
    import moment
    return v.tzinfo is None or isinstance(v.tzinfo, moment.TzInfo)
  if top and (t in (objtypes.RaisedException, objtypes.RecordStub, objtypes.RecordSetStub, objtypes.UnmarshallableValue)
              or v is objtypes._pending_sentinel or v is objtypes._censored_sentinel):
    return True
  return False


def encodable_plain(v):
  """equal_encoding compares encodings: any value whose encoding has no NaN inside a container"""
  import objtypes
  try:
    e = objtypes.encode_object(v)
  except Exception:
    return False
  stack, top = [e], True
  while stack:
    x = stack.pop()
    if isinstance(x, float) and x != x and not top:
      return False
    top = False
    if isinstance(x, (list, tuple)):
      stack.extend(x)
    elif isinstance(x, dict):
      stack.extend(x.values())
  return True


def correspond_compare(ctx):
  import objtypes
  rng = ctx.rng
  stored = getattr(ctx, '_c07_stored', [])
  pairs = []
  pool = [raw for _t, raw, _r in stored]
  for t, raw, rl in stored:
    if rl is not None:
      pairs.append((raw, rl, 'saved-vs-reloaded'))
  for _ in range(ctx.n(200, 4000)):
    a = rng.choice(pool)
    k = rng.random()
    if k < 0.35:
      pairs.append((a, clone(a), 'copy'))
    elif k < 0.6:
      try:
        b = objtypes.decode_object(objtypes.encode_object(a))
      except Exception:
        continue
      pairs.append((a, b, 'recoded'))
    else:
      pairs.append((a, rng.choice(pool), 'random'))
  fixed = [(1, 1.0), (1, True), (True, True), (0.0, -0.0), (float('nan'), float('nan')), ([1], [1.0]), ([True], [1]), ((1, 2), [1, 2]),
           ('a', 'a'), ('a', b'a'), (None, None), (None, 0), ({'a': 1, 'b': 2}, {'b': 2, 'a': 1}), ({'a': 1}, {'a': 2}), ([], ()), ([], []),
           (2 ** 40, 2 ** 40), (2 ** 40, float(2 ** 40)), ([1, [2, 3]], [1, [2, 3]]), ([1, [2, 3]], [1, [2, 4]]), (5, 5), (5, 6), (1.5, 1.5),
           (pv.IntSub(5), 5), (pv.StrSub('a'), 'a'), (b'a', b'a'), ('1', 1)]
  pairs += [(a, b, 'fixed') for a, b in fixed]
  se_cases, se_meta, ee_cases, ee_meta = [], [], [], []
  seen = set()
  for a, b, how in pairs:
    if a is b:
      continue
    try:
      bd = pv.Builder()
      bd.collect(a)
      bd.collect(b)
      la, lb, tb = bd.val(a), bd.val(b), bd.tables(NEED)
    except RecursionError:
      continue
    if comparable(a) and comparable(b):
      r = objtypes.strict_equal(a, b)
      lit = '(%s, %s, %s, %s)' % (la, lb, tb, pv.blit(r))
      if ('s', lit) not in seen:
        seen.add(('s', lit))
        se_cases.append(lit)
        se_meta.append((a, b))
        ctx.count('s' + lit, nontrivial=r or type(a) is type(b), kind='strict_equal:%s:%s' % (how, r))
    if encodable_plain(a) and encodable_plain(b):
      r = objtypes.equal_encoding(a, b)
      lit = '(%s, %s, %s, %s)' % (la, lb, tb, pv.blit(r))
      if ('e', lit) not in seen:
        seen.add(('e', lit))
        ee_cases.append(lit)
        ee_meta.append((a, b))
        ctx.count('e' + lit, nontrivial=True, kind='equal_encoding:%s:%s' % (how, r))
  ctype = 'value * value * tables * bool'
  bad = ctx.run_cases('strict', IMPORTS, 'fun c => match c with (a, b, tbl, r) => Bool.eqb (strict_equal (oracles_of tbl) a b) r end',
                      se_cases, shard=150, case_type=ctype)
  for k in bad[:6]:
    a, b = se_meta[k]
    ctx.broken('correspondence:model strict_equal differs from objtypes.strict_equal',
               '%s vs %s -> %r' % (pv.to_expr(a)[:100], pv.to_expr(b)[:100], objtypes.strict_equal(a, b)))
  bad = ctx.run_cases('equalenc', IMPORTS,
                      'fun c => match c with (a, b, tbl, r) => Bool.eqb (equal_encoding (oracles_of tbl) %d a b) r end' % FUEL,
                      ee_cases, shard=150, case_type=ctype)
  for k in bad[:6]:
    a, b = ee_meta[k]
    ctx.broken('correspondence:model equal_encoding differs from objtypes.equal_encoding',
               '%s vs %s -> %r' % (pv.to_expr(a)[:100], pv.to_expr(b)[:100], objtypes.equal_encoding(a, b)))
  ctx.extra['cases_in_coq'] = ctx.extra.get('cases_in_coq', 0) + len(se_cases) + len(ee_cases)


def real_observe(t, raw):
  """What a reader of the cell gets from column.get_cell_value: ('raise', class name its own error reports) or ('see', raw)."""
  import objtypes
  col = fixture()[t]
  col._data[2] = raw                     # the raw object itself (set would normalise it)
  try:
    col.get_cell_value(2)
    res = ('see', raw)
  except Exception as ex:
    res = ('raise', objtypes.RaisedException(ex)._name)
  col._data[2] = col.getdefault()
  return res


def correspond_observe(ctx):
  import objtypes
  cases, meta = [], []
  seen = set()
  for t, raw, rl in getattr(ctx, '_c07_stored', []):
    for c in (raw, rl):
      if not isinstance(c, objtypes.RaisedException):
        continue
      kind, name = real_observe(t, c)
      if kind != 'raise':
        raise core.TieBroken('get_cell_value of an error cell did not raise')
      b = pv.Builder()
      lit = '((%s, %s), %s)' % (b.val(c), pv.opt(err_field(c), pv.slit), pv.slit(name))
      if lit not in seen:
        seen.add(lit)
        cases.append(lit)
        meta.append((t, c))
        ctx.count('o' + lit, nontrivial=True, kind='observe:error:%s' % ('decoded' if c.error is None else 'raised'))
  bad = ctx.run_cases('observe', IMPORTS, 'fun c => obs_eqb (observe (fst c)) (ORaise (snd c))', cases, shard=300,
                      case_type='cell * str')
  for k in bad[:6]:
    t, c = meta[k]
    ctx.broken('correspondence:model observe differs from column.get_cell_value',
               '%s cell %s reports %r' % (t, pv.to_expr(c)[:120], real_observe(t, c)))
  # a value that is not an error is handed to the reader as a function of (column, raw object): checked by reading twice
  for t, raw, _rl in getattr(ctx, '_c07_stored', [])[:400]:
    if isinstance(raw, objtypes.RaisedException):
      continue
    col = fixture()[t]
    col._data[2] = raw
    try:
      a, b = col.get_cell_value(2), col.get_cell_value(2)
      ok = type(a) is type(b)
    except Exception as ex:
      ok = False
    col._data[2] = col.getdefault()
    if not ok:
      ctx.broken('monitor:get_cell_value is not a function of the raw object', '%s %s' % (t, pv.to_expr(raw)[:100]))
      break


def deep_same(a, b):
  stack = [(a, b)]
  while stack:
    a, b = stack.pop()
    if type(a) is not type(b):
      return False
    if isinstance(a, float):
      if pv.fkey(a) != pv.fkey(b):
        return False
    elif isinstance(a, (list, tuple)):
      if len(a) != len(b):
        return False
      stack.extend(zip(a, b))
    elif isinstance(a, dict):
      if len(a) != len(b):
        return False
      for (k1, v1), (k2, v2) in zip(a.items(), b.items()):
        stack.append((k1, k2))
        stack.append((v1, v2))
    elif a != b:
      return False
  return True


def monitors(ctx):
  """marshal_rt on everything the reload hands to marshal; the library facts of C24 on the dates met."""
  import datetime
  import moment
  import objtypes
  n = 0
  for t, raw, _rl in getattr(ctx, '_c07_stored', []):
    try:
      enc = objtypes.encode_object(raw)
      x = db_cell(enc)
    except Exception:
      continue
    for y in ([enc, x] if isinstance(enc, list) else [x]):
      n += 1
      if not deep_same(marshal.loads(marshal.dumps(y, 2)), y):
        ctx.broken('monitor:marshal.loads(marshal.dumps(x)) differs from x', repr(y)[:200])
        return
  ctx.extra['marshal_roundtrips_checked'] = n
  if 'UTC' not in moment.get_tz_data():
    ctx.broken('monitor:UTC is not a known zone', '')
  rng = ctx.rng
  for _ in range(ctx.n(300, 5000)):
    d = rng.randint(-719162, 2932896)
    td = datetime.timedelta(days=d)
    if datetime.timedelta(seconds=td.total_seconds()) != td:
      ctx.broken('monitor:timedelta(seconds=total_seconds) not exact on whole days', str(d))
      break
    u = rng.randint(-62135596800000000, 253402300799999999)
    td = datetime.timedelta(microseconds=u)
    back = datetime.timedelta(seconds=td.total_seconds())
    if abs((back - td) // pv.US) > 16 or back.total_seconds() != td.total_seconds():
      ctx.broken('monitor:timedelta(seconds=total_seconds) off by more than 16 microseconds', str(u))
      break


def correspond(ctx):
  core.setup_impl_path()
  correspond_cells(ctx)
  ctx.log('cells evaluated')
  correspond_compare(ctx)
  correspond_observe(ctx)
  monitors(ctx)
  ctx.log('comparisons, reads and monitors done')
