"""C04 -- Failed bundles leave no trace (checkpoint / rollback at every crash point)."""
import collections
import copy
import json
import re

from harness import core
from harness import gristenv as G
from harness import histgen
from harness import rollback_instr as RI
from harness import rollback_model as RM

ID = 'C04'
TITLE = 'Failed bundles leave no trace'
PROPS = ['Props/C04']
RULE = ('documents and bundles from the shared history generator (plus CopyFromColumn from formula columns, raw '
        'ApplyDocActions, ReplaceTableData, bundles with a failing last action); for each bundle every instrumented '
        'sub-step boundary is a crash point (thorough: all of them for bundles with <= 160 sub-steps, else a stratified sample of 160; quick: a stratified sample of 5): the document is rebuilt '
        'identically, the exception injected there, then all tables, engine.schema, build_schema(metadata) and the '
        'ActionGroup of a following Calculate are compared with the state before the bundle; a case is non-trivial '
        'when the fault struck after at least one mutation (cell set / schema rebuild / undo append) of the bundle')
TRUSTED = ['Model/Rollback.v (hand-written model of docactions.py micro-step order, apply_doc_action schema restore, '
           '_undo_to_checkpoint, rebuild_usercode object reuse), tied on every run: per real doc action the recorded '
           'sequence of instrumented calls, the resulting tables and the appended undo actions must equal the model\'s; '
           'per fault run the model must predict whether the rollback restores the document',
           'interning of names/values by the harness (cell values compared by strict_equal classes)',
           'column-type normalisation inside Column.set and private helper columns (#lookup, #summary#) are outside the model']
ASSUMPTIONS = ['faults are injected at instrumented sub-step boundaries (DocActions method entry, Column.set/'
               'copy_from_column/clear, rebuild_usercode, undo append, ActionSummary calls, end of a user action), '
               'not at arbitrary bytecodes',
               'the re-append of the popped ModifyColumn undo in doModifyColumn\'s `finally` is not a fault position',
               'C04_rollback_partial: crash point between doc actions or anywhere inside [Bulk]AddRecord / '
               '[Bulk]UpdateRecord (covered_point), no pending calc delta, no ReplaceTableData in the bundle; '
               'C04_pending_calcs_with_removes_rolled_back: pending deltas of any recomputed columns in bundles of '
               'record updates, adds (of row ids the checkpoint table lacks), removes and recalculations, at event '
               'boundaries; a removed row id coming back is refuted (C04_refuted_readded_row); pending deltas combined '
               'with schema actions are covered by the rollback-prediction tie and the enumeration only '
               '(C04_rollback_partial_snapshot covers schema actions without pending deltas); the remaining '
               'crash points are refuted by the C04_refuted_* witnesses (known findings)',
               'failures after the last user action (recalculation, auto-removals, final flush) and the sorted-lookup '
               'cache are outside the model: found by the implementation oracle only']
TECHNIQUE = ('Coq proof over a hand-written micro-step model of doc actions and rollback + event-trace tie against the '
             'instrumented engine + exhaustive fault enumeration on the implementation')
LEVEL_TEXT = ('Kernel-checked theorems about a micro-step model of the 14 doc actions, apply_doc_action\'s schema '
              'restore, the flush of pending calc deltas and _undo_to_checkpoint: flush + rollback restores document '
              'and schema for every crash point between doc actions and inside undo-first actions when no calc delta '
              'is pending (all documents, all event sequences), and with pending deltas of any number of recomputed '
              'columns in bundles of record updates, adds and removes (no removed row id of the checkpoint coming back) '
              'at every event boundary; vm_compute counterexamples for the crash points where the unchanged code does leave a '
              'trace, each replayed on the real engine; the model is tied to the engine on every run and every '
              'crash point of generated bundles is enumerated on the implementation.')
LEVEL_NOTE = ('kernel strength: useractions.py and formula evaluation are an environment (arbitrary event sequences). '
              'The full statement is FALSE on the unchanged tree (known findings); proved: the partial statement.')

# ---------------------------------------------------------------------------------------------------------------
# documents that can be rebuilt identically


class LoggedDoc(object):
  """An engine plus the exact list of bundles applied to it (failed ones included), so that an identical
  document can be rebuilt for every fault run."""
  def __init__(self, log=None):
    self.e, _ = G.new_doc()
    self.log = []
    for b in (log or []):
      self.try_apply(b)

  def apply(self, bundle):
    self.log.append(copy.deepcopy(bundle))
    return G.apply(self.e, bundle)

  def try_apply(self, bundle):
    try:
      return self.apply(bundle)
    except Exception:
      return None



class Gen(histgen.HistGen):
  """The shared generator plus the operations C04 cares about."""
  def __init__(self, rng):
    super(Gen, self).__init__(rng, weights={'copyfrom': 4, 'rawdoc': 3, 'replacedata': 2, 'invalid': 3,
                                            'modformula': 5, 'rmcol': 4, 'rencol': 4, 'modtype': 4})

  def gen(self, kind, meta):
    r = self.r
    if kind in ('copyfrom', 'rawdoc', 'replacedata'):
      t = self.pick_table(meta)
      if t is None:
        return None
      tid, tref = t['tableId'], t['id']
      rows = meta.rows(tid)
      dcols = meta.data_cols(tref)
      fcols = meta.formula_cols(tref)
      if kind == 'copyfrom':
        if not fcols or not dcols:
          return None
        return ['CopyFromColumn', tid, r.choice(fcols)['colId'], r.choice(dcols)['colId'], None]
      if kind == 'replacedata':
        if not dcols:
          return None
        c = r.choice(dcols)
        ids = list(range(1, r.randint(1, 3) + 1))
        return ['ReplaceTableData', tid, ids, {c['colId']: [self.value(c['type'], meta) for _ in ids]}]
      if kind == 'rawdoc':
        if not rows or not dcols:
          return None
        c = r.choice(dcols)
        rs = r.sample(rows, min(len(rows), 2))
        cols = collections.OrderedDict()
        cols[c['colId']] = [self.value(c['type'], meta) for _ in rs]
        if r.random() < 0.6:
          cols['NoSuchColumn'] = [1 for _ in rs]            # KeyError after the first column was written
        return ['ApplyDocActions', [['BulkUpdateRecord', tid, rs, cols]]]
    return super(Gen, self).gen(kind, meta)

  def readd_pattern(self, e):
    """[change an input, force the recalculation, remove the row, add a row with the same id again]: the row id has
    two lives in one bundle (ActionSummary keeps one delta per cell id)."""
    meta = histgen.Meta(e)
    t = self.pick_table(meta)
    if t is None:
      return None
    tid, tref = t['tableId'], t['id']
    rows, dcols, fcols = meta.rows(tid), meta.data_cols(tref), meta.formula_cols(tref)
    if not rows or not dcols or not fcols:
      return None
    row, c = self.r.choice(rows), self.r.choice(dcols)
    force = ['CopyFromColumn', tid, self.r.choice(fcols)['colId'], self.r.choice(dcols)['colId'], None]
    first = [['UpdateRecord', tid, row, {c['colId']: self.value(c['type'], meta)}], force, ['RemoveRecord', tid, row],
             ['AddRecord', tid, row, {c['colId']: self.value(c['type'], meta)}]]
    if self.r.random() < 0.4:
      first = first[2:] + [force, ['RemoveRecord', tid, row]]
    return first

  def failing_tail(self, e):
    meta = histgen.Meta(e)
    return self.gen('invalid', meta) or ['RemoveRecord', 'NoSuchTable', 1]


# ---------------------------------------------------------------------------------------------------------------
# one instrumented run of a bundle

class Run(object):
  pass


def pending_deltas(e):
  """(table, column) pairs with unflushed deltas in the failed bundle's ActionSummary, under ORIGINAL names."""
  out = set()
  try:
    summ = e.out_actions.summary
    for t, td in summ._tables.items():
      for c, deltas in td.column_deltas.items():
        if deltas:
          t0 = summ._table_renames.original_name(t)
          c0 = td.column_renames.original_name(c)
          out.add((t0, c0))
          out.add((t.lstrip('-'), c.lstrip('-')))
  except Exception as ex:
    raise core.TieBroken('ActionSummary internals changed: %r' % (ex,))
  return out


def run_bundle(ld, bundle, fault_at=None, hooks=None, on_fail=None):
  """Apply `bundle` to ld.e under the recorder; returns a Run with the verdicts of the C04 oracle when it raised."""
  e = ld.e
  r = Run()
  r.before = G.snapshot(e)
  r.before_schema = G.engine_schema(e)
  hooks = hooks or (None, None)
  with RI.REC.session(fault_at=fault_at, hook_enter=hooks[0], hook_exit=hooks[1]) as rec:
    try:
      r.out = G.apply(e, bundle)
      r.raised = None
    except Exception as ex:
      r.out = None
      r.raised = ex
  r.count = rec.count
  r.events = list(rec.events)
  r.docs = list(rec.docs)
  r.fired = rec.fired
  r.problems = []
  r.diff_cells = []        # (table, column) in which the tables differ from before
  r.diff_rows = []         # (table, column, row id) of the differing cells
  r.emitted_cells = []     # (table, column) written by the following Calculate
  if r.raised is not None:
    r.on_fail = on_fail(e) if on_fail is not None else None     # before the oracle's Calculate touches anything
    r.pending = pending_deltas(e)
    after = G.snapshot(e)
    if after != r.before:
      r.problems.append('tables')
      r.diff = G.diff_snapshots(r.before, after, limit=12)
      r.diff_cells = diff_cells(r.before, after)
      r.diff_rows = diff_cell_rows(r.before, after)
    if G.engine_schema(e) != r.before_schema:
      r.problems.append('schema')
    try:
      if G.engine_schema(e) != G.schema_of_meta(e):
        r.problems.append('schema-vs-metadata')
    except Exception:
      r.problems.append('metadata-unreadable')
    try:
      o = G.apply(e, [['Calculate']])
      if o.stored:
        r.problems.append('calculate-emits')
        r.calc = G.reprs(o.stored)[:4]
        for a in o.stored:
          rep = G.actions.get_action_repr(a)
          if rep[0] in ('UpdateRecord', 'BulkUpdateRecord'):
            for c in rep[3]:
              r.emitted_cells.append((rep[1], c))
          else:
            r.emitted_cells.append((rep[1], None))
    except Exception as ex2:
      r.problems.append('calculate-raises')
      r.calc = repr(ex2)[:200]
  return r


def diff_cells(a, b):
  """(table, column) pairs in which two snapshots differ (column None = row set / whole table)."""
  out = []
  for t in sorted(set(a) | set(b)):
    if t not in a or t not in b or a[t]['ids'] != b[t]['ids']:
      out.append((t, None))
      continue
    for c in sorted(set(a[t]['cols']) | set(b[t]['cols'])):
      if a[t]['cols'].get(c, '<none>') != b[t]['cols'].get(c, '<none>'):
        out.append((t, c))
  return out


def diff_cell_rows(a, b):
  """(table, column, row id) of the cells in which two snapshots with the same tables/rows differ."""
  out = []
  for t in sorted(set(a) & set(b)):
    if a[t]['ids'] != b[t]['ids']:
      continue
    for c in sorted(set(a[t]['cols']) & set(b[t]['cols'])):
      va, vb = a[t]['cols'][c], b[t]['cols'][c]
      if va != vb and isinstance(va, list) and isinstance(vb, list) and len(va) == len(vb):
        out.extend((t, c, a[t]['ids'][i]) for i, (x, y) in enumerate(zip(va, vb)) if x != y)
  return out


def readded_rows(run):
  """(table, row id) removed by a completed BulkRemoveRecord and added again by a later completed BulkAddRecord of
  the failed bundle."""
  removed, out = set(), set()
  for d in run.docs:
    if d.get('phase') != 'actions':
      continue
    if not d.get('completed'):
      # the re-adding BulkAddRecord itself may be the action that failed, once its undo is in the list
      if not (d['name'] == 'BulkAddRecord' and any(st.startswith('undo') for st, _ in d['steps'])):
        continue
    if d['name'] == 'BulkRemoveRecord':
      removed |= {(d['args'][0], r) for r in d['args'][1]}
    elif d['name'] == 'BulkAddRecord':
      out |= {(d['args'][0], r) for r in d['args'][1] if (d['args'][0], r) in removed}
  return out


# ---------------------------------------------------------------------------------------------------------------
# where did the fault strike, and which root cause explains a trace

SORTED_LOOKUP = re.compile(r'order_by|sort_by|PREVIOUS|NEXT|RANK')
SCHEMA_ACTIONS = ('AddColumn', 'RemoveColumn', 'RenameColumn', 'ModifyColumn', 'AddTable', 'RemoveTable', 'RenameTable')


def locate(run, idx):
  """Description of crash point idx of a recorded (fault-free) run: the doc action it is in and what that
  action had done before."""
  _i, name, doc, phase, detail = run.events[idx]
  loc = {'index': idx, 'point': name, 'phase': phase, 'doc': None, 'muts': 0, 'rebuilds': 0, 'undos': 0,
         'calc_cells': []}
  if doc is not None:
    d = [x for x in run.docs if x['serial'] == doc][0]
    pos = idx - d['first']
    prev = d['steps'][:pos]                       # includes the 'doc:' point itself
    loc['doc'] = d['name']
    loc['doc_table'] = d['args'][0]
    loc['doc_rows'] = list(d['args'][1]) if len(d['args']) > 1 and isinstance(d['args'][1], (list, tuple)) else []
    loc['muts'] = sum(1 for s, _ in prev if s in ('set', 'copy', 'clear'))
    loc['rebuilds'] = sum(1 for s, _ in prev if s == 'rebuild')
    loc['undos'] = sum(1 for s, _ in prev if s.startswith('undo'))
    loc['total_undos'] = sum(1 for s, _ in d['steps'] if s.startswith('undo'))
  # cells written by formula evaluation outside doc actions before the crash, and doc actions completed
  done_docs = []
  calc_cells = []
  for (j, n, dc, ph, det) in run.events[:idx]:
    if dc is None and n == 'set' and not det[4]:
      calc_cells.append((det[0], det[1]))
  for d in run.docs:
    if d['first'] < idx and (doc is None or d['serial'] != doc):
      done_docs.append(d['name'])
  loc['calc_cells'] = calc_cells
  loc['done_docs'] = done_docs
  loc['mutations_before'] = sum(1 for (j, n, dc, ph, det) in run.events[:idx]
                                if n in ('set', 'copy', 'clear', 'rebuild', 'undo.append', 'undo.insert'))
  return loc


def classify(loc, run):
  """Root cause (stable kind string) of the trace a failed bundle left, or 'unclassified-...'.
  Each rule recognises ONE mechanism and checks that the differing cells are the ones that mechanism explains."""
  cells = set(run.diff_cells) | set(run.emitted_cells)
  tables = {t for t, _ in run.diff_cells}
  injected = isinstance(run.raised, RI.InjectedFault)
  doc = loc.get('doc')
  if loc['phase'] == 'post':
    # engine.apply_user_actions: only the user actions themselves are inside the try; recalculation, auto-removes and
    # the final flush run after it, so an exception there leaves the whole bundle applied
    return 'failure-after-last-user-action-is-not-rolled-back'
  if doc in ('BulkUpdateRecord', 'BulkRemoveRecord') and loc['muts'] > 0 and loc['undos'] == 0 \
     and tables <= {loc['doc_table']} | calc_tables(loc, run):
    # the action wrote cells and its undo is not in the list yet (docactions.py: mutation before undo.append)
    return 'midaction-crash-in-' + doc
  if doc == 'BulkRemoveRecord' and loc['muts'] > 0 and loc['undos'] == 0 and not injected and \
     isinstance(run.raised, AssertionError) and 'for non-existent record' in str(run.raised) and \
     any(str(run.raised).rstrip("')").endswith('#%s' % r) for r in loc.get('doc_rows', [])):
    # same mechanism, harder consequence: the rows are already out of the table and their undo is not in the list,
    # so replaying an EARLIER undo action of the bundle on one of them fails its assert: _undo_to_checkpoint raises
    # and the whole bundle stays applied
    return 'midaction-crash-in-BulkRemoveRecord'
  if doc in SCHEMA_ACTIONS:
    if loc['undos'] < loc['total_undos'] and loc['rebuilds'] >= 1:
      # schema + Table/Column objects already rebuilt, undo not complete: apply_doc_action restores the schema but
      # rebuild_usercode re-creates the destroyed column/table objects EMPTY (or reuses the re-typed object)
      return 'schema-action-crash-before-undo-loses-data'
    if (loc['undos'] == loc['total_undos'] and loc['undos'] > 0) or \
       (doc == 'RemoveTable' and loc['undos'] >= 1 and loc['rebuilds'] == 0):
      # both the schema restore and the already appended undo revert the action: the replayed undo action
      # fails its assert and the rollback stops there
      if not injected or 'tables' in run.problems or 'schema-vs-metadata' in run.problems:
        return 'schema-restore-conflicts-with-appended-undo'
  if 'ReplaceTableData' in loc['done_docs'] or doc == 'ReplaceTableData':
    return 'ReplaceTableData-undo-clears-formula-columns'
  if injected and doc is None and loc['point'] in ('set', 'sum:add_changes', 'undo.pop', 'undo.append', 'undo.insert') \
     and cells and all(c is None or (t, c) in (run.pending | set(loc['calc_cells'])) or is_formula_col(run, t, c)
                       for (t, c) in cells):
    # the failure strikes inside the recording machinery itself, outside any doc action: between the cell write of a
    # recalculation / type conversion (engine._recompute_step, useractions.doModifyColumn) and summary.add_changes,
    # or inside flush_calc_changes_for_column after the deltas were popped: the write is in no undo action and in
    # no summary delta, so neither the flush nor the revert sees it
    return 'crash-between-calc-write-and-its-record'
  pend = run.pending | set(loc['calc_cells'])
  def is_formula(t, c):
    return bool((run.before_schema.get(t, {}).get(c) or ('', False))[1])
  nonexistent = None
  if not injected and isinstance(run.raised, AssertionError) and 'for non-existent record #' in str(run.raised):
    try:
      nonexistent = int(str(run.raised).split('#')[-1].rstrip("')\" "))
    except ValueError:
      nonexistent = None
  if doc == 'BulkRemoveRecord' and loc['point'] == 'sum:remove_records' and loc['undos'] >= 1 and pend and \
     nonexistent is not None and nonexistent in loc.get('doc_rows', []):
    # the failure strikes between undo.append and summary.remove_records of a BulkRemoveRecord whose row has a pending
    # calc delta: the summary still believes the row is there and the flush APPENDS the restoring update; it runs
    # first, the row is gone, the replay fails its assert and _undo_to_checkpoint raises
    return 'BulkRemoveRecord-crash-before-summary-mark'
  readd = readded_rows(run)
  if readd and pend and nonexistent is not None and \
     any(r == nonexistent and t == loc.get('doc_table', t) for (t, r) in readd):
    # same root cause as the rule below, seen inside the re-adding BulkAddRecord: the appended restoring update runs
    # before the undo of the removal has brought the row back, fails its assert, and the rollback raises
    return 'recomputed-cell-of-readded-row-not-restored'
  if readd and run.diff_rows and \
     set(run.diff_cells) == {(t, c) for (t, c, _r) in run.diff_rows} and \
     pend and all((t, r) in readd and is_formula(t, c) for (t, c, r) in run.diff_rows) and \
     all(c is not None and is_formula(t, c) for (t, c) in run.emitted_cells):
    # a formula cell recomputed inside the bundle whose row was then removed and added again under the same id:
    # the summary treats the row as preserved and appends the restoring update at the BACK of the undo list (it
    # runs first); the undo of the BulkRemoveRecord then re-adds the row with the recomputed value it captured
    # (or, if the row was re-added before the recalculation and removed again, the front restore writes the start
    # value of the re-added row).  Only formula cells of rows removed AND re-added in the failed bundle differ.
    return 'recomputed-cell-of-readded-row-not-restored'
  if pend and cells and all((t, c) in pend for (t, c) in run.diff_cells if c is not None) and \
     all(c is not None or any(pt == t for pt, _ in pend) for (t, c) in run.diff_cells) and \
     all((t, c) in pend or (c is not None and is_formula(t, c)) or (c is None and any(pt == t for pt, _ in pend))
         for (t, c) in run.emitted_cells):
    # (the following Calculate may also re-emit formula cells that depend on the stale ones)
    # formula cells recomputed inside the bundle (bring_col_up_to_date) or saved into the summary (RemoveColumn of a
    # formula column, doModifyColumn conversions): their deltas sit in out_actions.summary, which rollback drops
    return 'pending-calc-delta-survives-rollback'
  replaced = [d for d in loc['done_docs'] if d in ('ModifyColumn', 'RenameColumn', 'RemoveColumn', 'RenameTable',
                                                    'RemoveTable')]
  if replaced and not run.diff_cells and run.emitted_cells and all(
      c is not None and SORTED_LOOKUP.search((run.before_schema.get(t, {}).get(c) or ('', 0, ''))[2] or '')
      for (t, c) in run.emitted_cells):
    # not a rollback defect: a sorted lookup (order_by / PREVIOUS / NEXT / RANK) keeps the sort key of a Column
    # object that ModifyColumn/RenameColumn destroyed (also after a SUCCESSFUL ModifyColumn: C05/C13); the rollback
    # replaces the column object once more and the next Calculate re-reads the stale order
    return 'sorted-lookup-keeps-destroyed-column-object'
  return 'unclassified-trace-after-failure'


def is_formula_col(run, t, c):
  return bool((run.before_schema.get(t, {}).get(c) or ('', False))[1])


def calc_tables(loc, run):
  return {t for t, _ in run.pending} | {t for t, _ in loc['calc_cells']}


# ---------------------------------------------------------------------------------------------------------------
# tie: per doc action (micro-step order, state after, undo appended) and per fault run (rollback prediction)

class TieCollector(object):
  def __init__(self, limit_per_kind):
    self.limit = limit_per_kind
    self.per_kind = collections.Counter()
    self.cases = []       # (coq term, description)

  def hooks(self):
    def enter(engine, name, args):
      if RI.REC.phase != 'actions' and False:
        return None
      if self.per_kind[name] >= self.limit:
        return None
      enc = RM.Enc()
      tables = RM.tables_of_action(name, args)
      try:
        return {'enc': enc, 'tables': tables, 'doc': enc.doc(engine, tables), 'ord': enc.ord(engine, tables),
                'action': enc.action(name, args)}
      except core.TieBroken:
        raise
      except Exception as ex:
        return {'error': repr(ex)}
    def leave(engine, name, args, completed):
      d = RI.REC.docs[-1]
      b = d.get('before')
      if not b or 'error' in b:
        return None
      enc = b['enc']
      sigs = []
      usigs = []
      for (pname, detail) in d['steps'][1:]:
        s = enc.step_sig(engine, pname, detail)
        if s is not None:
          sigs.append(s)
        if pname == 'undo.append':
          usigs.append(enc.action_sig(detail))
      after = enc.doc(engine, b['tables'])
      # a ModifyColumn that changes the type re-stores every cell through the new Column class's set(), whose
      # normalisation (Ref/RefList clean-up, Bool, ChoiceList) is outside the model: compare steps and undo only
      cmp_state = not (name == 'ModifyColumn' and 'type' in args[2])
      term = '(%s, %s, %s, %s, %s, %s, %s, %s)' % (b['doc'], b['action'], b['ord'], RM.Enc.sigs_lit(sigs), after,
                                                RM.Enc.sigs_lit(usigs), core.boollit(completed),
                                                core.boollit(cmp_state))
      self.per_kind[name] += 1
      self.cases.append((term, '%s%r completed=%s' % (name, tuple(args)[:2], completed)))
      return None
    return enter, leave


DOC_TIE_CHECK = (
  'fun c : doc * action * (Z -> list Z) * list (list Z) * doc * list (list Z) * bool * bool => '
  'let \'(d, a, ord, sigs, d2, usigs, completed, cmp_state) := c in '
  'let steps := doc_steps ord d a in '
  'bool_decide (visible_sigs steps = sigs) && '
  'match exec_all (init_state d []) steps with '
  '| Some st => completed && (negb cmp_state || bool_decide (ms_doc st = d2)) '
  '&& bool_decide (d_schema (ms_doc st) = d_schema d2) && bool_decide (map action_sig (ms_undo st) = usigs) '
  '| None => negb completed end')


def tie_plan(run):
  """Translate the recorded trace of the 'actions' phase of a fault-free run into model events.
  Returns None if the bundle did something the model has no event for (per-column flush of calc deltas, a doc action
  applied from inside a calc batch, a calc batch over several columns); otherwise a dict with
    events : [('doc', name, args) | ('calc', table, col, [(row, value)])]
    where  : {engine crash point index: (event number, visible model steps already done, at_start)}
    tables : table ids the events touch."""
  events, where, tables = [], {}, []
  cur = None            # open calc batch: [table, col, cells]
  cur_doc = None
  j = 0
  def touch(t):
    if t not in tables:
      tables.append(t)
  for (idx, name, doc, phase, det) in run.events:
    if phase != 'actions':
      break
    if doc is not None:
      if cur is not None:
        return None                      # doc action inside a calc batch
      if doc != cur_doc:
        d = [x for x in run.docs if x['serial'] == doc][0]
        events.append(('doc', d['name'], d['args']))
        for t in RM.tables_of_action(d['name'], d['args']):
          touch(t)
        cur_doc, j = doc, 0
        where[idx] = (len(events) - 1, 0, True)
        continue
      where[idx] = (len(events) - 1, j, False)
      if name in ('undo.insert', 'undo.pop', 'undo.reappend'):
        return None
      if modelled_point(name, det):
        j += 1
      continue
    cur_doc = None
    if name == 'ua-end':
      if cur is not None:
        return None
      where[idx] = (len(events), 0, True)
    elif name == 'set':
      t, c, r, v, private = det
      if private or c.startswith('#') or c == 'id':
        where[idx] = (len(events), 0, True) if cur is None else (len(events), len(cur[2]), False)
        continue
      if not isinstance(v, (int, float, str, bool, type(None))):
        return None                      # Record / RecordList / list values are normalised by the Column class on set
      if cur is None:
        cur = [t, c, []]
        touch(t)
      elif (cur[0], cur[1]) != (t, c):
        return None
      where[idx] = (len(events), len(cur[2]), False)
      cur[2].append((r, v))
    elif name == 'sum:add_changes':
      if cur is None or (det[0], det[1]) != (cur[0], cur[1]):
        return None
      where[idx] = (len(events), len(cur[2]), False)
      events.append(('calc', cur[0], cur[1], cur[2]))
      cur = None
    else:
      return None                        # flush_calc_changes_for_column etc.
  if cur is not None:
    return None
  return {'events': events, 'where': where, 'tables': tables}


def modelled_point(name, det):
  if name in ('set', 'copy', 'clear'):
    return det[1] == 'id' or not (det[-1] or det[1].startswith('#'))
  return True


def enc_events(enc, events):
  out = []
  for ev in events:
    if ev[0] == 'doc':
      out.append('(EDoc %s)' % enc.action(ev[1], ev[2]))
    else:
      out.append('(ECalc %s %s %s)' % (core.zlit(enc.name(ev[1])), core.zlit(enc.name(ev[2])),
                                       core.coq_list(['(%s, %s)' % (core.zlit(r), core.zlit(enc.val(v)))
                                                      for r, v in ev[3]])))
  return core.coq_list(out)


ROLLBACK_TIE_CHECK = (
  'fun c : doc * (Z -> list Z) * list event * nat * nat * bool * bool * bool => '
  'let \'(d, ord, es, i, j, at_start, restored, rollback_ok) := c in '
  'let st0 := init_state d [] in '
  'let k := crash_index ord st0 es i j at_start in '
  'match run_until_crash ord st0 es k with '
  '| Crashed st _ _ => match rollback_flush ord st (sum_log (run_log ord st0 es k)) with '
  '    | Some d2 => rollback_ok && Bool.eqb (bool_decide (d2 = d)) restored '
  '    | None => negb rollback_ok end '
  '| Finished _ => false end')


def regression_corpus(ctx, prop_id, replay_kind_fn):
  """Witnesses of findings that were repaired in /repo (kind 'fixed' in known_findings.json) are replayed first on
  every run: if one fails again it is reported under its old kind, which no entry suppresses any more."""
  n = 0
  for k in core.load_known():
    if k['property'] != prop_id or k.get('kind') != 'fixed' or 'witness' not in k:
      continue
    n += 1
    try:
      r = replay_kind_fn(k['witness'])
    except core.TieBroken:
      raise
    except Exception as ex:
      r = ('regression-witness-raises', repr(ex)[:300])
    ctx.count(('regression', k['id']), nontrivial=True, kind='regression-witness')
    if r is not None:
      ctx.violation(r[0], 'REGRESSION of %s (fixed by %s): %s' % (k['id'], k.get('commit'), r[1]), k['witness'])
  ctx.extra['regression_witnesses_replayed'] = n



# ---------------------------------------------------------------------------------------------------------------

def sample_points(ctx, run, limit):
  """Crash points to try: all of them when the bundle has at most `limit` (thorough: 160, i.e. every crash point of
  all but the largest metadata cascades), else a sample stratified by (doc action, point)."""
  pts = [i for (i, name, doc, phase, det) in run.events
         if (phase == 'actions' or doc is not None) and name != 'undo.reappend']
  if len(pts) <= limit:
    ctx.bump('bundles-with-all-crash-points-enumerated')
    return pts
  ctx.bump('bundles-with-sampled-crash-points')
  groups = collections.OrderedDict()
  for i in pts:
    _i, name, doc, phase, det = run.events[i]
    dn = None
    if doc is not None:
      dn = [x for x in run.docs if x['serial'] == doc][0]['name']
    groups.setdefault((dn, name, phase), []).append(i)
  out = []
  keys = list(groups)
  ctx.rng.shuffle(keys)
  while len(out) < limit and keys:
    for k in list(keys):
      g = groups[k]
      out.append(g.pop(ctx.rng.randrange(len(g))))
      if not g:
        keys.remove(k)
      if len(out) >= limit:
        break
  return sorted(out)


def check_fault_run(ctx, log, bundle, base, idx, stats):
  """Rebuild the document, inject the fault before step idx, evaluate the C04 oracle."""
  ld = LoggedDoc(log)
  plan = getattr(base, 'plan', None)
  tie = None
  if plan is not None and idx in plan['where'] and ctx is not None and getattr(ctx, '_c04_tie_budget', 0) > 0:
    enc = RM.Enc()
    tie = {'enc': enc, 'd0': enc.doc(ld.e, plan['tables']), 'ord': enc.ord(ld.e, plan['tables'])}
  run = run_bundle(ld, bundle, fault_at=idx,
                   on_fail=(lambda e: (enc_events(tie['enc'], plan['events']), tie['enc'].doc(e, plan['tables'])))
                   if tie is not None else None)
  if tie is not None and run.raised is not None:
    es, after = run.on_fail
    i, j, at_start = plan['where'][idx]
    rollback_ok = isinstance(run.raised, RI.InjectedFault)
    term = '(%s, %s, %s, %d%%nat, %d%%nat, %s, %s, %s)' % (
      tie['d0'], tie['ord'], es, i, j, core.boollit(at_start), core.boollit(after == tie['d0']),
      core.boollit(rollback_ok))
    ctx._c04_tie_budget -= 1
    ctx._c04_tie_cases.append((term, 'bundle %s fault before step %d' % (json.dumps(bundle, default=repr)[:200], idx)))
  loc = locate(base, idx)
  key = (json.dumps(log, default=repr), json.dumps(bundle, default=repr), idx)
  kind_hist = '%s@%s' % (loc['doc'] or loc['phase'], loc['point'])
  if run.raised is None:
    # the fault was swallowed (formula evaluation turns exceptions into cell errors): the bundle did not fail
    ctx.count(key, nontrivial=False, kind='absorbed:' + kind_hist)
    stats['absorbed'] += 1
    return None
  ctx.count(key, nontrivial=loc['mutations_before'] > 0, kind=kind_hist,
            sample={'bundle': bundle, 'crash_before': loc['point'], 'in': loc['doc'], 'left_trace': run.problems})
  if not run.problems:
    stats['clean'] += 1
    return None
  kind = classify(loc, run)
  stats[kind] += 1
  what = ('bundle %s with a failure injected before step %d (%s%s): %s%s' % (
    json.dumps(bundle, default=repr)[:300], idx, loc['point'], ' inside ' + loc['doc'] if loc['doc'] else '',
    ', '.join(run.problems), '; ' + '; '.join(getattr(run, 'diff', [])[:3]) if getattr(run, 'diff', None) else ''))
  return {'kind': kind, 'what': what,
          'replay': {'log': copy.deepcopy(log), 'bundle': copy.deepcopy(bundle), 'fault_at': idx,
                     'point': loc['point'], 'in': loc['doc']}}


def natural_failure(ctx, log, bundle, stats):
  """The bundle failed by itself: same oracle, same classification (crash point = where it raised)."""
  run = run_bundle(LoggedDoc(log), bundle)
  if run.raised is None:
    return None
  key = ('natural', json.dumps(log, default=repr), json.dumps(bundle, default=repr))
  muts = sum(1 for (j, n, dc, ph, det) in run.events if n in ('set', 'copy', 'clear', 'rebuild', 'undo.append'))
  ctx.count(key, nontrivial=muts > 0, kind='natural:' + type(run.raised).__name__)
  if not run.problems:
    stats['natural-clean'] += 1
    return None
  # the crash point is the end of the recorded trace: inside the last doc action if that one did not complete
  loc = {'index': run.count, 'point': 'raise', 'phase': 'actions', 'doc': None, 'muts': 0, 'rebuilds': 0, 'undos': 0,
         'total_undos': 0, 'calc_cells': [(det[0], det[1]) for (j, n, dc, ph, det) in run.events
                                         if dc is None and n == 'set' and not det[4]],
         'done_docs': [d['name'] for d in run.docs if d['completed']],
         'mutations_before': muts}
  if run.docs and not run.docs[-1]['completed'] and run.docs[-1]['phase'] == 'actions':
    d = run.docs[-1]
    loc.update(doc=d['name'], doc_table=d['args'][0],
               muts=sum(1 for s, _ in d['steps'] if s in ('set', 'copy', 'clear')),
               rebuilds=sum(1 for s, _ in d['steps'] if s == 'rebuild'),
               undos=sum(1 for s, _ in d['steps'] if s.startswith('undo')))
    loc['total_undos'] = loc['undos'] + 1      # it raised before finishing: at least one undo append was still due
  kind = classify(loc, run)
  stats['natural:' + kind] += 1
  what = 'bundle %s raised %s; afterwards: %s%s' % (
    json.dumps(bundle, default=repr)[:300], type(run.raised).__name__, ', '.join(run.problems),
    '; ' + '; '.join(getattr(run, 'diff', [])[:3]) if getattr(run, 'diff', None) else '')
  return {'kind': kind, 'what': what,
          'replay': {'log': copy.deepcopy(log), 'bundle': copy.deepcopy(bundle), 'fault_at': None}}


def shrink_violation(ctx, v):
  """Drop bundles of the log that are not needed for the same kind of failure."""
  w = v['replay']
  def fails(log):
    r = replay_kind(dict(w, log=log))
    return r is not None and r[0] == v['kind']
  if len(w['log']) > 1 and w.get('fault_at') is None:
    try:
      w['log'] = histgen.shrink_list(w['log'], fails, max_steps=40)
    except Exception:
      pass
  return v


def replay_kind(w):
  """(kind, description) if the witness still leaves a trace on the current tree, else None."""
  log = w['log']
  stats = collections.Counter()
  class _C(object):
    tier = 'thorough'
    def count(self, *a, **k):
      pass
  if w.get('fault_at') is None:
    v = natural_failure(_C(), log, w['bundle'], stats)
  else:
    base = run_bundle(LoggedDoc(log), w['bundle'])
    if w['fault_at'] >= base.count:
      return None
    v = check_fault_run(_C(), log, w['bundle'], base, w['fault_at'], stats)
  if v is None:
    return None
  return v['kind'], v['what']


def replay(ctx, w):
  r = replay_kind(w)
  return None if r is None else '%s: %s' % r


# ---------------------------------------------------------------------------------------------------------------

def gen_runs(ctx):
  """Yields (LoggedDoc before the bundle, bundle) for generated histories."""
  n_hist = ctx.n(3, 10)
  nb = ctx.n(3, 5)
  for h in range(n_hist):
    gen = Gen(ctx.rng)
    ld = LoggedDoc()
    # document setup through the same generator (logged)
    for _ in range(ctx.rng.randint(1, 2)):
      ld.try_apply([gen.gen_addtable(histgen.Meta(ld.e))])
      gen.after_bundle(ld.e)
    for kind in ('addformula', 'addrec', 'addformula', 'summary', 'addrec'):
      a = gen.gen(kind, histgen.Meta(ld.e))
      if a is not None and ld.try_apply([a]) is not None:
        gen.after_bundle(ld.e)
    for b in range(nb):
      bundle = gen.bundle(ld.e)
      if ctx.rng.random() < 0.25:
        bundle = (gen.readd_pattern(ld.e) or []) + bundle
      if ctx.rng.random() < 0.35:
        bundle = bundle + [gen.failing_tail(ld.e)]
      yield ld, bundle
      # advance the history (a failed bundle stays in the log: later documents may be dirty, as in real use)
      log_before = list(ld.log)
      out = ld.try_apply(bundle)
      if out is not None:
        gen.after_bundle(ld.e)
      else:
        # every bundle under test starts from a document reached by successful bundles only: a failed bundle may
        # leave stale cells behind (that is what this check reports), which would be blamed on later bundles
        ld = LoggedDoc(log_before)


def regenerate(ctx):
  """coq/gen/Rollback_gen.v from engine.py / docactions.py / action_obj.py / action_summary.py (harness/rb2v.py)."""
  from harness import rb2v
  ctx._rb2v_info = rb2v.regenerate(ctx)


def validate_translation(ctx):
  """Differential validation of harness/rb2v.py: generated definitions (vm_compute) vs the running functions."""
  from harness import rb2v
  info = getattr(ctx, '_rb2v_info', None)
  if info is None:
    return
  cases, descs = rb2v.checkpoint_cases(ctx.rng, ctx.n(60, 600))
  bad = ctx.run_cases('rb2v_checkpoint', ['Grist.Lib.RbPrelude', 'GristGen.Rollback_gen'], rb2v.VALIDATE_CHECK, cases,
                      shard=300, extra_defs=rb2v.VALIDATE_DEFS, timeout=300)
  for i in bad[:5]:
    ctx.broken('translation:harness/rb2v.py output differs from the running Engine._undo_to_checkpoint', descs[i])
  obad = rb2v.order_mismatches(info, run_bundle, LoggedDoc)
  for b in obad:
    ctx.broken('translation:harness/rb2v.py effect order differs from the instrumented engine', b)
  ctx.extra['rb2v_validation'] = {'checkpoint_cases': len(cases), 'checkpoint_mismatches': len(bad),
                                  'order_probes': 4, 'order_mismatches': len(obad)}
  ctx.log('rb2v: %d checkpoint cases (%d mismatches), 4 order probes (%d mismatches)' % (len(cases), len(bad), len(obad)))


def correspond(ctx):
  """Tie: for real doc actions, recorded order of instrumented calls == the model's micro-step list, tables after ==
  model state after, undo actions appended == model's."""
  validate_translation(ctx)
  tc = TieCollector(ctx.n(10, 120))
  ctx._c04_runs = []
  hooks = tc.hooks()
  for ld, bundle in gen_runs(ctx):
    base = run_bundle(LoggedDoc(ld.log), bundle, hooks=hooks)
    ctx._c04_runs.append((copy.deepcopy(ld.log), copy.deepcopy(bundle), base))
  ctx.log('tie: %d doc actions recorded (%s)' % (len(tc.cases), dict(tc.per_kind)))
  ctx.extra['tie_doc_actions'] = dict(tc.per_kind)
  bad = ctx.run_cases('docsteps', RM.IMPORTS, DOC_TIE_CHECK, [c for c, _ in tc.cases], shard=30,
                      extra_defs=RM.EXTRA_DEFS, timeout=600)
  for i in bad[:8]:
    ctx.broken('correspondence:micro-step order / state / undo of a doc action differs from Model/Rollback.v',
               tc.cases[i][1])
  ctx.extra['tie_mismatches'] = len(bad)


def search(ctx):
  stats = collections.Counter()
  regression_corpus(ctx, ID, replay_kind)
  ctx._c04_tie_budget = ctx.n(24, 500)
  ctx._c04_tie_cases = []
  runs = getattr(ctx, '_c04_runs', None)
  if runs is None:
    correspond_runs = []
    for ld, bundle in gen_runs(ctx):
      correspond_runs.append((copy.deepcopy(ld.log), copy.deepcopy(bundle), run_bundle(LoggedDoc(ld.log), bundle)))
    runs = correspond_runs
  per_bundle = ctx.n(5, 160)
  seen_kinds = collections.Counter()
  for log, bundle, base in runs:
    base.plan = tie_plan(base) if base.raised is None else None
    stats['bundles'] += 1
    stats['bundles-with-model-events-only'] += 1 if base.plan is not None else 0
    if base.raised is not None:
      v = natural_failure(ctx, log, bundle, stats)
      if v is not None:
        report(ctx, v, seen_kinds)
      continue
    for idx in sample_points(ctx, base, per_bundle):
      v = check_fault_run(ctx, log, bundle, base, idx, stats)
      if v is not None:
        report(ctx, v, seen_kinds)
  directed_family(ctx, stats, seen_kinds)
  # natural failures found by the shared history run (harness/histrun.py), re-run under the recorder
  try:
    from harness import histrun
    res = histrun.shared_run(ctx.tier, ctx.seed, ctx.n(8, 150), 10)
    for iss in res['issues']:
      if iss['prop'] != 'C04':
        continue
      w = {'log': iss['replay']['history'], 'bundle': iss['replay']['bundle'], 'fault_at': None}
      r = replay_kind(w)
      stats['histrun-c04-issues'] += 1
      if r is None:
        stats['histrun-c04-issue-not-reproduced-from-its-log'] += 1
        continue
      report(ctx, {'kind': r[0], 'what': r[1], 'replay': w}, seen_kinds)
    ctx.extra['histrun_stats'] = res.get('stats')
  except core.TieBroken:
    raise
  except Exception as ex:
    ctx.notes.append('shared history run not available: %r' % (ex,))
  ctx.extra['fault_runs'] = dict(stats)
  ctx.log('fault enumeration: %s' % dict(stats))
  # tie, part 2: the model predicts for each of these fault runs whether the rollback restores the document
  cases = ctx._c04_tie_cases
  ctx.extra['tie_rollback_predictions'] = len(cases)
  bad = ctx.run_cases('rollback', RM.IMPORTS, ROLLBACK_TIE_CHECK, [c for c, _ in cases], shard=25,
                      extra_defs=RM.EXTRA_DEFS, timeout=600)
  for i in bad[:8]:
    ctx.broken('correspondence:Model/Rollback.v does not predict the outcome of the engine\'s rollback', cases[i][1])
  ctx.extra['tie_rollback_mismatches'] = len(bad)


DIRECTED_LOG = [
  [['AddTable', 'T', [{'id': 'A', 'type': 'Int', 'isFormula': False},
                      {'id': 'B', 'type': 'Int', 'isFormula': True, 'formula': '$A*2'},
                      {'id': 'C', 'type': 'Int', 'isFormula': False}]]],
  [['AddRecord', 'T', 1, {'A': 1}], ['AddRecord', 'T', 2, {'A': 2}]],
]
DIRECTED_PRE = [['UpdateRecord', 'T', 2, {'A': 10}], ['CopyFromColumn', 'T', 'B', 'C', None]]
DIRECTED_FOLLOWUPS = [
  ['RenameColumn', 'T', 'B', 'N'], ['RemoveColumn', 'T', 'B'], ['RenameTable', 'T', 'T5'], ['RemoveTable', 'T'],
  ['RenameColumn', 'T', 'A', 'N'], ['RemoveColumn', 'T', 'A'], ['RemoveRecord', 'T', 2], ['AddRecord', 'T', 3, {'A': 7}],
  ['AddColumn', 'T', 'E', {'type': 'Int', 'isFormula': False}], ['UpdateRecord', 'T', 1, {'A': 5}],
  ['CopyFromColumn', 'T', 'B', 'C', None], ['CopyFromColumn', 'T', 'N', 'C', None], ['CopyFromColumn', 'T5', 'B', 'C', None],
  ['RemoveRecord', 'T5', 2], ['RenameColumn', 'T5', 'B', 'N'], ['RemoveColumn', 'T5', 'B'], ['RenameTable', 'T5', 'T'],
  ['RenameColumn', 'T', 'N', 'B'], ['AddColumn', 'T', 'B', {'type': 'Int', 'isFormula': True, 'formula': '$A*3'}],
  ['RemoveTable', 'T5'], ['ModifyColumn', 'T', 'B', {'formula': '$A*5'}], ['ModifyColumn', 'T', 'B', {'isFormula': False}],
  ['ModifyColumn', 'T', 'B', {'type': 'Text'}], ['AddRecord', 'T', 2, {'A': 8}],
]


def directed_family(ctx, stats, seen_kinds):
  """The bundles of Proofs/Rollback_bounded.v on the real engine (plus ModifyColumn): a forced recalculation, then up
  to three row / column / table actions on the recomputed column, its table or their renamed successors, then an
  action that raises.  quick: a seeded sample; thorough: every sequence of length <= 2 and a sample of length 3."""
  n = len(DIRECTED_FOLLOWUPS)
  combos = []
  if ctx.tier == 'quick':
    for _ in range(10):
      combos.append([ctx.rng.randrange(n) for _ in range(ctx.rng.randint(1, 3))])
  else:
    combos = [[i] for i in range(n)] + [[i, j] for i in range(n) for j in range(n)]
    for _ in range(400):
      combos.append([ctx.rng.randrange(n) for _ in range(3)])
  for combo in combos:
    bundle = copy.deepcopy(DIRECTED_PRE) + [copy.deepcopy(DIRECTED_FOLLOWUPS[i]) for i in combo] + \
             [['RemoveRecord', 'NoSuchTable', 1]]
    stats['directed-bundles'] += 1
    v = natural_failure(ctx, copy.deepcopy(DIRECTED_LOG), bundle, stats)
    if v is not None:
      report(ctx, v, seen_kinds)


def report(ctx, v, seen_kinds):
  seen_kinds[v['kind']] += 1
  if seen_kinds[v["kind"]] > (12 if v["kind"].startswith("unclass") else 3):
    return                       # enough witnesses of this root cause in one run
  ctx.violation(v['kind'], v['what'], v['replay'])
