"""C32 -- CSV import keeps every cell (imports/import_csv.py, import_utils.py, parse_data.get_table_data)."""
import copy
import csv
import io
import itertools
import logging
import os

from harness import core, csv2v

ID = 'C32'
TITLE = 'CSV import keeps every cell'
PROPS = ['Props/C32']
RULE = ('random text grids of 0-300 rows (small 0-6, medium, around the 100-row sample boundary, large), base width '
        '1-5, ragged rows, optional header row / title row, blank rows ([] and all-"" rows, also as first row), '
        'blank columns, one or two wide rows placed before or after row 100, cells with delimiters, quote '
        'characters, CR/LF/CRLF, leading/trailing blanks, numbers, non-ASCII text and (rarely) Unicode line-break '
        'characters; written with csv.writer on an explicit dialect (delimiter, quotechar, lineterminator, '
        'QUOTE_MINIMAL/QUOTE_ALL) and imported with the same explicit options, include_col_names_as_headers '
        'absent/True/False, NUM_ROWS mostly absent; thorough adds every grid of <= 3 rows with <= 2 cells over '
        '{"", "a", "1", " "} under the three header settings. A case is non-trivial when a table with at least '
        'one data row is produced.')
TRUSTED = ['harness/csv2v.py: fail-closed translator (typed Python AST -> Gallina) that REGENERATES coq/gen/Csv_gen.v on every '
           'run from import_utils.{empty, column_count_modal, _count_nonempty, find_first_non_empty_row, _is_header, '
           'expand_headers, headers_guess}, parse_data.get_table_data and the statements of '
           'import_csv._parse_open_file between `rows = list(reader)` and `if not table_data:`; validated on every '
           'run by evaluating each translated function and the running Python function on the same arguments',
           'Lib/CsvPrelude.v: meaning of the Python builtins the translated code uses (enumerate, zip, slices, islice, '
           'max, defaultdict(int), loops with return/break/continue) and of parse_data\'s converter objects on str '
           'cells (AnyConverter = identity, one column dict per converter; monitored on every case: column type '
           '"Any", cells are str)',
           'Proofs/Csv_bridge.v proves against the regenerated text that every translated function equals the '
           'hand-written Model/Csv.v function (theorems C32_gen_*), so the model is no longer a trusted transcription; '
           'it is additionally compared with imports.import_csv.parse_file on every generated case',
           'decoding (open with newline=""), dialect sniffing and csv.reader are OUTSIDE the translated/model part, '
           'which starts from the grid of string rows; monitored on every case: the rows the importer obtains from '
           'csv.reader equal the grid that was written with csv.writer on the same explicit dialect; the tail of '
           '_parse_open_file (export of column_metadata/table_data) is checked structurally by the translator',
           'import_utils._is_numeric (float()/int() of a header cell) is an arbitrary boolean function; the theorems '
           'hold for every such function; the correspondence supplies its real values per case',
           'str.strip()/isspace() whitespace set (Model/Csv.v is_space, strip): compared with CPython over all code '
           'points on every run']
ASSUMPTIONS = ['data rows are the rows after the importer\'s own data offset (title rows above the detected header '
               'are its documented heuristic); non-blank is the importer\'s own empty() (not value.strip())',
               'C32_cells_kept (current source, after fix 6b8f366) has no hypotheses; the *_before_fix theorems are '
               'about import_csv_gen false, the source before that commit, and document what the fix was needed for']

LINEBREAKS = u'\x0b\x0c\x1c\x1d\x1e\x85\u2028\u2029'
SAMPLE = 100


# --------------------------------------------------------------------------------------------------
# running the implementation

class _ReaderCapture(object):
  def __init__(self, real, sink):
    self._real = real
    self._sink = sink

  def __iter__(self):
    for r in self._real:
      self._sink.append(list(r))
      yield r

  def __getattr__(self, name):
    return getattr(self._real, name)


class _CsvProxy(object):
  """Stands in for the `csv` module inside import_csv so that the rows csv.reader yields are observable."""
  def __init__(self, real, sink):
    self._real = real
    self._sink = sink

  def __getattr__(self, name):
    return getattr(self._real, name)

  def reader(self, f, *a, **kw):
    del self._sink[:]
    return _ReaderCapture(self._real.reader(f, *a, **kw), self._sink)


def write_csv(grid, d):
  buf = io.StringIO()
  # csv.writer (QUOTE_MINIMAL) quotes a CR only when CR is part of the lineterminator; a bare unquoted CR IS a
  # record end in CSV, so such grids are written with QUOTE_ALL to denote the intended grid.
  quote_all = d.get('quote_all') or ('\r' not in d['lineterminator'] and any('\r' in c for r in grid for c in r))
  w = csv.writer(buf, delimiter=d['delimiter'], quotechar=d['quotechar'], lineterminator=d['lineterminator'],
                 doublequote=True, quoting=csv.QUOTE_ALL if quote_all else csv.QUOTE_MINIMAL)
  for r in grid:
    w.writerow(r)
  return buf.getvalue()


def run_impl(ctx, case):
  """Returns dict(rows=grid seen by the importer, include=flag or None, cols=[(id, data)] or [] (no table),
  monitor=problem text or None)."""
  from imports import import_csv
  logging.getLogger('imports.import_csv').disabled = True
  d = case['dialect']
  text = write_csv(case['grid'], d)
  path = os.path.join(ctx.work, 'case_%d.csv' % os.getpid())
  with io.open(path, 'w', encoding='utf-8', newline='') as f:
    f.write(text)
  opts = {'delimiter': d['delimiter'], 'quotechar': d['quotechar'], 'lineterminator': d['lineterminator'],
          'doublequote': True, 'skipinitialspace': False, 'encoding': 'utf-8'}
  if case.get('headers') is not None:
    opts['include_col_names_as_headers'] = case['headers']
  if case.get('num_rows'):
    opts['NUM_ROWS'] = case['num_rows']
  sink = []
  real = import_csv.csv
  import_csv.csv = _CsvProxy(real, sink)
  try:
    popts, export = import_csv.parse_file(path, opts)
  finally:
    import_csv.csv = real
    try:
      os.remove(path)
    except OSError:
      pass
  if text and not sink:
    raise core.TieBroken('import_csv no longer reads its rows through csv.reader (capture point not hit)')
  monitor = None
  if 'WARNING' in popts:
    monitor = 'importer warning: %s' % (popts['WARNING'],)
  cols = []
  if len(export) > 1:
    monitor = 'more than one table exported'
  for t in export[:1]:
    meta, data = t['column_metadata'], t['table_data']
    if len(meta) != len(data):
      monitor = 'column_metadata and table_data differ in length'
    for m, col in zip(meta, data):
      if m.get('type') != 'Any':
        monitor = 'column type %r for str cells' % (m.get('type'),)
      if not isinstance(m.get('id'), str) or not all(isinstance(v, str) for v in col):
        monitor = 'non-str id or cell in the output'
        col = [v if isinstance(v, str) else repr(v) for v in col]
      cols.append((str(m.get('id')), list(col)))
  return {'rows': [list(r) for r in sink], 'include': popts.get('include_col_names_as_headers'),
          'cols': cols, 'monitor': monitor}


# --------------------------------------------------------------------------------------------------
# the property's own oracle (on the implementation's output)

def blank(c):
  return not c.strip()


def trimmed(r):
  n = 0
  for i, c in enumerate(r):
    if not blank(c):
      n = i + 1
  return n


def match_columns(datarows, header_row, include, cols):
  """Output columns must be, in order, input columns (padded with ""), and every input column with a header text
  or a non-blank data cell must be among them.  Returns None or (what, column)."""
  width = max([len(r) for r in datarows] + [len(header_row) if include else 0] + [0])
  k = 0
  for j in range(width):
    colj = [r[j] if j < len(r) else u'' for r in datarows]
    idj = header_row[j].strip() if include and j < len(header_row) else u''
    must = idj != u'' or any(not blank(c) for c in colj)
    if k < len(cols) and cols[k][0].strip() == idj and cols[k][1] == colj:
      k += 1
    elif must:
      i = next((i for i, c in enumerate(colj) if not blank(c)), None)
      return ('lost', 'input column %d (header %r%s) is not in the output at its place' % (
          j, idj, '' if i is None else ', cell %r in data row %d' % (colj[i], i)))
  if k < len(cols):
    return ('invented', 'output column %d (id %r) is not an input column at its place' % (k, cols[k][0]))
  return None


def oracle_cells(grid, headers_opt, include, cols):
  """NUM_ROWS absent. Returns None or (kind, what)."""
  anything = any(not blank(c) for r in grid for c in r)
  if not cols:
    if not anything:
      return None
    if (grid and grid[0] == [] and headers_opt is not True and
        all(sum(1 for c in r if not blank(c)) <= 1 for r in grid[:SAMPLE])):
      return ('blank-first-row-no-table', 'no table at all is produced although the file has non-blank cells '
              '(first line blank, single-column data)')
    return ('no-table', 'no table is produced although the file has non-blank cells')
  if headers_opt is not None and include != headers_opt:
    return ('headers-option', 'include_col_names_as_headers=%r given, %r reported' % (headers_opt, include))
  n = len(cols[0][1])
  if any(len(d) != n for _, d in cols):
    return ('ragged-columns', 'columns of different lengths %r' % ([len(d) for _, d in cols],))
  k = len(grid) - n
  if k < 0 or (include and k < 1):
    return ('row-count', '%d entries per column for %d rows (headers=%r)' % (n, len(grid), include))
  datarows = grid[k:]
  header_row = grid[k - 1] if include else []
  titles = grid[:k - 1] if include else grid[:k]
  if not include and n == 0:
    return ('row-count', 'table without header row and without data rows')
  first_kept = header_row if include else datarows[0]
  for t in titles:
    if trimmed(t) >= max(trimmed(first_kept), 1) and trimmed(t) > 0:
      return ('offset', 'skipped row %r is as wide as the first kept row %r' % (t, first_kept))
  m = match_columns(datarows, header_row, include, cols)
  if m is None:
    return None
  if m[0] == 'lost':
    lo = k - 1 if include else k
    # the violation is of the known kind when it vanishes once the cells of the rows after the sample that lie
    # beyond some width w are removed, w at least the trimmed width of every kept row of the sample
    lo_w = max([trimmed(r) for r in grid[lo:SAMPLE]] + [0])
    hi_w = max([len(r) for r in grid[lo:SAMPLE]] + [lo_w])
    for ws in range(lo_w, hi_w + 1):
      cut = grid[:SAMPLE] + [r[:ws] for r in grid[SAMPLE:]]
      if cut != grid and match_columns(cut[k:], header_row, include, cols) is None:
        return ('late-wide-row', 'a row after the first %d rows is wider than all of them: %s' % (SAMPLE, m[1]))
  return (m[0], m[1])


def check_case(ctx, case, res=None):
  """Full oracle for one case: (kind, what) or None."""
  if res is None:
    res = run_impl(ctx, case)
  grid = case['grid']
  if res['rows'] != grid:
    if any(ch in c for r in grid for c in r for ch in LINEBREAKS):
      tr = {ord(ch): u'X' for ch in LINEBREAKS}
      case2 = dict(case, grid=[[c.translate(tr) for c in r] for r in grid])
      res2 = run_impl(ctx, case2)
      if res2['rows'] == case2['grid']:
        return ('reader-linebreak-split', 'an unquoted cell containing one of VT FF FS GS RS NEL LS PS is split '
                'into two records by codecs.open line iteration: wrote %r..., importer read %r...' % (
                    _first_diff(grid, res['rows'])))
    return ('reader-roundtrip', 'csv.reader inside the importer does not return the written grid: wrote %r..., '
            'read %r...' % _first_diff(grid, res['rows']))
  if res['monitor']:
    return ('monitor', res['monitor'])
  if case.get('num_rows'):
    n = case['num_rows']
    if res['cols'] and (any(len(d) != len(res['cols'][0][1]) for _, d in res['cols']) or
                        (n > 0 and len(res['cols'][0][1]) > n)):
      return ('ragged-columns', 'NUM_ROWS=%d: column lengths %r' % (n, [len(d) for _, d in res['cols']]))
    return None
  return oracle_cells(grid, case.get('headers'), res['include'], res['cols'])


def _first_diff(a, b):
  for i in range(max(len(a), len(b))):
    x = a[i] if i < len(a) else None
    y = b[i] if i < len(b) else None
    if x != y:
      return (x, y)
  return (None, None)


# --------------------------------------------------------------------------------------------------
# generators

WORDS = [u'a', u'b', u'c', u'x', u'y', u'z', u'name', u'city', u'total', u'N', u'Id', u'foo bar', u'été',
         u'Ω', u'日本', u'\U0001F600', u'q']
NUMS = [u'1', u'2', u'30', u'4.5', u'-7', u'1e3', u'0', u' 12 ', u'1_000', u'nan', u'٣']
BLANKS = [u'', u'', u'', u' ', u'\t', u'  ', u'\xa0', u'\u3000']
PADDED = [u' a', u'b ', u' c d ', u'\ta', u'x\xa0']


def gen_cell(rng, d, special):
  p = rng.random()
  if p < 0.50:
    return rng.choice(WORDS)
  if p < 0.68:
    return rng.choice(NUMS)
  if p < 0.80:
    return rng.choice(BLANKS)
  if p < 0.86:
    return rng.choice(PADDED)
  if p < 0.86 + special:
    inner = rng.choice([d['delimiter'], d['quotechar'], u'\n', u'\r\n', u'\r', d['quotechar'] * 2,
                        d['delimiter'] + d['quotechar'], u'"', u"'", u',', u'\n\n'])
    return rng.choice([u'', u'a', u' ']) + inner + rng.choice([u'', u'b', u' '])
  return rng.choice(WORDS) + rng.choice(WORDS)


def gen_row(rng, d, width, special, full=False):
  row = [gen_cell(rng, d, special) for _ in range(width)]
  if full:
    row = [c if not blank(c) else rng.choice(WORDS) for c in row]
  return row


def gen_case(rng):
  d = {'delimiter': rng.choice([u',', u',', u';', u'\t', u'|', u':', u' ']),
       'quotechar': rng.choice([u'"', u'"', u"'"]),
       'lineterminator': rng.choice([u'\r\n', u'\n']),
       'quote_all': rng.random() < 0.15}
  tags = []
  p = rng.random()
  if p < 0.40:
    nrows = rng.randint(0, 6)
  elif p < 0.58:
    nrows = rng.randint(7, 60)
  elif p < 0.72:
    nrows = rng.randint(95, 106)
  else:
    nrows = rng.randint(101, 300)
  width = rng.choice([1, 1, 2, 2, 3, 3, 4, 5])
  special = rng.choice([0.0, 0.05, 0.14]) if nrows <= 60 else rng.choice([0.0, 0.02])
  ragged = rng.random() < 0.4
  grid = []
  for _ in range(nrows):
    w = width
    if ragged and rng.random() < 0.3:
      w = max(0, width + rng.choice([-2, -1, -1, 1]))
    grid.append(gen_row(rng, d, w, special))
  # header / title rows
  if grid and rng.random() < 0.5:
    names = rng.sample([u'Name', u'City', u'Total', u'Id', u'Date', u'Note', u' Pad ', u'K'], width)
    if rng.random() < 0.2:
      names[rng.randrange(width)] = u''
    grid[0] = names
    tags.append('header')
    if rng.random() < 0.25:
      grid.insert(0, [rng.choice([u'Report', u'Title 2024', u''])])
      tags.append('title')
  # blank rows
  if grid and rng.random() < 0.35:
    for _ in range(rng.randint(1, 3)):
      pos = rng.choice([0, 0, 1, rng.randint(0, len(grid)), len(grid)])
      grid.insert(pos, rng.choice([[], [], [u''], [u''] * width, [u' '] * width]))
    tags.append('blankrow')
  # blank column
  if grid and width >= 2 and rng.random() < 0.3:
    j = rng.randrange(width)
    keep_header = rng.random() < 0.5
    for i, r in enumerate(grid):
      if j < len(r) and not (keep_header and i == 0):
        r[j] = rng.choice([u'', u'', u'', u' ']) if rng.random() < 0.1 else u''
    tags.append('blankcol')
  # wide rows
  if grid and rng.random() < 0.5:
    for _ in range(rng.choice([1, 1, 2])):
      extra = rng.randint(1, 3)
      wide = gen_row(rng, d, width + extra, special, full=rng.random() < 0.8)
      if len(grid) > SAMPLE and rng.random() < 0.6:
        pos = rng.randint(SAMPLE, len(grid) - 1)
      else:
        pos = rng.randint(0, min(len(grid), SAMPLE) - 1)
      grid[pos] = wide
      tags.append('wide-after-%d' % SAMPLE if pos >= SAMPLE else 'wide-before-%d' % SAMPLE)
  # rarely: a Unicode line-break character inside a cell
  if grid and rng.random() < 0.03:
    r = rng.choice(grid)
    if r:
      j = rng.randrange(len(r))
      r[j] = u'p' + rng.choice(LINEBREAKS) + u'q'
      tags.append('linebreak-char')
  headers = rng.choice([None, None, True, False])
  num_rows = 0
  if rng.random() < 0.08:
    num_rows = rng.choice([1, 2, 5, 99, 100, 101, len(grid) + 1, -1])
  return {'grid': grid, 'dialect': d, 'headers': headers, 'num_rows': num_rows, 'tags': sorted(set(tags))}


def fixed_cases():
  d = {'delimiter': u',', 'quotechar': u'"', 'lineterminator': u'\r\n', 'quote_all': False}
  out = []
  for h in (None, True, False):
    out.append({'grid': [[u'a', u'b']] * 120 + [[u'x', u'y', u'z']], 'headers': h})
    out.append({'grid': [[u'h1', u'h2']] + [[u'a', u'b']] * 99 + [[u'x', u'y', u'z']], 'headers': h})
    out.append({'grid': [[u'a', u'b']] * 99 + [[u'x', u'y', u'z']], 'headers': h})
    out.append({'grid': [[u'a', u'b']] * 100 + [[u'x', u'y', u' ']], 'headers': h})
    out.append({'grid': [[], [u'a'], [u'b']], 'headers': h})
    out.append({'grid': [[u''], [u'a'], [u'b']], 'headers': h})
    out.append({'grid': [[u'Title'], [u'n', u'm', u'k'], [u'1', u'2', u'3'], [u'4', u'5', u'6']], 'headers': h})
    out.append({'grid': [[u'1', u'x'], [u'2', u'x']], 'headers': h})
    out.append({'grid': [], 'headers': h})
    out.append({'grid': [[u' ']], 'headers': h})
  return [dict(c, dialect=dict(d), num_rows=0, tags=['fixed'], grid=[list(r) for r in c['grid']]) for c in out]


def exhaustive_cases():
  d = {'delimiter': u',', 'quotechar': u'"', 'lineterminator': u'\n', 'quote_all': False}
  syms = [u'', u'a', u'1', u' ']
  shapes = [list(t) for n in range(3) for t in itertools.product(syms, repeat=n)]
  out = []
  for n in range(4):
    for g in itertools.product(shapes, repeat=n):
      for h in (None, True, False):
        out.append({'grid': [list(r) for r in g], 'dialect': d, 'headers': h, 'num_rows': 0, 'tags': ['exh']})
  return out


# --------------------------------------------------------------------------------------------------
# Coq side

# Monomorphic list constructors: Coq elaborates `rc a (rc b rnil)` about ten times faster than `[a; b]` (no
# implicit argument to infer per element), which matters for 300-row grids.
EXTRA_DEFS = """
Definition zc (z : Z) (c : cell) : cell := z :: c.  Definition znil : cell := [].
Definition rc (c : cell) (r : row) : row := c :: r.  Definition rnil : row := [].
Definition gc (r : row) (g : grid) : grid := r :: g.  Definition gnil : grid := [].
Definition oc (p : cell * list cell) (l : list (cell * list cell)) : list (cell * list cell) := p :: l.
Definition onil : list (cell * list cell) := [].
Definition zl_eqb := list_eqb Z.eqb.
Definition row_eqb := list_eqb cell_eqb.
Definition zrow_eqb (p q : Z * row) : bool := Z.eqb (fst p) (fst q) && row_eqb (snd p) (snd q).
(* the functions translated from the Python source (GristGen.Csv_gen) against the values the running Python
   functions returned on the same arguments: validates the translator csv2v *)
Definition aux_ok (isnum : cell -> bool) (g : grid) (o : options) (out : list (cell * list cell))
    (aux : Z * list Z * (Z * row) * (Z * row) * option (bool * row) * list (cell * bool) *
           option (Z * Z * list (list cell))) : bool :=
  let '(modal, cnts, ff, hg, ht, emp, gtd) := aux in
  let s := firstn 100%nat g in
  Z.eqb (g_column_count_modal s) modal &&
  zl_eqb (map g_count_nonempty s) cnts &&
  zrow_eqb (g_find_first_non_empty_row s) ff &&
  zrow_eqb (g_headers_guess isnum s) hg &&
  match ht, s with
  | None, [] => true
  | Some (b, eh), h :: t => Bool.eqb (g_is_header isnum h t) b && row_eqb (g_expand_headers h 1 s) eh
  | _, _ => false
  end &&
  forallb (fun p => Bool.eqb (g_empty (fst p)) (snd p)) emp &&
  match gtd with
  | None => true
  | Some (n, nr, cols) => list_eqb row_eqb (map cd_data (g_get_table_data g n nr)) cols
  end &&
  (let '(m, d) := g_parse_rows isnum o g in out_eqb (combine (map cd_id m) d) out).
"""


def mono(items, cons, nil):
  out = nil
  for it in reversed(items):
    out = '(%s %s %s)' % (cons, it, out)
  return out


def python_aux(rows, case):
  """What the running Python helper functions return on this grid (arguments are copies)."""
  from imports import import_utils
  import parse_data
  sample = [list(r) for r in rows[:SAMPLE]]
  aux = {'modal': import_utils.column_count_modal(sample),
         'counts': [import_utils._count_nonempty(r) for r in sample],
         'ffner': import_utils.find_first_non_empty_row(sample),
         'hg': import_utils.headers_guess(sample),
         'ht': None, 'gtd': None}
  if sample:
    aux['ht'] = (import_utils._is_header(sample[0], sample[1:]),
                 import_utils.expand_headers(sample[0], 1, sample))
  cells = sorted({c for r in sample[:20] for c in r})[:12]
  aux['empty'] = [(c, import_utils.empty(c)) for c in cells]
  if len(rows) <= 40:
    n = len(rows[len(rows) // 2]) if rows else 0
    nr = case.get('num_rows') or (len(rows) // 2 if len(rows) % 3 == 0 else 0)
    cols = parse_data.get_table_data(copy.deepcopy(rows), n, nr)
    aux['gtd'] = (n, nr, [list(c['data']) for c in cols])
  return aux


def coq_case(rows, numeric, case, cols, aux):
  """One case as a Coq term; distinct cell texts are let-bound once."""
  names = {}
  order = []

  def cell(c):
    if c not in names:
      names[c] = 'c%d' % len(names)
      order.append(c)
    return names[c]

  def row(r):
    return mono([cell(c) for c in r], 'rc', 'rnil')

  g = mono([row(r) for r in rows], 'gc', 'gnil')
  nums = row(numeric)
  out = mono(['(%s, %s)' % (cell(i), row(d)) for i, d in cols], 'oc', 'onil')
  o = '{| o_headers := %s; o_num_rows := %s |}' % (core.optlit(case.get('headers'), core.boollit),
                                                    core.zlit(case.get('num_rows') or 0))
  zrow = lambda p: '(%s, %s)' % (core.zlit(p[0]), row(p[1]))
  a = '(%s, %s, %s, %s, %s, %s, %s)' % (
      core.zlit(aux['modal']), core.zlist(aux['counts']), zrow(aux['ffner']), zrow(aux['hg']),
      'None' if aux['ht'] is None else '(Some (%s, %s))' % (core.boollit(aux['ht'][0]), row(aux['ht'][1])),
      core.coq_list(['(%s, %s)' % (cell(c), core.boollit(b)) for c, b in aux['empty']]),
      'None' if aux['gtd'] is None else '(Some (%s, %s, %s))' % (
          core.zlit(aux['gtd'][0]), core.zlit(aux['gtd'][1]), core.coq_list([row(c) for c in aux['gtd'][2]])))
  lets = ''.join('let %s : cell := %s in ' % (names[c], mono([core.zlit(ord(ch)) for ch in c], 'zc', 'znil'))
                 for c in order)
  return '(%s(%s, %s, %s, %s, %s))' % (lets, g, nums, o, out, a)


# The model of the current source (import_csv = import_csv_gen source_is_repaired, see Model/Csv.v).
CHECK_MODEL = "fun c => let '(g, nums, o, out, aux) := c in out_eqb (erase (import_csv (isnum_of nums) g o)) out"
CHECK = ("fun c => let '(g, nums, o, out, aux) := c in out_eqb (erase (import_csv (isnum_of nums) g o)) out && "
         "aux_ok (isnum_of nums) g o out aux")
COQ_IMPORTS = ['Grist.Model.Csv', 'Grist.Lib.CsvPrelude', 'GristGen.Csv_gen']
SPACES = [9, 10, 11, 12, 13, 28, 29, 30, 31, 32, 133, 160, 5760] + list(range(8192, 8203)) + \
         [8232, 8233, 8239, 8287, 12288]


def monitor_whitespace(ctx):
  real = [c for c in range(0x110000) if not chr(c).strip()]
  if real != SPACES:
    ctx.broken('monitor:whitespace set of str.strip() differs from Model/Csv.v is_space', repr(real))
  bad = ctx.run_cases('spaces', ['Grist.Model.Csv'], 'fun c => Bool.eqb (is_space (fst c)) (snd c)',
                      ['(%s, %s)' % (core.zlit(c), core.boollit(c in SPACES))
                       for c in sorted(set(SPACES + [s + 1 for s in SPACES] + [s - 1 for s in SPACES] +
                                           [0, 65, 0x10FFFF]))])
  for i in bad[:3]:
    ctx.broken('monitor:is_space of Model/Csv.v differs from the list in c32.py', 'index %d' % i)


def witness_cases():
  """The witnesses of the (fixed) known-findings entries of C32: always run, and run first, so that a regression of
  one of the repaired defects is re-found with the original input."""
  out = []
  for k in core.load_known():
    if k.get('property') == ID and k.get('witness'):
      w = k['witness']
      out.append({'grid': [list(r) for r in w['grid']], 'dialect': dict(w['dialect']), 'headers': w.get('headers'),
                  'num_rows': w.get('num_rows') or 0, 'tags': ['witness']})
  return out


def regenerate(ctx):
  try:
    text = csv2v.translate_all(core.GRIST)
  except csv2v.Untranslatable as e:
    raise core.TieBroken('the CSV importer grid logic is outside the translated subset: %s' % e)
  os.makedirs(os.path.join(core.COQ, 'gen'), exist_ok=True)
  core.write_if_changed(os.path.join(core.COQ, 'gen', 'Csv_gen.v'), text)


def all_cases(ctx):
  cs = witness_cases() + fixed_cases()
  for _ in range(ctx.n(300, 15000)):
    cs.append(gen_case(ctx.rng))
  if ctx.tier == 'thorough':
    cs.extend(exhaustive_cases())
    ctx.extra['exhaustive'] = True
    ctx.extra['exhaustive_space'] = 'all grids of <= 3 rows, <= 2 cells per row over {"", "a", "1", " "}, 3 header settings'
  return cs


def correspond(ctx):
  from imports import import_utils
  monitor_whitespace(ctx)
  cs = all_cases(ctx)
  ctx._c32 = []
  coq, idx = [], []
  for n, case in enumerate(cs):
    try:
      res = run_impl(ctx, case)
    except core.TieBroken:
      raise
    except Exception as e:
      ctx.violation('exception', 'parse_file raised %r' % (e,), _replay_of(case))
      continue
    ctx._c32.append((case, res))
    rows = res['rows']
    numeric = sorted({c for r in rows[:SAMPLE] for c in r if import_utils._is_numeric(c)})
    coq.append(coq_case(rows, numeric, case, res['cols'], python_aux(rows, case)))
    idx.append(n)
    nrows = len(case['grid'])
    ctx.count((case['grid'], case['headers'], case['num_rows']),
              nontrivial=bool(res['cols']) and len(res['cols'][0][1]) > 0,
              sample=None if nrows > 8 or len(ctx.samples) >= 4 else
              {'grid': case['grid'], 'headers': case['headers'], 'columns': res['cols']},
              kind='rows:%s' % ('0' if nrows == 0 else '1-6' if nrows <= 6 else '7-100' if nrows <= SAMPLE
                                else '101-300'))
    for t in case['tags']:
      ctx.bump('tag:' + t)
    ctx.bump('headers:%r' % (case['headers'],))
    if case['num_rows']:
      ctx.bump('NUM_ROWS given')
    if not res['cols']:
      ctx.bump('no table')
  ctx.log('implementation run on %d cases; evaluating the model in Coq' % len(coq))
  bad = ctx.run_cases('csv', COQ_IMPORTS, CHECK, coq, shard=ctx.n(48, 400), timeout=900, extra_defs=EXTRA_DEFS)
  ctx.log('model and translated functions evaluated: %d disagreements' % len(bad))
  if bad:
    # which of the two differs: the hand-written model, or the functions translated from source by csv2v
    sub = bad[:40]
    bad_model = set(ctx.run_cases('csvm', COQ_IMPORTS, CHECK_MODEL, [coq[i] for i in sub], shard=40, timeout=900,
                                  extra_defs=EXTRA_DEFS))
    shown = 0
    for k, i in enumerate(sub):
      if shown >= 5:
        break
      shown += 1
      case = cs[idx[i]]
      if k in bad_model:
        ctx.broken('correspondence:Model/Csv.v import_csv differs from imports.import_csv.parse_file',
                   'case %r' % (_replay_of(case),))
      else:
        ctx.broken('translator:GristGen.Csv_gen (csv2v) differs from the running import_utils/parse_data/import_csv '
                   'functions', 'case %r' % (_replay_of(case),))
    ctx.extra['correspondence_failures'] = len(bad)


def _replay_of(case):
  return {'grid': case['grid'], 'dialect': case['dialect'], 'headers': case.get('headers'),
          'num_rows': case.get('num_rows') or 0}


def search(ctx):
  pairs = getattr(ctx, '_c32', None)
  if pairs is None:
    pairs = [(c, None) for c in all_cases(ctx)]
  reported = {}
  for case, res in pairs:
    try:
      r = check_case(ctx, case, res)
    except core.TieBroken:
      raise
    except Exception as e:
      r = ('exception', 'parse_file raised %r' % (e,))
    if r is None:
      continue
    kind, what = r
    ctx.bump('oracle:' + kind)
    reported[kind] = reported.get(kind, 0) + 1
    if reported[kind] <= 3:
      small = _shrink(ctx, case, kind)
      try:
        r2 = check_case(ctx, small)
      except Exception:
        r2 = None
      if r2 is None or r2[0] != kind:
        small, r2 = case, r
      ctx.violation(kind, r2[1], _replay_of(small))
  # observation (not a violation): whitespace-only cells that do not appear (beyond the detected width)
  ctx.extra['oracle_kinds'] = reported


def _shrink(ctx, case, kind):
  """Greedy row removal keeping the same failure kind (keeps replays small)."""
  if len(case['grid']) > 140 or kind in ('exception',) or 'witness' in case.get('tags', ()):
    return case
  cur = dict(case, grid=[list(r) for r in case['grid']])
  if kind == 'late-wide-row':
    return cur
  changed = True
  budget = 200
  while changed and budget > 0:
    changed = False
    for i in range(len(cur['grid'])):
      budget -= 1
      cand = dict(cur, grid=cur['grid'][:i] + cur['grid'][i + 1:])
      try:
        r = check_case(ctx, cand)
      except Exception:
        r = None
      if r is not None and r[0] == kind:
        cur = cand
        changed = True
        break
  return cur


def replay(ctx, w):
  case = {'grid': [[c for c in r] for r in w['grid']], 'dialect': w['dialect'], 'headers': w.get('headers'),
          'num_rows': w.get('num_rows') or 0}
  try:
    r = check_case(ctx, case)
  except core.TieBroken:
    raise
  except Exception as e:
    return 'parse_file raised %r' % (e,)
  return None if r is None else '%s: %s' % r


TECHNIQUE = ('Coq proof over functions translated from the importer source on every run (csv2v), bridged by proof to a '
             'hand-written executable model + differential cases against the running functions and '
             'imports.import_csv.parse_file evaluated with vm_compute + the property oracle on the implementation output')
LEVEL_TEXT = ('Kernel-checked theorem C32_cells_kept_generated about the statements of _parse_open_file after csv.reader '
              'and the import_utils/parse_data helpers AS TRANSLATED FROM SOURCE ON EVERY RUN: for all grids, all header '
              'settings, all NUM_ROWS and every _is_numeric oracle, the exported columns have one entry per data row, '
              'stand in input order, and every non-blank cell of a data row is at its row and column. Nine bridging '
              'theorems (C32_gen_*) equate each translated function with the model function, so a semantic edit of '
              'the source breaks a proof. Also: exact characterisation (cells kept iff every data row fits the width), '
              'and the source before fix 6b8f366 refuted / proved only under the two excluding hypotheses.')
LEVEL_NOTE = ('Trusted: Coq kernel; the csv2v translator and Lib/CsvPrelude.v (validated differentially on every run); '
              'decoding/sniffing/csv.reader (outside, round trip monitored on every case); _is_numeric as an arbitrary '
              'oracle; parse_data converter objects on str cells. Fixed findings (witnesses stay in the corpus): late wide '
              'row and blank first line (6b8f366), Unicode line-break characters splitting records (bc800a1).')
