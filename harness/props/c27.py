"""C27 -- Row id allocation never collides or creates ghost rows
(useractions.doBulkAddOrReplace id-filling loop, docactions.BulkAddRecord, table.RowIDs/next_row_id)."""
import itertools
import os

from harness import core, py2v, py2v_ext

ID = 'C27'
TITLE = 'Row id allocation never collides or creates ghost rows'
PROPS = ['Props/C27']
RULE = ('cases = (table row-id set, AddRecord | BulkAddRecord | ReplaceTableData, list of requested ids); ids drawn '
        'from None, negative, explicit fresh, explicit existing, repeated, 0, 1000000, > 1000000; row sets are random '
        'subsets of 1..9 (plus removed "ghost" rows above the maximum, and a few with row 1000000); thorough adds '
        'every request of length <= 4 over {None,-1,0,1,2,3,1000001} x 5 row sets x add/replace; a case is '
        'non-trivial when the request has at least one slot')
TRUSTED = ['py2v_ext translator (harness/py2v_ext.py): Python fragment -> Gallina; validated on every run by executing '
           'the extracted source fragment and the translation on the same arguments',
           'Model/RowIds.v outside the translated loop (next_row_id, DocActions.BulkAddRecord/ReplaceTableData on the '
           'row-id set): hand-written, compared with the running engine on every case',
           'engine rollback after an exception (C04) is observed on the implementation, not modelled']
ASSUMPTIONS = ['requested ids are None or Python ints (bools, floats, strings are outside the quantifier)',
               'the table holds positive distinct row ids (wf_rows)',
               'an automatic id may exceed 1,000,000 when the table already holds row 1,000,000: the limit is read as '
               'a limit on requested ids']

# the validation loop + the filling loop of doBulkAddOrReplace
BINDING = {
  'params': [('row_ids', ('L', ('O', 'Z'))), ('next_row_id', 'Z')],
  'returns': ('L', ('O', 'Z')),
  'result': 'filled_row_ids',
  'fragment': {'starts_with_assign_to': 'filled_row_ids', 'extend_back_to_assign_to': 'seen'},
  'locals': {'seen': ('S', 'Z')},
  'coq_name': 'fill_row_ids',
}
MODEL_FN = 'do_bulk_add_or_replace'
MAXID = 1000000


# ------------------------------------------------------------------------------------------------
def regenerate(ctx):
  try:
    text, seg = py2v_ext.translate_fragment(os.path.join(core.GRIST, 'useractions.py'),
                                            'UserActions.doBulkAddOrReplace', BINDING)
  except py2v.Untranslatable as e:
    raise core.TieBroken('the validation/id-filling loops of doBulkAddOrReplace are outside the translated subset: %s' % e)
  ctx._c27_fragment = seg
  path = os.path.join(core.COQ, 'gen', 'RowIds_gen.v')
  if core.write_if_changed(path, text):
    # never let a compiled translation of another tree survive (make compares time stamps only)
    for ext in ('.vo', '.vos', '.vok', '.glob'):
      try:
        os.remove(path[:-2] + ext)
      except OSError:
        pass


def fragment_fn(seg):
  """The extracted source statements as a Python function (run as they are, to validate the translation)."""
  import textwrap
  src = 'def frag(row_ids, next_row_id):\n' + textwrap.indent(textwrap.dedent(seg), '  ') + \
        '\n  return filled_row_ids\n'
  ns = {}
  exec(compile(src, '<doBulkAddOrReplace fragment>', 'exec'), ns)   # pylint: disable=exec-used
  return ns['frag']


# ------------------------------------------------------------------------------------------------
# generators

def gen_rows(rng):
  k = rng.choice([0, 0, 1, 2, 3, 4, 6])
  rows = sorted(rng.sample(range(1, 10), k))
  ghosts = []
  if rng.random() < 0.3:
    top = (rows[-1] if rows else 0)
    ghosts = [top + 1 + j for j in range(rng.randint(1, 3))]
  return rows, ghosts


def gen_req(rng, rows, n=None):
  n = rng.choice([0, 1, 1, 2, 2, 3, 3, 4, 5, 7]) if n is None else n
  req = []
  for _ in range(n):
    k = rng.random()
    if k < 0.25:
      req.append(None)
    elif k < 0.40:
      req.append(-rng.randint(1, 3))
    elif k < 0.62:
      req.append(rng.randint(1, 14))                      # explicit, fresh or existing
    elif k < 0.70 and rows:
      req.append(rng.choice(rows))                        # explicit existing
    elif k < 0.80 and req:
      req.append(rng.choice(req))                         # repeat of an earlier slot
    elif k < 0.86:
      req.append(0)
    elif k < 0.91:
      req.append(rng.choice([MAXID + 1, 2 * MAXID, 10 ** 12]))
    elif k < 0.95:
      top = max(rows + [x for x in req if isinstance(x, int) and 0 < x <= 20] + [0])
      req.append(top + rng.randint(1, 3))                 # just above everything so far: where autos land
    else:
      req.append(rng.randint(15, 400))
  return req


def gen_cases(ctx):
  rng = ctx.rng
  cases = []
  # corpus, always run first: the witnesses of the defects repaired by fix e346da4 (DESIGN 2.3) and their neighbours
  fixed = [([], 'BulkAddRecord', [5, 5]), ([], 'BulkAddRecord', [0]), ([1, 2], 'BulkAddRecord', [None, 3, None]),
           ([1, 2], 'BulkAddRecord', [None, None, 3]), ([1, 2], 'BulkAddRecord', [2]), ([1, 2], 'AddRecord', [2]),
           ([1, 2], 'BulkAddRecord', [MAXID + 1]), ([1, 2], 'AddRecord', [0]), ([1, 2], 'AddRecord', [None]),
           ([1, 2], 'AddRecord', [-7]), ([1, 2], 'ReplaceTableData', [5, 5]), ([1, 2], 'ReplaceTableData', [0]),
           ([1, 2], 'ReplaceTableData', [None, 1, None]), ([1, 2], 'ReplaceTableData', [2, None, None]),
           ([1, 2], 'ReplaceTableData', []), ([3], 'BulkAddRecord', []), ([1, 2], 'BulkAddRecord', [4, 3, None]),
           ([2, 5], 'BulkAddRecord', [-1, -1, -2]), ([1, 2], 'ReplaceTableData', [MAXID + 1, None])]
  for rows, act, req in fixed:
    cases.append({'rows': rows, 'ghosts': [], 'action': act, 'req': req, 'corpus': True})
  # a few expensive ones around the limit (each costs ~1 s in the engine: columns grow to 10^6 cells)
  big = [([1, 2], 'BulkAddRecord', [MAXID, None]), ([MAXID], 'BulkAddRecord', [None]),
         ([1], 'BulkAddRecord', [None, MAXID]), ([MAXID], 'BulkAddRecord', [MAXID]),
         ([1], 'ReplaceTableData', [MAXID, -1]), ([MAXID - 1], 'BulkAddRecord', [None, None])]
  for rows, act, req in big[:ctx.n(3, 6)]:
    cases.append({'rows': rows, 'ghosts': [], 'action': act, 'req': req})
  for _ in range(ctx.n(500, 6000)):
    rows, ghosts = gen_rows(rng)
    act = rng.choice(['BulkAddRecord', 'BulkAddRecord', 'AddRecord', 'ReplaceTableData'])
    req = gen_req(rng, rows, 1 if act == 'AddRecord' else None)
    cases.append({'rows': rows, 'ghosts': ghosts, 'action': act, 'req': req})
  if ctx.tier == 'thorough':
    alpha = [None, -1, 0, 1, 2, 3, MAXID + 1]
    for rows in ([], [1], [2], [1, 2], [1, 3]):
      for n in range(0, 5):
        for req in itertools.product(alpha, repeat=n):
          for act in ('BulkAddRecord', 'ReplaceTableData'):
            cases.append({'rows': rows, 'ghosts': [], 'action': act, 'req': list(req)})
    ctx.extra['exhaustive'] = True
    ctx.extra['exhaustive_space'] = ('all requests of length <= 4 over {None,-1,0,1,2,3,1000001} on row sets '
                                     '{}, {1}, {2}, {1,2}, {1,3}, BulkAddRecord and ReplaceTableData')
  return cases


# ------------------------------------------------------------------------------------------------
# running the implementation

class Doc(object):
  def __init__(self):
    from harness import rowids_env as env
    self.env = env
    self.e = env.new_doc([('T', [('B', 'Text')]), ('U', [])])
    env.set_rows(self.e, 'U', [1, 2, 3])

  def run(self, case):
    """-> dict(before, outcome ('ok'|exception name), ret (filled ids or None), after, changed_elsewhere, snap_same)"""
    env, e = self.env, self.e
    try:
      env.set_rows(e, 'T', case['rows'], case.get('ghosts', ()))
    except Exception as ex:      # pylint: disable=broad-except
      return {'outcome': 'setup', 'msg': 'cannot create rows %r with explicit fresh ids: %s: %s'
              % (case['rows'], type(ex).__name__, str(ex)[:100]), 'ret': None, 'after': [], 'unchanged': True}
    before = env.snapshot(e)
    req = list(case['req'])
    act = case['action']
    if act == 'AddRecord':
      ua = ['AddRecord', 'T', req[0], {'A': 7}]
    else:
      ua = [act, 'T', req, {'A': [7] * len(req)}]
    try:
      out = env.apply(e, [ua])
    except Exception as ex:      # pylint: disable=broad-except
      after = env.snapshot(e)
      return {'outcome': env.exc_name(ex), 'msg': str(ex)[:120], 'ret': None, 'after': list(after['T'][0]),
              'unchanged': after == before}
    after = env.snapshot(e)
    ret = out.retValues[0]
    if act == 'AddRecord':
      ret = [ret]
    stored_ids = None
    for a in out.stored:
      rep = self.env.actions.get_action_repr(a)
      if rep[1] == 'T' and rep[0] in ('BulkAddRecord', 'AddRecord', 'ReplaceTableData'):
        stored_ids = rep[2] if isinstance(rep[2], list) else [rep[2]]
        break
    others_same = all(after[t] == before[t] for t in before if t != 'T')
    return {'outcome': 'ok', 'ret': ret, 'stored_ids': stored_ids, 'after': list(after['T'][0]),
            'unchanged': after == before, 'others_same': others_same}


def get_doc(ctx):
  d = getattr(ctx, '_c27_doc', None)
  if d is None:
    d = ctx._c27_doc = Doc()
  return d


def is_int(x):
  return isinstance(x, int) and not isinstance(x, bool)


def explicit_ids(req):
  return [r for r in req if r is not None and r >= 0]


def kind_of(case):
  req = case['req']
  ks = set()
  for r in req:
    ks.add('None' if r is None else 'neg' if r < 0 else 'zero' if r == 0 else 'high' if r > MAXID else
           'existing' if r in case['rows'] else 'fresh')
  ex = explicit_ids(req)
  if len(set(ex)) != len(ex):
    ks.add('repeat')
  return ks


# ------------------------------------------------------------------------------------------------
# correspondence

def olit(x):
  return core.optlit(x, core.zlit)


def zl(ns):
  # empty list literals carry their type: the first case of a shard fixes the type of the whole list
  return core.zlist(ns) if ns else '(@nil Z)'


def ol(xs):
  return core.coq_list([olit(x) for x in xs]) if xs else '(@nil (option Z))'


EXC = {'ValueError': 'PyValueError', 'AssertionError': 'PyAssertionError', 'KeyError': 'PyKeyError',
       'TypeError': 'PyTypeError'}


def correspond(ctx):
  # (a) the translation of the loop vs the source statements themselves, executed as Python
  seg = getattr(ctx, '_c27_fragment', None)
  if seg is not None:
    frag = fragment_fn(seg)
    coq = []
    args = []
    for _ in range(ctx.n(300, 3000)):
      rows, _g = gen_rows(ctx.rng)
      req = gen_req(ctx.rng, rows)
      nxt = ctx.rng.choice([1, 1, 2, 3, 5, 10, MAXID, MAXID + 5])
      try:
        out = 'PyOk %s' % ol(frag(list(req), nxt))
      except ValueError:
        out = 'PyErr PyValueError'
      except Exception as ex:    # pylint: disable=broad-except
        out = 'PyErr %s' % EXC.get(type(ex).__name__, 'PyTypeError')
      args.append((req, nxt))
      coq.append('(%s, %s, (%s))' % (ol(req), core.zlit(nxt), out))
      ctx.bump('fragment-cases')
    bad = ctx.run_cases('frag', ['Grist.Lib.PyPrelude', 'Grist.Lib.PyMonad', 'GristGen.RowIds_gen'],
                        'fun c => py_result_eqb (py_list_eqb (py_option_eqb Z.eqb)) '
                        '(fill_row_ids (fst (fst c)) (snd (fst c))) (snd c)', coq, shard=1500)
    for i in bad[:5]:
      ctx.broken('correspondence:translated id-filling loop differs from the source statements', 'case %r' % (args[i],))

  # (b) the whole user action on the real engine vs the model
  doc = get_doc(ctx)
  cases = gen_cases(ctx)
  ctx._c27_cases = cases
  ctx._c27_results = []
  coq = []
  idx = []
  nbad_setup = 0
  for n, case in enumerate(cases):
    res = doc.run(case)
    ctx._c27_results.append(res)
    ks = kind_of(case)
    ctx.count((case['rows'], case['action'], case['req']), nontrivial=len(case['req']) > 0,
              sample={'rows': case['rows'], 'action': case['action'], 'req': case['req'],
                      'outcome': res['outcome'], 'ret': res['ret'], 'rows_after': res['after']},
              kind=case['action'])
    for k in ks:
      ctx.bump('slot:' + k)
    ctx.bump('outcome:' + res['outcome'])
    replace = case['action'] == 'ReplaceTableData'
    if res['outcome'] == 'ok':
      ret = res['stored_ids'] if replace else res['ret']
      if ret is None:
        ret = []      # an empty request stores no action
      if not all(is_int(x) for x in ret):
        ctx.broken('correspondence:returned ids are not ints', 'case %r -> %r' % (case, res))
        continue
      o = 'Accepted %s %s' % (zl(ret), zl(res['after']))
    else:
      if res['outcome'] not in EXC:
        if nbad_setup < 3:
          ctx.broken('correspondence:unexpected exception', 'case %r -> %r' % (case, res))
        nbad_setup += 1
        continue
      o = 'Rejected %s' % EXC[res['outcome']]
    coq.append('(%s, %s, %s, (%s))' % (core.boollit(replace), zl(case['rows']), ol(case['req']), o))
    idx.append(n)
  bad = ctx.run_cases('engine', ['Grist.Lib.PyPrelude', 'Grist.Lib.PyMonad', 'Grist.Model.RowIds'],
                      'fun c => outcome_eqb (%s (fst (fst (fst c))) (snd (fst (fst c))) (snd (fst c))) (snd c)'
                      % MODEL_FN, coq, shard=1500)
  for i in bad[:5]:
    ctx.broken('correspondence:Model/RowIds.%s differs from the engine' % MODEL_FN,
               'case %r -> %r' % (cases[idx[i]], ctx._c27_results[idx[i]]))


# ------------------------------------------------------------------------------------------------
# the property's own oracle, on the implementation's observable behaviour only

def oracle(case, res):
  """-> (kind, description) or None."""
  rows, req = case['rows'], case['req']
  replace = case['action'] == 'ReplaceTableData'
  existing = set() if replace else set(rows)
  ex = explicit_ids(req)
  bad = []
  if any(z == 0 for z in ex):
    bad.append(('explicit-zero-accepted', 'a request with an explicit row id 0'))
  if len(set(ex)) != len(ex):
    bad.append(('explicit-id-repeated-accepted', 'a request in which an explicit row id repeats'))
  if any(z in existing for z in ex):
    bad.append(('existing-id-accepted', 'a request for a row id that already exists'))
  if any(z > MAXID for z in ex):
    bad.append(('over-limit-accepted', 'a request for a row id over 1,000,000'))
  if res['outcome'] == 'setup':
    return ('valid-request-rejected', res['msg'])
  if res['outcome'] != 'ok':
    if not res['unchanged']:
      return ('rejected-but-changed', '%s raised but the document changed' % res['outcome'])
    if not bad:
      return ('valid-request-rejected', 'a request with usable ids was rejected with %s: %s'
              % (res['outcome'], res.get('msg')))
    return None
  if bad:
    return (bad[0][0], '%s was accepted: returned %r, rows afterwards %r' % (bad[0][1], res['ret'], res['after']))
  if not res.get('others_same', True):
    return ('other-table-changed', 'a table other than the target changed')
  ret = res['stored_ids'] if replace else res['ret']
  ret = [] if ret is None else ret
  after = res['after']
  if len(ret) != len(req):
    return ('wrong-count', 'returned %d ids for %d requested' % (len(ret), len(req)))
  for r, o in zip(req, ret):
    if r is not None and r >= 0 and o != r:
      return ('explicit-id-not-honoured', 'asked for %r, got %r' % (r, o))
  if len(set(ret)) != len(ret):
    dup = [o for i, o in enumerate(ret) if o in ret[:i]]
    autos = [o for r, o in zip(req, ret) if r is None or r < 0]
    if all(d in autos and d in ex for d in dup):
      return ('auto-id-collides-with-explicit', 'an automatic id equals an explicit id of the same request: '
              'returned %r, rows afterwards %r' % (ret, after))
    return ('returned-ids-not-distinct', 'returned %r' % (ret,))
  if any(o in existing for o in ret):
    return ('collides-with-existing', 'returned %r, existed %r' % (ret, sorted(existing)))
  for r, o in zip(req, ret):
    if (r is None or r < 0) and existing and o <= max(existing):
      return ('auto-id-not-above-existing', 'automatic id %r with existing %r' % (o, sorted(existing)))
  if any(o not in after for o in ret):
    return ('returned-id-is-not-a-row', 'returned %r, rows afterwards %r' % (ret, after))
  if sorted(after) != sorted(existing | set(ret)) or len(set(after)) != len(after):
    return ('rows-after-mismatch', 'rows afterwards %r, expected %r' % (after, sorted(existing | set(ret))))
  return None


def search(ctx):
  cases = getattr(ctx, '_c27_cases', None)
  results = getattr(ctx, '_c27_results', None)
  if cases is None or results is None or len(results) != len(cases):
    doc = get_doc(ctx)
    cases = gen_cases(ctx)
    results = [doc.run(c) for c in cases]
  seen = {}
  for case, res in zip(cases, results):
    v = oracle(case, res)
    if v is None:
      continue
    kind, what = v
    ctx.bump('oracle:' + kind)
    # keep, for each kind, a corpus witness if there is one, else the smallest
    key = (0 if case.get('corpus') else 1, len(case['req']), len(case['rows']))
    if kind not in seen or key < seen[kind][0]:
      seen[kind] = (key, what, {'rows': case['rows'], 'ghosts': case.get('ghosts', []), 'action': case['action'],
                                'req': case['req'],
                                'observed': {'ret': res.get('stored_ids') if case['action'] == 'ReplaceTableData'
                                             else res.get('ret'), 'after': res.get('after')}})
  for kind, (_k, what, w) in sorted(seen.items()):
    ctx.violation(kind, what, w)


def replay(ctx, w):
  case = {'rows': list(w['rows']), 'ghosts': list(w.get('ghosts', [])), 'action': w['action'], 'req': list(w['req'])}
  res = get_doc(ctx).run(case)
  v = oracle(case, res)
  return None if v is None else '%s: %s' % v


def honoured(req, ret):
  return len(ret) == len(req) and all(o == r for r, o in zip(req, ret) if r is not None and r >= 0)


# narrow matchers: the violation must be of the recorded kind AND its replay must show that failure mode
def _m(kind, pred):
  def fn(violation, entry):
    if violation.get('kind') != kind or entry.get('violation_kind') != kind:
      return False
    req = violation['replay']['req']
    ret = (violation['replay'].get('observed') or {}).get('ret') or []
    return pred(explicit_ids(req), req, ret)
  return fn


MATCHERS = {
  # the request repeats an explicit id AND the engine returned the requested ids as they were
  'c27_explicit_id_repeats': _m('explicit-id-repeated-accepted',
                                lambda ex, req, ret: len(set(ex)) != len(ex) and honoured(req, ret)),
  # the request holds an explicit 0 AND 0 was returned for it
  'c27_explicit_zero': _m('explicit-zero-accepted', lambda ex, req, ret: 0 in ex and honoured(req, ret)),
  'c27_auto_collides_with_explicit': _m('auto-id-collides-with-explicit',
                                        lambda ex, req, ret: len(set(ex)) == len(ex) and 0 not in ex and
                                        any(r is None or r < 0 for r in req) and honoured(req, ret)),
}

TECHNIQUE = ('Coq proof over the validation and id-filling loops translated from source on every run (py2v_ext) + hand '
             'model of the row-id set and doc action, differential cases against the real engine + impl oracle')
LEVEL_TEXT = ('Kernel-checked: the translated loops equal Model/RowIds.alloc; for every table state and request an accepted '
              'AddRecord/BulkAddRecord/ReplaceTableData returns distinct ids that did not exist, honours explicit ids, '
              'gives automatic ids above every existing id, and leaves exactly existing + returned rows; a request with '
              'an explicit id that is 0, repeats, exceeds 1,000,000 or (adds) exists is rejected; usable requests are '
              'accepted. No hypothesis on the request (since fix e346da4; the old witnesses are regression cases).')
LEVEL_NOTE = ('Trusted: Coq kernel, py2v_ext translator (validated each run), the hand model of next_row_id / '
              'BulkAddRecord / ReplaceTableData on the row-id set (compared with the engine each run). Rollback after '
              'a rejected request is observed on the engine, not modelled.')
