"""C23 -- Changing a column's type converts each stored value (useractions.doModifyColumn / docactions.ModifyColumn)."""
import collections
import copy
import json
import random

from harness import core

ID = 'C23'
TITLE = "Changing a column's type converts each stored value"
PROPS = ['Props/C23']
RULE = ('every ordered pair of the 13 column types (Text, Int, Numeric, Bool, Date, DateTime with two zones, Choice, '
        'ChoiceList, Any, Ref, RefList, Attachments) x two content streams (values entered through user actions, hence '
        'already converted by the source type; arbitrary stored values injected with a doc action, as a saved document '
        'may hold) over a pool of 48 values (None, empty/numeric/JSON/date-looking strings, ints at the 2^31 and 2^53 '
        'edges, floats incl. NaN/inf, bools, lists, encoded dates, references, errors); quick tier: per source type and stream a '
        'random 7 of the 12 targets with a random 18 values, plus runs of ==-equal values of different Python types; '
        'thorough: every pair with the whole pool, plus two-way reference columns. '
        'A case is non-trivial when at least one cell changed its stored value. Zone stream: one document with four Text/Any '
        'columns holding the same date-time strings (naive, with offset, date-only, unparseable), converted one after the '
        'other to DateTime of different zones / Date, the last one converted, undone and converted to another zone; the '
        'expected values come from datetime+zoneinfo, not from the engine')
TRUSTED = ['Model/ModifyColumn.v is hand-written; tied on every run by replaying every generated case through the model '
           '(vm_compute) with the conversion, the storing normalisation and strict_equal tabulated from the running code, '
           'and comparing the resulting column and the untouched columns with the engine',
           'col_convert is the column-level conversion: it is compared on every value with usertypes.<Type>.convert '
           'composed with the documented ReferenceColumn/ReferenceListColumn overrides']
ASSUMPTIONS = ['C23_modify_converts_all needs that the new column\'s set() stores a converted value unchanged and agrees '
               'with the conversion where strict_equal sees no change; both facts are evaluated on the implementation '
               'for every generated value of every type pair and hold without exception on the current source '
               '(any exception is reported as a violation, kind set-not-neutral)',
               'formula recalculation and the two-way reference update are the exceptions the property names; the data '
               'path theorem covers the ModifyColumn doc action, the conversion loop and the reverse-column update']
TECHNIQUE = ('Coq proof over a hand-written model of the ModifyColumn data path, generic in the value type and the '
             'conversion + differential replay (vm_compute) + implementation oracle over all type pairs')
LEVEL_TEXT = ('Kernel-checked for every value type, conversion, column content and document: after the type change each cell '
              'holds set(convert(old)) (exactly what the code stores), which is convert(old) wherever set leaves converted '
              'values alone; no other column, table, row id or column set changes (reverse column excepted). The running '
              'engine is compared with the real column-level conversion for all 156 type pairs.')
LEVEL_NOTE = ('Kernel strength: the engine\'s recalculation of dependent formulas and the value conversion functions themselves '
              '(C22) are outside the model. The RefList alt-text re-parse (repaired by 31c0c3e) stays in the corpus as a witness.')


TYPES = ['Text', 'Int', 'Numeric', 'Bool', 'Date', 'DateTime:UTC', 'DateTime:America/New_York', 'Choice', 'ChoiceList',
         'Any', 'Ref:U', 'RefList:U', 'Attachments']
NAN = float('nan')
POOL = [None, '', 'a', '12', '1e3', ' 7 ', '-3.5', '2020-01-02', '[1,2]', '[1, 2]', '["a","b"]', '[1,"a"]', '[]', '[0]',
        'true', 'é', 0, 1, 2, 3, -1, 7, 2 ** 31, 2 ** 53 + 1, 1.0, 2.0, 1.5, -2.25, 1e10, 1e300, NAN, float('inf'),
        True, False, ['L', 'a', 'b'], ['L', 1, 2], ['L'], ['L', 2, 2], ['L', 1, 'a'], ['L', 99], ['d', 86400],
        ['D', 1600000000, 'UTC'], ['O', {'a': 1}], 86400, 1600000000, 1600000000.5,
        ['R', 'U', 1], ['r', 'U', [1, 2]], ['E', 'ValueError'], ['P']]


def G():
  from harness import gristenv
  return gristenv


def enc(v):
  import objtypes
  return G().norm(objtypes.encode_object(v))


def key_of(v):
  """Identity of a stored value: Python type and encoding (what strict_equal + the wire format can tell apart)."""
  return type(v).__name__ + ':' + json.dumps(enc(v), sort_keys=True, default=repr)


def same(a, b):
  return key_of(a) == key_of(b)


def ref_text(v):
  """Text / Choice conversion of a plain stored value, written from the documented rule (not the running function):
  a finite float that is integral and below 2**53 in magnitude reads like the integer, other floats with 15
  significant digits; everything else by str().  Returns (True, expected) or (False, None) for other kinds of values."""
  import math
  if v is None:
    return True, None
  if isinstance(v, bool) or isinstance(v, int):
    return True, str(v)
  if isinstance(v, str):
    return True, v
  if isinstance(v, float):
    if math.isinf(v) or math.isnan(v):
      return True, str(v)
    if abs(v) < 2 ** 53 and v == int(v):
      return True, str(int(v))
    return True, '%.15g' % v
  return False, None


def colconv(col, v):
  """The column-level conversion, restated: the type's convert composed with the Reference(List)Column overrides."""
  import objtypes
  tname = col.type_obj.typename()
  if tname == 'Ref':
    if isinstance(v, list):
      v = v[0] if v else 0
  elif tname in ('RefList', 'Attachments'):
    if v and isinstance(v, int):
      v = [v]
  return col.type_obj.convert(v)


def make_doc(T, vals, raw, two_way=False):
  """U (reference target), T(A: type T, B, C data; F = $A, H = $B formulas), W (other table). Returns engine, rows."""
  Gm = G()
  e, _ = Gm.new_doc()
  Gm.apply(e, [['AddTable', 'U', [{'id': 'K', 'type': 'Text', 'isFormula': False}]],
               ['BulkAddRecord', 'U', [None] * 3, {'K': ['a', 'b', '12']}]])
  Gm.apply(e, [['AddTable', 'T', [{'id': 'A', 'type': T, 'isFormula': False},
                                  {'id': 'B', 'type': 'Text', 'isFormula': False},
                                  {'id': 'C', 'type': 'Int', 'isFormula': False},
                                  {'id': 'F', 'type': 'Any', 'isFormula': True, 'formula': '$A'},
                                  {'id': 'H', 'type': 'Any', 'isFormula': True, 'formula': '$B.upper()'}]],
               ['AddTable', 'W', [{'id': 'X', 'type': 'Numeric', 'isFormula': False},
                                  {'id': 'Y', 'type': 'Any', 'isFormula': True, 'formula': 'len(T.all)'}]],
               ['BulkAddRecord', 'W', [None, None], {'X': [1.5, 2]}]])
  n = len(vals)
  Gm.apply(e, [['BulkAddRecord', 'T', [None] * n, {'B': ['b%d' % i for i in range(n)], 'C': list(range(n))}]])
  rows = list(range(1, n + 1))
  if two_way:
    Gm.apply(e, [['AddReverseColumn', 'T', 'A']])
  if raw:
    Gm.apply(e, [['ApplyDocActions', [['BulkUpdateRecord', 'T', rows, {'A': copy.deepcopy(vals)}]]]])
  else:
    for r, v in zip(rows, vals):
      try:
        Gm.apply(e, [['UpdateRecord', 'T', r, {'A': copy.deepcopy(v)}]])
      except Exception:
        Gm.clean(e)
  return e, rows


ADDR = None


def scrub(x):
  """Object reprs inside alt-texts carry memory addresses; they are not document content."""
  global ADDR
  import re
  if ADDR is None:
    ADDR = re.compile(r' at 0x[0-9a-f]+')
  if isinstance(x, str):
    return ADDR.sub(' at 0x?', x)
  if isinstance(x, list):
    return [scrub(i) for i in x]
  if isinstance(x, dict):
    return {k: scrub(v) for k, v in x.items()}
  return x


def user_snapshot(e):
  Gm = G()
  return scrub(Gm.snapshot(e))


def run_case(T, T2, vals, raw, two_way=False, doc=None):
  """Runs one type change on the real engine.  Returns dict(problems=[(kind, text)], changed=bool, tie=...).
  `doc` = (engine, rows) of make_doc(T, vals, raw, two_way) to reuse (the change is undone at the end)."""
  import objtypes
  Gm = G()
  e, rows = doc if doc is not None else make_doc(T, vals, raw, two_way)
  tbl = e.tables['T']
  old = {r: tbl.get_column('A').raw_get(r) for r in rows}
  old0 = tbl.get_column('A').raw_get(0)
  before = user_snapshot(e)
  rev = None
  if two_way:
    m = actions_meta(e)
    rev = [(c['tableId'], c['colId']) for c in m if c['colId'] not in ('A',) and c['reverse']]
  res = {'problems': [], 'changed': False, 'tie': None, 'raised': None, 'reusable': False}
  try:
    out = Gm.apply(e, [['ModifyColumn', 'T', 'A', {'type': T2}]])
  except Exception as ex:
    res['raised'] = '%s: %s' % (type(ex).__name__, str(ex)[:120])
    after = user_snapshot(e)
    if after != before:
      res['problems'].append(('changed-after-refusal', 'ModifyColumn raised %s but the document changed: %s'
                              % (res['raised'], Gm.diff_snapshots(before, after)[:2])))
    return res
  col = tbl.get_column('A')
  hyp_fail = []
  conv = {}
  for r in rows:
    exp = colconv(col, old[r])
    exp2 = col.convert(old[r])
    if not same(exp, exp2):
      res['problems'].append(('column-convert-differs', 'new_column.convert(%r) = %r but type convert + overrides = %r'
                              % (old[r], exp2, exp)))
    got = col.raw_get(r)
    conv[r] = exp2
    if not same(got, old[r]):
      res['changed'] = True
    if T2 in ('Text', 'Choice'):
      known, ref = ref_text(old[r])
      if known and not same(ref, got):
        res['problems'].append(('cell-text-reference', 'row %d: stored %r, the %s conversion of the old value %r is %r'
                                % (r, got, T2, old[r], ref)))
    if not same(exp, got):
      kind = 'cell'
      if T2.split(':')[0] in ('RefList', 'Attachments') and isinstance(exp, str) and exp.startswith('[') \
         and isinstance(got, list):
        kind = 'cell-reflist-set-reparses-alttext'
      res['problems'].append((kind, 'row %d: stored %r, conversion of old value %r is %r' % (r, got, old[r], exp)))
  after = user_snapshot(e)
  # frame: nothing but T.A, its dependants (F) and the reverse column may change
  allowed = {('T', 'A'), ('T', 'F')}
  for tc in (rev or []):
    allowed.add(tc)
  for t in sorted(set(before) | set(after)):
    if t not in before or t not in after:
      res['problems'].append(('frame', 'table %s appeared or disappeared' % t))
      continue
    if before[t]['ids'] != after[t]['ids']:
      res['problems'].append(('frame', 'row ids of %s changed' % t))
    for c in sorted(set(before[t]['cols']) | set(after[t]['cols'])):
      if (t, c) in allowed:
        continue
      if not t.startswith('_grist_') and (t, c) not in (('T', 'H'), ('W', 'Y')) and is_formula_col(e, t, c):
        continue        # other formula results (helper display columns of a reverse column) may depend on the column
      if t.startswith('_grist_'):
        if meta_cell_allowed(e, t, c, before[t], after[t]):
          continue
      if before[t]['cols'].get(c) != after[t]['cols'].get(c):
        res['problems'].append(('frame', '%s.%s changed: %r -> %r' % (t, c, str(before[t]['cols'].get(c))[:80],
                                                                     str(after[t]['cols'].get(c))[:80])))
  # the model tie: tabulate convert / set / strict_equal on this case's values with the real new column
  tmp = max(rows) + 7
  def real_set(v):
    col.set(tmp, v)
    return col.raw_get(tmp)
  toks, vals_of = {}, []
  def tok(v):
    k = key_of(v)
    if k not in toks:
      toks[k] = len(toks)
      vals_of.append(v)
    return toks[k]
  conv_t, set_t, se = {}, {}, set()
  for r in rows:
    o, c = old[r], conv[r]
    conv_t[tok(o)] = tok(c)
    set_o, set_c = real_set(o), real_set(c)
    set_t[tok(o)] = tok(set_o)
    set_t[tok(c)] = tok(set_c)
    if objtypes.strict_equal(o, c):
      se.add((tok(o), tok(c)))
    if not same(set_c, c) or (objtypes.strict_equal(o, c) and not same(set_o, c)):
      hyp_fail.append(r)
  dflt = tok(col.getdefault())
  data_cols = {c: [tok(tbl.get_column(c).raw_get(r)) for r in [0] + rows] for c in ('B', 'C')}
  res['tie'] = {'rows': rows, 'old': [tok(old[r]) for r in rows], 'conv': conv_t, 'set': set_t, 'se': sorted(se),
                'dflt': dflt, 'new': [tok(col.raw_get(r)) for r in rows], 'B': data_cols['B'], 'C': data_cols['C'],
                'old0': tok(old0)}
  res['hyp_fail'] = hyp_fail
  for r in hyp_fail:
    # the two facts C23_modify_converts_all assumes; they hold for every type on the current source
    res['problems'].append(('set-not-neutral', 'row %d: new_column.set changes the converted value %r of %r (stores %r)'
                            % (r, conv[r], old[r], real_set(conv[r]))))
  col.set(tmp, col.getdefault())
  # every failing cell must be one where the hypotheses of C23_modify_converts fail (else the model is wrong)
  cell_rows = set(int(p[1].split()[1].rstrip(':')) for p in res['problems'] if p[0].startswith('cell'))
  if cell_rows - set(hyp_fail):
    res['problems'].append(('model-gap', 'cells %r differ from the conversion although set() is neutral there'
                            % (sorted(cell_rows - set(hyp_fail)),)))
  # undo (expressed in encoded doc actions: only meaningful when every old value survives the encoding; C24 otherwise)
  if not all(roundtrips(old[r]) for r in rows):
    res['undo_checked'] = False
    return res
  res['undo_checked'] = True
  try:
    Gm.apply(e, [['ApplyUndoActions', Gm.reprs(out.undo)]])
    u = user_snapshot(e)
    if u != before:
      d = Gm.diff_snapshots(before, u)
      only_dep = all(x.startswith('T.F[') or x.startswith('T.A[') for x in d)
      now = {r: tbl.get_column('A').raw_get(r) for r in rows}
      retyped = [r for r in rows if not same(now[r], old[r])]
      if only_dep and any(has_big_ref(old[r]) for r in rows):
        kind = 'undo-reflist-big-int'
      elif only_dep and retyped and all(enc(now[r]) == enc(old[r]) for r in retyped):
        # the cell's encoding is restored, its Python type is not (12 -> 12.0, list -> tuple): formulas see it
        kind = 'undo-equal-encoding-retyped'
      else:
        kind = 'undo-differs'
      res['problems'].append((kind, 'after undo: %s' % ('; '.join(d[:3]),)))
    else:
      res['reusable'] = all(same(tbl.get_column('A').raw_get(r), old[r]) for r in rows)
  except Exception as ex:
    res['problems'].append(('undo-raises', '%s: %s' % (type(ex).__name__, str(ex)[:150])))
  return res


def is_formula_col(e, t, c):
  st = e.schema.get(t)
  return bool(st and c in st.columns and st.columns[c].isFormula)


def roundtrips(v):
  import objtypes
  try:
    return same(objtypes.decode_object(objtypes.encode_object(v)), v)
  except Exception:
    return False


def has_big_ref(v):
  import objtypes
  return isinstance(v, list) and any(isinstance(x, int) and not objtypes.is_int_short(x) for x in v)


def actions_meta(e):
  import actions
  t = actions.get_action_repr(e.fetch_table('_grist_Tables'))
  c = actions.get_action_repr(e.fetch_table('_grist_Tables_column'))
  tid = dict(zip(t[2], t[3]['tableId']))
  return [{'tableId': tid.get(c[3]['parentId'][i]), 'colId': c[3]['colId'][i], 'reverse': c[3]['reverseCol'][i]}
          for i in range(len(c[2]))]


def meta_cell_allowed(e, t, c, b, a):
  """Metadata that a type change legitimately rewrites: the column's own record (type, display/visible column) and
  the display settings of its fields -- and only in those rows."""
  if b['ids'] != a['ids']:
    return False
  cols = e.fetch_table('_grist_Tables_column')
  own = [rid for i, rid in enumerate(cols.row_ids)
         if cols.columns['colId'][i] == 'A' and cols.columns['parentId'][i] == 2]
  if t == '_grist_Tables_column' and c in ('type', 'displayCol', 'visibleCol'):
    return all(x == y or rid in own for rid, x, y in zip(b['ids'], b['cols'][c], a['cols'][c]))
  if t == '_grist_Views_section_field' and c in ('displayCol', 'visibleCol'):
    refs = b['cols']['colRef']
    return all(x == y or ref in own for ref, x, y in zip(refs, b['cols'][c], a['cols'][c]))
  return False


# ------------------------------------------------------------------------------------------------
# cases

def cases(ctx):
  out = []
  for T in TYPES:
    for raw in (False, True):
      vals = list(POOL) if ctx.tier == 'thorough' else ctx.rng.sample(POOL, 18)
      targets = [t for t in TYPES if t != T]
      if ctx.tier != 'thorough':
        targets = ctx.rng.sample(targets, 7)
      for T2 in targets:
        out.append({'T': T, 'T2': T2, 'raw': raw, 'vals': vals, 'two_way': False})
  # adjacent cells that are == but of different types (1, True, 1.0; 0, False, 0.0; '' ...): each cell gets the
  # conversion of ITS OWN old value
  runs = [1, True, 1.0, 1, 0, False, 0.0, 0, None, '', 2, 2.0, True, True, 1, 'a', 'a', 1.0, True]
  for T in ('Any', 'Text', 'Numeric', 'Int', 'Bool'):
    for T2 in ('Text', 'Any', 'Int', 'Bool', 'Numeric', 'Choice'):
      if T != T2:
        out.append({'T': T, 'T2': T2, 'raw': True, 'vals': list(runs), 'two_way': False})
  # extreme numerics as SOURCE values; Text / Choice targets are compared with ref_text, the others with the conversion
  big = [float(2 ** 53), -float(2 ** 53), float(2 ** 53 + 2), -float(2 ** 53 + 2), float(2 ** 53 - 1), -float(2 ** 53 - 1),
         1e20, -1e20, 1.5e300, -1.5e300, -0.0, 0.0, float('inf'), float('-inf'), NAN, 2 ** 63, -2 ** 63 - 1, 2 ** 64,
         2 ** 53, -2 ** 53, 123456789012345678.0, -123456789012345678.0, 1e15, -1e15, 2.5, -2.5, 1e16, -1e16]
  for T in ('Numeric', 'Any', 'Int', 'Date'):
    for T2 in ('Text', 'Choice', 'Int', 'Numeric', 'Any', 'Bool'):
      if T != T2:
        for raw in (False, True):
          out.append({'T': T, 'T2': T2, 'raw': raw, 'vals': list(big), 'two_way': False})
  # texts that are almost JSON lists (leading / trailing white space, BOM, unbalanced): the list-valued columns' set()
  # must not read more into them than the types' conversions do
  near = [' ["a"]', '\n[3]', '\t[]', ' [1, 2]', '[1] ', '[1]\n', '\ufeff[1]', ' [', '[', '[1', ' ["a","b"] ', '[1, 2]',
          '["a"]', ' 5', '[2]', '  [2, 3]', '\r\n["x"]']
  for T in ('Text', 'Any', 'Choice'):
    for T2 in ('ChoiceList', 'RefList:U', 'Attachments'):
      for raw in (False, True):
        out.append({'T': T, 'T2': T2, 'raw': raw, 'vals': list(near), 'two_way': False})
  # two-way references: Ref <-> RefList with a reverse column
  for T, T2 in (('Ref:U', 'RefList:U'), ('RefList:U', 'Ref:U')):
    for k in range(ctx.n(2, 12)):
      vals = [ctx.rng.choice([None, 0, 1, 2, 3, ['L', 1], ['L', 2, 3], ['L', 1, 2]]) for _ in range(ctx.rng.randint(2, 6))]
      if T == 'Ref:U':
        vals = [v if not isinstance(v, list) else v[1] for v in vals]
      out.append({'T': T, 'T2': T2, 'raw': False, 'vals': vals, 'two_way': True})
  return out


def evaluate(ctx):
  """Runs every case once on the engine; results are shared by correspond and search."""
  done = getattr(ctx, '_c23_results', None)
  if done is not None:
    return done
  done = []
  doc, doc_key = None, None
  for c in cases(ctx):
    key = (c['T'], c['raw'], repr(c['vals']), c['two_way'])
    try:
      if doc is None or doc_key != key:
        doc, doc_key = make_doc(c['T'], c['vals'], c['raw'], c['two_way']), key
        ctx.bump('documents-built')
      res = run_case(c['T'], c['T2'], c['vals'], c['raw'], c['two_way'], doc=doc)
      if not res.get('reusable'):
        doc = None
    except Exception:
      import traceback
      doc = None
      res = {'problems': [('harness', traceback.format_exc()[-600:])], 'changed': False, 'tie': None, 'raised': None}
    done.append((c, res))
    ctx.count((c['T'], c['T2'], c['raw'], repr(c['vals'])), nontrivial=res['changed'],
              kind='%s->%s' % (c['T'].split(':')[0], c['T2'].split(':')[0]),
              sample={'from': c['T'], 'to': c['T2'], 'values': [G().norm(v) for v in c['vals'][:6]]}
              if res['changed'] and c['T'] == 'Text' and c['T2'] == 'Int' else None)
    ctx.bump('stream:' + ('injected' if c['raw'] else ('two-way' if c['two_way'] else 'entered')))
    if res.get('raised'):
      ctx.bump('refused:' + res['raised'].split(':')[0])
    if res.get('hyp_fail'):
      ctx.bump('set-not-neutral-cells', len(res['hyp_fail']))
  ctx._c23_results = done
  return done


def zl(ns):
  return core.zlist(ns)


def tie_term(t):
  """One engine run as a Coq term for the model replay."""
  pairs = lambda d: core.coq_list(['(%s, %s)' % (core.zlit(a), core.zlit(b)) for a, b in sorted(d.items())])
  se = core.coq_list(['(%s, %s)' % (core.zlit(a), core.zlit(b)) for a, b in t['se']]) if t['se'] else '(@nil (Z * Z))'
  rows = '[' + '; '.join('%d%%nat' % r for r in t['rows']) + ']'
  return '(%s, %s, %s, %s, %s, %s, %s, (%s, %s))' % (
    rows, zl([t['old0']] + t['old']), pairs(t['conv']), pairs(t['set']), se, core.zlit(t['dflt']), zl(t['new']),
    zl(t['B']), zl(t['C']))


TIE_DEFS = r'''
Require Import Grist.Model.ModifyColumn GristGen.ModifyColumn_gen Grist.Proofs.ModifyColumn_bridge.
Definition lk (tbl : list (Z * Z)) (v : Z) : Z :=
  match find (fun p => Z.eqb (fst p) v) tbl with Some p => snd p | None => v end.
Definition sePairs (l : list (Z * Z)) (a b : Z) : bool := existsb (fun p => Z.eqb (fst p) a && Z.eqb (snd p) b) l.
Definition zs_eqb := fix go (l m : list Z) : bool :=
  match l, m with [] , [] => true | x :: l', y :: m' => Z.eqb x y && go l' m' | _, _ => false end.
Definition sA : list Z := [65]. Definition sB : list Z := [66]. Definition sC : list Z := [67]. Definition sT : list Z := [84].
Definition sW : list Z := [87].
Definition c23_check (c : list nat * list Z * list (Z * Z) * list (Z * Z) * list (Z * Z) * Z * list Z * (list Z * list Z)) : bool :=
  match c with
  | (rows, old, conv, st, se, dflt, new, (colB, colC)) =>
    let oldc := Build_column (nth O old 0) old in
    let d := [(sW, Build_table [1%nat] [(sA, Build_column 7 [7; 8])]);
              (sT, Build_table rows [(sA, oldc); (sB, Build_column 0 colB); (sC, Build_column 0 colC)])] in
    match modify_column Z (lk conv) (lk st) (sePairs se) dflt 1%nat d sT sA with
    | Err _ => false
    | Ok d' =>
      (* the converted column: by the hand model, and by the loops regenerated from the source *)
      zs_eqb (map (fun r => match cell Z d' sT sA r with Some v => v | None => (-1) end) rows) new &&
      zs_eqb (map (fun r => raw_get Z dflt (new_data_gen Z (lk conv) (lk st) (sePairs se) dflt 1%nat rows oldc) r) rows) new &&
      (* the untouched columns, the other table, the row ids *)
      match get_table Z d' sT, get_table Z d' sW with
      | Some tb, Some tw =>
        match get_col Z (t_cols tb) sB, get_col Z (t_cols tb) sC, get_col Z (t_cols tw) sA with
        | Some b, Some cc, Some wa => zs_eqb (c_data b) colB && zs_eqb (c_data cc) colC && zs_eqb (c_data wa) [7; 8]
        | _, _, _ => false
        end && (Nat.eqb (List.length (t_rows tb)) (List.length rows))
      | _, _ => false
      end
    end
  end.
'''


def correspond(ctx):
  results = evaluate(ctx)
  terms, info = [], []
  for c, res in results:
    if res.get('tie'):
      terms.append(tie_term(res['tie']))
      info.append(c)
    for kind, text in res['problems']:
      if kind == 'column-convert-differs':
        ctx.broken('correspondence:new_column.convert is not the type convert composed with the Reference overrides',
                   '%s -> %s: %s' % (c['T'], c['T2'], text))
      if kind == 'model-gap':
        ctx.broken('correspondence:a cell differs from the conversion where the model says it cannot',
                   '%s -> %s: %s' % (c['T'], c['T2'], text))
  bad = ctx.run_cases('path', [], 'c23_check', terms, shard=120, extra_defs=TIE_DEFS)
  for i in bad[:5]:
    ctx.broken('correspondence:the model of the ModifyColumn data path does not reproduce the engine',
               repr({k: info[i][k] for k in ('T', 'T2', 'raw', 'two_way')}) + ' values ' + repr(info[i]['vals'])[:1500])
  ctx.extra['replayed_through_model'] = len(terms)
  ctx.extra['translator_differential_cases'] = len(terms)   # the regenerated loops evaluated by vm_compute vs the engine


def fixed_corpus(ctx):
  """Witnesses of repaired defects stay in the corpus and are run first: a regression is a violation again."""
  for k in core.load_known():
    if k['property'] == ID and k.get('kind') == 'fixed' and k.get('witness'):
      try:
        d = replay(ctx, k['witness'])
      except Exception as ex:
        d = 'replay raised %r' % (ex,)
      ctx.count(('fixed', k['id']), nontrivial=True, kind='fixed-witness:' + ('fails-again' if d else 'holds'))
      if d:
        ctx.violation(k.get('violation_kind') or 'regression', 'repaired by %s, fails again: %s' % (k.get('commit'), d),
                      k['witness'])


def search(ctx):
  fixed_corpus(ctx)
  zone_stream(ctx)
  n = 0
  per_kind = collections.Counter()
  known_kinds = set(k.get('violation_kind') for k in core.load_known() if k['property'] == ID and k.get('kind') == 'known')
  for c, res in evaluate(ctx):
    for kind, text in res['problems']:
      if kind in ('column-convert-differs', 'model-gap'):
        continue
      n += 1
      if n > 400:
        return
      vals = c['vals']
      w = {'T': c['T'], 'T2': c['T2'], 'raw': c['raw'], 'two_way': c['two_way'], 'vals': vals, 'kind': kind}
      per_kind[kind] += 1
      ctx.violation(kind, '%s -> %s (%s values): %s' % (c['T'], c['T2'], 'injected' if c['raw'] else 'entered', text),
                    shrink(w) if per_kind[kind] <= 2 and kind not in known_kinds else w)


def shrink(w):
  """Smallest sub-list of the values on which the same kind of problem shows."""
  from harness import histgen
  def fails(vals):
    try:
      res = run_case(w['T'], w['T2'], vals, w['raw'], w['two_way'])
    except Exception:
      return False
    return any(k == w['kind'] for k, _ in res['problems'])
  try:
    vals = histgen.shrink_list(w['vals'], fails, max_steps=40)
    if fails(vals):
      return dict(w, vals=vals)
  except Exception:
    pass
  return w


def replay(ctx, w):
  if 'zone_seed' in w:
    info, problems = zone_case(w['zone_seed'], w.get('source', 'Text'))
    return problems[0] if problems else None
  res = run_case(w['T'], w['T2'], w['vals'], w.get('raw', False), w.get('two_way', False))
  probs = [p for p in res['problems'] if w.get('kind') in (None, p[0])]
  if probs:
    return '%s -> %s: %s' % (w['T'], w['T2'], probs[0][1])
  return None


# ------------------------------------------------------------------------------------------------
# regeneration of the deciding loops from /repo (harness/sm2v.py), bridged in Proofs/ModifyColumn_bridge.v

# sha1 of the canonical AST of the statements of doModifyColumn that are NOT translated (the order "read the old values,
# apply the doc action, convert" and the reverse-column update are glue the model was written from)
PIN_DOMODIFY = 'c2ee74ccbb38bc5828d3b0679e6de8be31ee1e65'
# statements of docactions.ModifyColumn the data path relies on besides the translated loop
PIN_DOCACTION = ['old_column = table.get_column(col_id)', 'new_column = table.get_column(col_id)']

# conversion functions whose result must depend on the type object and the value only (no state kept between calls):
# canonical AST of the text the zone stream's reference was written against
PIN_USERTYPES = {'BaseColumnType.convert': '1a0f3a55e506d43ff7768746546b79d3169b35af', 'BaseColumnType.do_convert': '288e7c16546d733163c2ba8fea5f53c82d3d827c', 'Text.do_convert': '1ba8603afa506cfd869bd93e91aca538f315908f', 'Blob.do_convert': '13f56e0ced4fd25bbd43eedfb2fdb9afe53fad96', 'Any.do_convert': '1dc4255eb1915ef1ac9ae12bbba142ff9b026c7a', 'Bool.do_convert': 'dd51a86128daca8170bd23c3e5fc83544027b676', 'Int.do_convert': '586a0d64ab09651f0f7d6954392254e86aea359b', 'Numeric.do_convert': 'fce5c9828919041e4c23ac3701fd19b6b0153278', 'Date.do_convert': '50a5f913f123d97c825b93bfb14860329fa124e4', 'DateTime.do_convert': 'a2a3e3a54caa085aa1943f8c077076f23e2cfbc7', 'ChoiceList.do_convert': '5fbf520002f15bd5541b132e9e6cafb00992e56a', 'PositionNumber.do_convert': 'ac5361599a755a8797600bbc72bb4439864284c0', 'Id.do_convert': 'd62c6e2710c81d56c9be4a828405f0b28cf3d292', 'ReferenceList.do_convert': '8b226049444bc349b929e343d98e3c6b19767a02'}

# the storing normalisations (set / _clean_up_value) and column-level conversions the set-neutrality facts are about
PIN_COLUMN = {'BaseColumn.set': '246cdfdfe449c374b3a7e7daafa679c28acf6bab', 'BoolColumn.set': 'a2315f2289f6a6a3cbcc2f2cf981d07df273f5f8', 'NumericColumn.set': '53bdd913d9351c5be16cb811b4ee8e83a5130a7f', 'ChoiceListColumn.set': 'ddebe7d16915b77c81bd05e23cd32b6b59bdbc0c', 'BaseReferenceColumn.set': '991a34221c9b3ea6dc97e3a27c32ea3784b74a53', 'ReferenceColumn._clean_up_value': 'b9a940d711abc1e30a1b3ae40396ffb02a3bdca0', 'ReferenceListColumn._clean_up_value': 'c1d2c8882771f588dff966699e0c50792c9e4ebb', 'BaseColumn.raw_get': '8bd24ee5b3c3f853b217a08aed86f760d0a22d28', 'BaseColumn.convert': '0633c3a472687c3bfbc068f06874824f765e21cd', 'ReferenceColumn.convert': '2e56dd4c07f48b708fbc9a335a82aab57815198a', 'ReferenceListColumn.convert': '594b1b6aef7bce87b8f407608dd7c899ee3e223b'}

CONV_BINDING = {
  'names': {'new_column': 'new_column'}, 'exprs': {'all_rows': 'all_rows'},
  'index': {'all_old_values': 'all_old_values {0}'},
  'calls': {'new_column.convert': 'col_convert {0}', 'strict_equal': 'strict_equal {0} {1}',
            'new_column.raw_get': 'raw_get V dflt new_column {0}'},
  'mutators': {'new_column.set': ('new_column', 'store V dflt {2} {0} (col_set {1})'),
               'changes.append': ('changes', '{1} ++ [{0}]')}}
FILL_BINDING = {
  'names': {'new_column': 'new_column'}, 'exprs': {'table.row_ids': 'rows'},
  'calls': {'old_column.raw_get': 'raw_get V (c_default old_column) (c_data old_column) {0}'},
  'mutators': {'new_column.set': ('new_column', 'store V dflt {2} {0} (col_set {1})')}}


def regenerate(ctx):
  import hashlib
  import os
  from harness import sm2v
  try:
    fn = sm2v.find_function(os.path.join(core.GRIST, 'useractions.py'), 'UserActions.doModifyColumn')
    pre, rng, post = sm2v.split_range(fn, 'changes = []', 'for row_id in all_rows')
    if hashlib.sha1(sm2v.pin(pre + post).encode()).hexdigest() != PIN_DOMODIFY:
      raise core.TieBroken('useractions.doModifyColumn: the statements around the conversion loop are not the ones the '
                           'model was written from (order of reading old values / doc action / reverse update)')
    conv = sm2v.Tr(CONV_BINDING).block(rng, ['new_column', 'changes'])
    fn2 = sm2v.find_function(os.path.join(core.GRIST, 'docactions.py'), 'DocActions.ModifyColumn')
    body = sm2v.strip_doc(fn2.body)
    texts = [sm2v.U(s) for s in body]
    for t in PIN_DOCACTION:
      if texts.count(t) != 1:
        raise core.TieBroken('docactions.ModifyColumn: statement %r not found exactly once' % t)
    loops = [s for s in body if isinstance(s, sm2v.ast.For)]
    if len(loops) != 1 or texts.index(PIN_DOCACTION[1]) + 1 != body.index(loops[0]):
      raise core.TieBroken('docactions.ModifyColumn: the fill loop does not follow `new_column = table.get_column(col_id)`')
    fill = sm2v.Tr(FILL_BINDING).block(loops, ['new_column'])
    for q, h in list(PIN_USERTYPES.items()) + list(PIN_COLUMN.items()):
      src = 'column.py' if q in PIN_COLUMN else 'usertypes.py'
      f3 = sm2v.find_function(os.path.join(core.GRIST, src), q)
      txt = sm2v.pin(sm2v.strip_doc(f3.body)) + '|' + sm2v.ast.dump(f3.args, annotate_fields=False)
      if hashlib.sha1(txt.encode()).hexdigest() != h:
        raise core.TieBroken('%s %s is not the text the check was written from (conversions must be functions of the '
                             'type object and the value; set() must leave converted values alone)' % (src, q))
  except (sm2v.Untranslatable, core.TieBroken) as e:
    # no stale generated code: the bridging obligations cannot be discharged until the source is translatable again
    core.write_if_changed(os.path.join(core.COQ, 'gen', 'ModifyColumn_gen.v'),
                          '(* translation of the ModifyColumn loops failed: %s *)\n' % str(e).replace('*', ' '))
    raise core.TieBroken('the ModifyColumn data path is outside the translated subset: %s' % e)
  text = '''(* GENERATED by harness/props/c23.py (harness/sm2v.py) from sandbox/grist/useractions.py (doModifyColumn, the conversion
   loop) and docactions.py (ModifyColumn, the fill loop).  Do not edit. *)
From Coq Require Import ZArith List Bool.
Import ListNotations.
Require Import Grist.Model.ModifyColumn.

Section Gen.
  Variable V : Type.
  Variable col_convert : V -> V.
  Variable col_set : V -> V.
  Variable strict_equal : V -> V -> bool.
  Variable dflt : V.

  Definition conv_loop_gen (all_rows : list nat) (all_old_values : nat -> V) (new_column : list V)
    : list V * list (nat * V * V) :=
%s.

  Definition fill_loop_gen (rows : list nat) (old_column : column V) (new_column : list V) : list V :=
%s.
End Gen.
''' % (conv, fill)
  core.write_if_changed(os.path.join(core.COQ, 'gen', 'ModifyColumn_gen.v'), text)


# ------------------------------------------------------------------------------------------------
# the same naive date-time strings converted under different time zones, in sequence (conversion must depend on the
# NEW type only, not on what was converted before in this process); the expected values come from the standard
# library (datetime + zoneinfo), not from the engine's own conversion functions

ZONES = ['America/New_York', 'Asia/Tokyo', 'UTC', 'Europe/Paris', 'Australia/Sydney', 'America/Los_Angeles', 'Asia/Kolkata']
DT_STRINGS = ['2020-07-04 10:30:00', '2021-01-15T08:00:00', '2021-01-15 08:00', '2020-07-04', '2020-07-04 10:30:00Z',
              '2020-07-04T10:30:00+02:00', '2020-07-04 10:30:00.250', '2019-12-31 23:59:59', 'not a date', '',
              '2020-13-01', '2020-07-04 10:30:00']


def ref_datetime(s, zone):
  """DateTime:<zone> conversion of a stored string, by the standard library."""
  import datetime
  import zoneinfo
  if s == '':
    return None
  try:
    dt = datetime.datetime.fromisoformat(s.replace('Z', '+00:00'))
  except ValueError:
    return s
  if dt.tzinfo is None:
    dt = dt.replace(tzinfo=zoneinfo.ZoneInfo(zone))
  return dt.timestamp()


def ref_date(s):
  import calendar
  import datetime
  if s == '':
    return None
  try:
    dt = datetime.datetime.fromisoformat(s.replace('Z', '+00:00'))
  except ValueError:
    return s
  return float(calendar.timegm(dt.date().timetuple()))


def zone_case(seed, source='Text', ncols=4):
  """One document, several columns with the same strings, converted one after the other.  Returns (steps, problems)."""
  Gm = G()
  rng = random.Random(seed)
  strings = rng.sample(DT_STRINGS, 8)
  e, _ = Gm.new_doc()
  cols = ['S%d' % i for i in range(ncols)]
  Gm.apply(e, [['AddTable', 'T', [{'id': c, 'type': source, 'isFormula': False} for c in cols]],
               ['BulkAddRecord', 'T', [None] * len(strings), {c: list(strings) for c in cols}]])
  rows = list(range(1, len(strings) + 1))
  steps, problems = [], []
  zones = rng.sample(ZONES, ncols + 1)
  def convert(col, typ):
    out = Gm.apply(e, [['ModifyColumn', 'T', col, {'type': typ}]])
    steps.append([col, typ])
    colobj = e.tables['T'].get_column(col)
    for r, s in zip(rows, strings):
      got = colobj.raw_get(r)
      exp = ref_date(s) if typ == 'Date' else ref_datetime(s, typ.split(':', 1)[1])
      if not (got == exp and type(got) == type(exp)):
        problems.append('after %r: %s[%d] holds %r, the %s conversion of the stored %r is %r'
                        % (steps, col, r, got, typ, s, exp))
    return out
  for i, col in enumerate(cols):
    if i == ncols - 1:
      # convert, undo, convert to another zone
      out = convert(col, 'DateTime:' + zones[i])
      Gm.apply(e, [['ApplyUndoActions', Gm.reprs(out.undo)]])
      steps.append([col, 'undo'])
      convert(col, 'DateTime:' + zones[i + 1])
    elif i == 1 and rng.random() < 0.5:
      convert(col, 'Date')
    else:
      convert(col, 'DateTime:' + zones[i])
  return {'seed': seed, 'source': source, 'steps': steps, 'strings': strings}, problems


def zone_stream(ctx):
  for i in range(ctx.n(6, 80)):
    seed = ctx.seed * 7368787 + i
    source = 'Text' if i % 3 else 'Any'
    try:
      info, problems = zone_case(seed, source)
    except Exception:
      import traceback
      ctx.violation('zone-stream-raises', traceback.format_exc()[-500:], {'zone_seed': seed, 'source': source})
      continue
    ctx.count(('zones', seed), nontrivial=True, kind='zone-sequence:' + source)
    if problems:
      ctx.violation('cell-depends-on-earlier-conversion', problems[0], {'zone_seed': seed, 'source': source,
                                                                         'steps': info['steps'], 'strings': info['strings']})
