"""C24 -- Everything sent to Node is marshal-safe and round-trips (objtypes.encode_object / decode_object,
actions.get_action_repr, ActionBundle.to_json_obj, the sandbox's marshal transport)."""
import datetime
import marshal

from harness import core, pyvalues as pv

ID = 'C24'
TITLE = 'Everything sent to Node is marshal-safe and round-trips'
PROPS = ['Props/C24']
RULE = ('values from the grammar of harness/pyvalues.py (see C22) plus nested containers to depth 40, dicts with odd and '
        'subclass keys, big integers, datetimes at the ends of the calendar in several zones; every value is encoded by the '
        'implementation and by the model, every encoded value is really marshal.dumps(.., 2)/loads-ed, decoded by both, and '
        're-encoded by both; a separate malformed stream of encoded forms goes through decode; action bundles carrying '
        'the values go through to_json_obj in both; search adds self-containing and 3000-deep containers and replies of a '
        'real engine whose formulas return such values, marshalled as sandbox.py does. A case is non-trivial when the encoded '
        'form differs from the value.')
TRUSTED = ['harness/ot2v.py: fail-closed translator objtypes.encode_object / decode_object -> coq/gen/Objtypes_gen.v, run on every check; '
           'its output is proved equal to encode_f / decode_f (Proofs/Objtypes_bridge.v) and evaluated against the running functions on every case',
           'harness/act2v.py: the class dispatch of actions.convert_action_values -> coq/gen/Actions_gen.v, proved equal to the model lists',
           'Model/ValuesPy.v + ValuesPyEnc.v: the generic Python run time of the generated code and the models of the methods it calls',
           'pinned glue (AST equality): RaisedException.encode_args/decode_args/has_user_input, safe_shift, RecordSet._get_encodable_row_ids, '
           'convert_recursive_helper/_in_action, encode_objects, get_action_repr, ActionBundle/Envelope.to_json_obj',
           'hand-written model Model/Values.v of objtypes.encode_object/decode_object, actions.get_action_repr and '
           'ActionBundle.to_json_obj, compared with the running functions on every case',
           'Lib/PyFloat.v: timedelta.total_seconds and timedelta(seconds=float) re-implemented over exact dyadics, compared on every '
           'date/datetime case',
           'oracles: repr()/str() of unencodable objects, bytes.decode, the tz database (Zone.dt_offset / Zone.offset), '
           'filled per case from the running library',
           'marshal (C code) is exercised, not modelled: `marshalable` is the documented domain of marshal.dumps version 2 '
           'restricted to what JSON can carry']
ASSUMPTIONS = ['wf: name/message/details of a RaisedException, the fields of RecordStub/RecordSetStub and UnmarshallableValue.value_repr are '
               'str/None or values that arrived marshalled; row ids are ints; table ids are str',
               'F_float (monitored): timedelta(seconds=td.total_seconds()) is exact on whole seconds and within 16 microseconds otherwise, '
               'and total_seconds of the result is the same float',
               'F_tz (monitored; proved for the tz database in C34): a zone offset taken at a UTC instant is the offset the zone reports for '
               'the resulting wall time when that offset is favoured, and is smaller than a day',
               'the interpreter recursion limit is below half of marshal\'s depth limit of 2000 (monitored: sys.getrecursionlimit() = 1000)',
               'subclasses of int/float/str/bytes do not override methods; opaque objects are not equal to the Pending/Censored sentinels']
TECHNIQUE = ('Coq proof over definitions translated from objtypes.py/actions.py on every run, bridged pointwise to a hand model '
             '+ differential cases (vm_compute) of both + real marshal + impl oracle')
LEVEL_TEXT = ('Kernel-checked theorems about the model of encode_object/decode_object over the whole value universe V, any recursion fuel and '
              'arbitrary library oracles: the encoded form of a well-formed value is marshalable (only exact '
              'None/bool/int/float/str, lists, tuples, str-keyed dicts) and nests at most 2*fuel+r+3 levels, so are action representations '
              'and to_json_obj bundles; '
              'encode(decode(encode v)) = encode v for every value whose datetimes lie at least a day inside the calendar, under two monitored '
              'library facts. The excluded calendar edge is refuted by a witness replayed on the implementation.')
LEVEL_NOTE = ('Kernel level: the real recursion limit and marshal depth limit are runtime behaviour, modelled by fuel and exercised by the link. '
              'A dict whose key is an instance of a str subclass used to be encoded with that key object, which marshal.dumps refuses '
              '(fixed in /repo f01e3d4, kept as a regression witness). Open finding: datetimes within 16 microseconds (or one zone offset) of the end of year 9999 encode to a '
              'timestamp that decodes to an OverflowError value.')

FUEL = 200
# mirrors single_kinds / bulk_kinds of Model/Values.v (the model decides how an action is represented, not the implementation)
SINGLE_KINDS = ('AddRecord', 'UpdateRecord')
BULK_KINDS = ('BulkAddRecord', 'BulkUpdateRecord', 'ReplaceTableData', 'TableData')


def regenerate(ctx):
  """coq/gen/Actions_gen.v: the type dispatch of actions.convert_action_values, from the current source (fail closed)."""
  import os
  from harness import act2v
  try:
    text = act2v.translate(core.GRIST)
  except act2v.Untranslatable as e:
    raise core.TieBroken('actions.py / action_obj.py: %s' % e)
  core.write_if_changed(os.path.join(core.COQ, 'gen', 'Actions_gen.v'), text)
  from harness import ot2v
  try:
    text = ot2v.translate(core.GRIST)
  except ot2v.Untranslatable as e:
    core.write_if_changed(os.path.join(core.COQ, 'gen', 'Objtypes_gen.v'), '(* not translated: %s *)\n' % str(e).replace('*', ' '))
    raise core.TieBroken('objtypes.py is outside the translated subset: %s' % e)
  core.write_if_changed(os.path.join(core.COQ, 'gen', 'Objtypes_gen.v'), text)


# ---- values ---------------------------------------------------------------------------------------------

def nest(v, depth, kind):
  for i in range(depth):
    v = [v] if kind == 0 else ((v,) if kind == 1 else ({'k': v} if kind == 2 else [i, {'a': (v,)}]))
  return v


def gen_values(ctx):
  import moment
  import objtypes
  rng = ctx.rng
  out = []
  for _ in range(ctx.n(350, 2500)):
    out.append(pv.gen_value(rng))
  for _ in range(ctx.n(60, 500)):
    out.append(pv.gen_datetime(rng))
    out.append(pv.gen_date(rng))
  for _ in range(ctx.n(25, 150)):
    out.append(nest(pv.gen_value(rng, 2), rng.choice([3, 8, 20, 40]), rng.randrange(4)))
  fixed = [
    {pv.StrSub('a'): 1}, {'a': {pv.StrSub('b'): [1]}}, [{pv.StrSub(''): None}], {1: 2}, {None: 1}, {(1, 2): 3}, {'a': 1, 2: 'b'},
    {'u': 1}, {'a': float('nan')}, {}, [], (), [[]], [()], {'': ''}, {u'é': u'ü'},
    2 ** 31 - 1, 2 ** 31, -2 ** 31, -2 ** 31 - 1, 12345678901234567890, 10 ** 400, pv.IntSub(5), pv.Color.RED, pv.Color.BIG, pv.FloatSub(3.3),
    pv.StrSub("Hello"), pv.BytesSub(b'x'), b'\xff', True, None, -0.0, float('inf'), float('nan'), 1e40, 5e-324,
    datetime.date(2024, 9, 2), datetime.datetime(2024, 9, 2, 3, 8, 21), datetime.date.min, datetime.date.max,
    datetime.datetime.max, datetime.datetime.min, datetime.datetime(9999, 12, 31, 23, 59, 59, 999984),
    datetime.datetime(9999, 12, 31, 23, 59, 59, 999983), datetime.datetime(9999, 12, 31, 12, 0, tzinfo=moment.tzinfo('Asia/Tokyo')),
    datetime.datetime(9999, 12, 31, 23, 59, 59, 999990, tzinfo=moment.tzinfo('Asia/Tokyo')),
    datetime.datetime(1, 1, 1, 0, 0, 0, 0, tzinfo=moment.tzinfo('America/New_York')),
    datetime.datetime(1, 1, 1, 12, 0, 0, 3, tzinfo=moment.tzinfo('America/New_York')),
    datetime.datetime(2020, 3, 8, 2, 30, tzinfo=moment.tzinfo('America/New_York')),
    datetime.datetime(2020, 11, 1, 1, 30, tzinfo=moment.tzinfo('America/New_York', datetime.timedelta(hours=-5))),
    datetime.datetime(2020, 11, 1, 1, 30, tzinfo=moment.tzinfo('America/New_York', datetime.timedelta(hours=-4))),
    datetime.datetime(2020, 1, 1, tzinfo=datetime.timezone.utc),
    objtypes.RaisedException(ValueError("x"), user_input={pv.StrSub('k'): 1}),
    objtypes.RaisedException(ValueError("x"), user_input=datetime.datetime.max),
    [pv.record('T', 1), pv.recordset('T', (1, 2)), pv.recordset('T', objtypes.RecordList([3], sort_by='A'))],
    len, 1j, pv.BadRepr(), [pv.BadRepr()], {'a': pv.BadRepr()}, set([1]), frozenset([1]),
  ]
  return fixed + out        # the witnesses of all findings (open or fixed) are in `fixed`: tried first


MALFORMED = [
  ['R'], ['R', 'T'], ['R', 'T', 1, 2], ['R', 5, 'x'], ['r', 'T'], ['r', 'T', [1, 2]], ['r', 'T', (1, 2)], ['D'], ['D', 1.0], ['D', 1.0, 'Nowhere/Land'],
  ['D', 'x', 'UTC'], ['D', None, 'UTC'], ['D', float('nan'), 'UTC'], ['D', 1e300, 'UTC'], ['D', float('inf'), 'UTC'], ['D', 1, 'UTC'],
  ['D', True, 'UTC'], ['D', [1], 'UTC'], ['D', {'a': 1}, 'UTC'], ['D', 1.0, ['UTC']], ['D', 1.0, 5], ['D', 1.0, None], ['D', 1.5, 'Asia/Tokyo', 'x'],
  ['D', 253402300800.0, 'UTC'], ['D', 253402300799.0, 'Asia/Tokyo'], ['D', -62135596800.0, 'America/New_York'], ['D', -62135596801.0, 'UTC'],
  ['D', 1583652600.0, 'America/New_York'], ['D', 1604208600.0, 'America/New_York'], ['D', 0.0000005, 'UTC'], ['D', 0.0000015, 'UTC'],
  ['D', 2 ** 40, 'UTC'], ['D', -1.0000005, 'UTC'],
  ['d'], ['d', 'x'], ['d', 1e18], ['d', 86400 * 3], ['d', -1.5], ['d', 86399.999], ['d', -86400.000001], ['d', 253402300800.0], ['d', float('nan')],
  ['d', [1]], ['d', None], ['d', True], ['d', 253402214400.0], ['d', -62135596800.0], ['d', -62135596800.5],
  ['E'], ['E', None], ['E', 'X', None, None, 5], ['E', 'X', 'm', 'd', {'u': ['L', 1]}], ['E', 'X', 'm', 'd', {'v': 1}],
  ['E', 'X', 'm', 'd', {'u': 1}, 'extra'], ['E', ['L']], ['E', 'X', None, 'd'], ['E', None, 'm'], ['E', 'X', 'm', 'd', {}], ['E', 'X', 'm', 'd', []],
  ['E', 'X', 'm', 'd', {'u': None}], ['E', 'X', 'm', 'd', {'u': ['D', 1e300, 'UTC']}], ['E', 'X', None, None, None],
  ['L'], ['L', ['L', ['X']]], ['L', 1, 'a', None, 2.5, ['d', 0.0]], ['l'], ['l', 1], ['l', 1, {'raw': 'x'}], ['l', 1, None], ['l', 1, 2, 3], ['l', [1, 2], {}],
  ['O'], ['O', 5], ['O', {}], ['O', {'a': ['d', 0.0]}], ['O', {'a': 1}, 'extra'], ['O', {1: 2}], ['O', {(1, 2): 3}], ['O', []], ['O', None],
  ['P'], ['P', 1], ['C'], ['U'], ['U', 'x'], ['U', 5], ['U', ['L']], ['X'], [], [None], [5], [['L']], (), ('L', 1), ('d', 86400.0), [b'L'],
  [pv.StrSub('L'), 1], 'plain', 5, None, 1.5, {'a': 1}, True, ['LL'], [''], ['L', ['O', {'a': ['E', 'X']}]],
]


# ---- tables for decode --------------------------------------------------------------------------------------

def collect_encoded(b, e, depth=0):
  """oracle entries decode_object needs for the encoded form e"""
  if depth > 80:
    return
  if isinstance(e, (list, tuple)):
    if len(e) >= 3 and isinstance(e[0], str) and e[0] == 'D':
      b.add_zone(e[2])
      if isinstance(e[2], str) and isinstance(e[1], (int, float)):
        try:
          td = datetime.timedelta(seconds=e[1])
          b.add_ts_offset(str(e[2]), pv.td_us(td))
        except Exception:
          pass
    for x in e:
      collect_encoded(b, x, depth + 1)
  elif isinstance(e, dict):
    for k, x in e.items():
      collect_encoded(b, k, depth + 1)
      collect_encoded(b, x, depth + 1)


NEED = set(['str', 'repr', 'type_name', 'float_repr', 'utf8', 'dt_offset', 'ts_offset', 'zone_known', 'truthy'])


def deep_same(a, b):
  """equality of marshalled data: same types, floats by bits (iterative: the data may be ~2000 deep)"""
  stack = [(a, b)]
  while stack:
    a, b = stack.pop()
    if type(a) is not type(b):
      return False
    if isinstance(a, float):
      if pv.fkey(a) != pv.fkey(b):
        return False
    elif isinstance(a, (list, tuple)):
      if len(a) != len(b):
        return False
      stack.extend(zip(a, b))
    elif isinstance(a, dict):
      if len(a) != len(b):
        return False
      for (k1, v1), (k2, v2) in zip(a.items(), b.items()):
        stack.append((k1, k2))
        stack.append((v1, v2))
    elif a != b:
      return False
  return True


def walk(e):
  """all nodes of marshalled data, iteratively"""
  stack = [e]
  while stack:
    x = stack.pop()
    yield x
    if isinstance(x, (list, tuple)):
      stack.extend(x)
    elif isinstance(x, dict):
      stack.extend(x.keys())
      stack.extend(x.values())


def has_subclass_key(e):
  return any(isinstance(x, dict) and any(isinstance(k, str) and type(k) is not str for k in x) for x in walk(e))


def contains_D(e):
  return any(isinstance(x, (list, tuple)) and len(x) == 3 and x[0] == 'D' for x in walk(e))


def contains_overflow(e):
  return any(isinstance(x, (list, tuple)) and len(x) == 2 and x[0] == 'E' and x[1] == 'OverflowError' for x in walk(e))


def classify(v):
  """The property on the implementation for one value. Returns (kind, description) or None."""
  import objtypes
  try:
    e = objtypes.encode_object(v)
  except BaseException as ex:
    return 'raises', 'encode_object raised %r' % (ex,)
  try:
    m = marshal.dumps(e, 2)
    back = marshal.loads(m)
  except Exception as ex:
    if has_subclass_key(e):
      return 'marshal-strsub-key', 'marshal.dumps refuses the encoded form: a dict key is an instance of a str subclass (%s)' % ex
    return 'not-marshalable', 'marshal.dumps of the encoded form failed: %s' % ex
  if not deep_same(back, e):
    return 'marshal-roundtrip', 'marshal.loads(marshal.dumps(e)) differs from e'
  try:
    d = objtypes.decode_object(e)
    e2 = objtypes.encode_object(d)
  except BaseException as ex:
    return 'raises', 'decode_object / re-encoding raised %r' % (ex,)
  if not deep_same(e2, e):
    if contains_D(e) and contains_overflow(e2) and not contains_overflow(e):
      return 'datetime-decode-overflow', ('a datetime at the end of the calendar encodes to %r, which decodes to an OverflowError value'
                                         % (e if len(repr(e)) < 80 else '...'))
    return 'roundtrip', 're-encoding the decoded value gives %s instead of %s' % (repr(e2)[:80], repr(e)[:80])
  return None


# ---- correspondence -----------------------------------------------------------------------------------------

def lit_case(b, first, tables, *rest):
  vl = first
  tl = tables
  rest = list(rest)
  if len(vl) > 40:
    tl = tl.replace(vl, 'v0')
    rest = [r.replace(vl, 'v0') for r in rest]
    return '(let v0 := %s in (v0, %s, %s))' % (vl, tl, ', '.join(rest))
  return '(%s, %s, %s)' % (vl, tl, ', '.join(rest))


def correspond(ctx):
  import objtypes
  core.setup_impl_path()
  monitors(ctx)
  ctx.log('monitors done')
  vals = gen_values(ctx)
  ctx._c24_values = vals
  enc_cases, enc_meta, dec_cases, dec_meta = [], [], [], []
  seen = set()

  def add_encode(v, second):
    try:
      b = pv.Builder()
      b.collect(v, encode_only=True)
      e = objtypes.encode_object(v)
      lit = lit_case(b, b.val(v), b.tables(NEED), b.val(e))
    except RecursionError:
      return None
    if lit not in seen:
      seen.add(lit)
      enc_cases.append(lit)
      enc_meta.append(v)
      ctx.count(lit, nontrivial=not (type(e) is type(v) and e == v), kind=('re-encode:' if second else 'encode:') + type(v).__name__,
                sample={'value': pv.to_expr(v)[:80], 'encoded': repr(e)[:80]})
    return e

  def add_decode(e, kind):
    try:
      b = pv.Builder()
      collect_encoded(b, e)
      d = objtypes.decode_object(e)
      lit = lit_case(b, b.val(e), b.tables(NEED), b.val(d))
    except RecursionError:
      return None
    if lit not in seen:
      seen.add(lit)
      dec_cases.append(lit)
      dec_meta.append(e)
      ctx.count(lit, nontrivial=isinstance(e, (list, tuple)), kind=kind)
    return [d]

  for v in vals:
    e = add_encode(v, False)
    if e is None:
      continue
    d = add_decode(e, 'decode:' + (e[0] if isinstance(e, list) and e and isinstance(e[0], str) else type(e).__name__))
    if d is not None:
      add_encode(d[0], True)
  for e in MALFORMED:
    d = add_decode(e, 'decode-malformed')
    if d is not None:
      add_encode(d[0], True)

  imports = ['Grist.Lib.PyFloat', 'Grist.Model.Values', 'Grist.Model.ValuesPy', 'Grist.Model.ValuesPyEnc', 'GristGen.Objtypes_gen']
  ctx.log('literals: %d encode, %d decode cases' % (len(enc_cases), len(dec_cases)))
  bad = ctx.run_cases('encode', imports,
                      'fun c => match c with (v, tbl, e) => value_eqb (encode_f (oracles_of tbl) %d v) e && '
                      'match gen_encode_object (oracles_of tbl) %d v with Ok e2 => value_eqb e2 e | Raise _ => false end end' % (FUEL, FUEL),
                      enc_cases, shard=ctx.n(100, 50), timeout=ctx.n(600, 3000))
  for k in bad[:6]:
    ctx.broken('correspondence:model encode_f differs from objtypes.encode_object',
               'value %s -> %r' % (pv.to_expr(enc_meta[k])[:200], objtypes.encode_object(enc_meta[k])))
  bad = ctx.run_cases('decode', imports,
                      'fun c => match c with (e, tbl, d) => value_eqb (decode_f (oracles_of tbl) %d e) d && '
                      'match gen_decode_object (oracles_of tbl) %d e with Ok d2 => value_eqb d2 d | Raise _ => false end end' % (FUEL, FUEL),
                      dec_cases, shard=ctx.n(100, 50), timeout=ctx.n(600, 3000))
  for k in bad[:6]:
    ctx.broken('correspondence:model decode_f differs from objtypes.decode_object',
               'encoded %r -> %s' % (dec_meta[k], pv.to_expr(objtypes.decode_object(dec_meta[k]))[:200]))
  ctx.log('encode/decode evaluated')
  correspond_bundles(ctx, vals)
  ctx.log('bundles evaluated')
  ctx.extra['cases_in_coq'] = len(enc_cases) + len(dec_cases)
  ctx.extra['translator_validation'] = ('gen_encode_object on %d and gen_decode_object on %d cases (coq/gen/Objtypes_gen.v) evaluated by vm_compute '
                                        'against objtypes.encode_object / decode_object, in the same case files as the hand model' % (len(enc_cases), len(dec_cases)))


def action_lit(b, a):
  name = type(a).__name__
  if name in SINGLE_KINDS:
    cols = '[%s]' % '; '.join('(%s, %s)' % (b.val(k), b.val(x)) for k, x in a.columns.items())
    return '(ARecord %s %s %s %s)' % (pv.slit(name), b.val(a.table_id), b.val(a.row_id), cols)
  if name in BULK_KINDS:
    cols = '[%s]' % '; '.join('(%s, %s)' % (b.val(k), b.vals(x)) for k, x in a.columns.items())
    return '(ABulk %s %s %s %s)' % (pv.slit(name), b.val(a.table_id), b.val(a.row_ids), cols)
  return '(AOther %s %s)' % (pv.slit(name), b.vals(list(a)))


def make_bundle(rng, vals):
  import action_obj
  import actions
  pick = lambda: rng.choice(vals)
  acts = lambda: [(rng.randrange(2), rng.choice([
    lambda: actions.UpdateRecord('T', rng.randint(1, 9), {'A': pick(), 'B': pick()}),
    lambda: actions.AddRecord('T', 3, {'A': pick()}),
    lambda: actions.BulkUpdateRecord('T', [1, 2], {'A': [pick(), pick()]}),
    lambda: actions.BulkAddRecord('T', [], {}),
    lambda: actions.BulkAddRecord('T', [4, 5], {'A': [pick(), pick()], 'B': [pick(), None]}),
    lambda: actions.ReplaceTableData('T', [1, 2], {'A': [pick(), pick()], 'B': [pick(), pick()]}),
    lambda: actions.ReplaceTableData('T', [], {'A': []}),
    lambda: actions.TableData('T', [1, 2, 3], {'A': [pick(), pick(), pick()], 'manualSort': [1.0, 2.0, 3.0]}),
    lambda: actions.RemoveRecord('T', 3),
    lambda: actions.BulkRemoveRecord('T', [1, 2]),
    lambda: actions.AddColumn('T', 'B', {'type': 'Text', 'isFormula': False, 'formula': ''}),
    lambda: actions.RenameTable('T', 'T2'),
    lambda: actions.AddTable('T3', [{'id': 'A', 'type': 'Int', 'isFormula': False, 'formula': ''}]),
  ])()) for _ in range(rng.randint(0, 3))]
  bd = action_obj.ActionBundle()
  bd.envelopes = [action_obj.Envelope(set(['#ALL'])), action_obj.Envelope(frozenset(['b', 'a']))]
  bd.stored = acts()
  bd.direct = [(env, rng.random() < 0.5) for env, _ in bd.stored]
  bd.calc = acts()
  bd.undo = acts()
  bd.retValues = [None, rng.randint(0, 9), [1, 2]]
  bd.rules = set(rng.sample(range(1, 20), 3))
  return bd


def bundle_lit(b, bd):
  acts = lambda l: '[%s]' % '; '.join('(%s, %s)' % (pv.Z(env), action_lit(b, a)) for env, a in l)
  return '(Build_bundle %s %s %s %s %s %s %s)' % (
    '[%s]' % '; '.join('[%s]' % '; '.join(pv.slit(r) for r in sorted(e.recipients)) for e in bd.envelopes),
    acts(bd.stored), '[%s]' % '; '.join('(%s, %s)' % (pv.Z(env), pv.blit(d)) for env, d in bd.direct),
    acts(bd.calc), acts(bd.undo), b.vals(bd.retValues), pv.zl(sorted(bd.rules)))


def correspond_bundles(ctx, vals):
  rng = ctx.rng
  cases, meta = [], []
  small = [v for v in vals if len(pv.to_expr(v)) < 300]
  for _ in range(ctx.n(40, 600)):
    bd = make_bundle(rng, small)
    try:
      b = pv.Builder()
      for l in (bd.stored, bd.calc, bd.undo):
        for _env, a in l:
          cols = getattr(a, 'columns', None)
          if isinstance(cols, dict) and hasattr(a, 'row_ids'):
            for col in cols.values():
              for x in col:
                b.collect(x, encode_only=True)
          elif isinstance(cols, dict):
            for x in cols.values():
              b.collect(x, encode_only=True)
      out = bd.to_json_obj()
      cases.append('(%s, %s, %s)' % (bundle_lit(b, bd), b.tables(NEED), b.val(out)))
      meta.append(out)
      ctx.count(cases[-1], nontrivial=bool(bd.stored or bd.calc or bd.undo), kind='bundle')
      try:
        marshal.loads(marshal.dumps(out, 2))
      except Exception as ex:
        ctx.violation('marshal-strsub-key' if has_subclass_key(out) else 'not-marshalable',
                      'marshal.dumps of a to_json_obj bundle failed: %s' % ex, {'bundle': repr(out)[:500]})
    except RecursionError:
      continue
    except Exception as ex:
      ctx.broken('correspondence:ActionBundle.to_json_obj output is outside the encoded-value universe', repr(ex)[:300])
      continue
  bad = ctx.run_cases('bundle', ['Grist.Lib.PyFloat', 'Grist.Model.Values'],
                      'fun c => match c with (bd, tbl, out) => value_eqb (to_json_obj (oracles_of tbl) %d bd) out end' % FUEL,
                      cases, shard=20, timeout=ctx.n(600, 3000))
  for k in bad[:4]:
    ctx.broken('correspondence:model to_json_obj differs from ActionBundle.to_json_obj', repr(meta[k])[:600])


# ---- monitors of the hypotheses -------------------------------------------------------------------------------

def monitors(ctx):
  import sys
  import moment
  rng = ctx.rng
  if sys.getrecursionlimit() > 1000:
    ctx.broken('monitor:recursion limit', 'sys.getrecursionlimit() = %d' % sys.getrecursionlimit())
  EPOCH, US = pv.EPOCH, pv.US
  lo, hi = -62135596800 * 10 ** 6, 253402300799999999
  bad = 0
  n = ctx.n(20000, 400000)
  for i in range(n):
    u = rng.choice([rng.randint(lo, hi), rng.randint(lo // 10 ** 6, hi // 10 ** 6) * 10 ** 6, rng.randint(-2 ** 54, 2 ** 54),
                    hi - rng.randint(0, 10 ** 8), lo + rng.randint(0, 10 ** 8)])
    td = datetime.timedelta(microseconds=u)
    ts = td.total_seconds()
    try:
      u2 = pv.td_us(datetime.timedelta(seconds=ts))
    except OverflowError:
      bad += 1
      continue
    ok = abs(u2 - u) <= 16 and datetime.timedelta(microseconds=u2).total_seconds() == ts and (u % 10 ** 6 != 0 or u2 == u)
    if not ok:
      bad += 1
      if bad < 4:
        ctx.broken('monitor:F_float', 'microseconds %d -> %r -> %d' % (u, ts, u2))
  ctx.bump('monitor:F_float instants', n)
  zones = ['UTC', 'America/New_York', 'Asia/Tokyo', 'Europe/London', 'Asia/Kathmandu', 'Australia/Lord_Howe', 'Pacific/Apia',
           'America/St_Johns', 'Africa/Monrovia', 'Europe/Amsterdam']
  allz = sorted(moment.get_tz_data())
  m = ctx.n(3000, 60000)
  for i in range(m):
    z = rng.choice(zones) if i % 2 else rng.choice(allz)
    zone = moment.get_zone(z)
    u = rng.choice([rng.randint(lo + 86400 * 10 ** 6, hi - 86400 * 10 ** 6), rng.randint(-3 * 10 ** 15, 3 * 10 ** 15)])
    if zone.untils and rng.random() < 0.5:
      u = int(rng.choice(zone.untils)) * 1000 + rng.randint(-4 * 3600 * 10 ** 6, 4 * 3600 * 10 ** 6)
      u = max(lo + 86400 * 10 ** 6, min(hi - 86400 * 10 ** 6, u))
    utc = EPOCH + datetime.timedelta(microseconds=u)
    off = zone.offset(moment.utc_to_ts_ms(utc))
    back = zone.dt_offset(utc + off, off)
    if back != off or abs(off) >= datetime.timedelta(days=1):
      ctx.broken('monitor:F_tz', 'zone %s utc %s offset %s, reported back %s' % (z, utc, off, back))
      break
  ctx.bump('monitor:F_tz instants', m)
  if 'UTC' not in moment.get_tz_data():
    ctx.broken('monitor:UTC zone missing from tzdata')


# ---- search on the implementation --------------------------------------------------------------------------

def search(ctx):
  core.setup_impl_path()
  vals = getattr(ctx, '_c24_values', None) or gen_values(ctx)
  extra = []
  l = []
  l.append(l)
  extra.append(l)
  d = {}
  d['self'] = d
  extra.append(d)
  for kind in range(4):
    extra.append(nest(1, 3000, kind))
  found = {}
  for v in list(vals) + extra:
    r = classify(v)
    if r is None:
      continue
    kind, what = r
    ctx.bump('oracle:' + kind)
    if found.get(kind, 0) >= 3:
      continue
    found[kind] = found.get(kind, 0) + 1
    try:
      expr = pv.to_expr(v)
    except RecursionError:
      expr = None
    ctx.violation(kind, what, {'expr': expr, 'kind': kind})
  ctx.log('value search done')
  action_kinds(ctx)
  engine_replies(ctx)
  engine_replace_table_data(ctx)
  ctx.log('engine replies done')


FORMULAS = [
  '$A', '[$A, None, 2.5, "x"]', '{"a": $A, "b": [1, 2]}', '{1: 2}', '{type("S", (str,), {})("a"): 1}', '2 ** 100', 'float("nan")',
  'set([1, 2])', 'rec', 'Src.lookupRecords(A=1)', 'Src.lookupOne(A=1)', 'datetime.datetime(2024, 9, 2, 3, 8, 21)', 'datetime.date(2024, 9, 2)',
  'datetime.datetime.max', 'b"\\xff"', '1/0', 'len', 'type("I", (int,), {})(5)', '(1, (2, (3,)))', 'object()',
  'reduce(lambda a, _: [a], range(3000), 1)', 'reduce(lambda a, _: {"k": a}, range(3000), 1)', 'u"\\u00e9" * 3',
]


def engine_replies(ctx):
  """Replies of a real engine (apply_user_actions -> acl_split -> to_json_obj; fetch_table -> get_action_repr), marshalled the
  way sandbox.py sends them."""
  import actions
  import engine
  import useractions
  e = engine.Engine()
  e.load_empty()
  e.apply_user_actions([useractions.from_repr(['InitNewDoc'])])
  e.apply_user_actions([useractions.from_repr(['AddTable', 'Src', [{'id': 'A', 'type': 'Any', 'isFormula': False}]])])
  e.apply_user_actions([useractions.from_repr(['BulkAddRecord', 'Src', [None, None], {'A': [1, 'x']}])])
  for i, f in enumerate(FORMULAS):
    col = 'F%d' % i
    f = 'from functools import reduce\nimport datetime\nreturn ' + f
    try:
      ag = e.apply_user_actions([useractions.from_repr(['AddColumn', 'Src', col, {'type': 'Any', 'isFormula': True, 'formula': f}])])
      reply = dict(e.acl_split(ag).to_json_obj())
      fetched = actions.get_action_repr(e.fetch_table('Src'))
    except Exception as ex:
      ctx.violation('raises', 'engine raised %r for formula %s' % (ex, f), {'formula': f, 'kind': 'raises'})
      continue
    for what, obj in (('apply_user_actions reply', reply), ('fetch_table reply', fetched)):
      ctx.count(('engine', f, what), nontrivial=True, kind='engine-reply')
      try:
        marshal.loads(marshal.dumps((1, obj), 2))
      except Exception as ex:
        kind = 'marshal-strsub-key' if has_subclass_key(obj) else 'not-marshalable'
        ctx.bump('oracle:' + kind)
        ctx.violation(kind, '%s cannot be marshalled (%s); formula %s' % (what, ex, f.splitlines()[-1]), {'formula': f, 'kind': kind})
        break
    # the column is removed again so that one unmarshallable cell does not mask the next formulas
    e.apply_user_actions([useractions.from_repr(['RemoveColumn', 'Src', col])])


NONPRIMITIVE = ['("a", "b")', '[1, 2]', 'objtypes.RecordList([3], sort_by="A")', 'datetime.date(2024, 9, 2)',
                'datetime.datetime(2024, 9, 2, 3, 8, 21)', 'mk_error("ValueError", "boom", None)', 'objtypes.AltText("x")',
                'record("T", 5)', '{"a": 1}', '2 ** 40', 'b"\\xff"', 'objtypes._pending_sentinel', 'set([1])', 'float("nan")', '"plain"', 'None']


def make_action(kind, v):
  import actions
  cls = getattr(actions, kind)
  if kind in SINGLE_KINDS:
    return cls('T', 7, {'A': v, 'B': 1})
  return cls('T', [7, 8], {'A': [v, None], 'B': [1, v]})


def check_action(kind, v):
  """get_action_repr / action_from_repr of a data action of this kind: every emitted cell value is in encoded form
  (it is what encode_object gives, marshal takes it, decoding and re-encoding gives it back). Returns a description or None."""
  import actions
  import objtypes
  a = make_action(kind, v)
  try:
    rep = actions.get_action_repr(a)
  except BaseException as ex:
    return 'get_action_repr(%s) raised %r' % (kind, ex)
  if rep[0] != kind or len(rep) != 4 or not isinstance(rep[3], dict):
    return 'get_action_repr(%s) has an unexpected shape' % kind
  cells = [rep[3]['A']] if kind in SINGLE_KINDS else list(rep[3]['A']) + list(rep[3]['B'])
  want = objtypes.encode_object(v)
  if not any(deep_same(c, want) for c in cells):
    return '%s: the value %s leaves get_action_repr as %r, not in its encoded form %r' % (kind, pv.to_expr(v)[:60], cells[0], want)
  for c in cells:
    try:
      marshal.loads(marshal.dumps(c, 2))
    except Exception as ex:
      return '%s: marshal refuses the emitted cell value %r (%s)' % (kind, c, ex)
    if not deep_same(objtypes.encode_object(objtypes.decode_object(c)), c) and not contains_D(c):
      return '%s: the emitted cell value %r does not round-trip through decode/encode' % (kind, c)
  try:
    back = actions.get_action_repr(actions.action_from_repr(rep))
  except BaseException as ex:
    return 'action_from_repr(%s) raised %r' % (kind, ex)
  if not deep_same(back, rep) and not contains_D(rep):
    return '%s: action_from_repr then get_action_repr changes the action' % kind
  return None


def action_kinds(ctx):
  """Every data action kind with every kind of non-primitive value; and no data action class outside the model's lists."""
  import actions
  data_classes = sorted(n for n, c in actions.action_types.items() if 'columns' in c._fields and ('row_id' in c._fields or 'row_ids' in c._fields))
  if data_classes != sorted(SINGLE_KINDS + BULK_KINDS):
    ctx.broken('monitor:action classes with row ids and `columns` differ from the model', repr(data_classes))
  for kind in SINGLE_KINDS + BULK_KINDS:
    for expr in NONPRIMITIVE:
      v = pv.from_expr(expr)
      desc = check_action(kind, v)
      ctx.count(('action', kind, expr), nontrivial=True, kind='action:' + kind)
      if desc:
        ctx.bump('oracle:action-values-not-encoded')
        ctx.violation('action-values-not-encoded', desc, {'action': kind, 'expr': expr, 'kind': 'action-values-not-encoded'})
        break


def replay(ctx, w):
  core.setup_impl_path()
  if w.get('action'):
    try:
      return check_action(w['action'], pv.from_expr(w['expr']))
    except Exception:
      return None
  if w.get('expr'):
    try:
      v = pv.from_expr(w['expr'])
    except Exception:
      return None
    r = classify(v)
    if r is None or (w.get('kind') and r[0] != w['kind']):
      return None
    return r[1]
  return None


def engine_replace_table_data(ctx):
  """Bundles that contain ReplaceTableData / BulkAddRecord on a table whose raw cells are not primitives (ChoiceList tuples,
  RefList lists, an error left in a data column): every cell value of every data action of the reply is in encoded form,
  and the reply marshals."""
  import engine
  import objtypes
  import useractions
  e = engine.Engine()
  e.load_empty()
  run = lambda ua: e.apply_user_actions([useractions.from_repr(ua)])
  run(['InitNewDoc'])
  run(['AddTable', 'Tags', [{'id': 'N', 'type': 'Text', 'isFormula': False}]])
  run(['BulkAddRecord', 'Tags', [None, None], {'N': ['p', 'q']}])
  run(['AddTable', 'T2', [{'id': 'C', 'type': 'ChoiceList', 'isFormula': False}, {'id': 'R', 'type': 'RefList:Tags', 'isFormula': False},
                          {'id': 'E', 'type': 'Any', 'isFormula': True, 'formula': '1/0'}, {'id': 'X', 'type': 'Text', 'isFormula': False}]])
  run(['BulkAddRecord', 'T2', [None, None], {'C': [['L', 'a', 'b'], None], 'R': [['L', 1, 2], None], 'X': ['x', 'y']}])
  run(['ModifyColumn', 'T2', 'E', {'isFormula': False}])
  steps = [['ReplaceTableData', 'T2', [1, 2, 3], {'C': [['L', 'c'], None, ['L', 'd', 'e']], 'R': [None, ['L', 2], ['L', 1]], 'X': ['1', '2', '3']}],
           ['DuplicateTable', 'T2', 'T2copy', True],
           ['BulkUpdateRecord', 'T2', [1, 2], {'C': [['L', 'z'], ['L']], 'R': [['L', 1], None]}],
           ['RemoveTable', 'T2copy']]
  for ua in steps:
    try:
      ag = run(ua)
      reply = dict(e.acl_split(ag).to_json_obj())
    except Exception as ex:
      ctx.violation('raises', 'engine raised %r for %r' % (ex, ua[:2]), {'user_action': ua, 'kind': 'raises'})
      continue
    kinds = set()
    bad = None
    for part in ('stored', 'undo', 'calc'):
      for _env, rep in reply[part]:
        if rep[0] in SINGLE_KINDS + BULK_KINDS:
          kinds.add(rep[0])
          cols = rep[3]
          for col, vals in cols.items():
            for x in (vals if rep[0] in BULK_KINDS else [vals]):
              ok = True
              try:
                marshal.dumps(x, 2)
                ok = deep_same(objtypes.encode_object(objtypes.decode_object(x)), x)
              except Exception:
                ok = False
              if not ok and bad is None:
                bad = '%s of %s carries the cell value %r in column %s, which is not in encoded form' % (part, rep[0], x, col)
    ctx.count(('engine-rtd', ua[0]), nontrivial=bool(kinds), kind='engine-data-actions:' + '+'.join(sorted(kinds)))
    if bad is None:
      try:
        marshal.loads(marshal.dumps((1, reply), 2))
      except Exception as ex:
        bad = 'the reply to %s cannot be marshalled (%s)' % (ua[0], ex)
    if bad:
      ctx.bump('oracle:action-values-not-encoded')
      ctx.violation('action-values-not-encoded', bad + ' (user action %s)' % ua[0], {'user_action': ua[:2], 'kind': 'action-values-not-encoded'})
