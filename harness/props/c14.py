"""C14 -- Sorted searches and PREVIOUS/NEXT/RANK agree with a linear scan.

Model: coq/theories/Model/Bisect.v (hand-written; SortKey.__lt__, bisect with key, RecordSet/FindOps,
make_sort_spec, lookup_records' order, PREVIOUS/NEXT/RANK).  Tie: documents are built in the REAL engine through
apply_user_actions; formula columns call `T.lookupRecords(..., order_by=...).find.lt(...)` etc. and PREVIOUS/NEXT/RANK;
every formula cell is compared with `eval_query` evaluated by vm_compute inside Coq.  Search: a linear-scan oracle
written in Python over the ordered result the implementation itself returns.
"""
import datetime
import hashlib
import itertools
import json
import logging
import numbers
import re

import os

from harness import bs2v, core

ID = 'C14'
TITLE = 'Sorted searches and PREVIOUS/NEXT/RANK agree with a linear scan'
PROPS = ['Props/C14']
RULE = ('documents with one table T (0-8 rows, thorough up to 12; explicit row ids), 1-2 sort columns (type Any, or typed '
        'Date/Numeric/Text/Int) drawn from pools with '
        'duplicates and mixed types (None, bool, int, float, str, date, datetime, lists/tuples), 0-2 group-by columns '
        '(1, 1.0 and True are one key), per-row probe values (present, absent, other types; 0-3 of them), order_by '
        'variants (asc/desc, two columns, "id" cut, manualSort explicit/implicit/absent via sort_by, None), optional '
        'edit history (cell updates, exchanges of sort values, adds, removes, repositioning) before or after the formula '
        'columns exist; separate streams: order_by starting with "id" (known finding), unknown sort columns (both sides '
        'must report an error), values SortKey cannot order such as NaN (only "no internal error"); thorough '
        'adds all tables of <= 4 rows with keys in {0,1,2} x all probes in {-1..3, None}; every formula cell '
        '(row x {lt,le,gt,ge,eq,PREVIOUS,NEXT,RANK asc,RANK desc}) is one evaluation; it is non-trivial when the '
        'looked-up record set has >= 2 records; besides, the translated search core is run (vm_compute) against the real '
        'SortKey / RecordSet / FindOps / PREVIOUS.. objects on stub tables (40 / 600 tables, ~50 calls each: key '
        'comparisons with sentinels and explicit values, find.*, previous/next/rank, _at, len; sorted and unsorted id '
        'lists, incomparable values, unknown columns, record sets without sort key) -- counted under translator_validation')
TRUSTED = ['harness/bs2v.py (own fail-closed translator) and the bindings of Model/BisectPy.v (exception monad, for_zip3, map_m, '
           'bisect_call = the loop of the bisect module, Record = row id, FindOps(rs) = rs, table = cell function): the '
           'translation of SortKey.__init__/__lt__, make_sort_key\'s spec loop, RecordSet._at/_get_sort_key/_bisect_index/'
           '_bisect_find/_find_eq, FindOps.*, PREVIOUS/NEXT/RANK is regenerated from the source on every run, proved '
           'pointwise equal to the model (Proofs/Bisect_bridge.v), and validated each run by evaluating it (vm_compute) '
           'and the REAL methods on the same stub tables / record sets (also unsorted lists and incomparable values)',
           'Model/Bisect.v for what is not translated (make_sort_spec, lookup_records: filter by == and sorted(), group_by): '
           'compared with the engine on every formula cell of the generated documents (vm_compute of eval_query)',
           'CPython semantics of <, == on None/bool/int/float/str/date/datetime/list/tuple as modelled by cmp3 '
           '(exact rationals for numbers, code points for strings)',
           'the lookup index returns the rows whose group-by cells equal the key (property C13); the model filters by ==']
ASSUMPTIONS = ['sort values and probe values are mutually comparable column by column (no NaN; two lists/tuples in one '
               'column never differ first at items Python cannot order) -- hypothesis `all_comparable`, evaluated on every '
               'generated in-domain case',
               'row ids of the table are distinct and every record has one value per sort column (hypotheses of the theorems)',
               'the sort spec is not empty and at least one probe value is given (otherwise the code raises; modelled as errors)']

OPS = ['lt', 'le', 'gt', 'ge', 'eq', 'prev', 'next', 'rank', 'rankd']
FIND_OPS = OPS[:5]
COQ_OP = {'lt': 'OLt', 'le': 'OLe', 'gt': 'OGt', 'ge': 'OGe', 'eq': 'OEq',
          'prev': 'OPrev', 'next': 'ONext', 'rank': 'ORankAsc', 'rankd': 'ORankDesc'}
UTC = datetime.timezone.utc
EPOCH = datetime.date(1970, 1, 1)

# ---------------------------------------------------------------------------------------------
# values: "encoded" = what user actions / fetch_table carry (JSON-able); "rich" = what formulas see


def dec(x, tup=False):
  """encoded cell value -> rich Python value (lists of a tuple-mode column become tuples at top level)."""
  if isinstance(x, list):
    code = x[0] if x else None
    if code == 'L':
      items = [dec(i) for i in x[1:]]
      return tuple(items) if tup else items
    if code == 'd':
      return EPOCH + datetime.timedelta(days=int(x[1]) // 86400)
    if code == 'D':
      return datetime.datetime.fromtimestamp(int(x[1]), UTC)
    if code == 'U' and len(x) == 2 and re.match(r'^-?[0-9]+$', x[1]):
      return int(x[1])            # an int outside int32 is reported as ['U', '<digits>']
    raise ValueError('unexpected encoded value %r' % (x,))
  return x


def is_err(x):
  return isinstance(x, list) and len(x) >= 1 and x[0] == 'E'


class Unrepresentable(Exception):
  pass


def coq_val(v):
  if v is None:
    return 'VNone'
  if isinstance(v, bool):
    return '(num %s 1)' % core.zlit(int(v))
  if isinstance(v, int):
    return '(num %s 1)' % core.zlit(v)
  if isinstance(v, float):
    if v != v or v in (float('inf'), float('-inf')):
      raise Unrepresentable(repr(v))
    n, d = v.as_integer_ratio()
    return '(num %s %d)' % (core.zlit(n), d)
  if isinstance(v, str):
    return '(VStr %s)' % core.strlit(v)
  if isinstance(v, datetime.datetime):
    return '(VObj %s %s)' % (core.strlit('datetime'), core.zlit(int(v.timestamp())))
  if isinstance(v, datetime.date):
    return '(VObj %s %s)' % (core.strlit('date'), core.zlit((v - EPOCH).days))
  if isinstance(v, (list, tuple)):
    return '(VSeq %s %s)' % (core.boollit(isinstance(v, tuple)), core.coq_list([coq_val(i) for i in v]))
  raise Unrepresentable(repr(v))


def fbkey(a):
  return (0 if a is None else 1, 0 if isinstance(a, numbers.Number) else 1, type(a).__name__)


def ref_cmp1(a, b):
  """Reference order of two cell values: Python's own order; values Python cannot order are ordered None first,
  then numbers, then by type name (documented fallback).  -1 / 0 / 1."""
  if a is None and b is None:
    return 0
  try:
    if a < b:
      return -1
    if b < a:
      return 1
    return 0
  except TypeError:
    ka, kb = fbkey(a), fbkey(b)
    return -1 if ka < kb else (1 if kb < ka else 0)


def py_comparable(a, b):
  if a is None and b is None:
    return True
  try:
    a < b      # pylint: disable=pointless-statement
    b < a      # pylint: disable=pointless-statement
    return a == a and b == b
  except TypeError:
    return fbkey(a) != fbkey(b)


# ---------------------------------------------------------------------------------------------
# generator

def d_(k):
  return ['d', 86400 * k]


def D_(s):
  return ['D', s, 'UTC']


ATOMS = [None, None, True, False, 0, 1, 2, 3, -1, 2 ** 60, 0.5, 1.0, 2.5, -1.5, 1e300, 2.0 ** 60, 'a', 'b', 'B', '',
         'ab', 'aa', u'é', u'a€', d_(0), d_(1), d_(2), D_(0), D_(86400), D_(86401)]
POOLS = {
  'smallint': [0, 1, 2, 3],
  'numeric': [0, 1, True, False, 1.0, 0.5, 2, 2.5, -1.5, 2 ** 60, 2.0 ** 60, 2 ** 60 + 1, 1e300, -0.0, 5e-324, None],
  'str': ['', 'a', 'b', 'B', 'ab', 'aa', u'é', 'z', u'a€', u'\U0001f600', None],
  'date': [d_(0), d_(1), d_(2), d_(5), None, D_(0), D_(86400)],
  'intlist': [['L'], ['L', 1], ['L', 1, 2], ['L', 2], ['L', 1, 1], ['L', 0, 5], ['L', 1, 2, 3], ['L', True], None, 1, 'a'],
  'strlist': [['L'], ['L', 'a'], ['L', 'a', 'b'], ['L', 'b'], ['L', 'ab'], ['L', 'a', 'a'], None, 'a'],
  'nested': [['L'], ['L', ['L']], ['L', ['L', 1]], ['L', ['L', 1], ['L', 2]], ['L', ['L', 1, 2]], ['L', ['L', 2]], None],
  'mixed': ATOMS + [['L'], ['L', 1], ['L', 1, 2], ['L', 2]],
  # typed columns (values are the raw cells; a Date column shows them to formulas as datetime.date)
  'typed_date': [0, 86400, 172800, 432000, None],
  'typed_numeric': [0.0, 1.0, 0.5, 2.5, -1.5, 1e300, None],
  'typed_text': ['', 'a', 'b', 'B', 'ab', u'é', None],
  'typed_int': [0, 1, 2, 3, -1, None],
}
TYPED = {'typed_date': 'Date', 'typed_numeric': 'Numeric', 'typed_text': 'Text', 'typed_int': 'Int'}
# outside the property's domain: values SortKey cannot order consistently
ROBUST_POOL = [float('nan'), ['L', 1], ['L', 'x'], ['L', None], ['L', 1, 'y'], ['L', 1, 2], 1, None, 'a', float('inf')]
GROUP_POOL = [1, 2, 'x', None, 1.0, True, 'y', 2.0]

ORDER_CHOICES = [
  ('S1', None), ('-S1', None), (['S1', 'S2'], None), (['-S1', 'S2'], None), (['S1', '-S2'], None),
  (['-S1', '-S2'], None), (['S1', 'id', 'S2'], None), (['S1', 'manualSort'], None), (['S1', '-manualSort'], None),
  (None, None), ('manualSort', None), ('-id', None), (['S1', '-id'], None), (['S1', 'id'], None),
  ('S1', 'S1'), ('S1', '-S1'), (['S2', 'S1'], None), (['S1', 'S1'], None),
]
EMPTY_SPEC_CHOICES = [('id', None), (['id', 'S1'], None)]


def effective_spec(order_by, sort_by, has_manual=True):
  """The sort columns an order_by / sort_by argument denotes, per the documentation of lookupRecords:
  list of (column, ascending).  Row id is always the last tie-break."""
  if sort_by:
    cols = [sort_by]
  else:
    cols = [order_by] if isinstance(order_by, str) else list(order_by or [])
    if 'id' in cols:
      cols = cols[:cols.index('id')]
    elif has_manual and 'manualSort' not in cols:
      cols = cols + ['manualSort']
  return [(c[1:], False) if c.startswith('-') else (c, True) for c in cols]


MALFORMED_CHOICES = [('Nope', None), (['S1', 'Nope'], None), ('Nope', 'Nope'), ('-', None), ('-Nope', None)]


def gen_doc(rng, tier, robust=False, empty_spec=False, malformed=False):
  n = rng.choice([0, 1, 2, 3, 4, 5, 6, 8] if tier == 'quick' else [0, 1, 2, 3, 4, 5, 6, 8, 10, 12])
  if malformed:
    n = max(n, 1)      # the model learns which columns exist from the rows
  if robust:
    flav = ['robust', 'robust']
    pools = [ROBUST_POOL, ROBUST_POOL]
  else:
    flav = [rng.choice(['smallint', 'smallint', 'numeric', 'str', 'date', 'intlist', 'strlist', 'nested', 'mixed', 'mixed',
                        'typed_date', 'typed_numeric', 'typed_text', 'typed_int']),
            rng.choice(['smallint', 'numeric', 'str', 'mixed'])]
    pools = [POOLS[f] for f in flav]
    # keep pools small so that duplicates are frequent
    pools = [rng.sample(p, min(len(p), rng.choice([2, 3, 4, 6]))) if rng.random() < 0.7 else p for p in pools]
  order_by, sort_by = rng.choice(MALFORMED_CHOICES if malformed else EMPTY_SPEC_CHOICES if empty_spec else ORDER_CHOICES)
  tuple_cols = [c for c in ('S1',) if flav[0] in ('intlist', 'strlist', 'nested', 'mixed') and rng.random() < 0.3]
  group_by = rng.choice([[], [], ['G1'], ['G1'], ['G1', 'G2']])
  gpool = rng.sample(GROUP_POOL, rng.choice([2, 3, 4]))
  spec = effective_spec(order_by, sort_by)
  nprobe = rng.choice([1, 1, 1, 2, 2, 3, 0] if rng.random() < 0.15 else [1, 2]) if not empty_spec else 1
  nprobe = max(nprobe, 0)
  if nprobe and rng.random() < 0.7:
    nprobe = max(1, min(nprobe, len([c for c in spec if c[0] != 'manualSort']) or 1))

  def pool_of(colname):
    if colname == 'S1':
      return pools[0]
    if colname == 'S2':
      return pools[1]
    if colname == 'manualSort':
      return [0.5, 1.0, 1.5, 2.0, 3.0, 3.5, 100.0, None]
    return [0, 1, 2, 5]

  def probe_val(k):
    col = spec[k][0] if k < len(spec) else None
    p = pool_of(col)
    r = rng.random()
    if col == 'S1' and flav[0] == 'typed_date' and r < 0.75:
      v = rng.choice(p + [259200])
      return None if v is None else ['d', v]
    if robust or r < 0.75:
      return rng.choice(p)
    if flav[0] in ('intlist', 'strlist', 'nested') and col == 'S1' and r < 0.9:
      return rng.choice(POOLS[flav[0]])
    return rng.choice(ATOMS)

  def new_row():
    r = {'S1': rng.choice(pools[0]), 'S2': rng.choice(pools[1]),
         'G1': rng.choice(gpool), 'G2': rng.choice(gpool[:2]),
         'Q1': rng.choice(gpool + [3]), 'Q2': rng.choice(gpool[:2])}
    for k in range(3):
      r['P%d' % (k + 1)] = probe_val(k)
    return r

  ids = list(range(1, n + 1))
  if n and rng.random() < 0.3:
    ids = sorted(rng.sample(range(1, 3 * n + 2), n))
  rows = [new_row() for _ in ids]
  datacols = ['S1', 'S2', 'G1', 'G2', 'Q1', 'Q2', 'P1', 'P2', 'P3']
  load = ['BulkAddRecord', 'T', list(ids), {c: [r[c] for r in rows] for c in datacols}]
  edits = []
  live = list(ids)
  nextid = (max(ids) if ids else 0) + 1
  if rng.random() < 0.6 and not malformed:
    for _ in range(rng.choice([1, 2, 3, 5])):
      r = rng.random()
      if r < 0.35 and len(live) >= 2:
        # exchange the sort values of two records: the cached sorted version of their group must be dropped
        a, b = rng.sample(live, 2)
        col = rng.choice(['S1', 'S1', 'S2'])
        cur = {}
        for act in [load] + edits:
          if act[0] == 'BulkAddRecord':
            cur.update(dict(zip(act[2], act[3][col])))
          elif act[0] in ('AddRecord', 'UpdateRecord') and col in act[3]:
            cur[act[2]] = act[3][col]
        edits.append(['BulkUpdateRecord', 'T', [a, b], {col: [cur[b], cur[a]]}])
      elif r < 0.55 and live:
        col = rng.choice(['S1', 'S1', 'S2', 'G1', 'P1', 'Q1'])
        edits.append(['UpdateRecord', 'T', rng.choice(live), {col: new_row()[col]}])
      elif r < 0.7:
        edits.append(['AddRecord', 'T', nextid, new_row()])
        live.append(nextid)
        nextid += 1
      elif r < 0.85 and live:
        rid = rng.choice(live)
        live.remove(rid)
        edits.append(['RemoveRecord', 'T', rid])
      elif live:
        edits.append(['UpdateRecord', 'T', rng.choice(live), {'manualSort': rng.choice([0.25, 1.5, 2.5, 7.75, 50.0])}])
  return {'col_types': {'S1': TYPED[flav[0]]} if flav[0] in TYPED else {},
          'flavors': flav, 'order_by': order_by, 'sort_by': sort_by, 'group_by': group_by, 'tuple_cols': tuple_cols,
          'nprobe': nprobe, 'load': load, 'edits': edits, 'formulas_first': rng.random() < 0.6,
          'robust': bool(robust), 'group_by_str': rng.random() < 0.5, 'malformed': bool(malformed)}


def exhaustive_docs():
  """all tables of <= 4 records with keys in {0,1,2}; six extra rows (another group) carry the probes."""
  probes = [-1, 0, 1, 2, 3, None]
  k = 0
  for n in range(0, 5):
    for keys in itertools.product([0, 1, 2], repeat=n):
      k += 1
      ids = list(range(1, n + 1 + len(probes)))
      cols = {'S1': list(keys) + [9] * len(probes), 'S2': [0] * len(ids),
              'G1': [1] * n + [2] * len(probes), 'G2': [0] * len(ids), 'Q1': [1] * len(ids), 'Q2': [0] * len(ids),
              'P1': [keys[i % n] if n else 0 for i in range(n)] + probes, 'P2': [0] * len(ids), 'P3': [0] * len(ids)}
      yield {'flavors': ['exhaustive', 'const'], 'order_by': 'S1' if k % 2 else '-S1', 'sort_by': None,
             'group_by': ['G1'], 'tuple_cols': [], 'nprobe': 1, 'load': ['BulkAddRecord', 'T', ids, cols],
             'edits': [], 'formulas_first': bool(k % 3), 'robust': False, 'find_group': ['G1']}


# ---------------------------------------------------------------------------------------------
# building the document in the real engine

def _pyrepr(x):
  if isinstance(x, list):
    return '(' + ', '.join(repr(i) for i in x) + (',)' if len(x) == 1 else ')')
  return repr(x)


def sortcol(doc, c):
  """name of the column a spec entry refers to (tuple-mode columns are formula columns S1t)."""
  neg = c.startswith('-')
  base = c[1:] if neg else c
  if base in doc['tuple_cols']:
    base += 't'
  return ('-' if neg else '') + base


def spec_args(doc):
  ob = doc['order_by']
  if isinstance(ob, list):
    ob = [sortcol(doc, c) for c in ob]
  elif isinstance(ob, str):
    ob = sortcol(doc, ob)
  sb = sortcol(doc, doc['sort_by']) if doc['sort_by'] else None
  return ob, sb


def formulas(doc):
  ob, sb = spec_args(doc)
  ob_txt = 'order_by=%s' % _pyrepr(ob)
  find_ord = ('sort_by=%s' % _pyrepr(sb)) if sb else ob_txt
  fgroup = doc.get('find_group', doc['group_by'])
  qmap = {'G1': 'Q1', 'G2': 'Q2'}
  gk = ''.join('%s=$%s, ' % (g, qmap[g]) for g in fgroup)
  own = ''.join('%s=$%s, ' % (g, g) for g in doc['group_by'])
  gb_txt = 'group_by=%s' % (repr(doc['group_by'][0]) if doc.get('group_by_str') and len(doc['group_by']) == 1
                            else _pyrepr(list(doc['group_by'])))
  def pv(k):
    if 'S1' in doc['tuple_cols'] and k == 0:
      return '_t($P1)'
    return '$P%d' % (k + 1)
  probes = ', '.join(pv(k) for k in range(doc['nprobe']))
  lk = 'T.lookupRecords(%s%s)' % (gk, find_ord)
  f = {}
  for o in FIND_OPS:
    f['F_' + o] = '%s.find.%s(%s).id' % (lk, o, probes)
  f['F_prev'] = 'PREVIOUS(rec, %s, %s).id' % (gb_txt, ob_txt)
  f['F_next'] = 'NEXT(rec, %s, %s).id' % (gb_txt, ob_txt)
  f['F_rank'] = 'RANK(rec, %s, %s)' % (gb_txt, ob_txt)
  f['F_rankd'] = 'RANK(rec, %s, %s, order="desc")' % (gb_txt, ob_txt)
  f['F_all'] = 'list(%s.id)' % lk
  f['F_grp'] = 'list(T.lookupRecords(%s%s).id)' % (own, ob_txt)
  for k in range(doc['nprobe']):
    f['V_P%d' % (k + 1)] = pv(k)
  if any(f_.startswith('_t(') or '_t(' in f_ for f_ in f.values()):
    f = {k: ('_t = lambda x: tuple(x) if isinstance(x, list) else x\nreturn ' + v) if '_t(' in v else v
         for k, v in f.items()}
  return f


def build(doc):
  core.setup_impl_path()
  logging.disable(logging.CRITICAL)
  import engine as engine_mod
  import useractions
  ua = useractions.from_repr
  e = engine_mod.Engine()
  e.load_empty()
  e.apply_user_actions([ua(['InitNewDoc'])])
  cols = [{'id': c, 'type': doc.get('col_types', {}).get(c, 'Any'), 'isFormula': False}
          for c in ('S1', 'S2', 'G1', 'G2', 'Q1', 'Q2', 'P1', 'P2', 'P3')]
  for c in doc['tuple_cols']:
    cols.append({'id': c + 't', 'type': 'Any', 'isFormula': True,
                 'formula': 'tuple($%s) if isinstance($%s, list) else $%s' % (c, c, c)})
  fcols = [{'id': k, 'type': 'Any', 'isFormula': True, 'formula': v} for k, v in sorted(formulas(doc).items())]
  import copy
  if doc['formulas_first']:
    e.apply_user_actions([ua(['AddTable', 'T', cols + fcols])])
  else:
    e.apply_user_actions([ua(['AddTable', 'T', cols])])
  e.apply_user_actions([ua(copy.deepcopy(doc['load']))])
  for a in doc['edits']:
    e.apply_user_actions([ua(copy.deepcopy(a))])
  if not doc['formulas_first']:
    e.apply_user_actions([ua(['AddColumn', 'T', c['id'], {k: v for k, v in c.items() if k != 'id'}]) for c in fcols])
  return e


def observe(doc):
  """Build the document; return {'ids': [...], 'cols': {col: [encoded values]}} of table T."""
  import actions
  e = build(doc)
  rep = actions.get_action_repr(e.fetch_table('T'))
  return {'ids': list(rep[2]), 'cols': rep[3]}


def rich_rows(doc, obs):
  """per row id: dict column -> rich value, for the columns the model and the oracle need."""
  out = {}
  for i, rid in enumerate(obs['ids']):
    r = {'id': rid}
    for c in ('S1', 'S2', 'G1', 'G2', 'Q1', 'Q2', 'manualSort'):
      r[c] = dec(obs['cols'][c][i])
      if doc.get('col_types', {}).get(c) == 'Date' and isinstance(r[c], (int, float)) and not isinstance(r[c], bool):
        r[c] = EPOCH + datetime.timedelta(days=int(r[c]) // 86400)     # what a Date column shows to formulas
    for c in doc['tuple_cols']:
      r[c + 't'] = dec(obs['cols'][c][i], tup=True)
    r['probe'] = []
    for k in range(doc['nprobe']):
      enc = obs['cols']['V_P%d' % (k + 1)][i]
      r['probe'].append(dec(enc, tup=('S1' in doc['tuple_cols'] and k == 0)))
    out[rid] = r
  return out


def cell_result(x):
  """formula cell -> ('ok', int) | ('value',) | ('other',)"""
  if is_err(x):
    return ('value',) if len(x) > 1 and x[1] == 'ValueError' else ('other',)
  if isinstance(x, bool) or not isinstance(x, int):
    return ('other',)
  return ('ok', x)


def coq_res(r):
  return {'ok': lambda: '(Ok %s)' % core.zlit(r[1]), 'value': lambda: 'ErrValue', 'other': lambda: 'ErrOther'}[r[0]]()


# ---------------------------------------------------------------------------------------------
# Coq side of a document

def coq_colspecs(x):
  if x is None:
    return '[]'
  if isinstance(x, str):
    x = [x]
  return core.coq_list([core.strlit(c) for c in x])


def coq_doc(doc, obs, rows):
  """(tbl, has_manual, [(query, expected)]) plus the list of (rid, op) the queries stand for."""
  ob, sb = spec_args(doc)
  model_cols = ['S1', 'S2', 'G1', 'G2', 'manualSort'] + [c + 't' for c in doc['tuple_cols']]
  tbl = []
  for rid in obs['ids']:
    r = rows[rid]
    cells = ['(%s, %s)' % (core.strlit('id'), coq_val(rid))]
    cells += ['(%s, %s)' % (core.strlit(c), coq_val(r[c])) for c in model_cols]
    tbl.append('(mkTrow %s %s)' % (core.zlit(rid), core.coq_list(cells)))
  fgroup = doc.get('find_group', doc['group_by'])
  qmap = {'G1': 'Q1', 'G2': 'Q2'}
  qs, keys = [], []
  for i, rid in enumerate(obs['ids']):
    r = rows[rid]
    gkey = core.coq_list(['(%s, %s)' % (core.strlit(g), coq_val(r[qmap[g]])) for g in fgroup])
    probe = core.coq_list([coq_val(v) for v in r['probe']])
    for o in OPS:
      exp = coq_res(cell_result(obs['cols']['F_' + o][i]))
      if o in FIND_OPS:
        q = '(QFind %s %s %s %s %s)' % (COQ_OP[o], gkey, coq_colspecs(ob if not sb else None),
                                         core.strlit(sb) if sb else '[]', probe)
      else:
        q = '(QPN %s %s %s %s)' % (COQ_OP[o], core.coq_list([core.strlit(g) for g in doc['group_by']]),
                                    coq_colspecs(ob), core.zlit(rid))
      qs.append('(%s, %s)' % (q, exp))
      keys.append((rid, o))
  tbl_txt = core.coq_list(tbl) if tbl else '(@nil trow)'
  return '(%s, true, %s)' % (tbl_txt, core.coq_list(qs) if qs else '(@nil (query * res))'), qs, keys, tbl_txt


def coq_domains(doc, obs, rows):
  """[(order_by, sort_by, probes)] : the (one or two) sort specs of the document with all probe tuples."""
  ob, sb = spec_args(doc)
  probes = core.coq_list(['(%s : list val)' % core.coq_list([coq_val(v) for v in rows[rid]['probe']]) for rid in obs['ids']])
  if not obs['ids']:
    probes = '(@nil (list val))'
  out = ['((%s : list (list Z)), (@nil Z), %s)' % (coq_colspecs(ob), probes)]
  if sb:
    out.append('((@nil (list Z)), %s, %s)' % (core.strlit(sb), probes))
  return out


CHECK_DOC = ('fun c => let \'(tbl, hm, qs, doms) := c in '
             'forallb (fun qe => res_eqb (eval_query tbl hm (fst qe)) (snd qe)) qs && '
             'forallb (fun d => let \'(ob, sb, probes) := d in domain_okb tbl hm ob sb probes) doms')
CHECK_ONE = ('fun c => let \'(tbl, hm, qe) := c in res_eqb (eval_query tbl hm (fst qe)) (snd qe)')
CHECK_DOMAIN = ('fun c => let \'(tbl, d) := c in let \'(ob, sb, probes) := d in domain_okb tbl true ob sb probes')


# ---------------------------------------------------------------------------------------------
# the property's oracle: linear scan over the ordered result the implementation returns

def in_domain(doc, rows):
  """sort values of all rows and all probes mutually comparable, column by column (the theorems' hypothesis)."""
  ob, sb = spec_args(doc)
  for spec in ([effective_spec(ob, sb), effective_spec(ob, None)] if sb else [effective_spec(ob, None)]):
    for k, (c, _asc) in enumerate(spec):
      vals = [r[c] for r in rows.values()]
      if k < doc['nprobe']:
        vals += [r['probe'][k] for r in rows.values()]
      for a in vals:
        for b in vals:
          if not py_comparable(a, b):
            return False
  return True


def cmp_prefix(spec, va, vb):
  for (a, b, (_c, asc)) in zip(va, vb, spec):
    c = ref_cmp1(a, b)
    if c:
      return c if asc else -c
  return 0


def oracle_cell(doc, obs, rows, i, o):
  """None if the formula cell agrees with the linear scan, else (kind, description)."""
  ob, sb = spec_args(doc)
  rid = obs['ids'][i]
  r = rows[rid]
  got = cell_result(obs['cols']['F_' + o][i])
  find = o in FIND_OPS
  spec = effective_spec(ob, sb if find else None)
  ordered = obs['cols']['F_all' if find else 'F_grp'][i]
  if is_err(ordered) or not isinstance(ordered, list):
    return ('lookup_error', 'lookupRecords itself failed: %r' % (ordered,))
  ordered = list(ordered[1:])
  # the ordered result must be the matching records in key order (manualSort / row id break ties)
  fgroup = doc.get('find_group', doc['group_by'])
  qmap = {'G1': 'Q1', 'G2': 'Q2'}
  want = [x for x in obs['ids'] if all(_key_eq(rows[x][g], r[qmap[g]] if find else r[g])
                                       for g in (fgroup if find else doc['group_by']))]
  if sorted(ordered) != sorted(want):
    return ('lookup_members', 'lookup returned %r, matching records are %r' % (ordered, want))
  for a, b in zip(ordered, ordered[1:]):
    c = cmp_prefix(spec, [rows[a][c_] for c_, _ in spec], [rows[b][c_] for c_, _ in spec])
    if c > 0 or (c == 0 and a > b):
      return ('lookup_order', 'lookup result %r is not in key order at %r,%r' % (ordered, a, b))
  if not spec and got == ('value',):
    # row-id order (order_by starts with "id"): the linear scan below is well defined, the code raises
    return ('order_by_id_raises', 'order_by=%r denotes row-id order but %s raises ValueError '
            '(no sort_key for an empty sort spec)' % (doc['order_by'], o))
  if find:
    if doc['nprobe'] == 0:
      return None if got[0] != 'ok' else ('no_probe', 'find.%s() without values returned %r' % (o, got))
    pos = [cmp_prefix(spec, [rows[x][c_] for c_, _ in spec], r['probe']) for x in ordered]   # -1 before, 0 equal, 1 after
    if o == 'lt':
      exp = ([x for x, p in zip(ordered, pos) if p < 0] or [0])[-1]
    elif o == 'le':
      exp = ([x for x, p in zip(ordered, pos) if p <= 0] or [0])[-1]
    elif o == 'gt':
      exp = ([x for x, p in zip(ordered, pos) if p > 0] or [0])[0]
    elif o == 'ge':
      exp = ([x for x, p in zip(ordered, pos) if p >= 0] or [0])[0]
    else:
      exp = ([x for x, p in zip(ordered, pos) if p == 0] or [0])[0]
  else:
    if rid not in ordered:
      return ('not_in_group', 'record %r is not in its own group %r' % (rid, ordered))
    j = ordered.index(rid)
    if o == 'prev':
      exp = ordered[j - 1] if j > 0 else 0
    elif o == 'next':
      exp = ordered[j + 1] if j + 1 < len(ordered) else 0
    elif o == 'rank':
      exp = j + 1
    else:
      exp = len(ordered) - j
  if got != ('ok', exp):
    return ('scan_mismatch', '%s for record %r (probe %r) over ordered result %r: engine %r, linear scan %r' %
            (o, rid, r['probe'] if find else None, ordered, got, exp))
  return None


def _key_eq(a, b):
  try:
    return a == b and hash(a) == hash(b)
  except TypeError:
    return False


# ---------------------------------------------------------------------------------------------
# the translated search core (coq/gen/Bisect_gen.v) and its differential validation

def regenerate(ctx):
  try:
    text = bs2v.translate(core.GRIST)
  except bs2v.Untranslatable as e:
    raise core.TieBroken('sort_key.py / records.py / functions/prevnext.py are outside the translated subset '
                         '(harness/bs2v.py): %s' % e)
  core.write_if_changed(os.path.join(core.COQ, 'gen', 'Bisect_gen.v'), text)


TQ_DEFS = '''Require Import Grist.Model.BisectPy GristGen.Bisect_gen.
Inductive tq : Type :=
| TKeyLt (r1 : rowid) (v1 : option (list val)) (r2 : rowid) (v2 : option (list val))
| TFind (k : Z) (vals : list val) | TPrev (z : Z) | TNext (z : Z) | TRank (z : Z) (o : list Z)
| TAt (i : Z) | TLen | TPN (k : Z) (z : Z) (o : list Z).
Definition run_tq (tbl : pytable) (spec : list (list Z)) (ids : list Z) (haskey sortby : bool) (q : tq) : outcome :=
  match make_sort_key_spec tbl spec with
  | Raise e => OutErr e
  | OK cs =>
      let cls := mkCls tbl cs in
      let rs := mkPyrset ids (if haskey then Some cls else None) sortby in
      let sl := fun (_ : Z) (_ _ : unit) => OK rs in
      match q with
      | TKeyLt r1 v1 r2 v2 => out_b (bind (SortKey___init__ cls r1 v1) (fun x =>
                                     bind (SortKey___init__ cls r2 v2) (fun y => SortKey___lt__ cls x y)))
      | TFind k v => out_z (if k =? 0 then FindOps_lt rs v else if k =? 1 then FindOps_le rs v else
                            if k =? 2 then FindOps_gt rs v else if k =? 3 then FindOps_ge rs v else FindOps_eq rs v)
      | TPrev z => out_z (FindOps_previous rs z)
      | TNext z => out_z (FindOps_next rs z)
      | TRank z o => out_z (FindOps_rank rs z o)
      | TAt i => out_z (RecordSet__at rs i)
      | TLen => out_z (RecordSet___len__ rs)
      | TPN k z o => out_z (if k =? 0 then PN_PREVIOUS sl z tt tt else if k =? 1 then PN_NEXT sl z tt tt
                            else PN_RANK sl z tt tt o)
      end
  end.
'''
TQ_CHECK = ("fun c => let '(cols, rows, spec, ids, hk, sb, qs) := c in "
            "forallb (fun qe => outcome_eqb (run_tq (table_of cols rows) spec ids hk sb (fst qe)) (snd qe)) qs")
TQ_ONE = ("fun c => let '(cols, rows, spec, ids, hk, sb, qe) := c in "
          "outcome_eqb (run_tq (table_of cols rows) spec ids hk sb (fst qe)) (snd qe)")
TV_POOL = [None, None, True, 0, 1, 2, 2.0, 0.5, -1, 'a', 'b', '', ['d', 0], ['d', 86400], ['D', 5, 'UTC'],
           ['L'], ['L', 1], ['L', 1, 2], ['L', 'x'], ['L', None], ['L', 1, 'y'], ['L', ['L', 1]]]


def _outcome(fn):
  import records
  try:
    r = fn()
  except TypeError:
    return 'OutErr ExTypeError'
  except ValueError:
    return 'OutErr ExValueError'
  except Exception:         # pylint: disable=broad-except
    return 'OutErr ExOther'
  if isinstance(r, bool):
    return 'OutB %s' % core.boollit(r)
  if isinstance(r, records.Record):
    r = int(r)
  if isinstance(r, int):
    return 'OutZ %s' % core.zlit(r)
  return 'OutErr ExOther'


def translator_cases(ctx):
  """(coq case, description) list: the REAL SortKey / RecordSet / FindOps / PREVIOUS.. on stub tables."""
  core.setup_impl_path()
  import records
  import sort_key
  from functions import prevnext
  rng = ctx.rng
  SMIN, SMAX = records._min_row_id, records._max_row_id
  out = []
  for _ in range(ctx.n(40, 600)):
    ncols = rng.choice([1, 1, 2, 3])
    cols = ['A', 'B', 'C'][:ncols]
    n = rng.choice([0, 1, 2, 3, 4, 5, 7])
    ids = sorted(rng.sample(range(1, 20), n))
    pool = rng.sample(TV_POOL, rng.choice([2, 3, 5, len(TV_POOL)]))
    cells = {c: {i: dec(rng.choice(pool), tup=rng.random() < 0.1) for i in ids} for c in cols}
    spec = [rng.choice(['', '-']) + c for c in rng.sample(cols, rng.randint(1, ncols))]
    if rng.random() < 0.06:
      spec.append(rng.choice(['Nope', '-', '']))

    class Col(object):
      def __init__(self, d):
        self.d = d
      def get_cell_value(self, row_id):
        return self.d[row_id]

    class Table(object):
      table_id = 'T'
      _identity_relation = None
      def __init__(self):
        self.cols = {c: Col(cells[c]) for c in cols}
        self.rs = None
      def get_column(self, c):
        return self.cols[c]
      def lookup_records(self, **_kw):
        return self.rs

    t = Table()
    t.Record = type('Record', (records.Record,), {'_table': t})
    t.RecordSet = type('RecordSet', (records.RecordSet,), {'_table': t})
    qs = []
    try:
      K = sort_key.make_sort_key(t, tuple(spec))
    except Exception:        # pylint: disable=broad-except
      K = None
    haskey = rng.random() < 0.9
    sortby = rng.random() < 0.3
    if K is not None and ids and rng.random() < 0.8:
      order = sorted(ids, key=K)
    else:
      order = list(ids)
      rng.shuffle(order)
    if order and rng.random() < 0.05:
      order.append(99)                      # a row id the table does not have
    if K is None:
      qs.append(('TLen', 'OutErr ExOther'))
    else:
      rs = t.RecordSet(order, sort_key=K if haskey else None, sort_by='A' if sortby else None)
      t.rs = rs
      def vals():
        k = rng.choice([0, 1, 1, 1, 2, 2, 3])
        return tuple(dec(rng.choice(pool if rng.random() < 0.8 else TV_POOL), tup=rng.random() < 0.1) for _ in range(k))
      def optv():
        return None if rng.random() < 0.5 else vals()
      def rowid():
        r = rng.random()
        return SMIN if r < 0.15 else SMAX if r < 0.3 else rng.choice(ids + [1])
      def c_rowid(r):
        return 'RNegInf' if r == SMIN else 'RPosInf' if r == SMAX else '(RId %s)' % core.zlit(r)
      def c_optv(v):
        return 'None' if v is None else '(Some %s)' % core.coq_list([coq_val(x) for x in v])
      for _ in range(6):
        r1, v1, r2, v2 = rowid(), optv(), rowid(), optv()
        qs.append(('(TKeyLt %s %s %s %s)' % (c_rowid(r1), c_optv(v1), c_rowid(r2), c_optv(v2)),
                   _outcome(lambda: K(r1, v1) < K(r2, v2))))
      for k, name in enumerate(FIND_OPS):
        for _ in range(2):
          v = vals()
          qs.append(('(TFind %d %s)' % (k, core.coq_list([coq_val(x) for x in v])),
                     _outcome(lambda: getattr(rs.find, name)(*v))))
      for z in (rng.sample(ids, min(len(ids), 3)) + [1]):
        rec = t.Record(z)
        qs.append(('(TPrev %s)' % core.zlit(z), _outcome(lambda: rs._find.previous(rec))))
        qs.append(('(TNext %s)' % core.zlit(z), _outcome(lambda: rs.find.next(rec))))
        for o in ('asc', 'desc', 'down'):
          qs.append(('(TRank %s %s)' % (core.zlit(z), core.strlit(o)), _outcome(lambda: rs.find.rank(rec, order=o))))
        qs.append(('(TPN 0 %s [])' % core.zlit(z), _outcome(lambda: prevnext.PREVIOUS(rec, order_by='A'))))
        qs.append(('(TPN 1 %s [])' % core.zlit(z), _outcome(lambda: prevnext.NEXT(rec, group_by='G', order_by=None)
                                                          if False else prevnext.NEXT(rec, order_by=None))))
        qs.append(('(TPN 2 %s %s)' % (core.zlit(z), core.strlit('asc')), _outcome(lambda: prevnext.RANK(rec, order_by='A'))))
        qs.append(('(TPN 2 %s %s)' % (core.zlit(z), core.strlit('desc')),
                   _outcome(lambda: prevnext.RANK(rec, order_by='A', order='desc'))))
      for i in range(-2, len(order) + 2):
        qs.append(('(TAt %s)' % core.zlit(i), _outcome(lambda: rs._at(i))))
      qs.append(('TLen', _outcome(lambda: len(rs))))
    rows_txt = core.coq_list(['(%s, %s)' % (core.zlit(i), core.coq_list(['(%s, %s)' % (core.strlit(c), coq_val(cells[c][i]))
                                                                          for c in cols])) for i in ids]) \
      if ids else '(@nil (Z * list (list Z * val)))'
    head = '%s, %s, %s, %s, %s, %s' % (core.coq_list([core.strlit(c) for c in cols]), rows_txt,
                                       core.coq_list([core.strlit(c) for c in spec]), core.zlist(order) if order else '(@nil Z)',
                                       core.boollit(haskey), core.boollit(sortby))
    out.append((head, qs, {'cols': cols, 'cells': repr(cells), 'spec': spec, 'ids': order, 'haskey': haskey}))
  return out


def validate_translation(ctx):
  cases = translator_cases(ctx)
  imports = ['Grist.Model.Bisect']
  coq = ['(%s, %s)' % (head, core.coq_list(['(%s, %s)' % q for q in qs])) for head, qs, _ in cases]
  bad = ctx.run_cases('tr', imports, TQ_CHECK, coq, shard=ctx.n(60, 150), timeout=900, extra_defs=TQ_DEFS)
  nq = sum(len(qs) for _, qs, _ in cases)
  ctx.extra['translator_validation'] = {'stub_tables': len(cases), 'calls_compared': nq, 'disagreements': len(bad)}
  for ci in bad[:4]:
    head, qs, desc = cases[ci]
    badq = ctx.run_cases('trone%d' % ci, imports, TQ_ONE, ['(%s, (%s, %s))' % (head, q, e) for q, e in qs], shard=500,
                         timeout=600, extra_defs=TQ_DEFS)
    for qi in badq[:3]:
      ctx.broken('translation:the Gallina translated by harness/bs2v.py differs from the running code',
                 'call %s: the code gives %s; table %r' % (qs[qi][0], qs[qi][1], desc))
  ctx.log('translator validation: %d stub tables, %d calls, %d tables disagree' % (len(cases), nq, len(bad)))


# ---------------------------------------------------------------------------------------------

def docs(ctx):
  out = []
  for _ in range(ctx.n(90, 1400)):
    out.append(gen_doc(ctx.rng, ctx.tier))
  for _ in range(ctx.n(6, 40)):
    out.append(gen_doc(ctx.rng, ctx.tier, empty_spec=True))
  for _ in range(ctx.n(8, 80)):
    out.append(gen_doc(ctx.rng, ctx.tier, robust=True))
  for _ in range(ctx.n(4, 30)):
    out.append(gen_doc(ctx.rng, ctx.tier, malformed=True))     # unknown sort column: both sides must report an error
  if ctx.tier == 'thorough':
    out.extend(exhaustive_docs())
    ctx.extra['exhaustive'] = True
    ctx.extra['exhaustive_space'] = ('all tables of <= 4 records with sort keys in {0,1,2} (asc and desc alternating), '
                                     'all probes in {-1,0,1,2,3,None}, all nine operations')
  return out


def observed(ctx):
  """[(doc, obs, rows)] for every generated document, built once per run."""
  if getattr(ctx, '_c14_obs', None) is None:
    res = []
    for doc in docs(ctx):
      try:
        obs = observe(doc)
        rows = rich_rows(doc, obs)
      except Exception as e:      # pylint: disable=broad-except
        ctx.broken('correspondence:cannot build document', '%r on %s' % (e, json.dumps(doc)[:1500]))
        continue
      res.append((doc, obs, rows))
    ctx._c14_obs = res
  return ctx._c14_obs


def correspond(ctx):
  validate_translation(ctx)
  cases, meta = [], []
  for doc, obs, rows in observed(ctx):
    if doc['robust']:
      continue
    try:
      txt, qs, keys, tbl_txt = coq_doc(doc, obs, rows)
    except Unrepresentable as e:
      ctx.bump('unrepresentable')
      continue
    if doc.get('malformed'):
      ctx.bump('malformed_documents')
      doms = []
    else:
      if not in_domain(doc, rows):
        ctx.bump('out_of_domain_document')
        continue
      doms = coq_domains(doc, obs, rows)
    cases.append('(%s, true, %s, %s)' % (tbl_txt, core.coq_list(qs) if qs else '(@nil (query * res))',
                                        core.coq_list(doms) if doms else '(@nil (list (list Z) * list Z * list (list val)))'))
    meta.append((doc, obs, rows, qs, keys, tbl_txt, doms))
    spec = [] if doc.get('malformed') else effective_spec(*spec_args(doc))
    for i, rid in enumerate(obs['ids']):
      for o in OPS:
        ordered = obs['cols']['F_all' if o in FIND_OPS else 'F_grp'][i]
        size = len(ordered) - 1 if isinstance(ordered, list) and not is_err(ordered) else 0
        got = cell_result(obs['cols']['F_' + o][i])
        ctx.count((_doc_hash(doc), rid, o), nontrivial=size >= 2,
                  sample={'order_by': doc['order_by'], 'sort_by': doc['sort_by'], 'group_by': doc['group_by'],
                          'op': o, 'record': rid, 'probe': [repr(v) for v in rows[rid]['probe']],
                          'ordered_result': ordered[1:] if size else [], 'engine': list(got)}
                         if (size >= 3 and ctx.evaluations % 97 == 0) else None,
                  kind='op:' + o)
        ctx.bump('result:' + ('error' if got[0] != 'ok' else ('empty' if got[1] == 0 and o not in ('rank', 'rankd') else 'record')))
        ctx.bump('setsize:%s' % (size if size < 4 else '4+'))
    ctx.bump('flavor:' + doc['flavors'][0])
    ctx.bump('spec_len:%d' % len(spec))
    ctx.bump('edits:%d' % len(doc['edits']))
    if _has_dups(doc, rows, spec):
      ctx.bump('documents_with_duplicate_sort_keys')
  imports = ['Grist.Model.Bisect']
  bad = ctx.run_cases('doc', imports, CHECK_DOC, cases, shard=ctx.n(30, 60), timeout=900)
  for di in bad[:8]:
    doc, obs, rows, qs, keys, tbl_txt, doms = meta[di]
    one = ['(%s, true, %s)' % (tbl_txt, q) for q in qs]
    badq = ctx.run_cases('one%d' % di, imports, CHECK_ONE, one, shard=500, timeout=600) if one else []
    for qi in badq[:4]:
      rid, o = keys[qi]
      i = obs['ids'].index(rid)
      ctx.broken('correspondence:model eval_query differs from the engine',
                 'op=%s record=%r engine=%r order_by=%r sort_by=%r group_by=%r probe=%r doc=%s' %
                 (o, rid, obs['cols']['F_' + o][i], doc['order_by'], doc['sort_by'], doc['group_by'],
                  rows[rid]['probe'], json.dumps(doc)[:1200]))
    # monitor: the generated in-domain documents satisfy the theorems' comparability hypothesis
    badd = ctx.run_cases('dom%d' % di, imports, CHECK_DOMAIN, ['(%s, %s)' % (tbl_txt, d) for d in doms], timeout=600)
    if badd:
      ctx.broken('monitor:domain_okb false on a document the generator calls in-domain', json.dumps(doc)[:1500])
    if not badq and not badd:
      ctx.broken('correspondence:document check failed but no single query does', json.dumps(doc)[:1500])
  ctx.log('correspondence: %d documents, %d disagree' % (len(cases), len(bad)))


def _doc_hash(doc):
  return hashlib.sha1(json.dumps(doc, sort_keys=True).encode()).hexdigest()[:12]


def _has_dups(doc, rows, spec):
  seen = set()
  for r in rows.values():
    k = repr([r[c] for c, _ in spec if c != 'manualSort'])
    if k in seen:
      return True
    seen.add(k)
  return False


def search(ctx):
  nviol = 0
  for doc, obs, rows in observed(ctx):
    if doc.get('malformed'):
      for i, rid in enumerate(obs['ids']):
        for o in OPS:
          got = cell_result(obs['cols']['F_' + o][i])
          if got[0] == 'ok':
            ctx.violation('unknown_column_accepted', '%s with order_by=%r sort_by=%r (no such column) returned %r' %
                          (o, doc['order_by'], doc['sort_by'], got), {'doc': doc, 'record': rid, 'op': o})
      continue
    dom = (not doc['robust']) and in_domain(doc, rows)
    for i, rid in enumerate(obs['ids']):
      for o in OPS:
        if not dom:
          # robustness stream: values SortKey cannot order (NaN, lists of unlike items): only "no internal error"
          got = cell_result(obs['cols']['F_' + o][i])
          ctx.bump('robustness_cells')
          if got[0] != 'ok' and doc['nprobe'] > 0 and effective_spec(*spec_args(doc)):
            ctx.bump('robustness_errors')
            ctx.notes.append('robustness stream: %s raised on out-of-domain values: %r' % (o, obs['cols']['F_' + o][i]))
          continue
        bad = oracle_cell(doc, obs, rows, i, o)
        if bad:
          kind, what = bad
          ctx.violation(kind, what, {'doc': doc, 'record': rid, 'op': o})
          nviol += 1
          if nviol > 30 and kind != 'order_by_id_raises':
            return


def replay(ctx, w):
  doc = w['doc']
  try:
    obs = observe(doc)
    rows = rich_rows(doc, obs)
  except Exception as e:      # pylint: disable=broad-except
    return 'document cannot be built: %r' % (e,)
  if w['record'] not in obs['ids']:
    return None
  if doc.get('malformed'):
    got = cell_result(obs['cols']['F_' + w['op']][obs['ids'].index(w['record'])])
    return 'unknown sort column accepted: %r' % (got,) if got[0] == 'ok' else None
  bad = oracle_cell(doc, obs, rows, obs['ids'].index(w['record']), w['op'])
  return bad[1] if bad else None


TECHNIQUE = ('Coq proof over the search core translated from source on every run (SortKey.__lt__/__init__, RecordSet._bisect_*, '
             '_find_eq, _at, FindOps.*, PREVIOUS/NEXT/RANK; harness/bs2v.py) bridged pointwise to a hand-written model, on which the '
             'linear-scan theorems are proved + differential validation of the translation against the running methods + '
             'per-cell differential check of the whole model against the real engine + linear-scan oracle on the implementation')
LEVEL_TEXT = ('Kernel-checked theorems, for record sets of any length: the SortKey order is a strict total order on mutually '
              'comparable keys with distinct row ids; bisect_left/right return the partition point; find.lt/le/gt/ge/eq equal '
              'the linear-scan definitions for all probe tuples (shorter or longer than the sort spec); PREVIOUS/NEXT/RANK '
              'asc/desc give the neighbours and 1-based positions of the record in its ordered group, with duplicate and '
              'mixed-type sort values. The same statements are proved about the Gallina translated from records.py, sort_key.py '
              'and prevnext.py on every run (C14_code_*, via bridging lemmas C14_bridge_*), so a semantic edit of those methods '
              'breaks a proof. The model is also compared with the engine on every formula cell of generated documents.')
LEVEL_NOTE = ('Trusted: Coq kernel; the bs2v translator and its bindings (validated differentially each run); faithfulness of '
              'Model/Bisect.v for the untranslated lookup part (checked differentially each run); CPython comparison '
              'semantics as modelled. Hypotheses: values mutually comparable per column (NaN excluded), distinct row ids, '
              'non-empty sort spec and probe.')
