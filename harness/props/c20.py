"""C20 -- Row positions stay unique and order-preserving (relabeling.prepare_inserts, PositionColumn)."""
import bisect
import math
import struct
import sys
import traceback

from harness import core

ID = 'C20'
TITLE = 'Row positions stay unique and order-preserving'
PROPS = ['Props/C20']
PROOF_TIMEOUT = 1500

RULE = ('cases = (sorted existing positions, batch of requested positions) as 64-bit patterns. Existing lists: '
        'integers 1..n, uniformly random, powers of two, halving series down to the subnormals, neighbourhoods of '
        'adjacent doubles (gaps 1 or 2-5 ulp) around anchors incl. binade boundaries, 2^52, 2^53, subnormals, '
        'zero/negative (renumber-all path), >= 2^53, a legacy stream with duplicates and infinities, and "evolved" '
        'lists obtained by applying prepare_inserts results over and over (one spot hammered, several spots at once, '
        'both ends), and neighbourhoods that STRADDLE a power of two (rows a few ulps on both sides of 2^k, k sampled '
        'over the whole exponent range incl. 0.5, 1, 2, 2^52, 2^53 and the subnormal border) with BATCHES of 2-8 equal or '
        'distinct requests for the same gap; requests: '
        'ties with existing rows, their successors, duplicates, +-inf, 0, random, and "all at one crowded spot". '
        'Every case is run through relabeling.prepare_inserts; the Gallina model must return the same patterns (or '
        'the same exception site), the certified checker `check` is evaluated in Coq on the implementation result, '
        'and an independent Python oracle is applied. A case is non-trivial when existing rows were adjusted, the '
        'renumber-all path ran, or the batch has a tie/duplicate. Engine stream: random histories of AddRecord / '
        'BulkAddRecord / UpdateRecord(manualSort) / RemoveRecord on a table with manualSort and a PositionNumber '
        'column, checked after every action against a reference row order; plus MOVES of existing rows (UpdateRecord / '
        'BulkUpdateRecord of manualSort to another row\'s position) into a spot crowded by ~40-160 inserts above one row: '
        'each moved row must land immediately before the row whose position was requested, the others keep their order. '
        'The order "position adjustments first, then the rows\' own action" in useractions.doBulkAddOrReplace / '
        'doBulkUpdateRecord is pinned on the AST. Code tie: coq/gen/Relabel_gen.v is regenerated from relabeling.py on every '
        'run and proved pointwise equal to the model (an edit that changes what is computed breaks a C20_bridge_* proof); '
        'the translator is validated on recorded calls of every translated function (state before, arguments, result / state '
        'after / exception site); untranslated glue is pinned by AST hash.')
TRUSTED = ['harness/relabel2v.py: the translator that rewrites the deciding code of relabeling.py (get_range, '
           '_adj_bisect_key_left, _adj_get_key, count_range, _adjust_range, _adjust_all, _find_sparse_enough_range with its '
           'thresholds, prep_inserts_at_index, range_around_float, prepare_inserts) into coq/gen/Relabel_gen.v on every run; '
           'fail-closed (anything outside its subset is TieBroken) and validated each run: calls recorded in the running '
           'implementation are evaluated on the generated definitions by vm_compute; every generated function is PROVED '
           'equal to the model function (Props/C20: C20_bridge_*)',
           'Model/Relabel.v: hand-written Gallina model of sortedcontainers as sorted lists and of the untranslated glue '
           '(_do_adjust_range, _group_insertions/ungroup, is_valid_range/all_distinct, prevfloat/nextfloat, the constructor '
           'and getters; column.py PositionColumn): pinned by AST hash, compared bit for bit with the implementation on every run',
           'Model/RelabelFrexp.v: math.frexp / math.ldexp / math.floor on the integer model, compared with CPython on every run',
           'Lib/Fl64.v: IEEE binary64 (round to nearest even) as exact integer arithmetic in units of 2^-1074; each '
           'primitive (+ - * / int->float prevfloat nextfloat < <= == frexp/floor/ldexp) compared with CPython on '
           'every run',
           'CPython float arithmetic / struct / math.frexp / math.ldexp (the platform the engine runs on)']
ASSUMPTIONS = ['existing positions are sorted and no position or request is NaN (Pre); legacy lists with duplicates or '
               'infinities are inside the quantifier for order/placement, "all rows distinct and finite" is claimed '
               'only when the existing rows were (test_relabeling.test_with_dups pins that duplicates are left alone)',
               'C20_total_stmt (no exception and Spec for every input) is refuted by three inputs outside the valid range '
               '(known findings: positions >= 2^53, top binade, an existing -inf); two further counterexamples were '
               'repaired in /repo (0fbacc5, 488eb97) and are regression examples + corpus witnesses now; proved on the append, no-renumbering and renumber-all-front paths; on the partial '
               'renumbering path every explored input gets its own kernel-checked certificate from C20_checker_sound',
               'theorems about the no-renumbering path assume the existing positions are doubles (wf_fl: what decode '
               'produces) and fewer than 2^53 requests']

TECHNIQUE = ('Coq proofs over a hand-written bit-exact model (integer model of binary64) + differential cases with '
             'vm_compute + certified result checker evaluated in Coq per case + whole-engine histories')
LEVEL_TEXT = ('Kernel-checked for all inputs: soundness of the result checker w.r.t. the property postcondition; '
              'ungroup/_group_insertions order and assignment; preservation of distinct finite positions over any '
              'history of additions/moves/removals whose results satisfy Spec; the renumber-all range is 1..N; total '
              'correctness of the model (no exception and Spec) on (i) the append/empty-table path, (ii) EVERY input '
              'that takes the no-renumbering path, derived from the implementation\'s own is_valid_range test via '
              'monotonicity of IEEE rounding, (iii) the simple renumber-all path (requests before an invalid first '
              'row), (iv) EVERY call whose requests fall into one gap before an existing row, valid positions, fewer than '
              '2^20 rows -- including the partial renumbering path (_find_sparse_enough_range / _adjust_range), assembled '
              'from: spread keys are strictly increasing at every level (three/four roundings), the density test implies '
              'the needed sparsity (table of the float powers 1.14^i, 1.3^i), a wide gap is never crowded, the search finds '
              'a range by level 55, _adjust_range / _adj_get_key / the final assert followed step by step; partial '
              'correctness for one gap anywhere; exactness of _adj_bisect_key_left under its precise side condition; '
              'refutation of the unrestricted total statement by three concrete inputs; regression examples for the two '
              'repaired defects. CODE TIE: each function regenerated from relabeling.py is proved equal to the model function for '
              'all arguments (range_around_float: for every non-negative double and level 0..63, via frexp/ldexp/floor), and '
              'the main theorems are restated about the generated prepare_inserts (C20_code_*).')
LEVEL_NOTE = ('The total-correctness statement for valid positions and SEVERAL gaps in one call stays a Definition '
              '(C20_total_restricted_stmt, no counterexample known on the repaired code): with several groups the later '
              'groups see adjusted rows, and the invariant that keeps _adj_bisect_key_left exact there (a dyadic-block '
              'argument) is not formalised; for that case on the partial '
              'renumbering path (_find_sparse_enough_range/_adjust_range: doubling ranges, thresholds 1.14^i/1.3^i) '
              'neither absence of exceptions nor Spec is proved; those inputs are covered by the per-case certificates '
              '(checker evaluated in Coq on every implementation result) and the bit-exact model correspondence.')

INF = float('inf')
MINNORMAL = 2.2250738585072014e-308
TWO53 = 2.0 ** 53


def bits(x):
  return struct.unpack('<Q', struct.pack('<d', x))[0]


def unbits(b):
  return struct.unpack('<d', struct.pack('<Q', b))[0]


def nf(x):
  import relabeling
  return relabeling.nextfloat(x)


def pf(x):
  import relabeling
  return relabeling.prevfloat(x)


def skip(x, n):
  for _ in range(n):
    x = nf(x)
  return x


# ---------------------------------------------------------------------------------------------
# running the implementation

SITES = [
  ('prep_inserts_at_index', 'assert self.count_range(begin, end) > 0', 1),
  ('prep_inserts_at_index', 'assert is_valid_range(begin, self._insertions.irange(begin, end), end)', 2),
  ('_find_sparse_enough_range', 'assert self.count_range(rbegin, rend) > 0', 3),
  ('_find_sparse_enough_range', 'raise ValueError("This isn\'t expected")', 4),
  ('range_around_float', None, 5),
  ('prep_inserts_at_index', 'assert count > 0', 7),
]


def classify_exception(e):
  """(model error code, frame locals of prep_inserts_at_index or {}) for an exception of prepare_inserts."""
  tb = e.__traceback__
  frames = []
  while tb is not None:
    frames.append(tb)
    tb = tb.tb_next
  code = 99
  last = frames[-1]
  fname = last.tb_frame.f_code.co_name
  import linecache
  text = (linecache.getline(last.tb_frame.f_code.co_filename, last.tb_lineno) or '').strip()
  for fn, line, c in SITES:
    if fn == fname and (line is None or line == text):
      if c == 5 and not isinstance(e, OverflowError):
        continue
      code = c
      break
  if isinstance(e, ValueError) and fname in ('remove', '_delete') and code == 99:
    code = 6
  loc = {}
  for f in frames:
    if f.tb_frame.f_code.co_name == 'prep_inserts_at_index':
      l = f.tb_frame.f_locals
      loc = {'index': l.get('index'), 'count': l.get('count'), 'begin': l.get('begin'), 'end': l.get('end'),
             'norig': len(l['self']._orig_list) if 'self' in l else None}
      if code == 2 and 'self' in l:
        # is the final assert only comparing with the neighbours' keys from before the adjustment?
        try:
          import relabeling
          w, idx = l['self'], l['index']
          nb = w._adj_get_key(idx - 1) if idx > 0 else 0.0
          ne = w._adj_get_key(idx) if idx < len(w._orig_list) else l['end']
          loc['fresh_valid'] = bool(relabeling.is_valid_range(nb, w._insertions.irange(nb, ne), ne))
        except Exception:      # pylint: disable=broad-except
          loc['fresh_valid'] = None
  return code, loc


def run_impl(orig, keys):
  """-> ('ok', adj, ins) or ('exc', code, locals, repr)"""
  import relabeling
  from sortedcontainers import SortedListWithKey
  sl = SortedListWithKey(list(range(len(orig))), key=lambda i: orig[i])
  if list(sl) != list(range(len(orig))):
    raise core.TieBroken('harness: existing positions not sorted: %r' % (orig,))
  try:
    adj, ins = relabeling.prepare_inserts(sl, list(keys))
  except Exception as e:      # pylint: disable=broad-except
    code, loc = classify_exception(e)
    return ('exc', code, loc, '%s: %s' % (type(e).__name__, e))
  return ('ok', [(int(i), float(p)) for (i, p) in adj], [float(x) for x in ins])


# ---------------------------------------------------------------------------------------------
# the property's own oracle (independent of the Coq checker)

def oracle(orig, keys, adj, ins):
  n = len(orig)
  idx = [i for i, _ in adj]
  if not all(0 <= i < n for i in idx):
    return 'adjustment-index', 'an adjustment names a row that does not exist'
  if not all(a < b for a, b in zip(idx, idx[1:])):
    return 'adjustment-index', 'adjustment indexes are not strictly increasing'
  if not all(math.isfinite(p) for _, p in adj):
    return 'not-finite', 'an adjusted position is not finite'
  new = list(orig)
  for i, p in adj:
    new[i] = p
  if len(ins) != len(keys):
    return 'length', 'number of new positions differs from the number of requests'
  if not all(math.isfinite(x) for x in ins):
    return 'not-finite', 'a new position is not finite'
  for i in range(n - 1):
    if not new[i] <= new[i + 1]:
      return 'existing-order', 'existing rows %d,%d swapped' % (i, i + 1)
    if orig[i] < orig[i + 1] and not new[i] < new[i + 1]:
      return 'existing-order', 'existing rows %d,%d no longer strictly apart' % (i, i + 1)
  for k, (key, v) in enumerate(zip(keys, ins)):
    p = bisect.bisect_left(orig, key)
    if not all(new[i] < v for i in range(p)) or not all(v < new[i] for i in range(p, n)):
      return 'placement', 'request %d (%r) got %r, not between existing rows %d and %d' % (k, key, v, p - 1, p)
  order = sorted(range(len(keys)), key=lambda i: (keys[i], i))
  vals = [ins[i] for i in order]
  if not all(a < b for a, b in zip(vals, vals[1:])):
    return 'request-order', 'new rows are not strictly in the order of their requested positions'
  strict = all(a < b for a, b in zip(orig, orig[1:])) and all(math.isfinite(x) for x in orig)
  if strict:
    allv = sorted(new + ins)
    if not all(a < b for a, b in zip(allv, allv[1:])) or not all(math.isfinite(x) for x in allv):
      return 'distinct', 'positions are not all distinct and finite afterwards'
  return None


def failure_kind(orig, keys, r):
  """Stable classification of a failing case (for the known-findings matchers)."""
  if r[0] == 'exc':
    _, code, loc, text = r
    b = loc.get('begin')
    if code == 3 and b is not None and 0 < b < MINNORMAL:
      return 'exception:subnormal-crowding'
    if code in (1, 2) and b is not None and loc.get('index') == loc.get('norig') and b >= TWO53:
      return 'exception:append-beyond-2^53'
    if code in (1, 2) and orig and orig[0] == -INF and -INF in keys:
      return 'existing-neginf'
    if code == 5 and b is not None and b >= 2.0 ** 1022:      # the doubled range would have to reach 2^1024
      return 'exception:ldexp-overflow'
    if code == 2 and loc.get('fresh_valid') is True:
      return 'exception:final-assert-stale-endpoints'
    return 'exception:code%d' % code
  kind, _ = oracle(orig, keys, r[1], r[2])
  if kind == 'placement' and orig and orig[0] == -INF and -INF in keys:
    return 'existing-neginf'
  return 'oracle:' + kind


def judge(orig, keys, r):
  """-> None or (kind, what)"""
  if r[0] == 'exc':
    return failure_kind(orig, keys, r), 'prepare_inserts raised %s (site %d)' % (r[3], r[1])
  o = oracle(orig, keys, r[1], r[2])
  if o is None:
    return None
  return failure_kind(orig, keys, r), o[1]


# ---------------------------------------------------------------------------------------------
# generators

ANCHORS = [1.0, 0.5, 3.0, 1e-5, 1e10, 2.0 ** 52 - 3, 2.0 ** 53 - 8, 1.9999999999999996, 0.9999999999999992,
           3.999999999999999, 1023.9999999999995, 0.1, 1e-300, 4e-308, MINNORMAL, 1e-310, 5e-324, 0.0, 1e300, 2.0 ** 60,
           2.0 ** 53, 1.7976931348623157e308 / 2]


def gen_orig(rng):
  mode = rng.choice(['ints', 'ints', 'dense', 'dense', 'dense2', 'mixed', 'tiny', 'big', 'neg', 'zero', 'pow2',
                     'clusters', 'halving', 'huge', 'legacy_dup', 'legacy_inf'])
  n = rng.choice([0, 1, 2, 3, 5, 8, 12, 20])
  if mode == 'ints':
    xs = [float(i + 1) for i in range(n)]
  elif mode in ('dense', 'dense2'):
    x = rng.choice(ANCHORS)
    x = pf(x) if (x > 0 and rng.random() < 0.2) else x
    # anywhere inside the aligned blocks that range_around_float uses (the middle of a block matters)
    x = skip(x, rng.choice([0, 0, 1, 3, 64, 128, 256, 255, 384, 512, rng.randint(0, 1024)])) if x == x else 1.0
    xs = []
    for _ in range(n):
      if not math.isfinite(x):
        break
      xs.append(x)
      x = nf(x) if rng.random() < (0.8 if mode == 'dense' else 0.3) else skip(x, rng.randint(2, 5))
  elif mode == 'mixed':
    xs = sorted(set(rng.uniform(0, 10) for _ in range(n)))
  elif mode == 'tiny':
    xs = sorted(set(rng.uniform(0, 1e-300) for _ in range(n)))
  elif mode == 'big':
    xs = sorted(set(rng.uniform(1e10, 2.0 ** 52) for _ in range(n)))
  elif mode == 'huge':
    xs = sorted(set(rng.choice([rng.uniform(2.0 ** 53, 2.0 ** 56), rng.uniform(1e300, 1.7e308), 1e307, 2.0 ** 54])
                    for _ in range(n)))
  elif mode == 'neg':
    xs = sorted(set(rng.uniform(-5, 5) for _ in range(n)))
  elif mode == 'zero':
    xs = sorted(set(rng.choice([0.0, 1.0, 5e-324, 2.0, 1e-320]) for _ in range(n)))
  elif mode == 'pow2':
    xs = sorted(set(2.0 ** rng.randint(-30, 30) for _ in range(n)))
  elif mode == 'halving':
    k = rng.choice([0, 1000, 1040, 1060, 1070])
    xs = sorted(2.0 ** -(k + j) for j in range(n) if k + j <= 1074)
  elif mode == 'clusters':
    s = set()
    for _ in range(max(1, n // 4)):
      c = rng.choice([1.0, 2.0, rng.uniform(0.1, 100), 2.0 ** rng.randint(-5, 20)])
      for _ in range(rng.randint(1, 6)):
        s.add(c)
        c = nf(c)
    xs = sorted(s)
  elif mode == 'legacy_dup':
    xs = sorted(rng.choice([1.0, 2.0, 3.0, 0.0, -1.0]) for _ in range(n))
  else:  # legacy_inf
    xs = ([-INF] * rng.choice([0, 0, 1, 2]) + sorted(set(rng.uniform(0, 10) for _ in range(n))) +
          [INF] * rng.choice([0, 1, 2]))
  # -0.0 and 0.0 are equal positions with different patterns; keep lists sorted by value
  return xs, mode


def gen_keys(rng, orig):
  k = rng.choice([1, 1, 2, 3, 5, 8, 16])
  out = []
  style = rng.random()
  fin = [x for x in orig if math.isfinite(x)]
  spot = rng.choice(orig) if orig else 1.0
  for _ in range(k):
    c = rng.random()
    if style < 0.3 and orig:
      out.append(rng.choice([spot, nf(spot) if math.isfinite(spot) else spot]))
    elif orig and c < 0.45:
      out.append(rng.choice(orig))
    elif fin and c < 0.6:
      out.append(nf(rng.choice(fin)))
    elif c < 0.72:
      out.append(INF)
    elif c < 0.77:
      out.append(-INF)
    elif c < 0.8:
      out.append(rng.choice([0.0, -0.0]))
    elif fin and c < 0.85:
      out.append(rng.uniform(fin[0], fin[-1]))
    else:
      out.append(rng.uniform(-1, 12))
  return out


def fixed_cases():
  """Edge cases the property text names, and the witnesses of the known findings."""
  half = [2.0 ** -k for k in range(1074, 1060, -1)]
  return [
    ([], [4.0]), ([], [0.0]), ([], [4.0, 4.0, 5.0, 6.0]), ([], [4.0, 5.0, 6.0, 5.0, 4.0]), ([], [INF] * 5),
    ([3.0, 4.0, 5.0], [0.0]), ([3.0, 4.0, 5.0], [3.0, 3.0, 4.0, 5.0, 6.0, 4.0, 6.0, 4.0]),
    ([0.0], [0.0]), ([0.0], [1.0]), ([0.0, 0.0, 0.0, 1.0, 1.0, 1.0], [0.0, 0.0]),
    ([INF], [0.0]), ([INF], [INF]), ([-17.0], [0.0]), ([-17.0], [-INF]), ([1.0, 1.0, 1.0, 2.0, 2.0, 2.0], [0.0]),
    ([1.0, nf(1.0)], [nf(1.0)]), ([1.0, nf(1.0)], [nf(1.0)] * 4), ([1.0, nf(1.0), skip(1.0, 2)], [nf(1.0), skip(1.0, 2)]),
    ([pf(2.0), 2.0, nf(2.0)], [2.0, nf(2.0), 2.0]), ([1.0, 2.0, 3.0], [INF, INF, -INF, -INF]),
    ([5e-324, 1e-323], [1e-323]), (half, [half[1]]), (half, [-INF]), ([5e-324], [5e-324]), ([5e-324], [0.0]),
    ([MINNORMAL, nf(MINNORMAL)], [nf(MINNORMAL)]), ([pf(MINNORMAL), MINNORMAL], [MINNORMAL]),
    ([1e307], [INF]), ([2.0 ** 53], [INF]), ([2.0 ** 53 - 2], [INF]), ([2.0 ** 53 - 2], [INF] * 3), ([2.0 ** 54], [INF]),
    ([2.0 ** 53], [INF, INF]), ([1.7976931348623157e308], [INF]), ([pf(1.7976931348623157e308), 1.7976931348623157e308],
                                                                   [1.7976931348623157e308]),
    ([pf(2.0 ** 1023), 2.0 ** 1023, nf(2.0 ** 1023)], [2.0 ** 1023] * 3),
    ([-INF], [-INF]), ([-INF], [-INF, INF]), ([-INF, 1.0], [-INF]), ([1.0, INF], [0.5]), ([1.0, INF], [INF]),
    ([-0.0, 1.0], [0.0]), ([-0.0], [-0.0]), ([1.0, 2.0], [-0.0, 0.0]),
    ([float(i + 1) for i in range(30)], [INF] * 20), ([float(i + 1) for i in range(10)], [5.0] * 30),
    ([1.0, pf(2.0), nf(2.0), 3.0], [nf(2.0)] * 2), ([0.25, pf(0.5), nf(0.5), 0.75], [nf(0.5)] * 2),
    ([pf(2.0), nf(2.0)], [2.0, nf(2.0), 2.0]), ([pf(pf(4.0)), nf(4.0)], [nf(4.0)] * 5),
    ([pf(MINNORMAL), nf(MINNORMAL)], [nf(MINNORMAL)] * 3), ([pf(2.0 ** 52), nf(2.0 ** 52)], [nf(2.0 ** 52)] * 2),
    ([skip(1.0, 256), skip(1.0, 257)], [skip(1.0, 257)]), ([skip(3.0, 256), skip(3.0, 257)], [skip(3.0, 257)]),
    ([skip(1.0, 128), skip(1.0, 129)], [skip(1.0, 129)]), ([skip(1.0, 256), skip(1.0, 257), skip(1.0, 300)], [skip(1.0, 257)] * 2),
  ]


def evolved_cases(rng, nhist, steps, maxlen):
  """Cases taken from lists that grew by applying prepare_inserts results (what a table really looks like after a
  history): hammering one spot, several spots at once, both ends, random spots."""
  import relabeling
  out = []
  for _ in range(nhist):
    orig = [float(i + 1) for i in range(rng.choice([0, 2, 4, 6]))]
    style = rng.choice(['multi', 'left', 'right', 'ends', 'random', 'multi'])
    spots = None
    for _step in range(steps):
      n = len(orig)
      if n > maxlen:
        break
      if style == 'multi' and n:
        if spots is None or rng.random() < 0.05:
          spots = [rng.randrange(n) for _ in range(rng.randint(1, 4))]
        keys = []
        for sp in spots:
          sp = min(sp, n - 1)
          keys.append(orig[sp])
          if rng.random() < 0.7:
            keys.append(nf(orig[sp]))
          if rng.random() < 0.3 and sp + 1 < n:
            keys.append(nf(orig[sp + 1]))
          if rng.random() < 0.3 and sp > 0:
            keys.append(orig[sp - 1])
        rng.shuffle(keys)
      elif style == 'left' and n:
        keys = [orig[min(2, n - 1)]] * rng.randint(1, 3)
      elif style == 'right' and n:
        keys = [nf(orig[min(1, n - 1)])] * rng.randint(1, 3)
      elif style == 'ends':
        keys = [-INF, INF]
      else:
        keys = [rng.choice(orig + [0.0, INF]) if orig else 1.0 for _ in range(rng.randint(1, 5))]
      r = run_impl(orig, keys)
      out.append((list(orig), keys, 'evolved-' + style if r[0] == 'ok' else 'evolved-failing'))
      if r[0] != 'ok':
        break
      new = list(orig)
      for i, p in r[1]:
        new[i] = p
      orig = sorted(new + r[2])
  return out


STRADDLE_EXPONENTS = [-1, 0, 1, 2, 3, 10, 52, 53, -1022, -1021, -1023, -1060, -1073, -30, 100, 1000, 1023]


def around_power_of_two(k, nbelow, nabove):
  """nbelow doubles just below 2**k, 2**k itself, nabove doubles just above it (positive finite ones only)."""
  pw = 2.0 ** k
  below, x = [], pw
  for _ in range(nbelow):
    x = pf(x)
    if not (x > 0):
      break
    below.append(x)
  above, x = [], pw
  for _ in range(nabove):
    x = nf(x)
    if not math.isfinite(x):
      break
    above.append(x)
  return below[::-1], pw, above


def gen_straddle(rng):
  """A crowded neighbourhood that straddles a power of two (float spacing doubles there) and a BATCH of 2..8 requests
  for one gap: existing rows a few ulps on both sides of 2**k, requests equal or distinct."""
  k = rng.choice(STRADDLE_EXPONENTS) if rng.random() < 0.7 else rng.randint(-1073, 1023)
  below, pw, above = around_power_of_two(k, 4, 4)
  pts = below + [pw] + above
  lo = rng.sample(below, rng.randint(1, min(2, len(below)))) if below else []
  hi = rng.sample(above, rng.randint(1, min(2, len(above)))) if above else []
  mid = [pw] if rng.random() < 0.25 else []
  outer = []
  if rng.random() < 0.5:
    outer = [x for x in (pw / 2, pw * 1.5) if 0 < x and math.isfinite(x) and x not in pts]
  orig = sorted(set(lo + mid + hi + outer))
  m = rng.randint(2, 8)
  first_above = min(hi) if hi else pw
  style = rng.random()
  if style < 0.45:
    keys = [first_above] * m                       # all into the gap that contains 2**k
  elif style < 0.6:
    keys = [rng.choice(orig)] * m
  elif style < 0.85:
    inside = [x for x in pts if (not lo or x > max(lo)) and x <= first_above]
    keys = [rng.choice(inside) for _ in range(m)]  # distinct keys, same gap
  else:
    keys = [rng.choice(pts + [INF, -INF]) for _ in range(m)]
  return orig, keys


def straddle_scope(k):
  """All strictly increasing lists of <= 3 out of 8 consecutive doubles centred on 2**k x all batches of <= 3 requests
  taken from those doubles (ordered batches)."""
  import itertools
  below, pw, above = around_power_of_two(k, 4, 3)
  pts = below + [pw] + above
  for n in range(0, 4):
    for o in itertools.combinations(pts, n):
      for m in (1, 2, 3):
        for ks in itertools.product(pts, repeat=m):
          yield list(o), list(ks)


def gen_cases(ctx):
  out = [(o, k, 'fixed') for (o, k) in fixed_cases()]
  for _ in range(ctx.n(150, 8000)):
    o, mode = gen_orig(ctx.rng)
    out.append((o, gen_keys(ctx.rng, o), mode))
  for _ in range(ctx.n(70, 4000)):
    o, k = gen_straddle(ctx.rng)
    out.append((o, k, 'straddle'))
  ev = evolved_cases(ctx.rng, ctx.n(8, 150), ctx.n(40, 120), ctx.n(60, 250))
  step = max(1, len(ev) // ctx.n(60, 3000))
  # a sample of the steps (all of them were run through the implementation), and every step that failed
  out.extend(c for i, c in enumerate(ev) if i % step == 0 or c[2] == 'evolved-failing')
  if ctx.tier == 'thorough':
    # exhaustive small scope: every strictly increasing list of <= 3 positions out of 7 consecutive doubles around each
    # anchor, with every batch of <= 2 requests from the same doubles and +-inf
    import itertools
    for a in (1.0, pf(pf(pf(2.0))), 5e-324, pf(pf(MINNORMAL)), 2.0 ** 53 - 3, 0.0):
      pts = [skip(a, j) for j in range(6)]
      reqs = pts + [INF, -INF]
      for n in range(0, 4):
        for o in itertools.combinations(pts, n):
          for m in (1, 2):
            for k in itertools.product(reqs, repeat=m):
              out.append((list(o), list(k), 'exhaustive'))
    # around powers of two (float spacing doubles there): the whole scope goes through the implementation and the
    # Python oracle; the batches with non-decreasing requests (and every case the oracle rejects) also go through the
    # model and the certified checker in Coq ('#py' = implementation + oracle only)
    for kk in (1, -1, -1022, 53):
      for o, ks in straddle_scope(kk):
        out.append((o, ks, 'straddle-exhaustive' if (kk == 1 and list(ks) == sorted(ks)) else 'straddle-exhaustive#py'))
    ctx.extra['exhaustive'] = True
    ctx.extra['exhaustive_space'] = ('all strictly increasing lists of <= 3 out of 6 consecutive doubles at 6 anchors '
                                     '(1.0, below 2.0, smallest subnormal, subnormal/normal border, 2^53, 0.0) x all '
                                     'batches of <= 2 requests from those doubles and +-inf; and all strictly increasing '
                                     'lists of <= 3 out of 8 consecutive doubles centred on 2^1, 2^-1, 2^-1022, 2^53 x all '
                                     'ordered batches of <= 3 requests from those doubles (implementation + oracle; '
                                     'model + certified checker on the sorted batches at 2^1)')
  return out


# ---------------------------------------------------------------------------------------------
# Coq terms

def hz(n):
  """Z literal; hexadecimal numerals elaborate 2-3x faster than decimal ones."""
  return '(-0x%x)%%Z' % -n if n < 0 else '0x%x%%Z' % n


def hzlist(ns):
  if not ns:
    return '(@nil Z)'             # keep every case fully typed (core writes the case list without annotation)
  return '[' + '; '.join(hz(n) for n in ns) + ']'


def coq_outcome(r):
  if r[0] == 'exc':
    return '(%s, (@nil (Z * Z)), (@nil Z))' % hz(r[1])
  adj = core.coq_list(['(%s, %s)' % (hz(i), hz(bits(p))) for i, p in r[1]]) if r[1] else '(@nil (Z * Z))'
  return '(0%%Z, %s, %s)' % (adj, hzlist([bits(x) for x in r[2]]))


def coq_case(orig, keys, r):
  return '(%s, %s, %s)' % (hzlist([bits(x) for x in orig]), hzlist([bits(x) for x in keys]), coq_outcome(r))


def nontrivial(orig, keys, r):
  if r[0] != 'ok':
    return True
  if r[1]:
    return True
  return len(set(keys)) < len(keys) or any(k in orig for k in keys)


def op_cases(ctx):
  """Differential cases for the primitives of Lib/Fl64.v and get_range / range_around_float."""
  import relabeling
  rng = ctx.rng
  special = [0.0, -0.0, 5e-324, 1e-323, pf(MINNORMAL), MINNORMAL, nf(MINNORMAL), 1.0, pf(1.0), nf(1.0), 2.0, 3.0, 0.1,
             1.14, 1.3, 1e-5, 2.0 ** 52, 2.0 ** 53, 2.0 ** 53 + 2, 1e300, 1.7976931348623157e308, INF, -INF, -1.0, -5e-324,
             2.0 ** -1022 * 3, 2.0 ** 1023, 0.5, 1e16, 9007199254740993.0]

  def rnd_float():
    c = rng.random()
    if c < 0.3:
      return rng.choice(special)
    if c < 0.5:
      return skip(rng.choice([x for x in special if math.isfinite(x) and x >= 0]), rng.randint(0, 3))
    if c < 0.7:
      return rng.uniform(-100, 100)
    if c < 0.8:
      return unbits(rng.getrandbits(64) & ~(0x7ff << 52) | (rng.randint(0, 2046) << 52))
    if c < 0.9:
      return unbits(rng.getrandbits(52) | (rng.randint(0, 3) << 52))       # subnormals and the first binades
    return rng.uniform(0, 1) * 2.0 ** rng.randint(-1074, 1023)

  def b(x):
    return bits(x) if x == x else 0x7ff8000000000000

  out = []
  def emit(op, x, y, n, res):
    out.append('(%d%%Z, %s, %s, %s, %s)' % (op, hz(bits(x)), hz(bits(y)), hz(n),
                                             hzlist([b(v) if isinstance(v, float) else v for v in res])))
  for _ in range(ctx.n(300, 20000)):
    x, y = rnd_float(), rnd_float()
    if x != x or y != y:
      continue                    # NaN operands are outside the model (it keeps a single NaN)
    if rng.random() < 0.2:
      y = rng.choice([x, nf(x) if math.isfinite(x) else x, -x])
    op = rng.choice([0, 1, 2, 3, 4, 5, 6, 7, 8, 9, 10, 11])
    n = 0
    try:
      if op == 0: res = [x + y]
      elif op == 1: res = [x - y]
      elif op == 2: res = [x * y]
      elif op == 3:
        if y == 0: continue
        res = [x / y]
      elif op == 4:
        n = rng.choice([rng.randint(-100, 100), rng.getrandbits(70), 2 ** 53 + 1, 2 ** 53 + 3, rng.getrandbits(60)])
        res = [float(n)]
      elif op == 5: res = [relabeling.prevfloat(x)]
      elif op == 6: res = [relabeling.nextfloat(x)]
      elif op == 7: res = [int(x < y), int(x <= y), int(x == y)]
      elif op == 8:
        if not (math.isfinite(x) and math.isfinite(y) and x >= 0 and y > 0): continue
        n = rng.randint(1, 6)
        res = relabeling.get_range(x, y, n)
      elif op == 9:
        if not (math.isfinite(x) and x >= 0): continue
        n = rng.randint(0, 63)
        try:
          res = list(relabeling.range_around_float(x, n))
        except OverflowError:
          res = []
      elif op == 10:
        n = rng.randint(1, 50)
        res = [x + n, x * n, x / n]
      else:
        res = [x]
    except (OverflowError, ZeroDivisionError):
      continue
    emit(op, x, y, n, res)
    ctx.bump('op%d' % op)
  return out


# ---------------------------------------------------------------------------------------------

def pin_glue(ctx):
  """Tie for the glue that the model takes as given (Relabel.positions_after / the engine oracle: adjustments first,
  then the new positions): in useractions.doBulkAddOrReplace and doBulkUpdateRecord the loop over extra_actions
  (self._do_extra_doc_action) must come before the self._do_doc_action(action) that applies the rows' own action."""
  import ast
  import os
  path = os.path.join(core.GRIST, 'useractions.py')
  tree = ast.parse(open(path).read())
  want = {'doBulkAddOrReplace': None, 'doBulkUpdateRecord': None}
  for node in ast.walk(tree):
    if isinstance(node, ast.FunctionDef) and node.name in want:
      extra, own = [], []
      for i, st in enumerate(node.body):
        src = ast.dump(st)
        if isinstance(st, ast.For) and "attr='_do_extra_doc_action'" in src and "id='extra_actions'" in src:
          extra.append(i)
        if isinstance(st, ast.Expr) and "attr='_do_doc_action'" in src and "args=[Name(id='action'" in src:
          own.append(i)
      want[node.name] = (extra, own)
  for name, found in want.items():
    if found is None or len(found[0]) != 1 or len(found[1]) != 1:
      ctx.broken('tie:useractions.%s no longer has the pinned shape' % name,
                 'expected exactly one top-level "for a in extra_actions: self._do_extra_doc_action(a)" and one '
                 '"self._do_doc_action(action)"; found %r' % (found,))
    elif not found[0][0] < found[1][0]:
      ctx.broken('tie:useractions.%s applies the rows\' own action before the position adjustments' % name,
                 'relabeling.prepare_inserts requires the adjustments to be applied first; statement order %r' % (found,))
  ctx.extra['glue_pinned'] = sorted(want)


def correspond(ctx):
  core.setup_impl_path()
  pin_glue(ctx)
  cases = gen_cases(ctx)
  ctx._c20 = []
  coq = []
  for orig, keys, mode in cases:
    r = run_impl(orig, keys)
    ctx._c20.append((orig, keys, mode, r))
    coq.append(coq_case(orig, keys, r))
    ctx.count((tuple(bits(x) for x in orig), tuple(bits(x) for x in keys)), nontrivial=nontrivial(orig, keys, r),
              sample={'orig': orig[:6], 'keys': keys[:6], 'result': repr(r[1:3])[:200]},
              kind='%s/%s' % (mode, 'exception' if r[0] == 'exc' else ('adjusted' if r[1] else 'plain')))
  ctx.log('implementation run on %d cases' % len(coq))
  # cases marked '#py' (the big exhaustive scope) go through the implementation and the Python oracle only, unless
  # the oracle rejects the result: then the certified checker is asked as well
  incoq = [i for i, c in enumerate(ctx._c20)
           if not c[2].endswith('#py') or (c[3][0] == 'ok' and oracle(c[0], c[1], c[3][1], c[3][2]) is not None)]
  imports = ['Grist.Lib.Fl64', 'Grist.Model.Relabel']
  # 1+2 in one evaluation per case: the model returns the same patterns (or the same exception site) as the
  # implementation, and the certified checker accepts every result the implementation returned
  both = ('Definition both_bits (c : list Z * list Z * outcome) : bool :=\n'
          '  agree_bits c && (let \'(_, _, (code, _, _)) := c in if code =? 0 then check_bits c else true).')
  bad = ctx.run_cases('both', imports, 'both_bits', [coq[i] for i in incoq], shard=ctx.n(50, 400), timeout=1200,
                      extra_defs=both)
  bad = [incoq[j] for j in bad]
  okidx = [i for i in incoq if ctx._c20[i][3][0] == 'ok']
  ctx._c20_rejected = set()
  ctx._c20_incoq = set(incoq)
  if bad:
    # tell the two apart on the failing cases only
    bad_model = ctx.run_cases('model', imports, 'agree_bits', [coq[i] for i in bad], shard=100, timeout=1200)
    for j in bad_model[:5]:
      o, k, _m, r = ctx._c20[bad[j]]
      ctx.broken('correspondence:Relabel.prepare_inserts_model differs from relabeling.prepare_inserts',
                 'orig=%r keys=%r impl=%r' % (o, k, r))
    badok = [i for i in bad if ctx._c20[i][3][0] == 'ok']
    rej = ctx.run_cases('cert', imports, 'check_bits', [coq[i] for i in badok], shard=100, timeout=1200)
    ctx._c20_rejected = set(badok[j] for j in rej)
  ctx.log('model + certificates evaluated in Coq')
  ctx.extra['model_cases'] = len(incoq)
  ctx.extra['implementation_cases'] = len(coq)
  ctx.extra['certified_cases'] = len(okidx) - len(ctx._c20_rejected)
  # 2b. how many of them are also covered by the proved total-correctness theorem (C20_total_no_renumbering_partial):
  #     "failing" indexes of the negated hypothesis = cases on the no-renumbering path with well-formed doubles
  sample = okidx[45:45 + ctx.n(60, 4000)]
  covered = ctx.run_cases('plain', imports,
                          '(fun c => let o := map decode (fst (fst c)) in let k := map decode (snd (fst c)) in '
                          'negb (check_pre o k && forallb wf_flb o && plain_path o k))',
                          [coq[i] for i in sample], shard=ctx.n(30, 500), timeout=1200)
  ctx.extra['covered_by_total_theorem'] = '%d of %d sampled results' % (len(covered), len(sample))
  for j in covered:
    if ctx._c20[sample[j]][3][1]:
      ctx.broken('theorem/implementation mismatch',
                 'plain_path holds but the implementation adjusted rows: %r' % (ctx._c20[sample[j]][:2],))
  # 2c. inputs inside the hypotheses of C20_total_one_gap_partial (valid positions, all requests in one gap before an
  #     existing row): the theorem says no exception and Spec; the implementation must agree
  onegap = 0
  for orig, keys, _mode, r in ctx._c20:
    if orig and all(0 < x < 2.0 ** 1012 for x in orig) and all(a < b for a, b in zip(orig, orig[1:])) and \
       all(k == k for k in keys) and len(orig) + len(keys) < 2 ** 20:
      idx = set(bisect.bisect_left(orig, k) for k in keys)
      if len(idx) == 1 and next(iter(idx)) < len(orig):
        onegap += 1
        if r[0] != 'ok':
          ctx.broken('theorem/implementation mismatch',
                     'C20_total_one_gap_partial covers %r %r but the implementation raised %r' % (orig, keys, r))
  ctx.extra['covered_by_one_gap_total_theorem'] = '%d of %d cases' % (onegap, len(ctx._c20))
  ctx.log('coverage by the total theorems evaluated')
  # 3. primitives
  ops = op_cases(ctx)
  badops = ctx.run_cases('ops', imports, 'op_bits', ops, shard=ctx.n(100, 4000), timeout=1200)
  for i in badops[:5]:
    ctx.broken('correspondence:Fl64 primitive differs from CPython', ops[i])
  ctx.extra['primitive_cases'] = len(ops)
  ctx.log('primitives evaluated')
  fx = fx_cases(ctx)
  badfx = ctx.run_cases('fx', imports + ['Grist.Model.RelabelFrexp'], 'fx_bits', fx, shard=ctx.n(400, 4000), timeout=1200)
  for i in badfx[:5]:
    ctx.broken('correspondence:RelabelFrexp primitive (frexp/ldexp/floor) differs from CPython', fx[i])
  ctx.extra['frexp_ldexp_floor_cases'] = len(fx)
  # 4. the translator
  correspond_translated(ctx)


def fx_cases(ctx):
  """math.frexp / math.ldexp / math.floor against Model/RelabelFrexp.v (the vocabulary of the translated range_around_float)"""
  import random
  rng = random.Random(ctx.seed + 77)
  xs = [0.0, 5e-324, 1e-320, MINNORMAL / 2, pf(MINNORMAL), MINNORMAL, nf(MINNORMAL), 0.5, pf(0.5), 1.0, pf(1.0), nf(1.0), 1.5, 2.0,
        3.0, 1e10, 2.0 ** 52, 2.0 ** 53, 2.0 ** 1000, 2.0 ** 1023, pf(INF), 0.1, 123.456, 1e-300, 1e300]
  for _ in range(ctx.n(60, 3000)):
    xs.append(unbits(rng.getrandbits(63)))
  xs = [x for x in xs if x == x and x != INF]
  out = []

  def emit(op, a, n, exp):
    out.append('(%s, %s, %s, %s)' % (hz(op), hz(a), hz(n), hzlist(exp)))

  def ld(x, n):
    try:
      return [0, bits(math.ldexp(x, n))]
    except OverflowError:
      return [5]
  for x in xs:
    m, e = math.frexp(x)
    emit(0, bits(x), 0, [bits(m), e])
    emit(2, bits(x), 0, [int(math.floor(x))])
    emit(2, bits(-x), 0, [int(math.floor(-x))])
    for n in (1021, 53, 0, -1, -10, -53, rng.randint(-1100, 1100), rng.randint(-60, 60)):
      emit(1, bits(x), n, ld(x, n))
  for _ in range(ctx.n(80, 4000)):
    z = rng.choice([0, 1, 2, 3, 2 ** 52, 2 ** 53 - 1, 2 ** 53, rng.getrandbits(rng.randint(1, 53))])
    n = rng.choice([-1074, -1075, -1130, -53, 0, 1, 970, 971, 1023, rng.randint(-1200, 1030)])
    emit(3, z, n, ld(z, n))
  return out


# ---- the translated code (harness/relabel2v.py -> coq/gen/Relabel_gen.v) -------------------------------------------------
# untranslated glue, pinned by the hash of its AST (docstrings/comments excluded): what Model/Relabel.v was written from
PINS = {
  'relabeling.py:_group_insertions': 'eaf9a084df886562', 'relabeling.py:nextfloat': '2d059ae5c12b1da5',
  'relabeling.py:prevfloat': '20206136069a3779', 'relabeling.py:is_valid_range': 'ed2cf1f62ad69178',
  'relabeling.py:all_distinct': 'f5fb7d0c9393bfd1',
  'relabeling.py:ListWithAdjustments.__init__': '59424b0d284382a8',
  'relabeling.py:ListWithAdjustments.get_insertions': 'b71d3af4e6fb53b8',
  'relabeling.py:ListWithAdjustments.get_adjustments': 'a210bc2950fa6b21',
  'relabeling.py:ListWithAdjustments._do_adjust_range': '3b9b242bc121d0d7',
  'column.py:PositionColumn': '247f84e2ef7727c7',
}


def regenerate(ctx):
  import os
  from harness import relabel2v
  try:
    text = relabel2v.translate_all(core.GRIST)
    got = relabel2v.pin_hashes(core.GRIST)
  except relabel2v.Untranslatable as e:
    raise core.TieBroken('relabeling.py left the translated subset: %s' % e)
  core.write_if_changed(os.path.join(core.COQ, 'gen', 'Relabel_gen.v'), text)
  changed = sorted(k for k in PINS if got.get(k) != PINS[k])
  ctx.extra['regenerated'] = {'file': 'coq/gen/Relabel_gen.v', 'translator': 'harness/relabel2v.py',
                              'functions': [t[1] for t in relabel2v.TARGETS] + ['prepare_inserts'],
                              'pinned_by_ast_hash': sorted(PINS)}
  if changed:
    raise core.TieBroken('untranslated code differs from the text the model was written from: %s' % ', '.join(changed))


def correspond_translated(ctx):
  """the translator itself, differentially: calls of the translated functions recorded in the running implementation,
  the GENERATED definitions evaluated on them by vm_compute"""
  import random
  from harness import relabel_diff
  rng = random.Random(ctx.seed + 2020)
  pool = [c for c in ctx._c20 if len(c[0]) + len(c[1]) <= 40 and not c[2].endswith('#py')]
  rng.shuffle(pool)
  # cases that renumber or raise first: they reach _find_sparse_enough_range / _adjust_range
  pool.sort(key=lambda c: 0 if (c[3][0] == 'exc' or c[3][1]) else 1)
  pool = pool[:ctx.n(140, 3000)]
  cap = ctx.n(80, 1500)
  texts, counts = [], {}
  with relabel_diff.Recorder(classify_exception, cap) as rec:
    for orig, keys, _mode, _r in pool:
      rec.next_case()
      run_impl(orig, keys)
  for name, recs in sorted(rec.records.items()):
    for r in recs:
      t = relabel_diff.coq_case(name, r)
      if t is not None:
        texts.append((name, t, r))
        counts[name] = counts.get(name, 0) + 1
  for orig, keys, _mode, r in pool[:ctx.n(60, 1500)]:
    t = relabel_diff.driver_case(orig, keys, r)
    if t is not None:
      texts.append(('prepare_inserts', t, (orig, keys, r)))
      counts['prepare_inserts'] = counts.get('prepare_inserts', 0) + 1
  bad = ctx.run_cases('gen', ['Grist.Lib.Fl64', 'Grist.Model.Relabel', 'GristGen.Relabel_gen'], 'gen_case_ok',
                      [t for _n, t, _r in texts], shard=ctx.n(120, 600), timeout=1200)
  for j in bad[:5]:
    ctx.broken('translation:harness/relabel2v.py: generated %s differs from the running function' % texts[j][0],
               repr(texts[j][2])[:600])
  for name in relabel_diff.METHODS + ['get_range', 'range_around_float', 'prepare_inserts']:
    if not counts.get(name):
      ctx.broken('translation:no recorded call of %s' % name, 'the differential validation of the translator is empty for it')
  ctx.extra['translator_validation'] = {'recorded_calls_evaluated_in_coq': counts, 'total': len(texts),
                                        'calls_outside_the_model_domain_skipped': rec.skipped}
  ctx.log('translator validated on %d recorded calls' % len(texts))


def search(ctx):
  core.setup_impl_path()
  if not hasattr(ctx, '_c20'):
    ctx._c20 = [(o, k, m, run_impl(o, k)) for (o, k, m) in gen_cases(ctx)]
    ctx._c20_rejected = None
    ctx._c20_incoq = None
  # regression corpus first: witnesses of findings that were repaired in /repo must not fail again
  for k in core.load_known():
    if k['property'] == ID and k.get('kind') == 'fixed':
      desc = replay(ctx, k['witness'])
      ctx.bump('regression corpus:' + ('FAILS AGAIN' if desc else 'passes'))
      if desc:
        ctx.violation('regression:' + k['id'], 'witness of the repaired finding %s (%s) fails again: %s'
                      % (k['id'], k.get('commit'), desc), k['witness'])
  perkind = {}
  for i, (orig, keys, mode, r) in enumerate(ctx._c20):
    j = judge(orig, keys, r)
    rejected = ctx._c20_rejected is not None and i in ctx._c20_rejected
    if ctx._c20_rejected is not None and r[0] == 'ok' and (j is None) == rejected and \
       (ctx._c20_incoq is None or i in ctx._c20_incoq):
      ctx.broken('certified checker and Python oracle disagree',
                 'orig=%r keys=%r result=%r oracle=%r check=%r' % (orig, keys, r, j, not rejected))
    if j is not None:
      perkind[j[0]] = perkind.get(j[0], 0) + 1
      ctx.bump('failing:' + j[0])
      if perkind[j[0]] <= 8:         # a few witnesses of EVERY failure kind (known kinds must not crowd out new ones)
        ctx.violation(j[0], j[1], {'orig': [bits(x) for x in orig], 'keys': [bits(x) for x in keys],
                                   'orig_f': [repr(x) for x in orig], 'keys_f': [repr(x) for x in keys]})
  ctx.log('oracle applied to all results')
  engine_histories(ctx)
  ctx.log('engine histories done')
  robustness(ctx)


def replay(ctx, w):
  core.setup_impl_path()
  if 'history' in w:
    return replay_history(w)
  orig = [unbits(b) for b in w['orig']]
  keys = [unbits(b) for b in w['keys']]
  j = judge(orig, keys, run_impl(orig, keys))
  return None if j is None else '%s: %s' % j


# ---------------------------------------------------------------------------------------------
# robustness stream (outside the quantifier: NaN requests); reported, never a violation

def robustness(ctx):
  nan = float('nan')
  n = 0
  for _ in range(ctx.n(50, 500)):
    orig, _mode = gen_orig(ctx.rng)
    keys = gen_keys(ctx.rng, orig)
    keys[ctx.rng.randrange(len(keys))] = nan
    r = run_impl(orig, keys)
    ctx.bump('robustness(NaN request):' + ('exception' if r[0] == 'exc' else 'returned'))
    n += 1
  ctx.notes.append('robustness stream (not part of the property): %d batches containing a NaN request were run; '
                   'outcomes are in the histogram' % n)


# ---------------------------------------------------------------------------------------------
# whole-engine histories

class Table(object):
  """Reference row order for one position column of one table."""
  def __init__(self):
    self.order = []        # row ids in expected order

  def add(self, positions, rows, keys):
    """rows get requested keys; `positions` maps existing row id -> current position."""
    cur = [positions[r] for r in self.order]
    req = sorted(range(len(keys)), key=lambda i: (keys[i], i))
    new = list(self.order)
    # insert from the right so indexes computed on the old list stay valid
    places = [(bisect.bisect_left(cur, keys[i]), j, rows[i]) for j, i in enumerate(req)]
    for idx, _j, row in sorted(places, key=lambda t: (-t[0], -t[1])):
      new.insert(idx, row)
    self.order = new

  def remove(self, rows):
    self.order = [r for r in self.order if r not in set(rows)]


def new_engine():
  import engine
  import useractions
  e = engine.Engine()
  e.load_empty()
  e.apply_user_actions([useractions.from_repr(['InitNewDoc'])])
  e.apply_user_actions([useractions.from_repr(
    ['AddTable', 'T', [{'id': 'A', 'type': 'Int'}, {'id': 'P', 'type': 'PositionNumber'}]])])
  return e


def apply(e, action):
  import useractions
  return e.apply_user_actions([useractions.from_repr(action)])


def fetch_positions(e, col):
  t = e.fetch_table('T')
  return dict(zip(t.row_ids, t.columns[col]))


def check_table(e, refs, step_desc):
  for col, ref in refs.items():
    pos = fetch_positions(e, col)
    vals = list(pos.values())
    if not all(isinstance(v, float) and math.isfinite(v) for v in vals):
      return 'engine:not-finite', '%s: column %s holds a non-finite position' % (step_desc, col)
    if len(set(vals)) != len(vals):
      return 'engine:duplicate', '%s: column %s holds duplicate positions' % (step_desc, col)
    actual = sorted(pos, key=lambda r: pos[r])
    if actual != ref.order:
      d = next((i for i, (x, y) in enumerate(zip(actual, ref.order)) if x != y), min(len(actual), len(ref.order)))
      lo = max(0, d - 3)
      return 'engine:order', '%s: rows ordered by %s differ from the expected order at place %d: ...%r, expected ...%r' % (
        step_desc, col, d, actual[lo:d + 6], ref.order[lo:d + 6])
  return None


def run_history(hist):
  """hist: list of json-able ops. Returns None or (kind, what)."""
  e = new_engine()
  refs = {'manualSort': Table(), 'P': Table()}
  for stepno, op in enumerate(hist):
    kind = op[0]
    before = {c: fetch_positions(e, c) for c in refs}
    rows_before = sorted(before['manualSort'])
    try:
      if kind == 'add':           # ['add', [[manualSort or None, P or None], ...]]
        reqs = [(None if a is None else unbits(a), None if b is None else unbits(b)) for a, b in op[1]]
        cols = {'A': [stepno] * len(reqs)}
        if any(a is not None for a, _ in reqs):
          cols['manualSort'] = [INF if a is None else a for a, _ in reqs]
        if any(b is not None for _, b in reqs):
          cols['P'] = [INF if b is None else b for _, b in reqs]
        if len(reqs) == 1:
          out = apply(e, ['AddRecord', 'T', None, {c: v[0] for c, v in cols.items()}])
          ids = [out.retValues[0]]
        else:
          out = apply(e, ['BulkAddRecord', 'T', [None] * len(reqs), cols])
          ids = list(out.retValues[0])
        refs['manualSort'].add(before['manualSort'], ids, [INF if a is None else a for a, _ in reqs])
        refs['P'].add(before['P'], ids, [INF if b is None else b for _, b in reqs])
      elif kind == 'front':       # ['front', n]: n times "insert a row above the first row"
        for _ in range(op[1]):
          pos = fetch_positions(e, 'manualSort')
          first = min(pos.values()) if pos else 1.0
          out = apply(e, ['AddRecord', 'T', None, {'manualSort': first}])
          refs['manualSort'].order.insert(0, out.retValues[0])
          refs['P'].order.append(out.retValues[0])
      elif kind == 'before':      # ['before', k]: insert a row above the k-th row (by manualSort)
        pos = before['manualSort']
        order = sorted(pos, key=lambda r: pos[r])
        if not order:
          continue
        target = order[min(op[1], len(order) - 1)]
        out = apply(e, ['AddRecord', 'T', None, {'manualSort': pos[target]}])
        refs['manualSort'].add(pos, [out.retValues[0]], [pos[target]])
        refs['P'].add(before['P'], [out.retValues[0]], [INF])
      elif kind == 'beforerow':   # ['beforerow', row id]: insert a row immediately above a given row (crowds that spot)
        pos = before['manualSort']
        if op[1] not in pos:
          continue
        out = apply(e, ['AddRecord', 'T', None, {'manualSort': pos[op[1]]}])
        refs['manualSort'].add(pos, [out.retValues[0]], [pos[op[1]]])
        refs['P'].add(before['P'], [out.retValues[0]], [INF])
      elif kind == 'drag':        # ['drag', col, anchor row id, from_off, [to_off...]]: MOVE existing rows: the rows
        # from_off, from_off+1, ... places above the anchor row are dragged to just above the rows to_off places above
        # it (UpdateRecord / BulkUpdateRecord of the position column with the target rows' positions)
        col = op[1]
        pos = before[col]
        order = sorted(pos, key=lambda r: pos[r])
        if op[2] not in pos:
          continue
        p0 = order.index(op[2])
        rows, keys = [], []
        for j, to_off in enumerate(op[4]):
          src, dst = p0 - op[3] - j, p0 - to_off
          if 0 <= src < len(order) and 0 <= dst < len(order) and order[src] not in rows and src != dst:
            rows.append(order[src])
            keys.append(pos[order[dst]])
        if not rows:
          continue
        if len(rows) == 1:
          apply(e, ['UpdateRecord', 'T', rows[0], {col: keys[0]}])
        else:
          apply(e, ['BulkUpdateRecord', 'T', rows, {col: keys}])
        ref = refs[col]
        ref.add(pos, [('moved', r) for r in rows], keys)
        ref.order = [r[1] if isinstance(r, tuple) else r for r in ref.order if r not in rows]
      elif kind == 'move':        # ['move', col, [row choice...], [key pattern or ['at', k]]]
        col = op[1]
        if not rows_before:
          continue
        pos = before[col]
        order = sorted(pos, key=lambda r: pos[r])
        rows, keys = [], []
        for rc, kc in zip(op[2], op[3]):
          row = rows_before[rc % len(rows_before)]
          if row in rows:
            continue
          rows.append(row)
          keys.append(pos[order[kc[1] % len(order)]] if isinstance(kc, list) else unbits(kc))
        if len(rows) == 1:
          apply(e, ['UpdateRecord', 'T', rows[0], {col: keys[0]}])
        else:
          apply(e, ['BulkUpdateRecord', 'T', rows, {col: keys}])
        # the new places are computed against the list that still contains the moved rows; then the old entries go
        ref = refs[col]
        marks = [('moved', r) for r in rows]
        ref.add(pos, marks, keys)
        ref.order = [r[1] if isinstance(r, tuple) else r for r in ref.order if r not in rows]
      elif kind == 'addcol':      # metadata rows with position columns (_grist_Tables_column.parentPos, field parentPos)
        apply(e, ['AddColumn', 'T', 'C%d' % stepno, {'type': 'Text'}])
      elif kind == 'remove':
        if not rows_before:
          continue
        rows = sorted(set(rows_before[rc % len(rows_before)] for rc in op[1]))
        apply(e, ['BulkRemoveRecord', 'T', rows])
        for ref in refs.values():
          ref.remove(rows)
    except Exception as ex:      # pylint: disable=broad-except
      tb = traceback.extract_tb(ex.__traceback__)
      inrel = [f for f in tb if f.filename.endswith('relabeling.py')]
      if inrel:
        pos = before['manualSort']
        sub = any(0 < v < MINNORMAL for v in pos.values())
        k = 'engine:exception:subnormal-crowding' if (sub and inrel[-1].name == '_find_sparse_enough_range') \
            else 'engine:exception'
        return k, 'step %d %r: user action raised %s: %s at relabeling.%s' % (
          stepno, op[:2], type(ex).__name__, ex, inrel[-1].name)
      return 'engine:exception-elsewhere', 'step %d %r raised %s: %s' % (stepno, op[:2], type(ex).__name__, ex)
    bad = check_table(e, refs, 'step %d %r' % (stepno, op[:2]))
    if bad:
      return bad
  return check_all_position_columns(e)


def check_all_position_columns(e):
  """Every PositionNumber / ManualSortPos column of every table (metadata included) holds distinct values.
  (InitNewDoc adds one _grist_ACLRules row by a raw doc action; its rulePos keeps the default inf -- a single
  unpositioned row, so only distinctness is required here, as in the property's last sentence.)"""
  import column
  for table_id, table in e.tables.items():
    for col_id, col in table.all_columns.items():
      if isinstance(col, column.PositionColumn):
        vals = [col.raw_get(r) for r in table.row_ids]
        if len(set(vals)) != len(vals):
          return 'engine:duplicate', 'after the history %s.%s holds duplicate positions' % (table_id, col_id)
  return None


def replay_history(w):
  r = run_history(w['history'])
  return None if r is None else '%s: %s' % r


def gen_history(rng):
  hist = []
  pool = [bits(x) for x in (1.0, 2.0, 0.5, 0.0, -1.0, INF, -INF, 1.5, 3.0, 1e-3)]
  for _ in range(rng.choice([5, 10, 20, 40])):
    c = rng.random()
    if c < 0.35:
      m = rng.choice([1, 1, 1, 2, 3, 6])
      hist.append(['add', [[rng.choice([None, None, rng.choice(pool)]), rng.choice([None, rng.choice(pool)])]
                            for _ in range(m)]])
    elif c < 0.65:
      hist.append(['before', rng.randint(0, 6)])
    elif c < 0.85:
      m = rng.choice([1, 1, 2, 3])
      hist.append(['move', rng.choice(['manualSort', 'P']), [rng.randint(0, 50) for _ in range(m)],
                   [rng.choice([['at', rng.randint(0, 50)], rng.choice(pool)]) for _ in range(m)]])
    elif c < 0.95:
      hist.append(['remove', [rng.randint(0, 50) for _ in range(rng.choice([1, 2]))]])
    else:
      hist.append(['addcol'])
  return hist


def engine_histories(ctx):
  # (repaired in 0fbacc5) 1074 times "insert above the first row" halves the first position down to the smallest
  # subnormal; then one insert above the second row
  hists = [[['add', [[None, None]]], ['front', 1074], ['before', 1]]]
  hists += [gen_history(ctx.rng) for _ in range(ctx.n(25, 400))]
  # the same row hammered: crowding on one spot through user actions only
  hists.append([['add', [[None, None]] * 4]] + [['before', 2]] * ctx.n(150, 1200))
  hists.append([['add', [[None, None]] * 3]] + [['before', 0]] * ctx.n(60, 300) + [['before', 1]] * 20)
  # crowd both sides of a power of two through user actions, free the row at the power of two, then add a BATCH there:
  # rows at 1,2,3(,4,5); n x insert above the row at p; n x insert below it; remove it; BulkAddRecord of m rows
  for pw, rowidx in ((2.0, 1), (4.0, 3)):
    for m in (2, 3):
      hists.append([['add', [[None, None]] * (rowidx + 2)]] +
                   [['add', [[bits(pw), None]]]] * 52 + [['add', [[bits(nf(pw)), None]]]] * 51 +
                   [['remove', [rowidx]], ['add', [[bits(nf(pw)), None]] * m]])
  # MOVES of existing rows into a crowded neighbourhood (the renumbered range may contain the moved row at its old
  # place: the adjustments must be applied before the update): crowd the spot above row 4, and keep dragging rows
  # from a few places further up to just above / next to it
  for col in ('manualSort',):
    for from_off, to_offs in ((3, [1]), (4, [0]), (2, [1]), (5, [1, 2])):
      h = [['add', [[None, None]] * 6]]
      for step in range(ctx.n(90, 160)):
        h.append(['beforerow', 4])
        if step >= 35 and step % 3 == 0:
          h.append(['drag', col, 4, from_off, to_offs])
      hists.append(h)
  for _ in range(ctx.n(3, 30)):
    h = [['add', [[None, None]] * 6]]
    anchor = ctx.rng.randint(2, 6)
    for step in range(ctx.n(80, 140)):
      h.append(['beforerow', anchor])
      if step >= 30 and ctx.rng.random() < 0.4:
        k = ctx.rng.randint(1, 2)
        h.append(['drag', 'manualSort', anchor, ctx.rng.randint(1, 6),
                  [ctx.rng.randint(0, 3) for _ in range(k)]])
    hists.append(h)
  nsteps = 0
  for h in hists:
    r = run_history(h)
    nsteps += sum(op[1] if op[0] == 'front' else 1 for op in h)
    ctx.count(('history', repr(h)[:4000]), nontrivial=len(h) > 1, kind='engine-history')
    if r is not None:
      ctx.bump('failing:' + r[0])
      ctx.violation(r[0], r[1], {'history': h})
  ctx.extra['engine_user_actions'] = nsteps


MATCHERS = {}
