"""C40 -- Predicate formula parse trees are faithful (predicate_formula.parse_predicate_formula / TreeConverter)."""
import ast
import json
import os
import warnings

from harness import core, predgen

ID = 'C40'
TITLE = 'Predicate formula parse trees are faithful'
PROPS = ['Props/C40']
RULE = ('formulas are generated as TEXT from a grammar over every supported node kind (and/or with 2-4 operands, not, '
        '+ - * / %, the ten comparison operators, rec./$/user./choice. attribute chains, names, int/float/str/bool/None '
        'literals in many spellings, lists, tuples, calls with positional and keyword arguments, nesting to depth 4, '
        'random blanks and parentheses, trailing / leading / inner comments, `$x` for `rec.x`), plus the formulas of '
        'test_predicate_formula.py and named edge cases; a separate unsupported stream puts one construct outside the '
        'subset (37 kinds: lambda, if-else, subscript, set, dict, comprehensions, f-string, unary -,+,~, // ** | & ^ << >> '
        '@, chained comparison, walrus, starred, await, yield), an odd constant (..., bytes, complex, 1e999) or a '
        '**kwargs argument at a random operand position; a malformed stream damages valid text by deleting/inserting/'
        'cutting characters. Each text is parsed by CPython (oracle), the ast is mapped to the Coq type expr and the '
        'model is evaluated in Coq (vm_compute) against what parse_predicate_formula(_json) returned or raised. '
        'A case is non-trivial when the parser accepted the text and the converter visited >= 2 nodes.')
TRUSTED = ['pf2v translator (harness/pf2v.py): Python visitor methods -> Gallina in the monad of Model/PredVisit.v, '
           'validated on every run by evaluating the generated code and the running function on the same formulas',
           'CPython parser (ast.parse, mode=eval) and tokenizer (COMMENT tokens): oracles; the harness maps their output '
           'to the model types (harness/predgen.py coq_expr)',
           'codebuilder.get_dollar_replacer ($x -> rec.x): oracle, monitored by comparing the tree of every generated '
           'formula with the tree of the same formula spelled with rec.',
           'json.dumps: classified (valid JSON / TypeError / invalid JSON text), compared with the model on every case',
           'PySem: the primitive operations on Python values are a parameter of the theorems; the concrete instance CSem '
           '(None/bool/int/str/list/tuple/objects/opaque callables) is compared with CPython eval() on generated '
           'expressions and environments']
ASSUMPTIONS = ['convert_faithful: membership (in / not in) gives the same answer for a tuple and for the list of the same '
               'elements (hypothesis membership_ignores_tuple; proved for CSem); tuples elsewhere are outside in_subset',
               'in_subset excludes Name nodes spelled True/False/None (never produced by the parser; monitored) and '
               '__debug__ (a compile-time constant in Python)',
               'in_subset excludes calls that repeat a keyword name (f(k=1, k=2)): ast.parse and the converter accept them '
               'but the CPython compiler rejects them ("keyword argument repeated"), so they have no Python meaning; they '
               'are generated, compared with the model, and reported in the histogram, not as findings',
               'evaluation is pure: primitive operations are functions of their arguments']
TECHNIQUE = ('Coq proof over a hand-written executable model of TreeConverter on a Coq mirror of the Python AST + '
             'differential cases against the running code (vm_compute) + implementation-side oracle (CPython eval vs '
             'documented tree semantics, strict JSON, SyntaxError-only)')
LEVEL_TEXT = ('Kernel-checked theorems about the model of TreeConverter/parse_predicate_formula for all ASTs: on the '
              'faithful subset the tree evaluates (documented node semantics, any interpretation of the primitive '
              'operations) to what the expression evaluates to in Python, including evaluation order, short-circuiting '
              'and raised exceptions; supported expressions give JSON-serialisable trees; every node class without a '
              'visit method, other unary/binary operator, chained comparison, constant JSON cannot hold and **kwargs call '
              'is rejected: the converter accepts exactly the supported expressions (the model follows the code after fix '
              'commits baa04cb and 23a92f9; the old witnesses are regression examples and run first in every check).')
LEVEL_NOTE = ('Kernel strength: the CPython parser/tokenizer are oracles and the meaning of the primitive operations is a '
              'parameter. The model is hand-written and compared with the running code on every generated case; the set of '
              'visit_* methods is compared with the model constructors on every run.')

IMPORTS = ['Grist.Model.Predicate']
warnings.filterwarnings('ignore', category=SyntaxWarning)


GEN_IMPORTS = IMPORTS + ['Grist.Model.PredVisit', 'GristGen.Predicate_gen', 'GristGen.ParseFormula_gen']
# the generated parse_predicate_formula (which calls the generated TreeConverter) against what the running one returned
GEN_DEFS = '''
Definition c40_gen_ok (c : c40_case) : bool :=
  match cc_ast c with Some e => wf_expr e | None => true end &&
  match gen_parse_predicate_formula (cc_dollar_ok c) (cc_ast c) (cc_tokens c), cc_parse c with
  | GOk v, Ok w => pyval_eqb v w
  | GFail (GErr a), Err b => cerr_eqb a b
  | _, _ => false
  end.
'''


PF_HEADER = '''(* GENERATED by harness/pr2v.py from predicate_formula.parse_predicate_formula -- do not edit. *)
From Coq Require Import ZArith List Bool String.
Import ListNotations.
Require Import Grist.Model.Predicate Grist.Model.PredicateRename Grist.Model.PredVisit GristGen.Predicate_gen.
Open Scope Z_scope.
Open Scope list_scope.

'''


def regenerate(ctx):
  """coq/gen/Predicate_gen.v from the visitor methods of the tree being checked (fail closed)."""
  from harness import pf2v
  try:
    text = pf2v.translate(core.GRIST)
  except pf2v.Untranslatable as e:
    raise core.TieBroken('predicate_formula / collector methods are outside the translated subset: %s' % e)
  ctx.extra['pinned_glue'] = predgen.check_pinned_glue(['predicate_formula.parse_predicate_formula_json'])
  core.write_if_changed(os.path.join(core.COQ, 'gen', 'Predicate_gen.v'), text)
  from harness import pr2v
  try:
    pf_text = PF_HEADER + pr2v.translate_parse_formula(os.path.join(core.GRIST, 'predicate_formula.py'))
  except pr2v.Untranslatable as e:
    raise core.TieBroken('predicate_formula.parse_predicate_formula is outside the translated subset: %s' % e)
  core.write_if_changed(os.path.join(core.COQ, 'gen', 'ParseFormula_gen.v'), pf_text)
  ctx.extra['regenerated_parse'] = 'coq/gen/ParseFormula_gen.v: gen_parse_predicate_formula generated from parse_predicate_formula'
  ctx.extra['regenerated'] = ('coq/gen/Predicate_gen.v: %d definitions generated from predicate_formula.py, acl.py, '
                              'dropdown_condition.py, trigger_expression.py' % text.count('\nDefinition '))


# ---------------------------------------------------------------------------------------------

def impl_parse(formula):
  """('ok', tree) | ('syntax', classified) | ('exc', type name) from the running parse_predicate_formula."""
  import predicate_formula
  try:
    return ('ok', predicate_formula.parse_predicate_formula(formula))
  except SyntaxError as e:
    return ('syntax', predgen.classify_syntax_error(e))
  except RecursionError:
    return ('exc', 'RecursionError')
  except Exception as e:     # pylint: disable=broad-except
    return ('exc', type(e).__name__ + ': ' + str(e)[:80])


def _strict_constant(name):
  raise ValueError('not JSON: ' + name)


def impl_json(formula):
  """Observation of parse_predicate_formula_json as a Coq term of type json_obs, plus the text when there is one."""
  import predicate_formula
  try:
    text = predicate_formula.parse_predicate_formula_json(formula)
  except SyntaxError as e:
    return '(OSyntaxError %s)' % predgen.coq_err(predgen.classify_syntax_error(e)), None
  except TypeError:
    return '(ODumps DumpsTypeError)', None
  if text == '':
    return 'OEmpty', text
  try:
    json.loads(text, parse_constant=_strict_constant)
    return '(ODumps DumpsJSON)', text
  except ValueError:
    return '(ODumps DumpsNotJSON)', text


def node_count(body):
  return sum(1 for n in ast.walk(body) if isinstance(n, ast.expr))


class Case(object):
  """Everything the check knows about one formula text."""

  def __init__(self, text, stream, recform=None):
    self.text = text
    self.stream = stream
    self.recform = recform
    self.nodollar = predgen.undollar(text)
    if self.nodollar is None:
      self.body, self.comments = None, []
    else:
      self.body, self.comments = predgen.parse_oracle(self.nodollar)
      self.tokens = list(getattr(predgen.parse_oracle, 'tokens', [])) if self.body is not None else []
    self.reasons = sorted(predgen.unsupported_reasons(self.body)) if self.body is not None else None
    self.in_subset = predgen.in_eval_subset(self.body) if self.body is not None else False


# witnesses of the findings repaired by fix commits baa04cb / 23a92f9 (known_findings.json, kind fixed): always first
REGRESSION = ["rec.A == b'x' or 1e999 > rec.B", 'f(a, **k)', '...', "b'x'", '1j', '1e999', 'f(**k)', 'f(k=1, **d)']


def gen_cases(ctx):
  rng = ctx.rng
  g = predgen.Gen(rng)
  out = [Case(t, 'regression') for t in REGRESSION] + [Case(t, 'fixed') for t in predgen.FIXED_FORMULAS]
  for _ in range(ctx.n(320, 4000)):
    text, recform = predgen.finish(g.formula())
    out.append(Case(text, 'valid', recform))
  for _ in range(ctx.n(120, 1200)):
    text, recform = predgen.finish(g.unsupported())
    out.append(Case(text, 'unsupported', recform))
  for _ in range(ctx.n(40, 400)):
    text, recform = predgen.finish(g.odd_const())
    out.append(Case(text, 'oddconst', recform))
  for _ in range(ctx.n(30, 300)):
    text, recform = predgen.finish(g.kwsplat())
    out.append(Case(text, 'kwsplat', recform))
  for _ in range(ctx.n(120, 1500)):
    text, _ = predgen.finish(g.malformed())
    out.append(Case(text, 'malformed'))
  if ctx.tier == 'thorough':
    # every unsupported construct / odd constant / **kwargs form in every context shape
    for fill in g.UNSUPPORTED + g.ODD_CONST + g.KWSPLAT:
      for _ in range(6):
        text, recform = predgen.finish(g.with_hole(fill))
        out.append(Case(text, 'unsupported-sweep', recform))
    ctx.extra['exhaustive'] = False
  return out


def cases(ctx):
  if getattr(ctx, '_c40_cases', None) is None:
    ctx._c40_cases = gen_cases(ctx)
  return ctx._c40_cases


# ---------------------------------------------------------------------------------------------

def correspond(ctx):
  visits = predgen.check_visit_tie()
  ctx.extra['visit_methods'] = visits
  cs = cases(ctx)
  coq = []
  idx = []
  eval_cases = []
  eval_idx = []
  for i, c in enumerate(cs):
    r = impl_parse(c.text)
    c.impl = r
    if r[0] == 'exc':
      continue          # reported by search (not a SyntaxError and not a tree); nothing to compare the model with
    if c.body is not None:
      try:
        apos = predgen.attr_positions(c.nodollar, c.body)
        ast_term = '(Some %s)' % predgen.coq_expr(c.body, apos)
      except predgen.Unmappable as e:
        raise core.TieBroken('ast of %r cannot be mapped: %s' % (c.text, e))
      for n in ast.walk(c.body):
        if isinstance(n, ast.Name) and n.id in ('True', 'False', 'None'):
          raise core.TieBroken('parser produced a Name node %r for %r' % (n.id, c.text))
    else:
      ast_term = 'None'
    if r[0] == 'ok':
      parse_term = '(Ok %s)' % predgen.coq_pyval(r[1])
    else:
      parse_term = '(Err %s)' % predgen.coq_err(r[1])
    jobs, _ = impl_json(c.text)
    # all tokens when there is a comment (and for every fourth formula), else the comment tokens only
    toks = c.tokens if (c.body is not None and (c.comments or i % 4 == 0)) else [(True, x) for x in c.comments]
    coq.append('{| cc_dollar_ok := %s; cc_tokens := %s; cc_ast := %s; cc_comments := %s; cc_truthy := %s; cc_parse := %s; cc_json := %s; '
               'cc_supported := %s; cc_in_subset := %s |}'
               % (core.boollit(c.nodollar is not None),
                  core.coq_list(['(%s, %s)' % (core.boollit(b), predgen.S(t)) for b, t in toks]),
                  ast_term, core.coq_list([core.strlit(x) for x in c.comments]), core.boollit(bool(c.text)),
                  parse_term, jobs, core.boollit(c.body is not None and not c.reasons), core.boollit(c.in_subset)))
    idx.append(i)
    nontrivial = c.body is not None and node_count(c.body) >= 2
    kind = c.stream + ':' + ('parser-error' if c.body is None else
                             'tree' if r[0] == 'ok' else r[1][0])
    ctx.count(c.text, nontrivial=nontrivial, kind=kind,
              sample={'formula': c.text[:200], 'result': (r[1] if r[0] == 'ok' else list(r[1]))} if i % 97 == 5 else None)
    if c.body is not None:
      for n in ast.walk(c.body):
        if isinstance(n, ast.expr):
          ctx.bump('node:' + type(n).__name__)
      if c.comments:
        ctx.bump('with-comment')
    # evaluation cases for the concrete semantics (expressions the parser accepted, any shape)
    if c.body is not None and c.in_subset and len(eval_cases) < ctx.n(240, 2500):
      code = compile(ast.Expression(body=c.body), '<c40>', 'eval')
      for _ in range(2):
        env = predgen.gen_env(ctx.rng, c.body)
        glob = dict(env)
        glob['__builtins__'] = {}
        py = predgen.coq_cout(lambda: eval(code, glob))     # pylint: disable=eval-used
        if py is None:
          ctx.bump('eval:python-outcome-not-expressible')
          continue
        eval_cases.append('(%s, %s, %s)' % (predgen.coq_expr(c.body, None), predgen.coq_env(env), py))
        eval_idx.append(i)

  ctx.log('cases: %d formulas, %d evaluation cases; running the model' % (len(coq), len(eval_cases)))
  # one pass: hand model and generated code against the running function; a second pass over the failures tells which
  both = ctx.run_cases('parse', GEN_IMPORTS, 'fun c => c40_case_ok c && c40_gen_ok c', coq, shard=150, extra_defs=GEN_DEFS)
  bad, genbad = [], []
  if both:
    sub = [coq[k] for k in both]
    bad = [both[j] for j in ctx.run_cases('parse_model', IMPORTS, 'c40_case_ok', sub, shard=150)]
    genbad = [both[j] for j in ctx.run_cases('parse_gen', GEN_IMPORTS, 'c40_gen_ok', sub, shard=150, extra_defs=GEN_DEFS)]
  ctx.log('parse cases evaluated: model differs on %d, generated code on %d' % (len(bad), len(genbad)))
  ctx.extra['translator_validation'] = {'generated_vs_running_code_cases': sum(1 for k in idx if cs[k].body is not None),
                                        'differ': len(genbad)}
  for k in genbad[:5]:
    c = cs[idx[k]]
    ctx.broken('translation:generated parse_predicate_formula / TreeConverter (pr2v, pf2v) differs from the running code',
               'formula %r: implementation %r' % (c.text, c.impl))
  for k in bad[:5]:
    c = cs[idx[k]]
    ctx.broken('correspondence:Model.Predicate.parse_predicate differs from parse_predicate_formula',
               'formula %r: implementation %r' % (c.text, c.impl))
  ctx._c40_bad = [cs[idx[k]] for k in bad]

  # first pass: defined by the concrete semantics AND equal to CPython; second pass over the rest tells "not
  # modelled" (skipped, counted) from "different" (a broken tie)
  rest = ctx.run_cases('evaldef', IMPORTS, 'fun c => c40_eval_defined c && c40_eval_ok c', eval_cases, shard=120)
  bad = ctx.run_cases('eval', IMPORTS, 'c40_eval_ok', [eval_cases[k] for k in rest], shard=120)
  for k in bad[:5]:
    ctx.broken('correspondence:Model.Predicate.eval_py (CSem) differs from CPython eval',
               'formula %r case %s' % (cs[eval_idx[rest[k]]].text, eval_cases[rest[k]][-300:]))
  undefined = [k for j, k in enumerate(rest) if j not in set(bad)]
  ctx.log('evaluation cases evaluated')
  ctx.extra['eval_cases'] = {'compared_with_cpython_eval': len(eval_cases) - len(undefined),
                             'not_modelled_by_CSem': len(undefined)}


# ---------------------------------------------------------------------------------------------
# The property's own oracle on the implementation

def oracle(c, rng=None, impl=None):
  """Returns (kind, description, extra) when the formula violates C40 on the implementation, else None."""
  r = impl if impl is not None else impl_parse(c.text)
  if r[0] == 'exc':
    return ('not-a-syntax-error', 'parse_predicate_formula raised %s instead of SyntaxError' % r[1], {})
  if c.body is None:
    if r[0] == 'ok':
      return ('parser-rejected-but-accepted', 'CPython rejects the expression but a tree %r was returned' % (r[1],), {})
    return None
  if c.reasons:
    if r[0] == 'ok':
      return ('unsupported-accepted', 'unsupported syntax (%s) is accepted: tree %r' % (', '.join(c.reasons), r[1]),
              {'reasons': c.reasons})
    return None
  # supported: a tree, JSON-serialisable, of the documented form, with Python's meaning
  if r[0] != 'ok':
    return ('supported-rejected', 'supported expression raises SyntaxError %r' % (r[1],), {})
  tree = r[1]
  jobs, text = impl_json(c.text)
  if c.text and jobs != '(ODumps DumpsJSON)':
    return ('not-json', 'parse_predicate_formula_json gives %s for a supported expression' % jobs, {})
  if c.text and json.loads(text) != tree:
    return ('json-roundtrip', 'json text %r does not load back to the tree %r' % (text, tree), {})
  inner = tree
  if c.comments:
    want = c.comments[0][1:].strip()
    if not (tree[0] == 'Comment' and len(tree) == 3 and tree[2] == want):
      return ('comment-node', 'first comment %r but tree %r' % (c.comments[0], tree), {})
    inner = tree[1]
  elif tree[0] == 'Comment':
    return ('comment-node', 'no comment token but tree %r' % (tree,), {})
  bare = impl_parse(ast.unparse(c.body))
  if bare != ('ok', inner):
    return ('comment-node', 'tree under the comment %r differs from the tree of the bare expression %r' % (inner, bare), {})
  if c.recform is not None and c.recform != c.text:
    alt = impl_parse(c.recform)
    if alt != r:
      return ('dollar-reading', '$x is not read as rec.x: %r gives %r, %r gives %r' % (c.text, r, c.recform, alt), {})
  if c.in_subset and rng is not None:
    code = compile(ast.Expression(body=c.body), '<c40>', 'eval')
    for _ in range(3):
      env = predgen.gen_env(rng, c.body)
      glob = dict(env)
      glob['__builtins__'] = {}
      try:
        want = predgen.outcome(lambda: eval(code, glob))      # pylint: disable=eval-used
        got = predgen.outcome(lambda: predgen.tree_eval(tree, env))
      except predgen.TreeEvalError as e:
        return ('undocumented-tree', 'tree %r is not of the documented form: %s' % (tree, e), {})
      except (RecursionError, MemoryError):
        continue
      if want != got:
        return ('eval-differs', 'Python gives %r, the tree %r gives %r' % (want, tree, got),
                {'env': repr({k: v for k, v in env.items() if not callable(v)})[:600]})
  return None


def search(ctx):
  import random
  found = 0
  for c in cases(ctx):
    res = oracle(c, ctx.rng, getattr(c, 'impl', None))
    if c.body is not None and not c.reasons and c.in_subset:
      ctx.bump('oracle:evaluated-in-3-environments')
    if res:
      kind, what, extra = res
      rep = {'formula': c.text}
      rep.update(extra)
      ctx.violation(kind, what, rep)
      found += 1
      if found > 400:
        break
  del random


def replay(ctx, w):
  import random
  c = Case(w['formula'], 'replay')
  res = oracle(c, random.Random(w.get('seed', 1)))
  return res[1] if res else None


def _reason_matcher(violation, entry):
  """unsupported syntax accepted, and the only reasons it is unsupported are odd constants / **kwargs."""
  if violation.get('kind') != 'unsupported-accepted':
    return False
  reasons = set(violation.get('replay', {}).get('reasons', []))
  return bool(reasons) and reasons <= {'const', 'kwsplat'} and entry.get('reason') in reasons


MATCHERS = {'c40_reason': _reason_matcher}
