"""C18 -- Circular references terminate and are reported on the cycle (engine.py _update_loop/_recompute_step,
_locked_cells, depend.CircularRefError, column.py get_cell_value; kernel K2)."""
import collections
import copy
import itertools
import random
import re

from harness import core, gristenv as G, schedtrace as ST, sk2v
from harness.props import c06 as K2

ID = 'C18'
TITLE = 'Circular references terminate and are reported on the cycle'
PROPS = ['Props/C18']
RULE = ('search: dependency graphs over n <= 4 formula columns x 2 rows, column i = $D + (sum of $col over a subset of the '
        'columns) + i; thorough: ALL graphs (2 + 16 + 512 in fresh engines, all 65 536 graphs on 4 columns through '
        'ModifyColumn steps in long-lived engines), quick: all graphs on <= 2 columns and a sample on 3 and 4; each under the '
        'engine order and a random permutation of the work items, with a time limit; expected values from graph '
        'reachability (independent of the model). Second stream: random grammar programs with cross-row references '
        '($R.X), conditionals and errors against a recursive reference evaluator. A case is non-trivial when the graph has '
        'a cycle. Edge stream: a trigger-formula data column on / hanging off a cycle, cycle broken, dependency edited. '
        'tie: recorded update loops of such documents replayed by the model (as C06). Robustness stream: formulas '
        'that are the key of their own lookup (known finding).')
TRUSTED = K2.TRUSTED
ASSUMPTIONS = ['cycle_cells_error / acyclic_cells_normal: formulas do not handle exceptions (strict_prog), consistent '
               'starting state (wf_init) - both hold for the generated documents (grammar without try/except; monitored by '
               'check_scratch)',
               'cycles through references ($col, $Ref.col); a lookup keyed on its own column is the known finding and '
               'outside the theorem (DESIGN 6, C18)']
TECHNIQUE = K2.TECHNIQUE + ' + exhaustive enumeration of small dependency graphs against graph reachability'
LEVEL_TEXT = ('Kernel-checked for the scheduler model: every run terminates, is never stuck, the two internal progress checks '
              'cannot fire; at the end of every complete run from a consistent state every cell on a dependency cycle (and '
              'every cell depending on one) holds CircularRefError and every other cell its from-scratch value, for formulas '
              'without exception handling. Kernel strength: scheduler + formula grammar; cycles through lookups are a known '
              'finding.')
LEVEL_NOTE = K2.LEVEL_NOTE

CRE = ['E', 'CircularRefError']


Timeout, limited = ST.Timeout, ST.limited


# ---- dependency graphs over $col references ---------------------------------------------------------------

def graph_prog(graph):
  """graph: tuple of tuples of column indexes; column i = $D + sum($col for col in graph[i]) + (i + 1)."""
  n = len(graph)
  prog = collections.OrderedDict()
  for i in range(n):
    a = ('add', ('col', ST.DATA), ('c', i + 1))
    for j in graph[i]:
      a = ('add', a, ('col', ST.FCOLS[j]))
    prog[ST.FCOLS[i]] = a
  return prog


def graph_expected(graph, dvals):
  """{col: [value per row]} from reachability: a column that reaches a cycle holds CircularRefError."""
  n = len(graph)
  reach = [set(graph[i]) for i in range(n)]
  changed = True
  while changed:
    changed = False
    for i in range(n):
      new = set(reach[i])
      for j in reach[i]:
        new |= reach[j]
      if new != reach[i]:
        reach[i], changed = new, True
  oncycle = [i in reach[i] for i in range(n)]
  bad = [oncycle[i] or any(oncycle[j] for j in reach[i]) for i in range(n)]
  out = {}
  for i in range(n):
    vals = []
    for d in dvals:
      if bad[i]:
        vals.append(CRE)
      else:
        memo = {}
        def val(k):
          if k not in memo:
            memo[k] = d + (k + 1) + sum(val(j) for j in graph[k])
          return memo[k]
        vals.append(val(i))
    out[ST.FCOLS[i]] = vals
  return out, any(oncycle)


def all_graphs(n):
  subsets = [tuple(j for j in range(n) if m >> j & 1) for m in range(1 << n)]
  return itertools.product(subsets, repeat=n)


def observed(e, cols):
  s = G.snapshot(e, tables=[ST.TABLE])[ST.TABLE]['cols']
  return {c: s.get(c) for c in cols}


def run_graph(graph, dvals, pseed):
  """Fresh engine; returns None or a description of the failure."""
  prog = graph_prog(graph)
  def go():
    e, _ = G.new_doc()
    if pseed is not None:
      ST.inject_order(e, K2.node_priority(pseed))
    G.apply(e, [ST.table_action(prog)])
    G.apply(e, [ST.rows_action(dvals, [1] * len(dvals))])
    return observed(e, list(prog))
  return judge(go, graph, dvals)


def judge(go, graph, dvals, retry=None):
  """retry: a function that redoes the work in a FRESH engine (default: go itself, which then must be fresh); a
  timeout is reported only if the retry under a much longer limit times out too."""
  exp, _cyc = graph_expected(graph, dvals)
  try:
    try:
      got = limited(go)
    except Timeout:
      got = limited(retry or go, 40)
  except Timeout:
    return 'internal', 'recalculation did not terminate within the time limit'
  except Exception as x:
    return 'internal', 'recalculation raised %r' % (x,)
  for c in exp:
    for i, (a, b) in enumerate(zip(exp[c], got.get(c) or [])):
      if a != b:
        kind = 'cycle_not_reported' if a == CRE else 'wrong_value'
        return kind, '%s[row %d] holds %r, expected %r' % (c, i + 1, b, a)
    if len(got.get(c) or []) != len(exp[c]):
      return 'wrong_value', 'column %s has %r' % (c, got.get(c))
  return None


def search_graphs(ctx):
  dvals = [1, 2]
  todo = []
  for n in (1, 2):
    todo.extend(all_graphs(n))
  g3, g4 = list(all_graphs(3)), None
  if ctx.tier == 'thorough':
    todo.extend(g3)
    ctx.extra['exhaustive'] = True
    ctx.extra['exhaustive_space'] = ('all dependency graphs on <= 3 formula columns in fresh engines and all 65536 graphs '
                                     'on 4 columns through ModifyColumn steps, 2 rows, engine order + one random permutation')
  else:
    todo.extend(ctx.rng.sample(g3, 35))
    for _ in range(35):
      todo.append(tuple(tuple(j for j in range(4) if ctx.rng.random() < 0.4) for _i in range(4)))
  for graph in todo:
    _exp, cyc = graph_expected(graph, dvals)
    ctx.count(('graph', graph), nontrivial=cyc, kind='graph:n%d%s' % (len(graph), ':cyclic' if cyc else ''),
              sample={'graph': graph} if cyc else None)
    for pseed in (None, ctx.rng.randrange(1 << 30)):
      bad = run_graph(graph, dvals, pseed)
      if bad:
        ctx.violation(bad[0], bad[1], {'stream': 'graph', 'graph': [list(x) for x in graph], 'd': dvals, 'pseed': pseed})
        break
    if sum(1 for v in ctx.violations if v['kind'] == 'internal') >= 2:
      return
  if ctx.tier == 'thorough':
    search_graphs4(ctx, dvals)


def _fresh_steps(g0, g1, dvals, pseed):
  """Fresh engine holding graph g0, then one ModifyColumn bundle to g1; returns (engine, observed values)."""
  e, _ = G.new_doc()
  if pseed is not None:
    ST.inject_order(e, K2.node_priority(pseed))
  p0, p1 = graph_prog(g0), graph_prog(g1)
  G.apply(e, [ST.table_action(p0)])
  G.apply(e, [ST.rows_action(dvals, [1] * len(dvals))])
  bundle = [['ModifyColumn', ST.TABLE, c, {'formula': ST.py_formula(p1[c])}] for c in p1 if p1[c] != p0[c]]
  if bundle:
    G.apply(e, bundle)
  return e, observed(e, list(p1))


def _graph4_block(args):
  """One block of consecutive 4-column graphs in one long-lived engine; returns (cyclic flags, violations)."""
  b0, block, pseed, dvals = args
  graphs = list(itertools.islice(all_graphs(4), b0, b0 + block))
  eng = [_fresh_steps(graphs[0], graphs[0], dvals, pseed)[0]]
  prev, last = graph_prog(graphs[0]), graphs[0]
  flags, viols = [], []
  for graph in graphs:
    prog = graph_prog(graph)
    bundle = [['ModifyColumn', ST.TABLE, c, {'formula': ST.py_formula(prog[c])}] for c in prog if prog[c] != prev[c]]
    def go(bundle=bundle, prog=prog):
      if bundle:
        G.apply(eng[0], bundle)
      return observed(eng[0], list(prog))
    def retry(last=last, graph=graph):
      eng[0], got = _fresh_steps(last, graph, dvals, pseed)   # the interrupted engine is abandoned
      return got
    bad = judge(go, graph, dvals, retry=retry)
    flags.append(graph_expected(graph, dvals)[1])
    if bad:
      viols.append((bad[0], bad[1] + ' (after ModifyColumn steps from the previous graph)',
                    {'stream': 'graphsteps', 'graphs': [[list(x) for x in g] for g in (last, graph)], 'd': dvals,
                     'pseed': pseed}))
      if len(viols) > 3:
        break
      if bad[0] == 'internal':
        try:
          eng[0] = limited(lambda: _fresh_steps(graph, graph, dvals, pseed)[0], 40)
        except Exception:
          break
    prev, last = prog, graph
  return b0, flags, viols


def search_graphs4(ctx, dvals):
  """All graphs on 4 columns: consecutive graphs differ in few columns; one ModifyColumn bundle per step."""
  import multiprocessing
  block = 512
  jobs = [(b0, block, ctx.rng.randrange(1 << 30) if (b0 // block) % 2 else None, dvals)
          for b0 in range(0, 1 << 16, block)]
  pool = multiprocessing.Pool(6)
  try:
    results = pool.map(_graph4_block, jobs)
  finally:
    pool.terminate()
  for b0, flags, viols in sorted(results):
    for k, cyc in enumerate(flags):
      ctx.count(('graph4', b0 + k), nontrivial=cyc, kind='graph:n4:steps%s' % (':cyclic' if cyc else ''))
    for v in viols:
      if len(ctx.violations) <= 10:
        ctx.violation(*v)


# ---- edit SEQUENCES over cyclic documents --------------------------------------------------------------------
# steps: ['mod', column index, [referenced column indexes]] | ['upd', row, value] | ['add', value]

def _set_col(graph, i, subset):
  g = list(graph)
  g[i] = tuple(subset)
  return tuple(g)


def run_sequence(w, seconds=10):
  """After the initial build and after EVERY step: every cell against (i) the reachability oracle and (ii) a freshly
  built engine with the same formulas and data.  None, or (kind, description, index of the failing step or -1)."""
  graph = tuple(tuple(x) for x in w['graph'])
  dvals = list(w['d'])
  cols = [ST.FCOLS[i] for i in range(len(graph))]
  def build(g, d, pseed):
    e, _ = G.new_doc()
    if pseed is not None:
      ST.inject_order(e, K2.node_priority(pseed))
    G.apply(e, [ST.table_action(graph_prog(g))])
    G.apply(e, [ST.rows_action(d, [1] * len(d))])
    return e
  def check(e, g, d, k):
    got = observed(e, cols)
    exp, _ = graph_expected(g, d)
    for c in cols:
      for i, (a, b) in enumerate(zip(exp[c], got.get(c) or [])):
        if a != b:
          kind = 'cycle_not_reported' if a == CRE else ('stale_cycle_error' if b == CRE else 'wrong_value')
          return kind, 'after step %d: %s[row %d] holds %r, expected %r (graph %r)' % (k, c, i + 1, b, a, g), k
      if len(got.get(c) or []) != len(exp[c]):
        return 'wrong_value', 'after step %d: column %s has %r' % (k, c, got.get(c)), k
    fresh = observed(build(g, d, None), cols)
    if fresh != got:
      return 'differs_from_fresh_engine', 'after step %d: engine holds %r, a freshly built engine %r' % (k, got, fresh), k
    return None
  def go():
    g, d = graph, list(dvals)
    e = build(g, d, w.get('pseed'))
    bad = check(e, g, d, -1)
    if bad:
      return bad
    for k, st in enumerate(w['steps']):
      if st[0] == 'mod':
        g2 = _set_col(g, st[1], st[2])
        if g2 == g:
          continue
        c = ST.FCOLS[st[1]]
        G.apply(e, [['ModifyColumn', ST.TABLE, c, {'formula': ST.py_formula(graph_prog(g2)[c])}]])
        g = g2
      elif st[0] == 'upd':
        if not (1 <= st[1] <= len(d)):
          continue
        G.apply(e, [['UpdateRecord', ST.TABLE, st[1], {ST.DATA: st[2]}]])
        d[st[1] - 1] = st[2]
      else:
        G.apply(e, [['AddRecord', ST.TABLE, None, {ST.DATA: st[1], ST.REF: 1}]])
        d.append(st[1])
      bad = check(e, g, d, k)
      if bad:
        return bad
    return None
  try:
    return ST.limited2(go, seconds)
  except Timeout:
    return 'internal', 'recalculation did not terminate within the time limit', -1
  except Exception as x:
    return 'internal', 'recalculation raised %r' % (x,), -1


def gen_cycle_sequence(rng, n):
  """A cycle (length 1..n) with an optional tail leading into it and optional unrelated columns; then: break the cycle
  at each of its columns in turn (re-creating it in between), break at the tail, with row edits in between."""
  idx = list(range(n))
  rng.shuffle(idx)
  k = rng.randint(1, n)
  cyc, rest = idx[:k], idx[k:]
  graph = [()] * n
  for j, c in enumerate(cyc):
    graph[c] = (cyc[(j + 1) % k],)
  tail = []
  prev = cyc[0]
  for c in rest:
    r = rng.random()
    if r < 0.5:
      graph[c] = (prev,)          # a tail leading into the cycle
      tail.append(c)
      prev = c
    elif r < 0.65:
      graph[c] = (c,)             # an unrelated cycle that stays
    elif r < 0.8 and tail:
      graph[c] = tuple(sorted({cyc[0], tail[0]}))
  steps = []
  def noise():
    r = rng.random()
    if r < 0.25:
      steps.append(['upd', rng.randint(1, 2), rng.choice([0, 3, 5])])
    elif r < 0.35:
      steps.append(['add', rng.choice([1, 4])])
  order = list(cyc)
  rng.shuffle(order)
  for c in order + tail:
    old = list(graph[c])
    steps.append(['mod', c, [x for x in old if x not in cyc and x not in tail] if rng.random() < 0.8 else []])
    noise()
    steps.append(['mod', c, old])
    noise()
  last = rng.choice(cyc)
  steps.append(['mod', last, []])
  return tuple(graph), steps


def single_change_sequences(n):
  """All graphs on n columns x all changes of one column's references."""
  subsets = [tuple(j for j in range(n) if m >> j & 1) for m in range(1 << n)]
  for graph in all_graphs(n):
    for i in range(n):
      for sub in subsets:
        if sub != graph[i]:
          yield graph, [['mod', i, list(sub)]]


def _seq_job(w):
  return w, run_sequence(w)


def report_sequence(ctx, w, bad):
  from harness import histgen
  steps = histgen.shrink_list(w['steps'], lambda sub: run_sequence(dict(w, steps=sub)) is not None) \
    if len(w['steps']) > 1 else w['steps']
  w2 = dict(w, steps=steps)
  bad2 = run_sequence(w2) or bad
  ctx.violation(bad2[0], bad2[1] + '; edit sequence %r' % (steps,), w2)


def search_sequences(ctx):
  dvals = [1, 2]
  jobs = []
  for n in ((1, 2) if ctx.tier == 'quick' else (1, 2, 3)):
    for graph, steps in single_change_sequences(n):
      jobs.append({'stream': 'seq', 'graph': [list(x) for x in graph], 'd': dvals, 'steps': steps, 'pseed': None,
                   'family': 'single-change:n%d' % n})
  if ctx.tier == 'thorough':
    ctx.extra['exhaustive_sequences'] = 'all graphs on <= 3 formula columns x all single-column formula changes'
  for _ in range(ctx.n(20, 1500)):
    n = ctx.rng.choice([2, 3, 3, 4, 4])
    graph, steps = gen_cycle_sequence(ctx.rng, n)
    jobs.append({'stream': 'seq', 'graph': [list(x) for x in graph], 'd': dvals, 'steps': steps,
                 'pseed': ctx.rng.choice([None, ctx.rng.randrange(1 << 30)]), 'family': 'cycle-break:n%d' % n})
  for _ in range(ctx.n(8, 600)):
    n = ctx.rng.choice([2, 3, 4])
    graph = tuple(tuple(j for j in range(n) if ctx.rng.random() < 0.4) for _i in range(n))
    steps = []
    for _s in range(ctx.rng.randint(3, 8)):
      r = ctx.rng.random()
      if r < 0.7:
        steps.append(['mod', ctx.rng.randrange(n), [j for j in range(n) if ctx.rng.random() < 0.35]])
      elif r < 0.9:
        steps.append(['upd', ctx.rng.randint(1, 2), ctx.rng.choice([0, 3, 5])])
      else:
        steps.append(['add', ctx.rng.choice([1, 4])])
    jobs.append({'stream': 'seq', 'graph': [list(x) for x in graph], 'd': dvals, 'steps': steps,
                 'pseed': ctx.rng.choice([None, ctx.rng.randrange(1 << 30)]), 'family': 'random:n%d' % n})
  if ctx.tier == 'thorough':
    import multiprocessing
    pool = multiprocessing.Pool(6)
    try:
      results = pool.map(_seq_job, jobs, chunksize=64)
    finally:
      pool.terminate()
  else:
    results = [_seq_job(w) for w in jobs]
  nbad = 0
  for w, bad in results:
    g = tuple(tuple(x) for x in w['graph'])
    ctx.count(('seq', repr(w)), nontrivial=graph_expected(g, w['d'])[1] or any(s[0] == 'mod' for s in w['steps']),
              kind='seq:' + w.pop('family'))
    ctx.bump('seq:steps', len(w['steps']))
    if bad and nbad < 6:
      nbad += 1
      report_sequence(ctx, w, bad)


# ---- a trigger-formula DATA column on / hanging off a cycle (edge of the property: get_cell_value(restore=True)) ----

TRIGGER_VARIANTS = {
  # P: data column with trigger formula $Q + 1, recalculated when Q changes
  'in_cycle': {'cols': [('Q', '$P + $D'), ('S', '$P * 2')], 'break': ('Q', '$D'), 'q': lambda d: d},
  'off_cycle': {'cols': [('Q', '$X + $D'), ('X', '$Q'), ('S', '$P * 2')], 'break': ('X', '$D'), 'q': lambda d: 2 * d},
  'two_step': {'cols': [('Q', '$X + $D'), ('X', '$P'), ('S', '$P * 2')], 'break': ('X', '7'), 'q': lambda d: 7 + d},
}


def run_trigger(w):
  """Cycle through (or feeding) a trigger column; cycle broken; D edited in EVERY row, so every trigger cell is
  re-run: afterwards no cell lies on or depends on a cycle: Q per its formula, P = Q + 1, S = 2 * P, and the formula
  columns equal those of a reloaded engine.  None or (kind, description)."""
  var = TRIGGER_VARIANTS[w['variant']]
  def go():
    e, _ = G.new_doc()
    if w.get('pseed') is not None:
      ST.inject_order(e, K2.node_priority(w['pseed']))
    cols = [{'id': 'D', 'type': 'Int', 'isFormula': False}, {'id': 'P', 'type': 'Int', 'isFormula': False, 'formula': '$Q + 1'}]
    cols += [{'id': c, 'type': 'Int', 'isFormula': True, 'formula': f} for c, f in var['cols']]
    G.apply(e, [['AddTable', 'T', cols]])
    meta = G.actions.get_action_repr(e.fetch_table('_grist_Tables_column'))
    refs = dict(zip(meta[3]['colId'], meta[2]))
    G.apply(e, [['UpdateRecord', '_grist_Tables_column', refs['P'], {'recalcWhen': 0, 'recalcDeps': ['L', refs['Q']]}]])
    n = len(w['d'])
    G.apply(e, [['BulkAddRecord', 'T', [None] * n, {'D': list(w['d'])}]])
    G.apply(e, [['ModifyColumn', 'T', var['break'][0], {'formula': var['break'][1]}]])
    for d2 in w['edits']:
      G.apply(e, [['BulkUpdateRecord', 'T', list(range(1, n + 1)), {'D': list(d2)}]])
    got = G.snapshot(e, tables=['T'])['T']['cols']
    f = G.clone_by_reload(e)
    G.apply(f, [['Calculate']])
    return got, G.snapshot(f, tables=['T'])['T']['cols']
  try:
    got, fresh = ST.limited2(go)
  except Timeout:
    return 'internal', 'recalculation did not terminate within the time limit'
  except Exception as x:
    return 'internal', 'recalculation raised %r' % (x,)
  d = w['edits'][-1]
  q = [var['q'](x) for x in d]
  exp = {'Q': q, 'P': [x + 1 for x in q], 'S': [2 * (x + 1) for x in q]}
  for c in ('Q', 'P', 'S'):
    for i, (a, b) in enumerate(zip(exp[c], got[c])):
      if a != b:
        kind = 'stale_cycle_error' if isinstance(b, list) and b[:2] == CRE else 'wrong_value'
        return kind, ('trigger column P = $Q + 1 (recalc when Q changes), %s; cycle broken by %s := %s; D edited in '
                      'every row: %s[row %d] holds %r, expected %r' % (var['cols'], var['break'][0], var['break'][1],
                                                                      c, i + 1, b, a))
  for c, _f in var['cols']:
    if got[c] != fresh[c]:
      return 'differs_from_fresh_engine', 'formula column %s: engine %r, reloaded engine %r' % (c, got[c], fresh[c])
  return None


def search_triggers(ctx):
  for variant in sorted(TRIGGER_VARIANTS):
    for _ in range(ctx.n(2, 25)):
      n = ctx.rng.choice([1, 2, 3])
      w = {'stream': 'trigger', 'variant': variant, 'd': [ctx.rng.choice([1, 5, 10]) for _i in range(n)],
           'edits': [[ctx.rng.choice([2, 11, 21, 30]) + k for _i in range(n)] for k in range(ctx.rng.choice([1, 2]))],
           'pseed': ctx.rng.choice([None, ctx.rng.randrange(1 << 30)])}
      ctx.count(('trigger', repr(w)), nontrivial=True, kind='seq:trigger column:' + variant)
      bad = run_trigger(w)
      if bad:
        ctx.violation(bad[0], bad[1], w)
        break


# ---- formulas that require SEVERAL rows of a column at once (sum($RefList.col), lookupRecords(...).col) -------------
# One access brings several rows up to date together (Table._get_col_obj_subset -> _use_node(node, rel, row_ids) ->
# _recompute_step(require_rows=[...])); row-dependent formulas put cycles / chains through SOME rows of a column.
# column spec: ('x',) $X | ('sumL', col) sum($L.col) | ('sumG', col) sum(T.lookupRecords(G=$G).col) | ('ref', col) $R.col
#   | ('col', c) $c | ('add', a, b) | ('ifid', [rows], a, b)   (a if $id in (rows) else b)

def mr_py(a):
  k = a[0]
  if k == 'x':
    return '$X'
  if k == 'col':
    return '$%s' % a[1]
  if k == 'sumL':
    return 'sum($L.%s)' % a[1]
  if k == 'sumG':
    return 'sum(T.lookupRecords(G=$G).%s)' % a[1]
  if k == 'ref':
    return '$R.%s' % a[1]
  if k == 'add':
    return '(%s + %s)' % (mr_py(a[1]), mr_py(a[2]))
  if k == 'ifid':
    return '(%s if $id in (%s,) else %s)' % (mr_py(a[2]), ', '.join(str(r) for r in a[1]), mr_py(a[3]))
  raise ValueError(a)


def mr_eval(prog, data):
  """Cell-level reference: {col: [value per row]}; cells on / downstream of a (dynamic) cycle hold CRE."""
  n = len(data['X'])
  memo = {}
  def cell(c, r, stack):
    if (c, r) in memo:
      v = memo[(c, r)]
    elif (c, r) in stack:
      raise _Cycle()
    else:
      try:
        v = ev(prog[c], r, stack + [(c, r)])
      except _Cycle:
        v = CRE
      memo[(c, r)] = v
    if v == CRE:
      raise _Cycle()
    return v
  def ev(a, r, stack):
    k = a[0]
    if k == 'x':
      return data['X'][r - 1]
    if k == 'col':
      return cell(a[1], r, stack)
    if k == 'sumL':
      return sum([cell(a[1], q, stack) for q in data['L'][r - 1]])
    if k == 'sumG':
      return sum([cell(a[1], q, stack) for q in range(1, n + 1) if data['G'][q - 1] == data['G'][r - 1]])
    if k == 'ref':
      return cell(a[1], data['R'][r - 1], stack)
    if k == 'add':
      x = ev(a[1], r, stack)
      return x + ev(a[2], r, stack)
    if k == 'ifid':
      return ev(a[2], r, stack) if r in a[1] else ev(a[3], r, stack)
    raise ValueError(a)
  out = {}
  for c in prog:
    out[c] = []
    for r in range(1, n + 1):
      try:
        out[c].append(cell(c, r, []))
      except _Cycle:
        out[c].append(CRE)
  return out


def gen_multirow(rng):
  n = rng.choice([3, 3, 4])
  rows = list(range(1, n + 1))
  data = {'X': [rng.choice([1, 2, 3, 10, 20]) for _ in rows],
          'L': [rng.sample(rows, rng.randint(1, n)) for _ in rows],
          'R': [rng.choice(rows) for _ in rows], 'G': [rng.choice([1, 1, 2]) for _ in rows]}
  some = lambda: sorted(rng.sample(rows, rng.choice([1, 1, 2])))
  agg = rng.choice(['sumL', 'sumL', 'sumG'])
  variant = rng.choice(['cycle', 'cycle', 'chain', 'mixed'])
  if variant == 'cycle':          # S aggregates V; V of some rows reads S of the same (or a referenced) row
    back = rng.choice([('col', 'S'), ('col', 'S'), ('ref', 'S'), ('add', ('col', 'S'), ('x',))])
    prog = {'S': (agg, 'V'), 'V': ('ifid', some(), back, ('x',))}
  elif variant == 'chain':        # S aggregates V; V of some rows reads S of ANOTHER row through R
    prog = {'S': (agg, 'V'), 'V': ('ifid', some(), ('ref', 'S'), ('x',))}
  else:
    prog = {'S': ('add', (agg, 'V'), ('ifid', some(), ('ref', 'V'), ('x',))), 'V': ('ifid', some(), ('sumL', 'S'), ('x',)),
            'W': ('add', ('sumG', 'S'), ('ref', 'V'))}
  edits = []
  for _ in range(rng.choice([0, 1, 2, 3])):
    r = rng.choice(rows)
    e = rng.random()
    if e < 0.35:
      edits.append(['upd', r, 'L', rng.sample(rows, rng.randint(1, n))])
    elif e < 0.6:
      edits.append(['upd', r, 'R', rng.choice(rows)])
    elif e < 0.8:
      edits.append(['upd', r, 'X', rng.choice([4, 5, 7])])
    else:
      edits.append(['mod', 'V', ['ifid', some(), ['ref', 'S'], ['x']]])
  return {'stream': 'multirow', 'prog': {c: K2.list_of(a) for c, a in prog.items()}, 'data': data, 'edits': edits,
          'pseed': rng.choice([None, rng.randrange(1 << 30)])}


def mr_script(w):
  prog = {c: K2.tuple_of(a) for c, a in w['prog'].items()}
  d = w['data']
  n = len(d['X'])
  cols = [{'id': 'X', 'type': 'Int', 'isFormula': False}, {'id': 'L', 'type': 'RefList:T', 'isFormula': False},
          {'id': 'R', 'type': 'Ref:T', 'isFormula': False}, {'id': 'G', 'type': 'Int', 'isFormula': False}]
  cols += [{'id': c, 'type': 'Any', 'isFormula': True, 'formula': mr_py(a)} for c, a in prog.items()]
  script = [[['AddTable', 'T', cols]],
            [['BulkAddRecord', 'T', list(range(1, n + 1)),
              {'X': list(d['X']), 'L': [['L'] + list(x) for x in d['L']], 'R': list(d['R']), 'G': list(d['G'])}]]]
  states = [None, (dict(prog), copy.deepcopy(d))]
  for st in w['edits']:
    prog, d = dict(prog), copy.deepcopy(d)
    if st[0] == 'upd':
      d[st[2]][st[1] - 1] = st[3]
      script.append([['UpdateRecord', 'T', st[1], {st[2]: (['L'] + list(st[3])) if st[2] == 'L' else st[3]}]])
    else:
      prog[st[1]] = K2.tuple_of(st[2])
      script.append([['ModifyColumn', 'T', st[1], {'formula': mr_py(prog[st[1]])}]])
    states.append((prog, d))
  return script, states


def run_multirow(w):
  """After the build and after every edit: every formula cell against the cell-level reference.  None or (kind, desc)."""
  script, states = mr_script(w)
  def go():
    e, _ = G.new_doc()
    if w.get('pseed') is not None:
      ST.inject_order(e, K2.node_priority(w['pseed']))
    for i, b in enumerate(script):
      G.apply(e, b)
      if states[i] is None:
        continue
      prog, d = states[i]
      exp = mr_eval(prog, d)
      got = G.snapshot(e, tables=['T'])['T']['cols']
      for c in exp:
        for r, (a, x) in enumerate(zip(exp[c], got[c])):
          if a != x:
            kind = 'cycle_not_reported' if a == CRE else ('stale_cycle_error' if x == CRE else 'wrong_value')
            return kind, 'after bundle %d (%r): %s[row %d] holds %r, expected %r; formulas %r, data %r' % (
              i, b, c, r + 1, x, a, {k: mr_py(v) for k, v in prog.items()}, d)
    return None
  try:
    return ST.limited2(go)
  except Timeout:
    return 'internal', 'recalculation did not terminate within the time limit'
  except Exception as x:
    return 'internal', 'recalculation raised %r' % (x,)


def search_multirow(ctx):
  for _ in range(ctx.n(40, 2500)):
    w = gen_multirow(ctx.rng)
    exp = mr_eval({c: K2.tuple_of(a) for c, a in w['prog'].items()}, w['data'])
    cyc = any(v == CRE for vs in exp.values() for v in vs)
    ctx.count(('multirow', repr(w)), nontrivial=True, kind='multirow:' + ('cyclic' if cyc else 'acyclic'))
    bad = run_multirow(w)
    if bad:
      ctx.violation(bad[0], bad[1], w)
      if sum(1 for v in ctx.violations if v['kind'] == 'internal') >= 3 or len(ctx.violations) > 12:
        return


# ---- robustness stream: the attribute of an EMPTY record set requires the whole column (known finding) -------------

EMPTYSET_DOCS = [
  [['B', 'sum(T.lookupRecords(D=99).C)'], ['C', '$B + 1']],
  [['B', 'sum(T.lookupRecords(D=99).B)']],
  [['B', 'len(T.lookupRecords(D=99).C) + 5'], ['C', '$B * 2']],
]


def run_emptyset(w):
  """The lookup matches no row, so B reads no cell of C: B = its normal value (0 or 5), C from it; None or (kind, desc)."""
  def go():
    e, _ = G.new_doc()
    cols = [{'id': 'D', 'type': 'Int', 'isFormula': False}]
    cols += [{'id': c, 'type': 'Any', 'isFormula': True, 'formula': f} for c, f in w['cols']]
    G.apply(e, [['AddTable', 'T', cols]])
    G.apply(e, [['BulkAddRecord', 'T', [None] * len(w['d']), {'D': list(w['d'])}]])
    return G.snapshot(e, tables=['T'])['T']['cols']
  try:
    got = ST.limited2(go)
  except Timeout:
    return 'internal', 'recalculation did not terminate within the time limit'
  except Exception as x:
    return 'internal', 'recalculation raised %r' % (x,)
  bad = [(c, got[c]) for c, _f in w['cols'] if CRE in got[c]]
  if bad:
    kind = 'empty_recordset_requires_column'
    return kind, ('no cell depends on itself (the lookup matches no row, so no cell of the attribute column is read), '
                  'but %r hold CircularRefError; formulas %r' % (bad, w['cols']))
  return None


def search_emptyset(ctx):
  for cols in EMPTYSET_DOCS:
    w = {'stream': 'emptyset', 'cols': cols, 'd': [ctx.rng.choice([1, 2, 3]) for _ in range(ctx.rng.choice([1, 2, 3]))]}
    ctx.bump('emptyset-robustness')
    bad = run_emptyset(w)
    if bad:
      ctx.violation(bad[0], bad[1], w)


def _emptyset_matcher(v, entry):
  w = v.get('replay', {})
  return (v.get('kind') == 'empty_recordset_requires_column' and w.get('stream') == 'emptyset' and
          any(re.search(r'lookupRecords\(D=99\)\.\w+', f) for _c, f in w.get('cols', [])))


# ---- random grammar programs against a recursive reference evaluator ------------------------------------------

class _Cycle(Exception):
  pass


class _Err(Exception):
  pass


def ref_eval(prog, dvals, rvals):
  """{col: [encoded value per row]}: recursive evaluation with an explicit stack; every cell that (dynamically)
  reaches a cell already on the stack holds CircularRefError; other errors propagate by name."""
  n = len(dvals)
  memo = {}
  def cell(c, r, stack):
    if (c, r) in memo:
      v = memo[(c, r)]
    elif (c, r) in stack:
      raise _Cycle()
    else:
      try:
        v = ev(prog[c], r, stack + [(c, r)])
      except _Cycle:
        v = CRE
      except _Err:
        v = ['E', 'ZeroDivisionError']
      memo[(c, r)] = v
    if v == CRE:
      raise _Cycle()
    if isinstance(v, list):
      raise _Err()
    return v
  def ev(a, r, stack):
    k = a[0]
    if k == 'c':
      return a[1]
    if k == 'col':
      return dvals[r - 1] if a[1] == ST.DATA else cell(a[1], r, stack)
    if k == 'ref':
      return cell(a[1], rvals[r - 1], stack)
    if k == 'add':
      x = ev(a[1], r, stack)
      return x + ev(a[2], r, stack)
    if k == 'if':
      return ev(a[2], r, stack) if ev(a[1], r, stack) > 0 else ev(a[3], r, stack)
    if k == 'div0':
      raise _Err()
    raise ValueError(a)
  out = {}
  for c in prog:
    out[c] = []
    for r in range(1, n + 1):
      try:
        out[c].append(cell(c, r, []))
      except (_Cycle, _Err):
        out[c].append(memo[(c, r)])
  return out


def run_prog(w):
  """Replay dict of the 'prog' stream -> None or (kind, description)."""
  prog = collections.OrderedDict((c, K2.tuple_of(a)) for c, a in w['prog'].items())
  d, r = w['d'], w['r']
  exp = ref_eval(prog, d, r)
  def go():
    e, _ = G.new_doc()
    if w.get('pseed') is not None:
      ST.inject_order(e, K2.node_priority(w['pseed']))
    G.apply(e, [ST.table_action(prog)])
    G.apply(e, [ST.rows_action(d, r)])
    return observed(e, list(prog))
  try:
    got = ST.limited2(go)
  except Timeout:
    return 'internal', 'recalculation did not terminate within the time limit'
  except Exception as x:
    return 'internal', 'recalculation raised %r' % (x,)
  for c in exp:
    for i, (a, b) in enumerate(zip(exp[c], got[c])):
      if a != b:
        return ('cycle_not_reported' if a == CRE else 'wrong_value'), '%s[row %d] holds %r, expected %r' % (c, i + 1, b, a)
  return None


def search_progs(ctx):
  for _ in range(ctx.n(120, 4000)):
    prog = ST.gen_program(ctx.rng, p_try=0.0)
    n = ctx.rng.choice([1, 2, 2, 3])
    d, r = ST.gen_rows(ctx.rng, n)
    w = {'stream': 'prog', 'prog': {c: K2.list_of(a) for c, a in prog.items()}, 'd': d, 'r': r,
         'pseed': ctx.rng.choice([None, ctx.rng.randrange(1 << 30)])}
    exp = ref_eval(prog, d, r)
    cyc = any(v == CRE for vs in exp.values() for v in vs)
    ctx.count(('prog', repr(w)), nontrivial=cyc, kind='prog:' + ('cyclic' if cyc else 'acyclic'))
    bad = run_prog(w)
    if bad:
      ctx.violation(bad[0], bad[1], w)
    if sum(1 for v in ctx.violations if v['kind'] == 'internal') >= 3:
      return


# ---- robustness stream: a column that is (transitively) the key of its own lookup ------------------------------

LOOKUP_TEMPLATES = [
  {'F': 'T.lookupOne(F=$D).id'},
  {'F': 'len(T.lookupRecords(F=$D))'},
  {'F': 'T.lookupOne(F=$D).D + 1'},
  {'F': 'T.lookupOne(G=$D).id', 'G': '$F'},
]


def lookup_cycle(formulas):
  """A column reaches itself through at least one lookup-key edge (the defect's trigger)."""
  deps, keyed = {}, set()
  for c, f in formulas.items():
    keys = set(re.findall(r'lookup\w*\(\s*(\w+)\s*=', f))
    deps[c] = (set(re.findall(r'\$(\w+)', f)) | keys) & set(formulas)
    keyed |= {(c, k) for k in keys if k in formulas}
  for (c, k) in keyed:
    seen, todo = set(), [k]
    while todo:
      x = todo.pop()
      if x in seen:
        continue
      seen.add(x)
      todo.extend(deps.get(x, ()))
    if c in seen:
      return True
  return False


def run_lookup(w):
  """After each edit the document must equal its own reload + Calculate; None or (kind, description)."""
  formulas = w['formulas']
  def go():
    e, _ = G.new_doc()
    cols = [{'id': 'D', 'type': 'Int', 'isFormula': False}]
    cols += [{'id': c, 'type': 'Any', 'isFormula': True, 'formula': f} for c, f in formulas.items()]
    G.apply(e, [['AddTable', 'T', cols]])
    G.apply(e, [['BulkAddRecord', 'T', [None] * len(w['d']), {'D': list(w['d'])}]])
    for (row, v) in w['edits']:
      G.apply(e, [['UpdateRecord', 'T', row, {'D': v}]])
      f = G.clone_by_reload(e)
      G.apply(f, [['Calculate']])
      a, b = G.snapshot(e, tables=['T']), G.snapshot(f, tables=['T'])
      if a != b:
        return '; '.join(G.diff_snapshots(a, b)[:3])
    return None
  try:
    diff = ST.limited2(go)
  except Timeout:
    return 'internal', 'recalculation did not terminate within the time limit'
  except Exception as x:
    return 'internal', 'recalculation raised %r' % (x,)
  if diff:
    kind = 'lookup_key_depends_on_own_column' if lookup_cycle(formulas) else 'history_dependent'
    return kind, 'after an incremental edit the document differs from its own reload: ' + diff
  return None


def search_lookups(ctx):
  for _ in range(ctx.n(8, 100)):
    formulas = ctx.rng.choice(LOOKUP_TEMPLATES)
    d = [ctx.rng.choice([1, 2, 3]) for _ in range(3)]
    edits = [(ctx.rng.randint(1, 3), ctx.rng.choice([1, 2, 3, 4])) for _ in range(ctx.rng.randint(1, 3))]
    w = {'stream': 'lookup', 'formulas': formulas, 'd': d, 'edits': [list(x) for x in edits]}
    ctx.bump('lookup-robustness')
    if sum(1 for v in ctx.violations if v['kind'] == 'internal') >= 4:
      return
    bad = run_lookup(w)
    if bad:
      ctx.violation(bad[0], bad[1], w)


def search(ctx):
  search_graphs(ctx)
  ctx.log('search: graphs done')
  search_sequences(ctx)
  search_triggers(ctx)
  ctx.log('search: edit sequences done')
  search_multirow(ctx)
  search_progs(ctx)
  ctx.log('search: programs done')
  search_lookups(ctx)
  search_emptyset(ctx)


def replay(ctx, w):
  s = w.get('stream')
  if s == 'graph':
    bad = run_graph(tuple(tuple(x) for x in w['graph']), w['d'], w.get('pseed'))
  elif s == 'graphsteps':
    g0, g1 = [tuple(tuple(x) for x in g) for g in w['graphs']]
    bad = judge(lambda: _fresh_steps(g0, g1, w['d'], w.get('pseed'))[1], g1, w['d'])
  elif s == 'seq':
    bad = run_sequence(w)
  elif s == 'trigger':
    bad = run_trigger(w)
  elif s == 'multirow':
    bad = run_multirow(w)
  elif s == 'emptyset':
    bad = run_emptyset(w)
  elif s == 'prog':
    bad = run_prog(w)
  elif s == 'lookup':
    bad = run_lookup(w)
  else:
    return None
  return bad[1] if bad else None


def _lookup_matcher(v, entry):
  w = v.get('replay', {})
  return (v.get('kind') == 'lookup_key_depends_on_own_column' and w.get('stream') == 'lookup'
          and lookup_cycle(w.get('formulas', {})))


MATCHERS = {'lookup_key_depends_on_own_column': _lookup_matcher,
            'empty_recordset_requires_column': _emptyset_matcher}


# ---- tie ------------------------------------------------------------------------------------------------

def regenerate(ctx):
  sk2v.regenerate(ctx)


def correspond(ctx):
  sk2v.differential(ctx)
  return correspond_tie(ctx)


def correspond_tie(ctx):
  """Recorded update loops of cyclic documents without try/except, replayed by the model (as C06)."""
  cases = K2.traced_cases(ctx, ctx.n(35, 600), p_try=0.0, p_tryo=0.15, p_lookup=0.3, p_multi=0.35)
  for term, info, st, _strict, _edges in cases:
    nontrivial = bool(st.get('cycle'))
    ctx.count(term, nontrivial=nontrivial, sample=info if nontrivial else None,
              kind='tie:' + ('cycle' if st.get('cycle') else 'reorder' if st.get('need') else 'plain'))
    for k in ('done', 'need', 'cycle', 'opp', 'opp_abandoned', 'invalidated'):
      ctx.bump('events:' + k, st.get(k, 0))
  bad = K2.run_tie(ctx, 'tie', cases)
  for j, which in bad[:5]:
    ctx.broken('correspondence:%s fails on a recorded update loop' % which, 'document %r' % (cases[j][1],))
  ctx.log('tie: %d recorded update loops, %d failing' % (len(cases), len(bad)))
  ctx.extra['tie_cases'] = len(cases)
