"""C30 -- Outputs are deterministic across processes (PYTHONHASHSEED)."""
import ast
import copy
import json
import os
import random
import subprocess
import time

from harness import core
from harness import gristenv as G
from harness import histgen, c05lib, depsexport

import depend   # noqa: E402

ID = 'C30'
TITLE = 'Outputs are deterministic across processes'
PROPS = ['Props/C30']
RULE = ('histories (document setup + 8-12 bundles from the shared and the C05 generators, plus a stream whose formulas '
        'return sets / frozensets / dicts of strings) are generated once and replayed in SEPARATE processes with '
        'different PYTHONHASHSEED (3 seeds quick, 16 thorough); per bundle the digest of ActionGroup.get_repr() '
        '(stored, undo, direct, retValues, calc; failures: exception type and text) and of all tables must agree; a case '
        'is one bundle, non-trivial when its reply contains at least one action; model cases: '
        'ActionSummary.convert_deltas_to_actions and DocModel.apply_auto_removes vs Model/CalcFlush.v on random '
        'summaries built through the real API in shuffled insertion orders; Graph.invalidate_deps with shuffled in-edge '
        'orders on the real graphs')
TRUSTED = ['Model/CalcFlush.v is hand-written; tied each run to action_summary.py / docmodel.py on generated summaries',
           'iteration order of Python sets and insertion order of str-keyed dicts are modelled as "any permutation"; '
           'CPython\'s hash function itself is not modelled: values whose CONTENT depends on the seed are found only by '
           'the subprocess oracle']
ASSUMPTIONS = ['documents without time- or randomness-dependent formulas (NOW, TODAY, RANDOM, UUID, REQUEST)',
               'Graph.invalidate_deps order irrelevance is proved for row batches from a recompute map closed under the edges '
               '(the empty map at the start of a bundle)',
               'the scheduler\'s confluence (evaluation order) is C06; values at quiescence are history-independent by '
               'C05_quiescent_values_unique']
TECHNIQUE = 'Coq proofs that the three order-sensitive iterations are canonical + cross-process digests under different hash seeds'
LEVEL_TEXT = ('Kernel-checked: invalidate_deps yields the same recompute map for any order of the edge set; the calc flush '
              '(convert_deltas_to_actions) and apply_auto_removes are independent of dict/set insertion order. Whole-engine '
              'determinism is tested by running the same histories under different PYTHONHASHSEED in separate processes.')
LEVEL_NOTE = ('Strength: kernel. The runtime hash function is not modelled; seed-dependent value CONTENT (repr of a set) is '
              'found by the subprocess oracle only (C30-set-repr, repaired by df84fa7; its witness is replayed first each run).')
SEEDS_QUICK = ['1', '2', '3']
SEEDS_THOROUGH = [str(i) for i in range(1, 17)]

# @C: a column of the row's table, @T: the table.  Every set has >= 3 multi-character string elements (so that the
# iteration order really varies with the hash seed); nested hashables: sets of frozensets / of tuples, mixed strings
# and numbers, frozensets, dicts with set values, sets inside lists and tuples.
SET_FORMULAS = [
  '{$@C, "x", "yy"}', 'set(str(r.id) + "k" for r in @T.all)', 'frozenset(["a", "bb", str($@C)])',
  '{"b": 1, "a": str($@C)}', '{str($@C), "q", "zz", "www"}',
  '{frozenset(("ab" + str(r.id), "cd" + str(r.id), "xy")) for r in @T.all} | {frozenset(("mn", "op")), frozenset(("qr", "st", "uv"))}',
  'set(frozenset((str($@C), "k%d" % i, "zz%d" % (i * 7))) for i in range(4))',
  'frozenset([frozenset(["ab", "cd"]), frozenset(["ef", str($@C)]), frozenset(["gh", "ij", "kl"])])',
  '{("ab", str($@C)), ("cd", "ef"), ("gh", 1), ("ij", "kl", "mn")}',
  '{"abc", "de", "fgh", 3, 2.5, None, str($@C)}',
  '{"k1": {"ab", "cd", str($@C)}, "k2": {"ef", "gh", "ij"}, "k3": frozenset(["kl", "mn", "op"])}',
  '[{"ab", "cd", "ef"}, ({"gh", "ij", str($@C)}, 1), frozenset(["kl", "mn", "op"])]',
  '({"ab", "cd", "ef", str($@C)}, "t")',
  '{frozenset([("ab", 1), ("cd", 2)]), frozenset([("ef", 3), (str($@C), 4)]), frozenset([("gh", 5)])}',
]
SET_TYPES = ['Any', 'Any', 'Text', 'Text', 'Int', 'Numeric', 'Choice', 'Date']


class Gen30(c05lib.Gen05):
  """The C05 generator plus formulas that RETURN sets / frozensets / dicts / lists containing sets, in Any, Text and
  typed columns."""
  def formula(self, meta, tref, level):
    r = self.r
    if r.random() < 0.3:
      own = self.lower_cols(meta, tref, level)
      c1 = r.choice(own)['colId'] if own else 'id'
      t = meta.tables[tref]['tableId']
      return r.choice(SET_FORMULAS).replace('@C', c1).replace('@T', t)
    return super(Gen30, self).formula(meta, tref, level)

  def gen(self, kind, meta):
    a = super(Gen30, self).gen(kind, meta)
    if kind == 'addformula' and a and a[0] == 'AddColumn' and any(m in a[3].get('formula', '') for m in ('frozenset', '{')):
      a[3]['type'] = self.r.choice(SET_TYPES)
    for part in (a or []):
      if isinstance(part, dict) and isinstance(part.get('formula'), str):
        part['formula'] = guard_str(part['formula'])
    return a


GUARD = '%s if not isinstance(%s, (set, frozenset, dict, list, tuple)) else len(%s)'


def guard_str(formula):
  """str(<cell>) written IN a formula is the formula's own computation: when the cell holds a set (or a container
  with a set inside), Python's str() gives text in hash order whatever the engine does, so such a formula is not a
  deterministic function of its inputs and a difference in its column says nothing about the engine.  The generated
  formulas therefore apply str() to scalars only; the engine's own conversions of sets to text (objtypes.safe_repr,
  usertypes convert, encode_object) are untouched and remain under test."""
  import re
  return re.sub(r'str\((\$[A-Za-z0-9_.]+|v)\)', lambda m: 'str(%s)' % (GUARD % ((m.group(1),) * 3)), formula)


CHOICES = ['Apple', 'apple', 'APPLE', 'Pear', 'pear', 'Éa', 'éa', 'ÉA', '10', '2', '02', 'x1', 'X1', 'blue', 'Blue',
           'green']


def choicesum_history(r):
  """Summary tables grouped by ChoiceList / RefList columns (1 and 2 group-by columns); cells that receive several
  multi-character choices at once (case variants, accents, numbers as strings), so that one action creates several
  summary rows."""
  cols = [{'id': 'C', 'type': 'ChoiceList', 'isFormula': False}, {'id': 'D', 'type': 'ChoiceList', 'isFormula': False},
          {'id': 'L', 'type': 'RefList:T', 'isFormula': False}, {'id': 'A', 'type': 'Text', 'isFormula': False},
          {'id': 'N', 'type': 'Int', 'isFormula': False}]
  def cl():
    k = r.randint(2, 5)
    return ['L'] + r.sample(CHOICES, k)
  def rl(n):
    return ['L'] + r.sample(range(1, n + 1), min(n, r.randint(1, 3))) if n else None
  hist = [[['AddTable', 'T', cols]]]
  n = r.randint(1, 3)
  hist.append([['BulkAddRecord', 'T', [None] * n, {'A': [r.choice(['a', 'b']) for _ in range(n)], 'N': list(range(n))}]])
  groupings = [[2], [2, 3], [4], [2, 5], [3], [2, 4]]        # column refs: C=2 D=3 L=4 A=5 N=6
  for gb in r.sample(groupings, r.randint(1, 3)):
    hist.append([['CreateViewSection', 1, 0, 'record', gb, None]])
  for _ in range(r.randint(3, 7)):
    k = r.random()
    row = r.randint(1, n)
    if k < 0.45:
      hist.append([['UpdateRecord', 'T', row, {r.choice(['C', 'D']): cl()}]])
    elif k < 0.7:
      m = r.randint(1, 2)
      hist.append([['BulkAddRecord', 'T', [None] * m, {'C': [cl() for _ in range(m)], 'D': [cl() for _ in range(m)],
                                                       'L': [rl(n) for _ in range(m)]}]])
      n += m
    elif k < 0.85:
      hist.append([['UpdateRecord', 'T', row, {'L': rl(n), 'C': cl()}]])
    elif k < 0.93:
      hist.append([['CreateViewSection', 1, 0, 'record', r.choice(groupings), None]])
    else:
      hist.append([['RemoveRecord', 'T', row]])
  return hist


# ---- directed scenarios: run in every tier under every seed, independent of the random streams ------------------
# (a) the ENGINE's conversions of set values to text (objtypes.safe_repr / encode_object, usertypes convert: alt text
#     of typed columns, ChoiceList / RefList fallback text).  No formula applies str() to a set itself.
NESTED_SETS = [
  ('pairs', 'set(frozenset((r.A, r.B)) for r in Links.all)'),              # incomparable frozensets of strings
  ('pairs_row', 'set(frozenset((r.A, r.B)) for r in Links.all if r.id != $id)'),
  ('fz_of_fz', 'frozenset(frozenset((r.A, r.B, "kilo")) for r in Links.all)'),
  ('fz_of_tuples', 'frozenset((r.A, r.N) for r in Links.all)'),
  ('mixed', 'set([r.A for r in Links.all] + [r.N for r in Links.all] + [None])'),
  ('fz_tuple_sets', 'set(frozenset([(r.A, r.N), (r.B, 1)]) for r in Links.all)'),
]
NESTED_TYPES = ['Any', 'Text', 'Int', 'ChoiceList', 'RefList:Links', 'Choice', 'Date']
CONTAINERS = [
  ('dict_sets', '{"k1": set(r.A for r in Links.all), "k2": frozenset(r.B for r in Links.all), "k3": $N}'),
  ('list_sets', '[set(frozenset((r.A, r.B)) for r in Links.all), $N]'),
  ('tuple_set', '(set(r.A for r in Links.all), "t")'),
]
LINKS_COLS = [{'id': 'A', 'type': 'Text', 'isFormula': False}, {'id': 'B', 'type': 'Text', 'isFormula': False},
              {'id': 'N', 'type': 'Int', 'isFormula': False}]
LINKS_DATA = {'A': ['alpha', 'bravo', 'charlie', 'delta', 'echo', 'foxtrot'],
              'B': ['bravo', 'charlie', 'delta', 'echo', 'foxtrot', 'alpha'], 'N': [2, 10, 33, 4, 500, 6]}


def nested_set_history(typ, forms):
  hist = [[['AddTable', 'Links', copy.deepcopy(LINKS_COLS)]], [['BulkAddRecord', 'Links', [None] * 6, copy.deepcopy(LINKS_DATA)]]]
  for name, f in forms:
    hist.append([['AddColumn', 'Links', name, {'type': typ, 'isFormula': True, 'formula': f}]])
  hist.append([['UpdateRecord', 'Links', 3, {'B': 'golf'}]])
  hist.append([['RemoveRecord', 'Links', 1]])
  first = forms[0][0]
  hist.append([['ModifyColumn', 'Links', first, {'isFormula': False}]])         # the values become stored data
  hist.append([['ModifyColumn', 'Links', first, {'type': 'Text' if typ != 'Text' else 'Any'}]])
  hist.append([['AddRecord', 'Links', None, {'A': 'hotel', 'B': 'india', 'N': 7}]])
  return hist


# (b) RenameChoices on a column with a saved filter whose by-value list contains the rename TARGET (two entries merge)
SHIRT_CHOICES = ['red', 'green', 'blue', 'teal', 'pink', 'gray', 'gold']


def rename_choices_history(typ, key):
  e, _ = G.new_doc()
  cell = (lambda i: SHIRT_CHOICES[i]) if typ == 'Choice' else \
         (lambda i: ['L', SHIRT_CHOICES[i], SHIRT_CHOICES[(i + 2) % 7], SHIRT_CHOICES[(i + 4) % 7]])
  hist = [[['AddTable', 'Shirts', [{'id': 'Color', 'type': typ, 'isFormula': False},
                                   {'id': 'Size', 'type': 'Choice', 'isFormula': False}]]],
          [['BulkAddRecord', 'Shirts', [None] * 7, {'Color': [cell(i) for i in range(7)], 'Size': ['S', 'M'] * 3 + ['L']}]]]
  for b in hist:
    G.apply(e, copy.deepcopy(b))
  col_ref = e.docmodel.get_column_rec('Shirts', 'Color').id
  sections = [e.docmodel.get_table_rec('Shirts').rawViewSectionRef.id, e.docmodel.get_table_rec('Shirts').primaryViewId.viewSections[0].id]
  hist.append([['BulkAddRecord', '_grist_Filters', [None] * len(sections),
                {'viewSectionRef': sections, 'colRef': [col_ref] * len(sections),
                 'filter': [json.dumps({key: SHIRT_CHOICES}), json.dumps({key: SHIRT_CHOICES[::-1][:5]})][:len(sections)],
                 'pinned': [True] * len(sections)}]])
  hist.append([['RenameChoices', 'Shirts', 'Color', {'red': 'green'}]])                    # merges two listed choices
  hist.append([['RenameChoices', 'Shirts', 'Color', {'teal': 'pink', 'gold': 'gray', 'blue': 'navy'}]])
  hist.append([['RenameChoices', 'Shirts', 'Size', {'S': 'M'}]])                            # a column without filter
  return hist


def directed_histories():
  """[(name, history)]: fixed inputs, the same in every run."""
  out = []
  for typ in NESTED_TYPES:
    out.append(('nested-sets:' + typ, nested_set_history(typ, NESTED_SETS)))
  out.append(('nested-sets:Text:pairs-only', nested_set_history('Text', NESTED_SETS[:2])))
  for typ, cs in (('Text', CONTAINERS), ('Any', CONTAINERS[:1]), ('Int', CONTAINERS[1:2])):
    for c in cs:
      out.append(('containers:%s:%s' % (typ, c[0]), nested_set_history(typ, [c])))
  for typ in ('Choice', 'ChoiceList'):
    for key in ('included', 'excluded'):
      out.append(('rename-choices:%s:%s' % (typ, key), rename_choices_history(typ, key)))
  return out


def make_history(seed, nb, kind):
  """Generates one history in THIS process (explicit bundles, successful or not)."""
  r = random.Random(seed)
  if kind == 'choicesum':
    return choicesum_history(r)
  gen = {'shared': histgen.HistGen, 'c05': c05lib.Gen05, 'sets': Gen30}[kind](r)
  e, _ = G.new_doc()
  hist = []
  plan = [[gen.gen_addtable(histgen.Meta(e))] for _ in range(r.randint(1, 2))] + [None] * nb
  for b in plan:
    bundle = b if b is not None else gen.bundle(e)
    hist.append(copy.deepcopy(bundle))
    c05lib.apply_or_clean(e, copy.deepcopy(bundle), gen)
  return hist


def run_workers(histories, seeds, mode='digest', timeout=1200):
  """Same histories in one subprocess per hash seed; returns {seed: results}."""
  procs = []
  req = json.dumps({'mode': mode, 'histories': histories}).encode()
  for s in seeds:
    env = dict(os.environ)
    env['PYTHONHASHSEED'] = s
    env['PYTHONPATH'] = '%s:%s:%s' % (core.VERIF, os.path.join(core.VERIF, 'stubs'), core.GRIST)
    p = subprocess.Popen([core.PY, '-m', 'harness.c30worker'], stdin=subprocess.PIPE, stdout=subprocess.PIPE,
                         stderr=subprocess.PIPE, env=env, cwd=core.VERIF)
    procs.append((s, p))
  for s, p in procs:
    p.stdin.write(req)
    p.stdin.close()
  out = {}
  for s, p in procs:
    try:
      data = p.stdout.read()
      p.wait(timeout=timeout)
    except subprocess.TimeoutExpired:
      p.kill()
      raise core.TieBroken('C30 worker (PYTHONHASHSEED=%s) timed out' % s)
    if p.returncode != 0:
      raise core.TieBroken('C30 worker (PYTHONHASHSEED=%s) failed: %s' % (s, p.stderr.read().decode()[-800:]))
    res = json.loads(data.decode())
    if res.get('hashseed') != s:
      raise core.TieBroken('C30 worker did not run under PYTHONHASHSEED=%s' % s)
    out[s] = res['results']
  return out


def set_repr_only(x, y):
  """True if x and y differ only in ['U', repr] values that are reprs of the same set in two element orders."""
  if type(x) != type(y):
    return False
  if isinstance(x, list):
    if len(x) == 2 and len(y) == 2 and x[0] == 'U' and y[0] == 'U' and isinstance(x[1], str) and isinstance(y[1], str):
      return x[1] == y[1] or same_set_repr(x[1], y[1])
    return len(x) == len(y) and all(set_repr_only(a, b) for a, b in zip(x, y))
  if isinstance(x, dict):
    return set(x) == set(y) and all(set_repr_only(x[k], y[k]) for k in x)
  if isinstance(x, str):
    # a typed column stores str(set) as alternative text (usertypes.BaseColumnType.convert)
    return x == y or same_set_repr(x, y)
  return x == y


def normalise_set_displays(s):
  """Every `{...}` group of s that is the display of a set of literals, rewritten with sorted elements."""
  import re
  def split_top(body):
    """Elements of a display body split at top-level commas; None if it looks like a dict (top-level colon)."""
    out, cur, depth, quote, i = [], [], 0, None, 0
    while i < len(body):
      ch = body[i]
      if quote:
        cur.append(ch)
        if ch == '\\' and i + 1 < len(body):
          cur.append(body[i + 1])
          i += 1
        elif ch == quote:
          quote = None
      elif ch in '\'"':
        quote = ch
        cur.append(ch)
      elif ch in '([{':
        depth += 1
        cur.append(ch)
      elif ch in ')]}':
        depth -= 1
        cur.append(ch)
      elif ch == ':' and depth == 0:
        return None
      elif ch == ',' and depth == 0:
        out.append(''.join(cur).strip())
        cur = []
      else:
        cur.append(ch)
      i += 1
    if ''.join(cur).strip():
      out.append(''.join(cur).strip())
    return out
  def close_of(t, i):
    """Index of the '}' matching the '{' at t[i] (quotes respected), or -1."""
    depth, quote, j = 0, None, i
    while j < len(t):
      ch = t[j]
      if quote:
        if ch == '\\':
          j += 1
        elif ch == quote:
          quote = None
      elif ch in '\'"':
        quote = ch
      elif ch == '{':
        depth += 1
      elif ch == '}':
        depth -= 1
        if depth == 0:
          return j
      j += 1
    return -1
  def norm(t):
    """Inner displays first (a set of frozensets), then the group itself; dict displays keep their item order."""
    out, i, quote = [], 0, None
    while i < len(t):
      ch = t[i]
      if quote:
        out.append(ch)
        if ch == '\\' and i + 1 < len(t):
          out.append(t[i + 1])
          i += 1
        elif ch == quote:
          quote = None
      elif ch in '\'"':
        quote = ch
        out.append(ch)
      elif ch == '{' and close_of(t, i) > 0:
        j = close_of(t, i)
        body = norm(t[i + 1:j])
        parts = split_top(body)
        out.append('{' + (body if parts is None or len(parts) < 2 else ', '.join(sorted(parts))) + '}')
        i = j
      else:
        out.append(ch)
      i += 1
    return ''.join(out)
  return norm(s)


def same_set_repr(a, b):
  if a != b and normalise_set_displays(a) == normalise_set_displays(b):
    return True      # also covers text a formula built around str(set): the set's text is the only difference
  def parse(s):
    for pre in ('frozenset(', 'set('):
      if s.startswith(pre) and s.endswith(')'):
        s = s[len(pre):-1]
    if not (s.startswith('{') and s.endswith('}')):
      return None
    try:
      v = ast.literal_eval(s)
    except Exception:
      return None
    return v if isinstance(v, set) else None
  pa, pb = parse(a), parse(b)
  return pa is not None and pa == pb and a != b


def list_order_only(x, y):
  """True if x and y differ only in the element order of encoded lists ['L', ...] (same elements)."""
  if type(x) != type(y):
    return False
  if isinstance(x, list):
    if x and y and x[0] == 'L' and y[0] == 'L' and all(isinstance(v, str) for v in x[1:] + y[1:]):
      return sorted(x[1:]) == sorted(y[1:])
    return len(x) == len(y) and all(list_order_only(a, b) for a, b in zip(x, y))
  if isinstance(x, dict):
    return set(x) == set(y) and all(list_order_only(x[k], y[k]) for k in x)
  return x == y


def choicelist_order(x, y):
  """The differing cells are cells of ChoiceList columns, or cells of other columns that hold a copy of such a
  cell's value (e.g. `$ref.Z`): usertypes.ChoiceList.do_convert turns a set into a tuple in iteration order."""
  ta, tb = x.get('tables', {}), y.get('tables', {})
  meta_t, meta_c = ta.get('_grist_Tables'), ta.get('_grist_Tables_column')
  if not meta_t or not meta_c:
    return False
  tname = dict(zip(meta_t['ids'], meta_t['cols']['tableId']))
  ctype = {(tname.get(p), c): t for p, c, t in zip(meta_c['cols']['parentId'], meta_c['cols']['colId'], meta_c['cols']['type'])}
  pairs, others = set(), []
  for t in ta:
    if t not in tb or ta[t]['ids'] != tb[t]['ids']:
      return False
    for c, vals in ta[t]['cols'].items():
      ov = tb[t]['cols'].get(c)
      if vals == ov:
        continue
      if not isinstance(ov, list) or len(ov) != len(vals):
        return False
      for a, b in zip(vals, ov):
        if a != b:
          key = (json.dumps(a), json.dumps(b))
          if ctype.get((t, c)) == 'ChoiceList':
            pairs.add(key)
          else:
            others.append(key)
  return bool(pairs) and all(k in pairs for k in others)


def diff_leaves(x, y):
  if isinstance(x, dict) and isinstance(y, dict) and set(x) == set(y):
    for k in x:
      for p in diff_leaves(x[k], y[k]):
        yield p
  elif isinstance(x, list) and isinstance(y, list) and len(x) == len(y):
    for a, b in zip(x, y):
      for p in diff_leaves(a, b):
        yield p
  elif x != y:
    yield (x, y)


def set_nested_in_container_text(x, y):
  """Every differing value is a TEXT (cell text or alternative text) that displays a list / tuple / dict which
  CONTAINS sets: str() of a container calls repr() of the sets inside it (the repairs df84fa7 / 71fe06e order the
  elements of a value that is itself a set)."""
  found = False
  for a, b in diff_leaves(x, y):
    if not (isinstance(a, str) and isinstance(b, str)):
      return False
    t = a.lstrip()
    bare_set = (t.startswith('{') and normalise_set_displays(t) != t and t.count('{') == 1 and t.endswith('}')) \
               or t.startswith('frozenset(') or t.startswith('set(')
    if bare_set or not t or t[0] not in '[({':
      return False
    if t[0] == '{' and not dict_display(t):
      return False        # a SET display (e.g. a set of frozensets): objtypes.safe_repr is responsible, not str(container)
    found = True
  return found


def choicelist_set_items(x, y):
  """Only ChoiceList columns differ, and every differing value is a ['L', text, ...] list holding the SAME items up
  to the element order of set displays, at least one item being the text of a set: usertypes.ChoiceList.do_convert of
  a set whose items are sets (sorted(str(item) ...): str(item) is in hash order, and so is the sorted result)."""
  found = []
  def is_set_text(v):
    return v.startswith(('frozenset(', 'set(', '{'))
  def walk(a, b):
    if type(a) != type(b):
      return False
    if isinstance(a, list):
      if a == b:
        return True
      if len(a) == len(b) and a and a[0] == 'L' and b[0] == 'L' and all(isinstance(v, str) for v in a[1:] + b[1:]):
        na, nb = sorted(normalise_set_displays(v) for v in a[1:]), sorted(normalise_set_displays(v) for v in b[1:])
        if na == nb and any(is_set_text(v) for v in a[1:]):
          found.append(1)
          return True
        return False
      return len(a) == len(b) and all(walk(p, q) for p, q in zip(a, b))
    if isinstance(a, dict):
      return set(a) == set(b) and all(walk(a[k], b[k]) for k in a)
    return a == b
  return walk(x, y) and bool(found) and only_text_columns_differ(x, y, 'ChoiceList')


def dict_display(t):
  """t = '{...}' has a colon at the top level of the braces (outside strings and nested brackets): a dict display."""
  depth, quote, i = 0, None, 0
  while i < len(t):
    ch = t[i]
    if quote:
      if ch == '\\':
        i += 1
      elif ch == quote:
        quote = None
    elif ch in '\'"':
      quote = ch
    elif ch in '([{':
      depth += 1
    elif ch in ')]}':
      depth -= 1
    elif ch == ':' and depth == 1:
      return True
    i += 1
  return False


def rename_table_order_only(x, y):
  """Same documents, same actions as multisets; the replies differ only in the ORDER of their actions and a
  RenameTable is among the displaced ones (useractions._updateColumnRecords iterates the SET rename_summary_tables)."""
  if x.get('tables') != y.get('tables'):
    return False
  rx, ry = x.get('reply', {}), y.get('reply', {})
  if 'error' in rx or 'error' in ry or rx.get('retValues') != ry.get('retValues'):
    return False
  ms = lambda l: sorted(json.dumps(a, sort_keys=True) for a in l)
  for k in ('stored', 'undo', 'calc'):
    if ms(rx.get(k, [])) != ms(ry.get(k, [])):
      return False
  if sorted(rx.get('direct', [])) != sorted(ry.get('direct', [])):
    return False
  moved = [a for a, b in zip(rx['stored'], ry['stored']) if a != b]
  return any(a[0] == 'RenameTable' for a in moved)


def first_difference(fa, fb):
  for i, (x, y) in enumerate(zip(fa, fb)):
    if x != y:
      return i, x, y
  return None


def describe(x, y):
  """Short text for the first differing part of two reply/table structures."""
  if isinstance(x, dict) and isinstance(y, dict):
    for k in sorted(set(x) | set(y), key=str):
      if x.get(k) != y.get(k):
        return '%s: %s' % (k, describe(x.get(k), y.get(k)))
  if isinstance(x, list) and isinstance(y, list) and len(x) == len(y):
    for i, (a, b) in enumerate(zip(x, y)):
      if a != b:
        return '[%d] %s' % (i, describe(a, b))
  return '%s  vs  %s' % (json.dumps(x, default=repr)[:160], json.dumps(y, default=repr)[:160])


def only_text_columns_differ(x, y, typ='Text'):
  """Every cell that differs between the two documents lies in a column of type Text (usertypes.Text.do_convert
  stores str(value); the other two sites that store the text of a set were repaired by df84fa7)."""
  ta, tb = x.get('tables', {}), y.get('tables', {})
  meta_t, meta_c = ta.get('_grist_Tables'), ta.get('_grist_Tables_column')
  if not meta_t or not meta_c:
    return False
  tname = dict(zip(meta_t['ids'], meta_t['cols']['tableId']))
  ctype = {}
  for pid, cid, ct in zip(meta_c['cols']['parentId'], meta_c['cols']['colId'], meta_c['cols']['type']):
    ctype[(tname.get(pid), cid)] = ct
  found = False
  for t in ta:
    if t not in tb or ta[t]['ids'] != tb[t]['ids']:
      return False
    for c, vals in ta[t]['cols'].items():
      if vals != tb[t]['cols'].get(c):
        found = True
        if ctype.get((t, c)) != typ:
          return False
  return found


def strip_downstream(x, y):
  """Columns whose cells differ only because their formula uses (by name) a column whose text differs by the order
  of a set display are made equal in copies of x and y, so that the classification looks at the root columns only
  (e.g. RANK(rec, order_by="A") where A holds the text of a set).  Unchanged if that is not the situation."""
  import re
  ta, tb = x.get('tables', {}), y.get('tables', {})
  meta_t, meta_c = ta.get('_grist_Tables'), ta.get('_grist_Tables_column')
  if not meta_t or not meta_c:
    return x, y
  tname = dict(zip(meta_t['ids'], meta_t['cols']['tableId']))
  formula = {(tname.get(p), c): (f or '') for p, c, f in zip(meta_c['cols']['parentId'], meta_c['cols']['colId'],
                                                            meta_c['cols']['formula'])}
  base, others = set(), set()
  for t in ta:
    if t not in tb or ta[t]['ids'] != tb[t]['ids']:
      return x, y
    for c, vals in ta[t]['cols'].items():
      ov = tb[t]['cols'].get(c)
      if vals != ov:
        (base if set_repr_only(vals, ov) else others).add((t, c))
  if not base or not others:
    return x, y
  accepted = set(base)
  changed = True
  while changed:
    changed = False
    for tc in list(others - accepted):
      f = formula.get(tc, '')
      if any(re.search(r'(?<![A-Za-z0-9_])%s(?![A-Za-z0-9_])' % re.escape(c2), f) for (_t2, c2) in accepted):
        accepted.add(tc)
        changed = True
  if others - accepted:
    return x, y
  x2, y2 = copy.deepcopy(x), copy.deepcopy(y)
  for (t, c) in accepted - base:
    y2['tables'][t]['cols'][c] = x2['tables'][t]['cols'][c]
  for key in ('stored', 'undo', 'calc'):
    for a, b in zip(x2.get('reply', {}).get(key, []), y2.get('reply', {}).get(key, [])):
      if a != b and a[0] == b[0] and a[0] in ('BulkUpdateRecord', 'UpdateRecord', 'BulkAddRecord', 'AddRecord') \
         and a[1:3] == b[1:3] and isinstance(a[3], dict) and isinstance(b[3], dict):
        for col in a[3]:
          if (a[1], col) in accepted - base and col in b[3]:
            b[3][col] = a[3][col]
  return x2, y2


def compare_full(hist, sa, sb):
  """Re-runs one history under two seeds with full output; (index, kind, what) of the first difference or None."""
  full = run_workers([hist], [sa, sb], mode='full')
  d = first_difference(full[sa][0], full[sb][0])
  if d is None:
    return None
  i, x0, y0 = d
  x, y = strip_downstream(x0, y0)
  kind = 'cross-process-mismatch'
  if choicelist_set_items(x, y):
    kind = 'set_items_in_choicelist_text'
  elif set_repr_only(x, y):
    if set_nested_in_container_text(x, y):
      kind = 'set_nested_in_container_text'
    else:
      kind = 'set_repr_in_text_column' if only_text_columns_differ(x, y) else 'set_repr_in_unmarshallable_value'
  elif choicelist_set_items(x, y):
    kind = 'set_items_in_choicelist_text'
  elif list_order_only(x, y) and choicelist_order(x, y):
    kind = 'set_to_choicelist_order'
  elif rename_table_order_only(x, y):
    kind = 'action-order:rename-summary-tables'
  return i, kind, 'PYTHONHASHSEED=%s vs %s, bundle %d: %s' % (sa, sb, i, describe(x0, y0))


def replay(ctx, w):
  if w.get('mode') in ('flush', 'edge-order'):
    return 'model-tie violation (%s): re-run ./check C30 with the same seed to reproduce' % w['mode']
  hist = w.get('history', []) + [w['bundle']]
  sa, sb = w['seeds']
  try:
    r = compare_full(hist, str(sa), str(sb))
  except core.TieBroken as ex:
    return 'worker failed: %s' % ex
  return None if r is None else '%s: %s' % (r[1], r[2])


def set_repr_matcher(violation, entry):
  return violation.get('kind') == 'set_repr_in_unmarshallable_value'


MATCHERS = {'set_repr_in_unmarshallable_value': set_repr_matcher}


# ---- model tie: action_summary.convert_deltas_to_actions vs Model/CalcFlush.v ---------------------------------
TNAMES = ['T', 'T2', 'Ab', 'Foo', 'a', 'B_1']
CNAMES = ['A', 'B', 'Ab', 'x', 'Zz', 'a_1']


def random_summary(r):
  import action_summary
  s = action_summary.ActionSummary()
  live_t = set()
  for _ in range(r.randint(2, 14)):
    op = r.choice(['chg', 'chg', 'chg', 'chg', 'addrec', 'rmrec', 'addcol', 'rmcol', 'rencol', 'addtab', 'rmtab', 'rentab'])
    t = r.choice(TNAMES)
    c = r.choice(CNAMES)
    rows = r.sample(range(1, 8), r.randint(1, 4))
    if op == 'chg':
      s.add_changes(t, c, [(row, r.randint(0, 3), r.randint(0, 3)) for row in rows])
    elif op == 'addrec':
      s.add_records(t, rows)
    elif op == 'rmrec':
      s.remove_records(t, rows)
    elif op == 'addcol':
      s.add_column(t, c)
    elif op == 'rmcol':
      s.remove_column(t, c)
    elif op == 'rencol':
      s.rename_column(t, c, r.choice(CNAMES))
    elif op == 'addtab':
      s.add_table(t)
    elif op == 'rmtab':
      s.remove_table(t)
    elif op == 'rentab':
      s.rename_table(t, r.choice(TNAMES))
    live_t.add(t)
  return s


def shuffled_copy(s, r):
  """The same summary with every str-keyed dict rebuilt in another insertion order."""
  import action_summary
  def shuf(d):
    items = list(d.items())
    r.shuffle(items)
    return dict(items)
  s2 = action_summary.ActionSummary()
  s2._table_renames._new_to_old = shuf(s._table_renames._new_to_old)
  tabs = {}
  for t, td in s._tables.items():
    td2 = action_summary.TableDelta()
    td2._rows_present_before = shuf(td._rows_present_before)
    td2._rows_present_after = shuf(td._rows_present_after)
    td2.column_renames._new_to_old = shuf(td.column_renames._new_to_old)
    td2.column_deltas = shuf({c: shuf(cd) for c, cd in td.column_deltas.items()})
    td2.temp_row_ids = dict(td.temp_row_ids)
    tabs[t] = td2
  s2._tables = shuf(tabs)
  return s2


def flush_real(s):
  stored, undo = [], []
  s.convert_deltas_to_actions(stored, undo)
  def plain(a):
    rep = G.actions.get_action_repr(a)
    if rep[0] == 'UpdateRecord':
      (c, v), = rep[3].items()
      return (rep[1], [rep[2]], c, [v])
    (c, v), = rep[3].items()
    return (rep[1], list(rep[2]), c, list(v))
  return [plain(a) for a in stored], [plain(a) for a in undo]


def summary_lit(s):
  S, Zl, L = core.strlit, core.zlit, core.coq_list
  opt = lambda o: 'None' if o is None else '(Some %s)' % S(o)
  ren = lambda d: L(['(%s, %s)' % (S(k), opt(v)) for k, v in d.items() if k is not None])
  pres = lambda d: L(['(%s, %s)' % (Zl(k), core.boollit(v)) for k, v in d.items()])
  cd = lambda d: L(['(%s, (%s, %s))' % (Zl(k), Zl(b), Zl(a)) for k, (b, a) in d.items()])
  tabs = []
  for t, td in s._tables.items():
    cols = L(['(%s, %s)' % (S(c), cd(d)) for c, d in td.column_deltas.items()])
    tabs.append('(%s, mkT %s %s %s %s)' % (S(t), pres(td._rows_present_before), pres(td._rows_present_after),
                                          ren(td.column_renames._new_to_old), cols))
  return '(mkSum %s %s)' % (ren(s._table_renames._new_to_old), L(tabs))


def acts_lit(acts):
  return core.coq_list(['(%s, %s, %s, %s)' % (core.strlit(t), core.zlist(rows), core.strlit(c), core.zlist(vals))
                        for (t, rows, c, vals) in acts])


FLUSH_DEFS = '''
Require Import Grist.Model.CalcFlush.
Fixpoint leqb {A} (f : A -> A -> bool) (a b : list A) : bool :=
  match a, b with [], [] => true | x :: a', y :: b' => f x y && leqb f a' b' | _, _ => false end.
Definition act_eqb (x y : action) : bool :=
  let '(t, r, c, v) := x in let '(t', r', c', v') := y in
  leqb Z.eqb t t' && leqb Z.eqb r r' && leqb Z.eqb c c' && leqb Z.eqb v v'.
Definition flush_check (c : summary * (list action * list action)) : bool :=
  let o := convert_deltas_to_actions (fst c) ([], []) in
  leqb act_eqb (fst o) (fst (snd c)) && leqb act_eqb (snd o) (snd (snd c)).
Definition remove_check (c : list (name * Z) * list (name * Z)) : bool :=
  leqb (fun x y => leqb Z.eqb (fst x) (fst y) && Z.eqb (snd x) (snd y))
       (auto_remove_order %s (fst c)) (snd c).
Definition fcase := (summary * (list action * list action))%%type.
Definition rcase := (list (name * Z) * list (name * Z))%%type.
Definition FL (x : fcase) : fcase + rcase := inl x.
Definition RM (y : rcase) : fcase + rcase := inr y.
''' % core.strlit('_grist_Tables')


def auto_remove_cases(ctx, n):
  """DocModel.apply_auto_removes: order in which the records of _auto_remove_set are handed to remove()."""
  import docmodel
  if not hasattr(docmodel.DocModel, 'apply_auto_removes') or not hasattr(docmodel.DocModel, 'remove'):
    raise core.TieBroken('DocModel.apply_auto_removes/remove are gone')
  r = ctx.rng
  e, _ = G.new_doc()
  G.apply(e, [['AddTable', 'T', [{'id': 'A', 'type': 'Int', 'isFormula': False}, {'id': 'B', 'type': 'Text', 'isFormula': False}]]])
  G.apply(e, [['AddTable', 'Abc', [{'id': 'x', 'type': 'Int', 'isFormula': False}]]])
  pool = [(t, row) for t in ('_grist_Tables', '_grist_Tables_column', '_grist_Views_section', '_grist_Views',
                             '_grist_Views_section_field', '_grist_Pages', '_grist_TabBar')
          for row in sorted(e.tables[t].row_ids)]
  cases = []
  captured = []
  e.docmodel.remove = lambda recs: captured.extend((x._table.table_id, x._row_id) for x in recs)
  try:
    for i in range(n):
      recs = r.sample(pool, r.randint(0, min(len(pool), 7)))
      del captured[:]
      e.docmodel._auto_remove_set = set(e.tables[t].Record(row, None) for (t, row) in recs)
      e.docmodel.apply_auto_removes()
      lit = lambda l: core.coq_list(['(%s, %s)' % (core.strlit(t), core.zlit(row)) for (t, row) in l])
      cases.append('(%s, %s)' % (lit(recs), lit(captured)))
      ctx.count(('autoremove', i, tuple(recs)), nontrivial=len(recs) > 1, kind='model:auto_remove')
  finally:
    del e.docmodel.remove
    e.docmodel._auto_remove_set = set()
  return cases


def edge_order_check(ctx, n_docs, per_doc):
  """Real Graph.invalidate_deps on copies of real graphs whose in-edge sets are visited in shuffled orders."""
  r = ctx.rng
  for d in range(n_docs):
    seed = r.randrange(1 << 30)
    rr = random.Random(seed)
    gen = c05lib.Gen05(rr)
    e, _ = G.new_doc()
    for _ in range(rr.randint(1, 2)):
      c05lib.apply_or_clean(e, [gen.gen_addtable(histgen.Meta(e))], gen)
    for _ in range(8):
      c05lib.apply_or_clean(e, gen.bundle(e), gen)
    edges = list(e.dep_graph._all_edges)
    nodes = sorted({ed.in_node for ed in edges if not ed.in_node.table_id.startswith('_grist_')}, key=str)
    if not nodes:
      continue
    for k in range(per_doc):
      node = r.choice(nodes)
      t = e.tables.get(node.table_id)
      rows = sorted(t.row_ids) if t is not None else []
      rows = r.sample(rows, min(len(rows), r.randint(1, 3))) or [1]
      incl = r.random() < 0.4
      results = []
      for _ in range(3):
        g2 = depend.Graph()
        order = list(edges)
        r.shuffle(order)
        for ed in order:
          g2.add_edge(ed.out_node, ed.in_node, ed.relation)
        for key in list(g2._in_node_map):
          lst = list(g2._in_node_map[key])
          r.shuffle(lst)
          g2._in_node_map[key] = lst          # iterated only (row batches never clear dependencies)
        scratch = {}
        g2.invalidate_deps(node, list(rows), scratch, include_self=incl)
        results.append({str(kk): sorted(v) for kk, v in scratch.items() if v})
      ctx.count(('edgeorder', seed, k), nontrivial=len(results[0]) > 1, kind='impl:edge-order')
      if any(x != results[0] for x in results[1:]):
        ctx.violation('invalidate-depends-on-edge-order',
                      'Graph.invalidate_deps(%s, %r) gives different recompute maps for different edge orders' % (node, rows),
                      {'mode': 'edge-order', 'seed': seed, 'node': list(node), 'rows': rows, 'incl': incl})


def correspond(ctx):
  r = ctx.rng
  cases = []
  for i in range(ctx.n(400, 3000)):
    s = random_summary(r)
    try:
      out = flush_real(s)
      out2 = flush_real(shuffled_copy(s, r))
    except Exception as ex:
      ctx.bump('flush:real-raises:' + type(ex).__name__)
      continue
    if out2 != out:
      ctx.violation('flush-depends-on-insertion-order',
                    'convert_deltas_to_actions gives %r for one insertion order and %r for another' % (out, out2),
                    {'mode': 'flush', 'summary': summary_lit(s)})
    cases.append('(%s, (%s, %s))' % (summary_lit(s), acts_lit(out[0]), acts_lit(out[1])))
    ctx.count(('flush', i, summary_lit(s)), nontrivial=bool(out[0] or out[1]), kind='model:flush')
  rc = auto_remove_cases(ctx, ctx.n(150, 1000))
  both = ['(FL %s)' % c for c in cases] + ['(RM %s)' % c for c in rc]
  bad = ctx.run_cases('flush', [], '(fun c => match c with inl x => flush_check x | inr y => remove_check y end)',
                      both, shard=800, timeout=1800, extra_defs=FLUSH_DEFS)
  for i in bad[:5]:
    if i < len(cases):
      ctx.broken('correspondence:CalcFlush.convert_deltas_to_actions differs from action_summary.py', cases[i][:2500])
    else:
      ctx.broken('correspondence:CalcFlush.auto_remove_order differs from DocModel.apply_auto_removes',
                 rc[i - len(cases)][:2500])
  edge_order_check(ctx, ctx.n(4, 60), ctx.n(10, 20))
  ctx.log('model tie: %d flush cases, %d auto-remove cases' % (len(cases), len(rc)))


def corpus(ctx):
  """Witnesses of the FIXED known-findings entries of this property: run first, a regression is a violation."""
  for k in core.load_known():
    if k['property'] != ID or k.get('kind') != 'fixed' or 'witness' not in k:
      continue
    desc = replay(ctx, k['witness'])
    ctx.count(('corpus', k['id']), nontrivial=True, kind='corpus:fixed-witness')
    if desc:
      ctx.violation('regression:' + k['id'], '%s (repaired by %s): %s' % (k['id'], k.get('commit'), desc), k['witness'])


def search(ctx):
  corpus(ctx)
  seeds = SEEDS_THOROUGH if ctx.tier == 'thorough' else SEEDS_QUICK
  plan = [('shared', ctx.n(3, 40)), ('c05', ctx.n(3, 60)), ('sets', ctx.n(3, 30)), ('choicesum', ctx.n(4, 40))]
  hists, kinds = [], []
  for name, h in directed_histories():
    hists.append(h)
    kinds.append('directed:' + name.split(':')[0])
  ctx.extra['directed_scenarios'] = len(hists)
  for kind, n in plan:
    for _ in range(n):
      hists.append(make_history(ctx.rng.randrange(1 << 30), ctx.n(8, 12), kind))
      kinds.append(kind)
  ctx.log('generated %d histories; replaying under PYTHONHASHSEED in %s' % (len(hists), ','.join(seeds)))
  res = run_workers(hists, seeds)
  ctx.extra['hash_seeds'] = seeds
  ref = seeds[0]
  for h, hist in enumerate(hists):
    bad = None
    for i in range(len(hist)):
      entries = [res[s][h][i] for s in seeds]
      ctx.count(('xproc', h, i), nontrivial=entries[0][2] > 0, kind='xproc:' + kinds[h])
      for a in hist[i]:
        ctx.bump('op:' + a[0])
      if bad is None or bad[1] == 'strict':
        for s, en in zip(seeds, entries):
          if en[1] != entries[0][1]:
            bad = (s, 'canonical')
            break
          if en[0] != entries[0][0] and bad is None:
            bad = (s, 'strict')
    if bad is None:
      continue
    s, level = bad
    r = None
    if level == 'canonical':
      for _attempt in range(3):       # orders that follow object addresses vary from run to run: try again
        r = compare_full(hist, ref, s)
        if r is not None:
          break
    if r is None:
      if level == 'strict':
        # equal as values (==); only the key order inside a column-values dict differs, e.g.
        # ['UpdateRecord', '_grist_Tables', 1, {'rawViewSectionRef': 2, 'primaryViewId': 1}]
        ctx.bump('xproc:histories-differing-only-in-dict-key-order')
        note = ('replies are compared as values (dict == dict): the KEY ORDER inside column-value dicts of actions does '
                'vary with the hash seed (seen in UpdateRecord _grist_Tables {rawViewSectionRef, primaryViewId})')
        if note not in ctx.notes:
          ctx.notes.append(note)
      else:
        # a difference that three fresh pairs of processes do not show again: an order that follows object
        # addresses (see C30-rename-summary-tables-set-order); the history is kept for inspection
        ctx.bump('xproc:digest-mismatch-not-reproduced')
        path = os.path.join(core.VERIF, 'work', ID, 'unreproduced_%d.json' % h)
        with open(path, 'w') as fh:
          json.dump({'history': hist, 'seeds': [ref, s]}, fh)
        ctx.notes.append('a digest mismatch (history %d, seeds %s/%s) was not reproduced by three fresh pairs of '
                         'processes; history saved in %s' % (h, ref, s, path))
      continue
    i, kind, what = r
    ctx.violation(kind, what, {'history': copy.deepcopy(hist[:i]), 'bundle': copy.deepcopy(hist[i]), 'seeds': [ref, s]})
    open_kinds = set(k.get('violation_kind') for k in core.load_known() if k['property'] == ID and k.get('kind') == 'known')
    if sum(1 for v in ctx.violations if v['kind'] not in open_kinds) > 12:      # registered findings do not use up the cap
      break
