"""C31 -- Actions are marked direct only when the user asked for them.

Model       coq/theories/Model/StoredLog.v (shared with C02): events carry the indirection level recorded at
            UserActions._do_doc_action; flushes append [False] * count; _undo_to_checkpoint trims both lists.
Theorems    coq/theories/Props/C31.v (proofs in Proofs/StoredLog_proofs.v).
correspond  (1) recorded traces of successful bundles replayed by the full model: same stored and same direct list;
            (2) the list-level machine (lrun) on the traces of ALL bundles, failing ones included (doc actions whose
            DocActions method raised, the undo actions applied by _undo_to_checkpoint, the trimming): same stored and
            direct as engine.out_actions holds at the end.
search      an independent classifier on the implementation: in bundles of record edits on documents with formulas,
            summary tables and empty columns, stored actions that maintain summary rows, write only formula results,
            or convert an empty column (ModifyColumn, its metadata updates, the default fill) must be non-direct
            (the witness of the repaired finding C31-summary-ref-cleanup-direct runs first);
            every visible effect of a requested record edit on a user table must be carried by a direct stored action
            on that table; len(stored) == len(direct) for every bundle (for failing bundles on engine.out_actions).
"""
import collections
import copy
import json
import random

from harness import core
from harness import gristenv as G
from harness import histgen
from harness import histrun
from harness import storedtrace as ST
from harness.props import c02

ID = 'C31'
TITLE = 'Actions are marked direct only when the user asked for them'
PROPS = ['Props/C31']

RULE = ('histories from harness/histgen.py with extra weight on summary tables, formulas and empty columns; the checked '
        'bundles are 1-3 record edits (add/update/remove, also into empty columns, also invalid ones that fail); a bundle '
        'is non-trivial when its stored list contains at least one non-direct and one direct action, or when it failed '
        'after at least one doc action had been recorded (rollback trimming)')
TRUSTED = ['harness/storedtrace.py recorder and trace printer (shared with C02)',
           'Model/StoredLog.v hand-written; compared with the engine\'s stored/direct lists on every recorded bundle',
           'the classifier in this module encodes the property text (summary maintenance, formula-only updates, '
           'empty-column conversion incl. the default fill => non-direct; requested record edits => direct)']
ASSUMPTIONS = ['kernel strength: useractions.py decides at which indirection level a doc action is issued; the theorems '
               'cover every event sequence, the classifier checks the levels the real code chooses']
TECHNIQUE = 'Coq proof over the stored/direct bookkeeping model + event-trace tie + independent classifier as oracle'
LEVEL_TEXT = ('Kernel-checked: for every event sequence, stored and direct have equal length at every point (after doc '
              'actions at any level, failed doc actions, flushes, rollback trimming); every action a flush appends is '
              'non-direct; a doc action recorded at indirection level > 0 is non-direct and at level 0 direct. The levels '
              'and the flags of real bundles are compared with the model on every run; an independent classifier checks '
              'which real actions get which flag.')
LEVEL_NOTE = ('Trusted: Coq kernel, recorder, classifier. Which user-level operation runs inside indirect_actions() is '
              'code in useractions.py/table.py/docmodel.py that is exercised by the oracle, not modelled.')

WEIGHTS = {'addrec': 14, 'updrec': 14, 'rmrec': 6, 'summary': 6, 'summaryformula': 4, 'addformula': 6,
           'addcol': 4, 'rmtable': 0, 'invalid': 2, 'upsert': 2}


# -------------------------------------------------------------------------------------------------
# generator

class Gen31(histgen.HistGen):
  def __init__(self, rng):
    histgen.HistGen.__init__(self, rng, weights=WEIGHTS)

  def empty_cols(self, meta, tref):
    return [c for c in meta.visible_cols(tref) if c['isFormula'] and not c['formula']]

  def add_empty_col(self, meta):
    t = self.pick_table(meta)
    if t is None:
      return None
    cid = self.r.choice(['E1', 'E2', 'blank', 'notes'])
    self.pend(t['tableId'], cid, 0)
    return ['AddColumn', t['tableId'], cid, {'type': self.r.choice(['Any', 'Any', 'Text', 'Int']), 'isFormula': True,
                                            'formula': ''}]

  def record_edit(self, e):
    """One record edit on an ordinary user table, possibly entering data into an empty column."""
    r = self.r
    meta = histgen.Meta(e)
    t = self.pick_table(meta)
    if t is None:
      return None
    tid, tref = t['tableId'], t['id']
    rows = meta.rows(tid)
    cols = meta.data_cols(tref) + self.empty_cols(meta, tref) * 2
    kind = r.choice(['add', 'add', 'upd', 'upd', 'upd', 'rm', 'invalid'])
    def val(c):
      if c['isFormula']:                      # an empty column: anything may be typed into it
        return r.choice(['x', 'y', '12', 5, 2.5, '', None, 'hello', True])
      return self.value(c['type'], meta)
    if kind == 'add' or not rows:
      n = r.randint(1, 3)
      cs = r.sample(cols, min(len(cols), r.randint(0, 3)))
      return ['BulkAddRecord', tid, [None] * n, {c['colId']: [val(c) for _ in range(n)] for c in cs}]
    if kind == 'upd' and cols:
      rs = r.sample(rows, min(len(rows), r.randint(1, 3)))
      cs = r.sample(cols, min(len(cols), r.randint(1, 2)))
      if len(rs) == 1 and r.random() < 0.5:
        return ['UpdateRecord', tid, rs[0], {c['colId']: val(c) for c in cs}]
      return ['BulkUpdateRecord', tid, rs, {c['colId']: [val(c) for _ in rs] for c in cs}]
    if kind == 'rm':
      return ['BulkRemoveRecord', tid, r.sample(rows, min(len(rows), r.randint(1, 2)))]
    return r.choice([['UpdateRecord', tid, 999999, {}], ['BulkAddRecord', tid, [None], {'NoSuchColumn': [1]}],
                     ['RemoveRecord', 'NoSuchTable', 1]])

  def edit_bundle(self, e):
    n = self.r.choice([1, 1, 2, 2, 3])
    return [a for a in (self.record_edit(e) for _ in range(n)) if a is not None]


# -------------------------------------------------------------------------------------------------
# the classifier

RECORD_KINDS = {'AddRecord': 'add', 'BulkAddRecord': 'add', 'UpdateRecord': 'upd', 'BulkUpdateRecord': 'upd',
                'RemoveRecord': 'rm', 'BulkRemoveRecord': 'rm'}


def rows_of(rep):
  return list(rep[2]) if rep[0].startswith('Bulk') else [rep[2]]


def cells_of(rep):
  """{(row, col): value} of an add/update action repr."""
  if rep[0].startswith('Bulk'):
    return {(r, c): vs[i] for c, vs in rep[3].items() for i, r in enumerate(rep[2])}
  return {(rep[2], c): v for c, v in rep[3].items()}


def classify(bundle, ret_values, stored, direct, meta_before, snap_before, snap_after):
  """Returns a list of (kind, description)."""
  out = []
  if len(stored) != len(direct):
    return [('direct-not-parallel', 'len(stored)=%d len(direct)=%d' % (len(stored), len(direct)))]
  summary_tables = {t['tableId'] for t in meta_before.user_tables(summary=True)}
  user_tables = {t['tableId']: t for t in meta_before.user_tables()}
  formula_cols = {tid: {c['colId'] for c in meta_before.by_table[t['id']] if c['isFormula'] and c['formula']}
                  for tid, t in user_tables.items()}
  empty_cols = {tid: {c['colId'] for c in meta_before.by_table[t['id']] if c['isFormula'] and not c['formula']}
                for tid, t in user_tables.items()}
  converted = collections.defaultdict(set)
  for rep in stored:
    if rep[0] == 'ModifyColumn' and rep[1] in user_tables and rep[2] in empty_cols.get(rep[1], ()):
      converted[rep[1]].add(rep[2])
  # what the user asked for: cells, added rows, removed rows per table
  req_cells = collections.defaultdict(dict)
  req_added = collections.defaultdict(set)
  req_removed = collections.defaultdict(set)
  for ua, rv in zip(bundle, ret_values):
    tid = ua[1]
    if tid not in user_tables:
      continue
    k = RECORD_KINDS.get(ua[0])
    if k == 'add':
      new_ids = rv if isinstance(rv, list) else [rv]
      req_added[tid].update(new_ids)
      rep = [ua[0], tid, new_ids if ua[0].startswith('Bulk') else new_ids[0], ua[3]]
      req_cells[tid].update(cells_of(rep))
    elif k == 'upd':
      req_cells[tid].update(cells_of(ua))
    elif k == 'rm':
      req_removed[tid].update(rows_of(ua))
  def after_value(tid, row, col):
    s = snap_after.get(tid)
    if s is None or row not in s['ids'] or col not in s['cols']:
      return ('absent',)
    return s['cols'][col][s['ids'].index(row)]
  def before_value(tid, row, col):
    s = snap_before.get(tid)
    if s is None or row not in s['ids'] or col not in s['cols']:
      return ('absent',)
    return s['cols'][col][s['ids'].index(row)]
  def fill_positions(tid, col):
    """Positions of the conversion group's data update: after the column's last ModifyColumn and before the
    metadata record of that conversion (the engine fills the converted column with converted/default values there)."""
    mods = [i for i, rep in enumerate(stored) if rep[0] == 'ModifyColumn' and rep[1] == tid and rep[2] == col]
    if not mods:
      return ()
    i_mod = mods[-1]
    metas = [i for i, rep in enumerate(stored) if i > i_mod and rep[1] == '_grist_Tables_column'
             and RECORD_KINDS.get(rep[0]) == 'upd']
    i_meta = metas[0] if metas else len(stored)
    return range(i_mod + 1, i_meta)
  # 1. actions that must be non-direct
  for idx, (rep, d) in enumerate(zip(stored, direct)):
    name, tid = rep[0], rep[1]
    k = RECORD_KINDS.get(name)
    exp = None
    why = ''
    if tid in summary_tables and k:
      exp, why = False, 'summary-table row maintenance'
    elif tid.startswith('_grist_'):
      exp, why = False, 'metadata change in a bundle of record edits (empty-column conversion)'
    elif tid in user_tables and not k:
      exp, why = False, 'schema action in a bundle of record edits (empty-column conversion)'
    elif tid in user_tables and k == 'upd':
      cols = set(rep[3])
      if cols and cols <= formula_cols[tid]:
        exp, why = False, 'formula-only update'
      elif cols and len(cols) == 1 and cols <= converted[tid] and idx in fill_positions(tid, list(cols)[0]):
        exp, why = False, 'default fill of a converted empty column'
    if exp is not None and d != exp:
      kind = 'should-be-nondirect'
      if tid in summary_tables and k == 'upd':
        # the clean-up of references to removed rows, applied to a summary table's group-by column
        types = {c['colId']: c['type'] for c in meta_before.by_table[meta_before.table_by_id[tid]['id']]}
        removed_from = {ua[1] for ua in bundle if RECORD_KINDS.get(ua[0]) == 'rm'}
        if all(types.get(c, '').split(':')[0] in ('Ref', 'RefList') and types[c].split(':', 1)[1] in removed_from
               for c in rep[3]):
          kind = 'summary-ref-cleanup-marked-direct'
      out.append((kind, '%s flagged direct=%r: %s' % (json.dumps(rep)[:200], d, why)))
  filled = collections.defaultdict(dict)
  for tid, cols in converted.items():
    for col in cols:
      for i in fill_positions(tid, col):
        rep = stored[i]
        if rep[1] == tid and RECORD_KINDS.get(rep[0]) == 'upd' and set(rep[3]) == {col}:
          filled[tid].update({rc: G.norm(v) for rc, v in cells_of(rep).items()})
  # 2. every visible effect of a requested edit has a direct carrier on that table
  direct_actions = [rep for rep, d in zip(stored, direct) if d]
  for tid in user_tables:
    for row in req_added[tid]:
      if row in (snap_after.get(tid) or {'ids': []})['ids'] and not any(
          rep[1] == tid and RECORD_KINDS.get(rep[0]) == 'add' and row in rows_of(rep) for rep in direct_actions):
        out.append(('requested-edit-not-direct', 'added row %s of %s has no direct add action' % (row, tid)))
    for row in req_removed[tid]:
      if row in (snap_before.get(tid) or {'ids': []})['ids'] and row not in (snap_after.get(tid) or {'ids': []})['ids'] \
         and not any(rep[1] == tid and RECORD_KINDS.get(rep[0]) == 'rm' and row in rows_of(rep)
                     for rep in direct_actions):
        out.append(('requested-edit-not-direct', 'removed row %s of %s has no direct remove action' % (row, tid)))
    for (row, col), _v in req_cells[tid].items():
      if row in req_added[tid] or row in req_removed[tid]:
        continue
      b, a = before_value(tid, row, col), after_value(tid, row, col)
      if (row, col) in filled[tid] and filled[tid][(row, col)] == a:
        continue        # the new value is the one the column's conversion gave every row; the request added nothing
      if b != a and a != ('absent',) and b != ('absent',):
        if not any(rep[1] == tid and RECORD_KINDS.get(rep[0]) in ('upd', 'add') and (row, col) in cells_of(rep)
                   for rep in direct_actions):
          out.append(('requested-edit-not-direct',
                      'cell %s.%s[%s] changed %r -> %r on request but no direct action carries it' % (tid, col, row, b, a)))
  return out


def setup_doc(rng):
  """A document with formulas, summary tables and empty columns; returns (engine, gen, setup bundles)."""
  gen = Gen31(rng)
  e, _out = G.new_doc()
  setup = []
  def do(b):
    try:
      G.apply(e, b)
      gen.after_bundle(e)
      setup.append(b)
    except Exception:          # pylint: disable=broad-except
      G.clean(e)
  for _ in range(rng.randint(1, 2)):
    do([gen.gen_addtable(histgen.Meta(e))])
  for k in ['addformula', 'addrec', 'addrec', 'summary', 'summaryformula', 'addref', 'summary', 'addformula']:
    if rng.random() < 0.8:
      a = gen.gen(k, histgen.Meta(e))
      if a:
        do([a])
  for _ in range(rng.randint(1, 2)):
    a = gen.add_empty_col(histgen.Meta(e))
    if a:
      do([a])
  return e, gen, setup


def check_bundle(e, bundle):
  """Applies a bundle of record edits; returns (issues, out or None)."""
  meta = histgen.Meta(e)
  before = G.snapshot(e, tables=G.user_tables(e))
  try:
    out = G.apply(e, bundle)
  except Exception:            # pylint: disable=broad-except
    oa = e.out_actions
    G.clean(e)
    if len(oa.stored) != len(oa.direct):
      return [('direct-not-parallel-after-failure', 'len(stored)=%d len(direct)=%d' % (len(oa.stored), len(oa.direct)))], None
    return [], None
  after = G.snapshot(e, tables=G.user_tables(e))
  stored = [ST.enc_action(a) for a in out.stored]
  return classify(bundle, out.retValues, stored, list(out.direct), meta, before, after), out


def run_script(setup, bundle):
  e, _o = G.new_doc()
  for b in setup:
    try:
      G.apply(e, b)
    except Exception:          # pylint: disable=broad-except
      G.clean(e)
  return check_bundle(e, bundle)[0]


def replay(ctx, w):
  if 'setup' in w:
    iss = run_script(w['setup'], w['bundle'])
    return '; '.join('%s: %s' % i for i in iss[:3]) if iss else None
  if 'history' in w:          # an issue of the shared history run
    e, _o = G.new_doc()
    for b in w['history']:
      try:
        G.apply(e, b)
      except Exception:        # pylint: disable=broad-except
        G.clean(e)
    try:
      out = G.apply(e, w['bundle'])
    except Exception:          # pylint: disable=broad-except
      return None
    if len(out.stored) != len(out.direct):
      return 'direct-not-parallel: len(stored)=%d len(direct)=%d' % (len(out.stored), len(out.direct))
  return None


# witnesses of repaired findings: run first on every run (regression corpus)
CORPUS = [
  ('C31-summary-ref-cleanup-direct (fixed by 0419780)',
   [[['AddTable', 'T', [{'id': 'A', 'type': 'Int', 'isFormula': False}, {'id': 'parent', 'type': 'Ref:T', 'isFormula': False}]]],
    [['BulkAddRecord', 'T', [None, None, None], {'A': [1, 2, 3], 'parent': [0, 1, 1]}]],
    [['CreateViewSection', 1, 0, 'record', [3], None]]],
   [['RemoveRecord', 'T', 1]]),
]


def search(ctx):
  stats = collections.Counter()
  seen = collections.Counter()
  for name, setup, bundle in CORPUS:
    issues = run_script(setup, bundle)
    ctx.count(('corpus', name), nontrivial=True, kind='corpus')
    for kind, what in issues:
      ctx.violation(kind, '%s [corpus: %s]' % (what, name), {'setup': setup, 'bundle': bundle})
  for i in range(ctx.n(10, 150)):
    rng = random.Random(ctx.seed * 104729 + i)
    e, gen, setup = setup_doc(rng)
    for _ in range(ctx.n(8, 14)):
      if rng.random() < 0.15:
        a = gen.add_empty_col(histgen.Meta(e))
        bundle = [a] if a else gen.edit_bundle(e)
        is_edit = not a
      else:
        bundle = gen.edit_bundle(e)
        is_edit = True
      if not bundle:
        continue
      if not is_edit:
        try:
          o = G.apply(e, bundle)
          gen.after_bundle(e)
          setup.append(bundle)
          if len(o.stored) != len(o.direct):
            ctx.violation('direct-not-parallel', 'len(stored)=%d len(direct)=%d' % (len(o.stored), len(o.direct)),
                          {'setup': copy.deepcopy(setup[:-1]), 'bundle': bundle})
        except Exception:      # pylint: disable=broad-except
          G.clean(e)
        continue
      issues, out = check_bundle(e, bundle)
      stats['edit_bundles'] += 1
      if out is None:
        stats['failed_bundles'] += 1
        ctx.count((i, bundle), nontrivial=False, kind='edit:failed')
      else:
        gen.after_bundle(e)
        flags = list(out.direct)
        nt = (True in flags) and (False in flags)
        for rep, d in zip([ST.enc_action(a) for a in out.stored], flags):
          if rep[0] == 'ModifyColumn':
            stats['empty-column-conversions'] += 1
          if not d and RECORD_KINDS.get(rep[0]) and '_summary_' in rep[1]:
            stats['summary-row-actions'] += 1
        ctx.count((i, bundle), nontrivial=nt, sample={'bundle': bundle, 'direct': flags},
                  kind='edit:mixed-flags' if nt else ('edit:all-direct' if all(flags) else 'edit:other'))
      for kind, what in issues:
        seen[kind] += 1
        if seen[kind] <= 4:
          st = copy.deepcopy(setup)
          fails = lambda s, b=bundle, k=kind: any(x[0] == k for x in run_script(s, b))
          if fails(st):
            st = histgen.shrink_list(st, fails, max_steps=60) if len(st) > 1 else st
          ctx.violation(kind, what, {'setup': st, 'bundle': bundle})
      if out is not None:
        setup.append(bundle)
  # the shared history run checks len(stored) == len(direct) after every bundle of every kind
  try:
    res = histrun.shared_run(ctx.tier, ctx.seed, ctx.n(20, 150), 10)
    ctx.bump('histrun_ok_bundles', int(res.get('stats', {}).get('ok_bundles', 0)))
    for iss in res['issues']:
      if iss['prop'] == 'C31':
        ctx.violation(iss['kind'], iss['what'], iss['replay'])
  except core.TieBroken:
    raise
  except Exception as ex:      # pylint: disable=broad-except
    ctx.notes.append('shared history run not available: %r' % (ex,))
  ctx.extra['search'] = dict(stats)
  ctx.log('search: %s' % dict(stats))


# -------------------------------------------------------------------------------------------------
# correspondence

LOG_DEFS = '''
Definition log_case := (list levent * list action * list bool)%type.
Definition chk_log (c : log_case) : bool :=
  let p := lrun (fst (fst c)) ([], []) in
  list_eqb action_eqb (fst p) (snd (fst c)) && list_eqb Bool.eqb (snd p) (snd c).
'''


def record_all_bundles(seed, nb):
  """Event traces of every bundle of a history, failing ones included, with the final stored/direct lists."""
  rng = random.Random(seed)
  e = G.new_engine()
  rec = ST.Recorder(e)
  gen = Gen31(rng)
  out = []
  plan = [[['InitNewDoc']]] + [None] * nb
  for i, step in enumerate(plan):
    if step is not None:
      bundle = step
    elif i <= 2 or not histgen.Meta(e).user_tables():
      bundle = [gen.gen_addtable(histgen.Meta(e))]
    elif rng.random() < 0.4:
      bundle = gen.bundle(e)
    elif rng.random() < 0.15:
      a = gen.add_empty_col(histgen.Meta(e))
      bundle = [a] if a else gen.edit_bundle(e)
    else:
      bundle = gen.edit_bundle(e)
      if rng.random() < 0.25:            # make some bundles fail after they have recorded doc actions
        bundle = bundle + [['RemoveRecord', 'NoSuchTable', 1]]
    if not bundle:
      continue
    o, ex = rec.run(bundle)
    oa = e.out_actions
    rec.sync_stored(allow_shrink=True)
    out.append({'bundle': bundle, 'events': list(rec.events), 'failed': ex is not None,
                'stored': [ST.enc_action(a) for a in oa.stored], 'direct': list(oa.direct),
                'problems': list(rec.problems)})
    if ex is None:
      gen.after_bundle(e)
    else:
      G.clean(e)
  return out


def correspond(ctx):
  # (1) the full model on successful bundles: stored and direct per bundle
  hs = [c02.record_history(ctx.seed * 6007 + i, ctx.n(6, 12), gen_cls=c02.MidCalcGen) for i in range(ctx.n(3, 30))]
  N = ST.Names()
  thunks, tags = [], []
  for k, h in enumerate(hs):
    thunks.append('(fun _ : unit => chk_out %s)' % c02.coq_history(h, N))
    tags.append(('full', h.bundles))
    for p in h.problems:
      ctx.broken('trace:unexpected engine behaviour while recording', p)
  # (2) the list-level machine on every bundle, failing ones included
  n_fail = n_roll = 0
  for i in range(ctx.n(4, 40)):
    for b in record_all_bundles(ctx.seed * 3001 + i, ctx.n(8, 14)):
      I = ST.Interner()
      levs = [x for x in (ST.coq_levent(ev, I, N) for ev in b['events']) if x is not None]
      thunks.append('(fun _ : unit => chk_log (%s, %s, %s))' % (
        core.coq_list(levs), core.coq_list([ST.coq_action(a, I, N) for a in b['stored']]),
        core.coq_list([core.boollit(d) for d in b['direct']])))
      tags.append(('log', b['bundle']))
      has_roll = any(ev['k'] == 'rollback' for ev in b['events'])
      n_fail += b['failed']
      n_roll += has_roll
      ctx.count(('log', i, b['bundle']), nontrivial=has_roll or (True in b['direct'] and False in b['direct']),
                kind='trace:rollback' if has_roll else ('trace:failed' if b['failed'] else 'trace:ok'))
      if len(b['stored']) != len(b['direct']):
        ctx.violation('direct-not-parallel', 'len(stored)=%d len(direct)=%d at the end of %s bundle' %
                      (len(b['stored']), len(b['direct']), 'a failed' if b['failed'] else 'a'),
                      {'history': [], 'bundle': b['bundle']})
      for p in b['problems']:
        ctx.broken('trace:unexpected engine behaviour while recording', p)
  ctx.extra['traces_failed_bundles'] = n_fail
  ctx.extra['traces_with_rollback'] = n_roll
  order = sorted(range(len(thunks)), key=lambda i: (i % 8, i))
  bad = ctx.run_cases('all', c02.GEN_IMPORTS, 'fun f : unit -> bool => f tt', [thunks[i] for i in order],
                      shard=(len(thunks) + 7) // 8, extra_defs=c02.CHECK_DEFS + LOG_DEFS + N.defs(), timeout=1500)
  for j in bad[:5]:
    kind, b = tags[order[j]]
    if kind == 'full':
      ctx.broken('correspondence:stored/direct of the model differ from the engine on a recorded history',
                 json.dumps(b)[:1500])
    else:
      ctx.broken('correspondence:stored/direct bookkeeping (doc action at level, flush, rollback trim) differs from '
                 'the engine', json.dumps(b)[:1500])


def regenerate(ctx):
  c02.regenerate(ctx)
  # Props/C31.v does not import the generated file, the correspondence cases do
  rc, out = core.coq_make(['gen/StoredLog_gen.vo', 'gen/StoredLogPy_gen.vo'])
  if rc != 0:
    raise core.TieBroken('coq/gen/StoredLog_gen.v does not compile: %s' % out[-1500:])
