"""C09 -- Metadata references always resolve (kernel K6: Model/MetaCascade.v)."""
import collections
import copy
import json
import traceback

from harness import core

ID = 'C09'
TITLE = 'Metadata references always resolve'
PROPS = ['Props/C09']
RULE = ('random histories from harness/histgen.py with the metadata operations over-represented (AddTable/RemoveTable, '
        'AddColumn/RemoveColumn incl. group-by sources and helper columns, AddView, CreateViewSection plain/card-like/'
        'summary, UpdateSummaryViewSection, DetachSummaryViewSection, RemoveViewSection/RemoveView and the direct record '
        'removals on all seven metadata tables, SetDisplayFormula set/clear on columns and fields, AddEmptyRule on '
        'columns/fields/raw sections, direct rule updates, page moves, Ref columns, type changes, renames), bundles of '
        '1-3 actions generated against the state before the bundle, plus scripted histories for the removal '
        'combinations; thorough adds every ordered pair of 28 concrete actions as one bundle on a fixed document. '
        'Every successful bundle is recorded with the metadata before each user action, before the auto-removals '
        'and at the end. A bundle is non-trivial when it changed the modelled metadata and the model accepted all '
        'its actions (then the model\'s predicted record sets are compared with the engine\'s)')
TRUSTED = ['Model/MetaCascade.v is hand-written; tied on every run: for every recorded bundle the model runs the '
           'translated actions from the engine\'s metadata before the bundle and must reproduce (all ids, parents and '
           'reference cells of the seven tables) the metadata after the user actions, then its auto-removal loop must '
           'reproduce the final metadata; RefsResolve evaluated in Coq on the real final metadata must agree with the '
           'Python oracle',
           'harness/props/c09.py translate/regroup_of: user action -> model op; the parameters the model takes from the '
           'environment are read off the run: final table ids, column kinds (from the sanitised column ids), whether a '
           'display helper with the same formula exists, and for summary tables the columns _get_or_create_summary '
           'gives the table and the field moves update_summary_section makes (summary.py decides those from names, '
           'types and formula texts, which the model does not carry)',
           'instrumentation points Engine._apply_one_user_action, DocModel.apply_auto_removes, '
           'SummaryActions.update_summary_section, SummaryActions._get_or_add_columns (harness-side wrappers)',
           'harness/mc2v.py + harness/mc_pins.json: the 88 functions the hand-written model follows (useractions.py '
           'cascades, summary.py, docmodel.py auto-removal and record helpers, Engine.apply_user_actions, ...) are '
           'pinned by a hash of their AST that ignores comments, docstrings and local names; a changed function makes '
           'the check BROKEN until the change has been looked at (python -m harness.mc2v [--update])',
           'harness/mc2v_gen.py (regenerated on every run into coq/gen/MetaCascade_gen.v): the end-of-bundle loop of '
           'Engine.apply_user_actions (while/if -> gen_auto_fix), SummaryActions._get_or_add_columns (-> gen_goa, '
           'validated against every observed call), and the statement plans (calls, guards, loops, order; '
           'doBulkRemoveRecord vs docmodel.remove vs plain doc action) of _removeTableRecords, doRemoveColumns, '
           '_removeColumnRecords, _removeViewRecords, _removeViewSectionRecords, _doRemoveViewSectionRecords, '
           '_removeViewSectionFieldRecords, doBulkRemoveRecord, UpdateSummaryViewSection, DetachSummaryViewSection, '
           'apply_auto_removes; Proofs/MetaCascade_bridge.v proves gen_auto_fix = auto_fix, gen_goa = model_goa '
           'pointwise (one column handed back per requested column) and each plan equal to the reference plan the '
           'model was written against (Model/MetaCascadePlanRef.v); the plans fix the SHAPE of the code, the meaning '
           'of each statement is carried by the hand-written model and the per-bundle tie']
ASSUMPTIONS = ['actions outside the model (exercised by the oracle only; counted as outside the fragment): AddReverseColumn, '
               'CopyFromColumn/ConvertFromColumn, columns added with visibleCol/rules/displayCol in their info, on-demand '
               'tables, name collisions of summary columns in _get_or_add_columns, Ref types naming a table that does '
               'not exist yet, visibleCol/linkSrc* written directly',
               'update_summary_section enters the model through recorded descriptors (target table, the fields moved and '
               'their new columns, new fields); the model validates them (columns of the target table; the sections '
               'doRemoveColumns regroups are computed by the model, raw sections excluded; fields not moved are '
               'deleted); descriptors it rejects count as outside the fragment',
               'the theorem C09_full has no side condition; it speaks about runs the model accepts (Ok): a recorded '
               'bundle the model rejects although the engine ran it shows up as outside the fragment',
               'reference cells outside the seven modelled tables and the modelled columns are out of the model and checked '
               'by the oracle on the real metadata only: _grist_Views_section.linkSrcSectionRef/linkSrcColRef/'
               'linkTargetColRef, _grist_Filters.viewSectionRef/colRef, _grist_Cells.tableRef/colRef, '
               '_grist_Triggers.tableRef/isReadyColRef/watchedColRefList (ACL resources name tables and columns by text, '
               'not by reference)',
               'direct AddRecord/UpdateRecord that write arbitrary references into metadata records are outside the '
               'vocabulary (the engine stores them unchecked)']
TECHNIQUE = ('Coq proof of an inductive invariant over a hand-written executable model of the metadata cascades + '
             'AST pins on all modelled functions + regenerated deciding pieces with bridging lemmas + '
             'per-bundle tie on real histories (vm_compute) + implementation oracle')
LEVEL_TEXT = ('Kernel-checked: every modelled user action (tables, columns, views, sections, fields, pages, display and '
              'rule helpers, new summary tables) keeps all metadata references resolvable, the auto-removal loop ends '
              'with every helper column in use, hence every bundle and every reachable state; removals with '
              'back-reference clearing leave no reference to a removed record; RemoveColumn of group-by sources and '
              'UpdateSummaryViewSection included: C09_full is a theorem without side conditions. The witnesses of the '
              'four defects repaired on the way (e0ec788, ae5ee6e, ea10a38, 811c657) are regression examples and scripted histories.')
LEVEL_NOTE = ('The theorems C09_code_* are stated over the regenerated loop and column list (gen_auto_fix, gen_goa). '
              'Kernel strength: what summary.py decides from names/types/formulas enters as recorded parameters; '
              'actions outside the model are covered by the oracle only (listed under assumptions).')

META_TABLES = ('_grist_Tables', '_grist_Tables_column', '_grist_Views', '_grist_Views_section',
               '_grist_Views_section_field', '_grist_TabBar', '_grist_Pages')

# column kinds of the model (Model/MetaCascade.v: ckind)
K_NORMAL, K_HIDDEN, K_GROUP, K_DISPLAY, K_RULE, K_ROWRULE = range(6)


def G():
  from harness import gristenv
  return gristenv


def col_kind(col_id):
  if col_id.startswith('gristHelper_Display'):
    return K_DISPLAY
  if col_id.startswith('gristHelper_ConditionalRule'):
    return K_RULE
  if col_id.startswith('gristHelper_RowConditionalRule'):
    return K_ROWRULE
  if col_id == 'group':
    return K_GROUP
  import column
  if not column.is_visible_column(col_id):
    return K_HIDDEN
  return K_NORMAL


def rows_of(e, t):
  d = e.fetch_table(t)
  out = []
  for i, r in enumerate(d.row_ids):
    out.append((r, {c: d.columns[c][i] for c in d.columns}))
  out.sort(key=lambda x: x[0])
  return out


def reflist(v):
  """Encoded or decoded RefList cell -> list of ints."""
  if not v:
    return []
  if isinstance(v, (list, tuple)):
    v = list(v)
    if v and v[0] == 'L':
      v = v[1:]
    return [int(x) for x in v]
  raise core.TieBroken('unexpected RefList cell %r' % (v,))


def projection(e):
  """The modelled columns of the metadata tables, as plain data (sorted by row id)."""
  P = {}
  P['tables'] = [dict(id=r, name=v['tableId'], primaryView=int(v['primaryViewId'] or 0),
                      summarySource=int(v['summarySourceTable'] or 0), raw=int(v['rawViewSectionRef'] or 0),
                      card=int(v['recordCardViewSectionRef'] or 0)) for r, v in rows_of(e, '_grist_Tables')]
  P['columns'] = [dict(id=r, parent=int(v['parentId'] or 0), kind=col_kind(v['colId']), colId=v['colId'],
                       display=int(v['displayCol'] or 0), visible=int(v['visibleCol'] or 0),
                       summarySource=int(v['summarySourceCol'] or 0), rules=reflist(v['rules']),
                       pos=v['parentPos'], formula=v['formula'], type=v['type'], isFormula=bool(v['isFormula']),
                       reverse=int(v['reverseCol'] or 0))
                  for r, v in rows_of(e, '_grist_Tables_column')]
  P['views'] = [r for r, v in rows_of(e, '_grist_Views')]
  P['sections'] = [dict(id=r, table=int(v['tableRef'] or 0), view=int(v['parentId'] or 0), rules=reflist(v['rules']),
                        custom=bool(v['layoutSpec'] or v['options'] or v['theme']),
                        cust=(v['layoutSpec'], v['options'], v['theme']),
                        key=v['parentKey'], link=int(v['linkSrcSectionRef'] or 0),
                        linkSrcCol=int(v['linkSrcColRef'] or 0), linkTargetCol=int(v['linkTargetColRef'] or 0))
                   for r, v in rows_of(e, '_grist_Views_section')]
  P['fields'] = [dict(id=r, section=int(v['parentId'] or 0), col=int(v['colRef'] or 0),
                      display=int(v['displayCol'] or 0), visible=int(v['visibleCol'] or 0),
                      rules=reflist(v['rules']), wopt=bool(v['widgetOptions']), pos=v['parentPos'])
                 for r, v in rows_of(e, '_grist_Views_section_field')]
  P['tabbar'] = [dict(id=r, view=int(v['viewRef'] or 0)) for r, v in rows_of(e, '_grist_TabBar')]
  P['pages'] = [dict(id=r, view=int(v['viewRef'] or 0)) for r, v in rows_of(e, '_grist_Pages')]
  P['schema'] = sorted(t for t in e.tables if not t.startswith('_grist_'))
  # further metadata tables that name columns, tables or sections (Python oracle only; not in the Coq model)
  other = []
  for tb, refs, lists in (('_grist_Filters', ('viewSectionRef', 'colRef'), ()),
                          ('_grist_Cells', ('tableRef', 'colRef'), ()),
                          ('_grist_Triggers', ('tableRef', 'isReadyColRef'), ('watchedColRefList',))):
    if tb not in e.tables:
      continue
    for r, v in rows_of(e, tb):
      other.append(dict(table=tb, id=r, refs={k: int(v[k] or 0) for k in refs if k in v},
                        lists={k: reflist(v[k]) for k in lists if k in v}))
  P['other'] = other
  return P


def refs_resolve(P):
  """The property's conjunction (transliteration of MetaCascade.RefsResolve); returns a list of issues."""
  iss = []
  T = {t['id']: t for t in P['tables']}
  C = {c['id']: c for c in P['columns']}
  V = set(P['views'])
  S = {s['id']: s for s in P['sections']}
  F = {f['id']: f for f in P['fields']}
  for what, ids in (('tables', [t['id'] for t in P['tables']]), ('columns', [c['id'] for c in P['columns']]),
                    ('views', P['views']), ('sections', [s['id'] for s in P['sections']]),
                    ('fields', [f['id'] for f in P['fields']]), ('tabbar', [b['id'] for b in P['tabbar']]),
                    ('pages', [p['id'] for p in P['pages']])):
    if len(set(ids)) != len(ids) or any(i <= 0 for i in ids):
      iss.append(('row-ids.' + what, ids))
  for c in P['columns']:
    if c['parent'] not in T:
      iss.append(('col.parentId', c['id'], c['parent']))
    for k in ('display', 'visible', 'summarySource'):
      if c[k] and c[k] not in C:
        iss.append(('col.' + k, c['id'], c[k]))
    for r in c['rules']:
      if r not in C:
        iss.append(('col.rules', c['id'], r))
  for f in P['fields']:
    if f['section'] not in S:
      iss.append(('field.parentId', f['id'], f['section']))
    elif f['col'] not in C:
      iss.append(('field.colRef', f['id'], f['col']))
    elif C[f['col']]['parent'] != S[f['section']]['table']:
      iss.append(('field.colRef-other-table', f['id'], f['col'], S[f['section']]['table']))
    for k in ('display', 'visible'):
      if f[k] and f[k] not in C:
        iss.append(('field.' + k, f['id'], f[k]))
    for r in f['rules']:
      if r not in C:
        iss.append(('field.rules', f['id'], r))
  for s in P['sections']:
    if s['table'] not in T:
      iss.append(('section.tableRef', s['id'], s['table']))
    if s['view'] and s['view'] not in V:
      iss.append(('section.parentId', s['id'], s['view']))
    for r in s['rules']:
      if r not in C:
        iss.append(('section.rules', s['id'], r))
    for k in ('linkSrcCol', 'linkTargetCol'):
      if s[k] and s[k] not in C:
        iss.append(('section.' + k, s['id'], s[k]))
    if s['link'] and s['link'] not in S:
      iss.append(('section.linkSrcSectionRef', s['id'], s['link']))
  for t in P['tables']:
    if t['raw'] not in S:
      iss.append(('table.rawViewSectionRef', t['id'], t['raw']))
    elif S[t['raw']]['table'] != t['id']:
      iss.append(('table.raw-of-other-table', t['id'], t['raw']))
    if t['card'] and t['card'] not in S:
      iss.append(('table.recordCardViewSectionRef', t['id'], t['card']))
    elif t['card'] and S[t['card']]['table'] != t['id']:
      iss.append(('table.card-of-other-table', t['id'], t['card']))
    if not t['card'] and not t['summarySource']:
      iss.append(('table.no-record-card', t['id']))
    if t['primaryView'] and t['primaryView'] not in V:
      iss.append(('table.primaryViewId', t['id'], t['primaryView']))
    if t['summarySource'] and t['summarySource'] not in T:
      iss.append(('table.summarySourceTable', t['id'], t['summarySource']))
  for b in P['tabbar']:
    if b['view'] not in V:
      iss.append(('tabbar.viewRef', b['id'], b['view']))
  for p in P['pages']:
    if p['view'] not in V:
      iss.append(('page.viewRef', p['id'], p['view']))
  # filters, comment cells and triggers name sections, tables and columns (0 = none)
  target = {'viewSectionRef': S, 'tableRef': T, 'colRef': C, 'isReadyColRef': C, 'watchedColRefList': C}
  for o in P.get('other', ()):
    short = o['table'].replace('_grist_', '').lower()
    for k, x in o['refs'].items():
      if x and x not in target[k]:
        iss.append(('%s.%s' % (short, k), o['id'], x))
    for k, xs in o['lists'].items():
      for x in xs:
        if x not in target[k]:
          iss.append(('%s.%s' % (short, k), o['id'], x))
  names = [t['name'] for t in P['tables']]
  if sorted(names) != list(P['schema']):
    iss.append(('tables-vs-schema', sorted(names), list(P['schema'])))
  for c in P['columns']:
    if c['kind'] == K_DISPLAY:
      if not any(x['display'] == c['id'] for x in P['columns']) and \
         not any(x['display'] == c['id'] for x in P['fields']):
        iss.append(('unused-display-helper', c['id'], c['colId']))
    elif c['kind'] == K_RULE:
      if not any(c['id'] in x['rules'] for x in P['columns']) and \
         not any(c['id'] in x['rules'] for x in P['fields']):
        iss.append(('unused-rule-helper', c['id'], c['colId']))
    elif c['kind'] == K_ROWRULE:
      if not any(c['id'] in x['rules'] for x in P['sections']):
        iss.append(('unused-rowrule-helper', c['id'], c['colId']))
  return iss


# ------------------------------------------------------------------------------------------------
# history generator: the shared one, with the metadata operations of this property over-represented

WEIGHTS = {
  'addrec': 2, 'updrec': 1, 'rmrec': 1, 'tempids': 0, 'addcol': 5, 'addformula': 2, 'rmcol': 8, 'rencol': 1,
  'modtype': 2, 'modformula': 0, 'toformula': 1, 'todata': 1, 'addtable': 4, 'rmtable': 4, 'rentable': 1,
  'addref': 4, 'addreverse': 1, 'summary': 5, 'summaryformula': 2, 'updsummary': 4, 'label': 0,
  'renamechoices': 0, 'upsert': 0, 'invalid': 1,
  # own kinds
  'addview': 3, 'newsection': 5, 'summaryinview': 4, 'rmsection': 6, 'rmview': 4, 'rmpage': 2, 'rmtab': 1,
  'movepage': 2, 'displaycol': 5, 'displayfield': 4, 'cleardisplay': 3, 'addrule': 5, 'droprule': 3,
  'rmfield': 3, 'addfield': 2, 'customsection': 1, 'detach': 1, 'rmhelper': 1, 'rmtablerec': 1, 'rmcolrec': 2,
  'hiddencol': 1, 'linksection': 2, 'dupfield': 0,
  'refsummary': 4, 'setvisible': 4, 'showcol': 4, 'rulecross': 1, 'rmlastwidget': 4, 'sumvisible': 4,
  'addfilter': 2, 'addtrigger': 2, 'sumfielddecor': 4,
}
RAW_WRITES = ('linksection', 'addfield', 'dupfield', 'droprule', 'movepage', 'setvisible', 'addfilter', 'addtrigger')


def make_gen(rng, weights=None):
  from harness import histgen

  class Gen(histgen.HistGen):
    def gen(self, kind, meta):
      r = self.r
      P = projection(meta.e)
      tabs = P['tables']
      secs = P['sections']
      cols = P['columns']
      flds = P['fields']
      tname = {t['id']: t['name'] for t in tabs}
      vis = [c for c in cols if c['kind'] == K_NORMAL]
      raws = set(t['raw'] for t in tabs) | set(t['card'] for t in tabs)
      if kind == 'addview':
        t = r.choice(tabs)
        return ['AddView', t['name'], r.choice(['raw_data', 'empty']), r.choice(['V', 'New page'])]
      if kind == 'newsection':
        t = r.choice(tabs)
        view = r.choice(P['views'] + [0]) if P['views'] else 0
        return ['CreateViewSection', r.choice([t['id'], t['id'], t['id'], 0]), view,
                r.choice(['record', 'record', 'single', 'detail', 'chart', 'form', 'custom']), None,
                r.choice([None, 'Fresh'])]
      if kind == 'summaryinview':
        src = [t for t in tabs if not t['summarySource']]
        if not src or not P['views']:
          return None
        t = r.choice(src)
        cs = [c for c in vis if c['parent'] == t['id']]
        gb = r.sample(cs, min(len(cs), r.randint(0, 2)))
        return ['CreateViewSection', t['id'], r.choice(P['views']), 'record', [c['id'] for c in gb], None]
      if kind == 'rmsection':
        if not secs:
          return None
        pool = [s for s in secs if s['id'] not in raws] or secs
        if r.random() < 0.1:
          pool = secs
        s = r.choice(pool)
        return r.choice([['RemoveViewSection', s['id']], ['RemoveRecord', '_grist_Views_section', s['id']]])
      if kind == 'rmview':
        if not P['views']:
          return None
        v = r.choice(P['views'])
        return r.choice([['RemoveView', v], ['RemoveRecord', '_grist_Views', v]])
      if kind == 'rmpage':
        if not P['pages']:
          return None
        k = r.randint(1, min(2, len(P['pages'])))
        return ['BulkRemoveRecord', '_grist_Pages', [p['id'] for p in r.sample(P['pages'], k)]]
      if kind == 'rmtab':
        if not P['tabbar']:
          return None
        return ['RemoveRecord', '_grist_TabBar', r.choice(P['tabbar'])['id']]
      if kind == 'movepage':
        if not P['pages']:
          return None
        return ['UpdateRecord', '_grist_Pages', r.choice(P['pages'])['id'],
                {'indentation': r.randint(0, 2), 'pagePos': r.choice([0.5, 1.5, 2.5, 10])}]
      if kind in ('displaycol', 'cleardisplay'):
        cand = [c for c in vis]
        if not cand:
          return None
        c = r.choice(cand)
        others = [x for x in vis if x['parent'] == c['parent']]
        f = '' if kind == 'cleardisplay' else r.choice(['$%s' % r.choice(others)['colId'], '$id', 'rec.id + 1'])
        if kind == 'cleardisplay':
          users = [x for x in vis if x['display']]
          if users:
            c = r.choice(users)
        return ['SetDisplayFormula', tname[c['parent']], None, c['id'], f]
      if kind == 'displayfield':
        cand = [f for f in flds if f['col']]
        if not cand:
          return None
        f = r.choice(cand)
        C = {c['id']: c for c in cols}
        if f['col'] not in C:
          return None
        c = C[f['col']]
        formula = r.choice(['$id', '$%s' % c['colId'], 'rec.id + 1', ''])
        return ['SetDisplayFormula', tname.get(c['parent'], 'T'), f['id'], None, formula]
      if kind == 'addrule':
        t = r.choice(tabs)
        which = r.choice(['col', 'field', 'row'])
        if which == 'col':
          cs = [c for c in vis if c['parent'] == t['id']]
          if cs:
            return ['AddEmptyRule', t['name'], 0, r.choice(cs)['id']]
        if which == 'field':
          S = {s['id']: s for s in secs}
          fs = [f for f in flds if f['section'] in S and S[f['section']]['table'] == t['id']]
          if fs:
            return ['AddEmptyRule', t['name'], r.choice(fs)['id'], 0]
        return ['AddEmptyRule', t['name'], 0, 0]
      if kind == 'droprule':
        owners = [('_grist_Tables_column', c) for c in cols if c['rules']] + \
                 [('_grist_Views_section_field', f) for f in flds if f['rules']] + \
                 [('_grist_Views_section', s) for s in secs if s['rules']]
        if not owners:
          return None
        tb, o = r.choice(owners)
        rules = list(o['rules'])
        rules.pop(r.randrange(len(rules)))
        return ['UpdateRecord', tb, o['id'], {'rules': ['L'] + rules if rules else None}]
      if kind == 'rmfield':
        if not flds:
          return None
        S = {s['id']: s for s in secs}
        pool = [f for f in flds if f['section'] not in set(t['raw'] for t in tabs)] or flds
        if r.random() < 0.1:
          pool = flds
        k = r.randint(1, min(2, len(pool)))
        return ['BulkRemoveRecord', '_grist_Views_section_field', [f['id'] for f in r.sample(pool, k)]]
      if kind in ('addfield', 'dupfield'):
        if not secs:
          return None
        s = r.choice(secs)
        shown = set(f['col'] for f in flds if f['section'] == s['id'])
        cs = [c for c in vis if c['parent'] == s['table'] and (kind == 'dupfield') == (c['id'] in shown)]
        if not cs:
          return None
        return ['AddRecord', '_grist_Views_section_field', None, {'parentId': s['id'], 'colRef': r.choice(cs)['id']}]
      if kind == 'customsection':
        if not secs:
          return None
        return ['UpdateRecord', '_grist_Views_section', r.choice(secs)['id'],
                r.choice([{'options': '{"x": 1}'}, {'theme': 'compact'}, {'layoutSpec': '{"a":1}'}])]
      if kind == 'detach':
        ss = [s for s in secs if s['id'] not in raws and
              any(t['id'] == s['table'] and t['summarySource'] for t in tabs)]
        if not ss:
          return None
        return ['DetachSummaryViewSection', r.choice(ss)['id']]
      if kind == 'rmhelper':
        hs = [c for c in cols if c['kind'] in (K_DISPLAY, K_RULE, K_ROWRULE)]
        if not hs:
          return None
        c = r.choice(hs)
        return ['RemoveColumn', tname[c['parent']], c['colId']]
      if kind == 'rmtablerec':
        if len(tabs) < 2:
          return None
        k = r.randint(1, 2)
        return ['BulkRemoveRecord', '_grist_Tables', [t['id'] for t in r.sample(tabs, k)]]
      if kind == 'rmcolrec':
        if not vis:
          return None
        k = r.randint(1, min(3, len(vis)))
        return ['BulkRemoveRecord', '_grist_Tables_column', [c['id'] for c in r.sample(vis, k)]]
      if kind == 'hiddencol':
        t = r.choice(tabs)
        return ['AddHiddenColumn', t['name'], r.choice(['gristHelper_Display', 'gristHelper_ConditionalRule', 'hid',
                                                        'gristHelper_Transform']),
                {'type': 'Any', 'isFormula': True, 'formula': r.choice(['', '$id'])}]
      if kind == 'linksection':
        ss = [s for s in secs if s['view']]
        if len(ss) < 2:
          return None
        a, b = r.sample(ss, 2)
        ca = [c for c in vis if c['parent'] == a['table']]
        cb = [c for c in vis if c['parent'] == b['table']]
        return ['UpdateRecord', '_grist_Views_section', a['id'],
                {'linkSrcSectionRef': b['id'], 'linkSrcColRef': r.choice(cb)['id'] if cb and r.random() < 0.5 else 0,
                 'linkTargetColRef': r.choice(ca)['id'] if ca and r.random() < 0.5 else 0}]
      # reference columns whose target is a SUMMARY table, with show column / display helper / rules: removing
      # the summary table (last widget, source table, group-by column) then needs several auto-removal rounds
      summ = [t for t in tabs if t['summarySource']]
      refcols = [c for c in vis if c['type'].split(':')[0] in ('Ref', 'RefList') and
                 c['type'].split(':', 1)[1] in [t['name'] for t in tabs]]
      if kind == 'refsummary':
        plain = [t for t in tabs if not t['summarySource']]
        if not summ or not plain:
          return None
        return ['AddColumn', r.choice(plain)['name'], r.choice(['sref', 'sref2', 'grp']),
                {'type': r.choice(['Ref:', 'Ref:', 'RefList:']) + r.choice(summ)['name'], 'isFormula': False}]
      if kind == 'setvisible':
        pool = [c for c in refcols if c['type'].split(':', 1)[1] in [t['name'] for t in summ]] or refcols
        if not pool:
          return None
        c = r.choice(pool)
        tgt = [t for t in tabs if t['name'] == c['type'].split(':', 1)[1]][0]
        tv = [x for x in vis if x['parent'] == tgt['id']]
        if not tv:
          return None
        return ['UpdateRecord', '_grist_Tables_column', c['id'], {'visibleCol': r.choice(tv)['id']}]
      if kind == 'showcol':
        pool = [c for c in refcols if c['visible']]
        if not pool:
          return None
        c = r.choice(pool)
        vc = [x for x in cols if x['id'] == c['visible']]
        if not vc:
          return None
        return ['SetDisplayFormula', tname[c['parent']], None, c['id'], '$%s.%s' % (c['colId'], vc[0]['colId'])]
      if kind == 'rulecross':
        sc = [c for c in vis if c['parent'] in [t['id'] for t in summ]]
        plain = [t for t in tabs if not t['summarySource']]
        if not sc or not plain:
          return None
        return ['AddEmptyRule', r.choice(plain)['name'], 0, r.choice(sc)['id']]
      if kind == 'addfilter':
        cand = [(s, c) for s in secs for c in vis if s['view']]
        if not cand:
          return None
        s, c = r.choice(cand)       # also columns of other tables: only back-reference clearing protects those
        return ['AddRecord', '_grist_Filters', None, {'viewSectionRef': s['id'], 'colRef': c['id'],
                                                      'filter': '{"included":[]}'}]
      if kind == 'addtrigger':
        if not vis:
          return None
        cs = r.sample(vis, min(len(vis), r.randint(1, 2)))
        return ['AddRecord', '_grist_Triggers', None,
                {'tableRef': cs[0]['parent'], 'eventTypes': ['L', 'add'], 'isReadyColRef': r.choice([0, cs[0]['id']]),
                 'watchedColRefList': ['L'] + [c['id'] for c in cs], 'actions': '[]'}]
      if kind == 'sumfielddecor':
        # a field of a summary widget gets its own show column + display helper, or a rule
        S = {s['id']: s for s in secs}
        sumids = set(t['id'] for t in summ)
        fs = [f for f in flds if f['section'] in S and S[f['section']]['table'] in sumids and S[f['section']]['view']]
        if not fs:
          return None
        f = r.choice(fs)
        c = [x for x in cols if x['id'] == f['col']]
        if not c:
          return None
        tn = tname.get(c[0]['parent'])
        if r.random() < 0.5:
          return ['AddEmptyRule', tn, f['id'], 0]
        return ['SetDisplayFormula', tn, f['id'], None, r.choice(['$id', '$%s' % c[0]['colId'], 'rec.id + 2'])]
      if kind == 'sumvisible':
        # a formula column of one summary table only, shown in its widgets: a later regrouping has to add it to
        # the target table and move the fields
        if not summ:
          return None
        return ['AddVisibleColumn', r.choice(summ)['name'], r.choice(['X', 'extra', 'total']),
                {'isFormula': True, 'formula': r.choice(['1', 'len($group)', '2'])}]
      if kind == 'rmlastwidget':
        cand = []
        for t in summ:
          ss = [s for s in secs if s['table'] == t['id'] and s['id'] != t['raw']]
          if len(ss) == 1:
            cand.append(ss[0])
        if not cand:
          return None
        return ['RemoveViewSection', r.choice(cand)['id']]
      if not tabs:
        return None if kind != 'addtable' else histgen.HistGen.gen(self, kind, meta)
      return histgen.HistGen.gen(self, kind, meta)

    def bundle(self, e, max_len=3):
      # actions that write references straight into metadata records are generated against the state they run in
      n = min(max_len, self.r.choice([1, 1, 1, 2, 2, 3]))
      out = [self.action(e)]
      for _ in range(n - 1):
        out.append(self.action(e, exclude=RAW_WRITES))
      return out

  w = dict(WEIGHTS)
  if weights:
    w.update(weights)
  gen = Gen(rng, weights=w, max_tables=4)
  gen.applied = []            # the bundles init_doc applied, so that recorded histories replay from a new document
  base_do = gen._do

  def _do(e, bundle):
    out = base_do(e, bundle)
    if out is not None:
      gen.applied.append(copy.deepcopy(bundle))
    return out
  gen._do = _do
  return gen


# ------------------------------------------------------------------------------------------------
# Coq literals of a projection (MetaCascade.meta)

class Names(object):
  """Table ids (strings) as integer tokens, stable within one check run."""
  def __init__(self):
    self.tok = {}

  def __call__(self, name):
    if name not in self.tok:
      self.tok[name] = len(self.tok) + 1
    return self.tok[name]


def ref_target(P, typ):
  """Row id of the table a Ref:/RefList: type points at (0: not a reference type or no such table)."""
  if not isinstance(typ, str) or ':' not in typ:
    return 0
  base, tgt = typ.split(':', 1)
  if base not in ('Ref', 'RefList'):
    return 0
  for t in P['tables']:
    if t['name'] == tgt:
      return t['id']
  return 0


def coq_meta(P, names):
  z, zl, bl = core.zlit, core.zlist, core.boollit
  ts = ['mkT %s %s %s %s %s %s' % (z(t['id']), z(names(t['name'])), z(t['primaryView']), z(t['summarySource']),
                                   z(t['raw']), z(t['card'])) for t in P['tables']]
  cs = ['mkC %s %s %s %s %s %s %s %s' % (z(c['id']), z(c['parent']), z(c['kind']), z(c['display']), z(c['visible']),
                                        z(c['summarySource']), zl(c['rules']), z(ref_target(P, c['type'])))
        for c in P['columns']]
  ss = ['mkS %s %s %s %s %s' % (z(s['id']), z(s['table']), z(s['view']), zl(s['rules']), bl(s['custom']))
        for s in P['sections']]
  fs = ['mkF %s %s %s %s %s %s %s' % (z(f['id']), z(f['section']), z(f['col']), z(f['display']), z(f['visible']),
                                     zl(f['rules']), bl(f['wopt'])) for f in P['fields']]
  pr = lambda l: core.coq_list(['(%s, %s)' % (z(b['id']), z(b['view'])) for b in l])
  return '(mkM %s %s %s %s %s %s %s %s)' % (
    core.coq_list(ts), core.coq_list(cs), zl(P['views']), core.coq_list(ss), core.coq_list(fs),
    pr(P['tabbar']), pr(P['pages']), zl([names(n) for n in P['schema']]))


class PAIRS(list):
  """A list of integer pairs (Coq: list (Z * Z))."""


class RG(object):
  """A regroup descriptor (MetaCascade.regroup) read off one recorded update_summary_section call."""
  def __init__(self, d):
    self.d = d

  def __repr__(self):
    return 'RG(%r)' % (self.d,)


def coq_rg(d):
  z, zl = core.zlit, core.zlist
  remap = core.coq_list(['(%s, %s)' % (z(a), z(b)) for a, b in d['remap']])
  return '(mkRG %s %s %s %s %s %s %s %s %s %s %s)' % (
    z(d['sec']), z(d['target']), z(d['name']), z(d['src']), zl(d['gb']), zl(d['gbkinds']), zl(d['fkinds']),
    zl(d['dcopies']), zl(d['added']), remap, zl(d['new']))


def regroup_of(g, names):
  """Descriptor of one update_summary_section call from the projections before and after it (None: the
  call did something the model does not describe)."""
  pre, post = g['pre'], g['post']
  sec = g['sec']
  ps = [s for s in post['sections'] if s['id'] == sec]
  if len(ps) != 1:
    return None
  target = ps[0]['table']
  pre_t = set(t['id'] for t in pre['tables'])
  pre_c = set(c['id'] for c in pre['columns'])
  newcols = [c for c in post['columns'] if c['id'] not in pre_c]
  if any(c['parent'] != target or c['kind'] in (K_RULE, K_ROWRULE) for c in newcols):
    return None
  d = dict(sec=sec, src=g['src'], gb=list(g['gb']), name=0, gbkinds=[], fkinds=[], added=[], dcopies=[])
  if target in pre_t:
    if any(c['kind'] == K_DISPLAY for c in newcols):
      return None
    d['target'] = target
    d['added'] = [c['kind'] for c in newcols]
  else:
    tr = [t for t in post['tables'] if t['id'] == target]
    if len(tr) != 1 or len(newcols) < len(g['gb']):
      return None
    rawf = [f['col'] for f in post['fields'] if f['section'] == tr[0]['raw']]
    if rawf != [c['id'] for c in newcols if c['kind'] == K_NORMAL]:
      return None          # a column added after the table was created (name collision in _get_or_add_columns)
    d['target'] = 0
    d['name'] = names(tr[0]['name'])
    # display helper columns copied for the group-by columns come after the table's own columns
    d['gbkinds'] = [c['kind'] for c in newcols[:len(g['gb'])]]
    d['dcopies'] = [c['display'] for c in newcols[:len(g['gb'])]]
    d['fkinds'] = [c['kind'] for c in newcols[len(g['gb']):] if c['id'] not in d['dcopies']]
  pf = {f['id']: f for f in pre['fields'] if f['section'] == sec}
  qf = {f['id']: f for f in post['fields'] if f['section'] == sec}
  # every surviving field of the section with the column it shows afterwards (the others were deleted)
  d['remap'] = sorted((i, qf[i]['col']) for i in pf if i in qf)
  d['new'] = [qf[i]['col'] for i in sorted(qf) if i not in pf]
  return RG(d)


def coq_op(o):
  """o is a tuple (constructor, args...) with ints, bools and int lists."""
  def lit(a):
    if isinstance(a, bool):
      return core.boollit(a)
    if isinstance(a, int):
      return core.zlit(a)
    if isinstance(a, RG):
      return coq_rg(a.d)
    if isinstance(a, (list, tuple)):
      if o[0] == 'OReident' or isinstance(a, PAIRS):
        return core.coq_list(['(%s, %s)' % (core.zlit(x), core.zlit(y)) for x, y in a])
      if a and isinstance(a[0], RG):
        return core.coq_list([coq_rg(x.d) for x in a])
      if o[0] == 'ORemoveColumnsG' and a is o[2]:
        return '[]'
      return core.zlist(a)
    raise ValueError(a)
  if len(o) == 1:
    return o[0]
  return '(%s %s)' % (o[0], ' '.join(lit(a) for a in o[1:]))


# ------------------------------------------------------------------------------------------------
# recording a bundle: the projection before every user action, after the last one (before the auto-removals)
# and at the end

GOA_CALLS = []     # observed calls of SummaryActions._get_or_add_columns (all histories of this run)


class Recorder(object):
  def __init__(self):
    import engine
    import docmodel
    for cls, name in ((engine.Engine, '_apply_one_user_action'), (docmodel.DocModel, 'apply_auto_removes')):
      if not hasattr(cls, name):
        raise core.TieBroken('instrumentation point %s.%s is gone' % (cls.__name__, name))
    self.engine, self.docmodel = engine, docmodel
    self.snaps = None
    self.mid = None
    rec = self
    self.o_ua = engine.Engine._apply_one_user_action
    self.o_ar = docmodel.DocModel.apply_auto_removes

    def _apply_one_user_action(eng, ua):
      if rec.snaps is not None:
        rec.snaps.append(projection(eng))
      return rec.o_ua(eng, ua)

    def apply_auto_removes(dm):
      if rec.snaps is not None and rec.mid is None:
        rec.mid = projection(dm._engine)
      # rounds that remove column or table records (summary rows, filters, comment cells are marked too)
      marked = [x for x in getattr(dm, '_auto_remove_set', ())
                if x._table.table_id in ('_grist_Tables', '_grist_Tables_column')]
      ret = rec.o_ar(dm)
      if ret and marked and rec.snaps is not None:
        rec.rounds += 1
      return ret

    import summary
    if not hasattr(summary.SummaryActions, 'update_summary_section'):
      raise core.TieBroken('instrumentation point summary.SummaryActions.update_summary_section is gone')
    self.summary = summary
    self.o_us = summary.SummaryActions.update_summary_section
    self.regroups = None

    def update_summary_section(sa, view_section, source_table, source_groupby_columns):
      if rec.snaps is None:
        return rec.o_us(sa, view_section, source_table, source_groupby_columns)
      eng = sa.useractions._engine
      item = dict(action=len(rec.snaps) - 1, sec=int(view_section.id), src=int(source_table.id),
                  gb=[int(c.id) for c in source_groupby_columns], pre=projection(eng))
      ret = rec.o_us(sa, view_section, source_table, source_groupby_columns)
      item['post'] = projection(eng)
      rec.regroups.append(item)
      return ret

    # every call of _get_or_add_columns with what it saw and what it handed back (validates the translation gen_goa)
    if not hasattr(summary.SummaryActions, '_get_or_add_columns'):
      raise core.TieBroken('instrumentation point summary.SummaryActions._get_or_add_columns is gone')
    self.o_goa = summary.SummaryActions._get_or_add_columns

    def _get_or_add_columns(sa, table, all_colinfo):
      infos = list(all_colinfo)
      prior = [(c.colId, int(c.id), c.formula) for c in table.columns]
      res = list(rec.o_goa(sa, table, infos))
      after = set(int(c.id) for c in table.columns)
      if len(GOA_CALLS) < 4000:
        GOA_CALLS.append(dict(prior=prior, infos=[(ci.colId, ci.formula) for ci in infos],
                              yields=[int(c.id) for c in res], added=len(after) - len(prior)))
      return iter(res)

    engine.Engine._apply_one_user_action = _apply_one_user_action
    docmodel.DocModel.apply_auto_removes = apply_auto_removes
    summary.SummaryActions.update_summary_section = update_summary_section
    summary.SummaryActions._get_or_add_columns = _get_or_add_columns

  def uninstall(self):
    self.engine.Engine._apply_one_user_action = self.o_ua
    self.docmodel.DocModel.apply_auto_removes = self.o_ar
    self.summary.SummaryActions.update_summary_section = self.o_us
    self.summary.SummaryActions._get_or_add_columns = self.o_goa

  def run(self, e, bundle):
    """Applies the bundle; returns (out, snaps, mid, final) -- snaps[i] is the state before action i."""
    self.snaps, self.mid, self.regroups, self.rounds = [], None, [], 0
    try:
      out = G().apply(e, bundle)
      snaps, mid = self.snaps, self.mid
      self.last_regroups = self.regroups
      self.last_rounds = self.rounds
    finally:
      self.snaps, self.mid, self.regroups = None, None, None
    final = projection(e)
    if len(snaps) != len(bundle) or mid is None:
      raise core.TieBroken('recorder saw %d user actions for a bundle of %d (mid %s)' %
                           (len(snaps), len(bundle), mid is not None))
    return out, snaps, mid, final


# ------------------------------------------------------------------------------------------------
# user action -> model op.  P: projection before the action, Q: projection after it (before auto-removals).
# Parameters the model treats as environment (final table ids, column kinds decided by the sanitised column
# ids, whether an equal display formula already exists) are read here.

UNMODELLED = ('OUnmodelled',)
NOMETA = ('ONoMeta',)


def next_id(ids):
  return max(ids) + 1 if ids else 1


def translate(a, P, Q, names, rgs=()):
  name = a[0]
  T = {t['name']: t for t in P['tables']}
  # a column may be typed Ref:X for a table X that does not exist (the engine accepts it); the table a type
  # refers to is found by name, so when the set of table names changes in such a document the projection of
  # that column changes without any metadata write: outside the model
  if set(T) != set(t['name'] for t in Q['tables']) and \
     any(c['type'].split(':')[0] in ('Ref', 'RefList') and ':' in c['type'] and c['type'].split(':', 1)[1] not in T
         for c in P['columns']):
    return UNMODELLED
  if rgs:
    ds = [regroup_of(g, names) for g in rgs]
    if any(d is None for d in ds):
      return UNMODELLED
    if name == 'UpdateSummaryViewSection' and len(ds) == 1:
      return ('ORegroup', ds[0])
    cols = None
    if name == 'RemoveColumn' and a[1] in T:
      cs = [c for c in P['columns'] if c['parent'] == T[a[1]]['id'] and c['colId'] == a[2]]
      cols = [cs[0]['id']] if len(cs) == 1 else None
    elif name in ('RemoveRecord', 'BulkRemoveRecord') and a[1] == '_grist_Tables_column':
      cols = [a[2]] if name == 'RemoveRecord' else list(a[2])
    if cols is None or not all(isinstance(i, int) and i > 0 for i in cols):
      return UNMODELLED
    return ('ORemoveColumnsG', cols, ds)
  if name == 'CreateViewSection' and a[4] is not None:
    tref, vref, gb = a[1], a[2], a[4]
    if not (isinstance(tref, int) and isinstance(vref, int) and all(isinstance(i, int) for i in gb)):
      return UNMODELLED
    tid = next_id([t['id'] for t in P['tables']])
    new = [t for t in Q['tables'] if t['id'] == tid and t['summarySource'] == tref]
    if not new and not any(t['id'] == tid for t in Q['tables']):
      # an existing summary table is used
      sid = next_id([s['id'] for s in P['sections']])
      ns = [s for s in Q['sections'] if s['id'] == sid]
      if len(ns) != 1:
        return UNMODELLED
      target = ns[0]['table']
      pc = set(c['id'] for c in P['columns'])
      added = [c for c in Q['columns'] if c['id'] not in pc]
      if any(c['parent'] != target or c['kind'] in (K_DISPLAY, K_RULE, K_ROWRULE, K_GROUP) for c in added):
        return UNMODELLED
      return ('OCreateSummaryExisting', tref, vref, list(gb), target, [c['kind'] for c in added],
              [f['col'] for f in Q['fields'] if f['section'] == sid])
    if len(new) != 1:
      return UNMODELLED
    newcols = [c for c in Q['columns'] if c['parent'] == tid]
    if len(newcols) < len(gb):
      return UNMODELLED
    # _get_or_add_columns looks columns up by name: when a group-by column is itself called 'count' (or like a
    # sister column) the engine adds a further column and the new section does not show every column; that
    # name-dependent case is outside the model
    old_s = set(s['id'] for s in P['sections'])
    page = [s['id'] for s in Q['sections'] if s['table'] == tid and s['id'] not in old_s]
    shown = [f['col'] for f in Q['fields'] if page and f['section'] == max(page)]
    dcop = [c['display'] for c in newcols[:len(gb)]]
    if shown != [c['id'] for c in newcols if c['kind'] not in (K_GROUP, K_DISPLAY)]:
      return UNMODELLED
    return ('OCreateSummary', tref, vref, list(gb), names(new[0]['name']),
            [c['kind'] for c in newcols[:len(gb)]],
            [c['kind'] for c in newcols[len(gb):] if c['id'] not in dcop], dcop)
  if name in ('AddTable', 'AddEmptyTable', 'AddRawTable'):
    tid = next_id([t['id'] for t in P['tables']])
    new = [t for t in Q['tables'] if t['id'] == tid]
    if len(new) != 1:
      return UNMODELLED
    cols = [c for c in Q['columns'] if c['parent'] == tid and c['id'] >= next_id([c['id'] for c in P['columns']])]
    if not cols or cols[0]['colId'] != 'manualSort':
      return UNMODELLED
    if any(c['type'].split(':')[0] in ('Ref', 'RefList') for c in cols):
      if any(c['type'].split(':')[0] in ('Ref', 'RefList') and not ref_target(Q, c['type']) for c in cols):
        return UNMODELLED
      return ('OAddTableR', names(new[0]['name']), [c['kind'] for c in cols[1:]], name != 'AddRawTable',
              PAIRS([(c['id'], ref_target(Q, c['type'])) for c in cols if ref_target(Q, c['type'])]))
    return ('OAddTable', names(new[0]['name']), [c['kind'] for c in cols[1:]], name != 'AddRawTable')
  if name == 'RemoveTable':
    return ('ORemoveTables', [T[a[1]]['id']]) if a[1] in T else UNMODELLED
  if name in ('RemoveRecord', 'BulkRemoveRecord') and a[1] in META_TABLES:
    ids = [a[2]] if name == 'RemoveRecord' else list(a[2])
    if not all(isinstance(i, int) and i > 0 for i in ids):
      return UNMODELLED
    con = {'_grist_Tables': 'ORemoveTables', '_grist_Tables_column': 'ORemoveColumns', '_grist_Views': 'ORemoveViews',
           '_grist_Views_section': 'ORemoveSections', '_grist_Views_section_field': 'ORemoveFields',
           '_grist_TabBar': 'ORemoveTabs', '_grist_Pages': 'ORemovePages'}[a[1]]
    return (con, ids)
  if name == 'AddVisibleColumn':
    base = translate(['AddColumn'] + list(a[1:]), P, Q, names)
    if base[0] != 'OAddColumn':
      return UNMODELLED
    t = T[a[1]]
    cid = next_id([c['id'] for c in P['columns']])
    std = set(x for x in (t['raw'], t['card']) if x)
    secs = sorted(set(f['section'] for f in Q['fields'] if f['col'] == cid) - std)
    return ('OAddVisibleColumn', base[1], base[2], base[3], secs)
  if name in ('AddColumn', 'AddHiddenColumn'):
    if a[1] not in T:
      return UNMODELLED
    info = a[3] or {}
    if any(k in info for k in ('visibleCol', 'rules', 'displayCol', 'summarySourceCol')) or T[a[1]].get('onDemand'):
      return UNMODELLED
    cid = next_id([c['id'] for c in P['columns']])
    new = [c for c in Q['columns'] if c['id'] == cid]
    if len(new) != 1:
      return UNMODELLED
    reft = ref_target(Q, new[0]['type'])
    if new[0]['type'].split(':')[0] in ('Ref', 'RefList') and not reft:
      return UNMODELLED
    transform = new[0]['colId'].startswith(('gristHelper_Transform', 'gristHelper_Converted')) or \
        (a[2] or '').startswith(('gristHelper_Transform', 'gristHelper_Converted'))
    con = 'OAddHiddenColumn' if (name == 'AddHiddenColumn' or transform) else 'OAddColumn'
    return (con, T[a[1]]['id'], new[0]['kind'], reft)
  if name == 'RemoveColumn':
    if a[1] not in T:
      return UNMODELLED
    cs = [c for c in P['columns'] if c['parent'] == T[a[1]]['id'] and c['colId'] == a[2]]
    if len(cs) != 1:
      return UNMODELLED
    if any(c['summarySource'] == cs[0]['id'] for c in P['columns']):
      return ('ORemoveColumnsG', [cs[0]['id']], [])     # group-by source, but no section to regroup
    return ('ORemoveColumns', [cs[0]['id']])
  if name == 'AddView':
    if a[1].startswith('GristHidden_'):
      return UNMODELLED
    return ('OAddView', T[a[1]]['id'] if a[1] in T else 0, a[2] == 'raw_data')
  if name == 'CreateViewSection':
    tref, vref, typ, gb = a[1], a[2], a[3], a[4]
    if gb is not None or not isinstance(tref, int) or not isinstance(vref, int):
      return UNMODELLED
    if typ in ('chart', 'form'):
      if tref == 0:
        return UNMODELLED
      sid = next_id([s['id'] for s in P['sections']])
      return ('OCreateSectionShown', tref, vref, [f['col'] for f in Q['fields'] if f['section'] == sid])
    newname = 0
    if tref == 0:
      tid = next_id([t['id'] for t in P['tables']])
      new = [t for t in Q['tables'] if t['id'] == tid]
      if len(new) != 1:
        return UNMODELLED
      newname = names(new[0]['name'])
    return ('OCreateSection', tref, vref, typ in ('single', 'detail'), newname)
  if name == 'DetachSummaryViewSection' and isinstance(a[1], int):
    tid = next_id([t['id'] for t in P['tables']])
    new = [t for t in Q['tables'] if t['id'] == tid]
    c0 = next_id([c['id'] for c in P['columns']])
    cols = [c for c in Q['columns'] if c['parent'] == tid and c['id'] >= c0]
    if len(new) != 1 or not cols or cols[0]['colId'] != 'manualSort':
      return UNMODELLED
    qf = [f for f in Q['fields'] if f['section'] == a[1]]
    return ('ODetach', a[1], names(new[0]['name']), [c['kind'] for c in cols[1:]],
            PAIRS([(c['id'], ref_target(Q, c['type'])) for c in cols if ref_target(Q, c['type'])]),
            PAIRS([(f['id'], f['col']) for f in qf]))
  if name == 'RemoveViewSection':
    return ('ORemoveSections', [a[1]])
  if name == 'RemoveView':
    return ('ORemoveViews', [a[1]])
  if name == 'SetDisplayFormula':
    if a[1] not in T:
      return UNMODELLED
    tid = T[a[1]]['id']
    fld, col, formula = a[2] or 0, a[3] or 0, a[4]
    if isinstance(col, str):
      cs = [c for c in P['columns'] if c['parent'] == tid and c['colId'] == col]
      if len(cs) != 1:
        return UNMODELLED
      col = cs[0]['id']
    same = [c['id'] for c in P['columns'] if c['parent'] == tid and c['formula'] == formula and
            c['colId'].startswith('gristHelper_Display')]
    cc = [c for c in P['columns'] if c['id'] == col]
    if cc and not fld:
      tb = [t for t in P['tables'] if t['id'] == cc[0]['parent']]
      if tb and tb[0]['summarySource'] and not cc[0]['summarySource']:
        # a formula column of a summary table: the update is copied to the same-named formula columns of the
        # other summary tables of the same source table
        sibs = [t['id'] for t in P['tables'] if t['summarySource'] == tb[0]['summarySource'] and t['id'] != tb[0]['id']]
        sisters = [] if cc[0]['colId'].startswith('gristHelper') or not cc[0]['isFormula'] else \
            [c['id'] for c in P['columns'] if c['parent'] in sibs and c['colId'] == cc[0]['colId'] and c['isFormula']]
        return ('OSetDisplaySisters', tid, col, bool(formula), same[0] if same else 0, sisters)
    return ('OSetDisplay', tid, fld, col, bool(formula), same[0] if same else 0)
  if name == 'AddEmptyRule':
    if a[1] not in T:
      return UNMODELLED
    return ('OAddRule', T[a[1]]['id'], a[2] or 0, a[3] or 0)
  if name == 'UpdateRecord' and a[1] in META_TABLES:
    keys = set(a[3])
    if keys == {'rules'} and a[1] in ('_grist_Tables_column', '_grist_Views_section_field', '_grist_Views_section'):
      owner = {'_grist_Tables_column': 0, '_grist_Views_section_field': 1, '_grist_Views_section': 2}[a[1]]
      return ('OSetRules', owner, a[2], reflist(a[3]['rules']))
    if a[1] == '_grist_Views_section' and keys and keys <= {'options', 'theme', 'layoutSpec'}:
      ss = [s for s in P['sections'] if s['id'] == a[2]]
      if len(ss) != 1:
        return ('OSetCustom', a[2], True)
      cur = dict(zip(('layoutSpec', 'options', 'theme'), ss[0]['cust']))
      cur.update(a[3])
      return ('OSetCustom', a[2], bool(cur['layoutSpec'] or cur['options'] or cur['theme']))
    if a[1] == '_grist_Tables_column' and keys == {'visibleCol'} and isinstance(a[3]['visibleCol'], int) \
       and isinstance(a[2], int):
      return ('OSetVisible', a[2], a[3]['visibleCol'])
    if a[1] == '_grist_Pages' and keys <= {'indentation', 'pagePos'}:
      return NOMETA
    if a[1] == '_grist_Views_section' and keys and keys <= {'linkSrcSectionRef', 'linkSrcColRef', 'linkTargetColRef',
                                                            'description', 'sortColRefs', 'filterSpec', 'chartType'}:
      return NOMETA          # cells the model does not carry (the oracle checks the link references)
    return UNMODELLED
  if name == 'AddRecord' and a[1] in ('_grist_Filters', '_grist_Triggers', '_grist_Cells'):
    return NOMETA            # tables the model does not carry (their references are checked by the oracle)
  if name == 'AddRecord' and a[1] == '_grist_Views_section_field':
    if set(a[3]) == {'parentId', 'colRef'} and a[2] is None:
      return ('OAddField', a[3]['parentId'], a[3]['colRef'])
    return UNMODELLED
  if name in ('RenameTable', 'RenameColumn'):
    if a[1] not in T or len(P['tables']) != len(Q['tables']) or len(P['columns']) != len(Q['columns']):
      return UNMODELLED
    qn = {t['id']: t['name'] for t in Q['tables']}
    qc = {c['id']: c for c in Q['columns']}
    tn = [(t['id'], names(qn[t['id']])) for t in P['tables'] if t['id'] in qn and qn[t['id']] != t['name']]
    ck = [(c['id'], qc[c['id']]['kind']) for c in P['columns']
          if c['id'] in qc and qc[c['id']]['colId'] != c['colId'] and qc[c['id']]['kind'] != c['kind']]
    return ('OReident', ck, tn)
  if name in ('AddRecord', 'BulkAddRecord', 'UpdateRecord', 'BulkUpdateRecord', 'RemoveRecord', 'BulkRemoveRecord',
              'AddOrUpdateRecord', 'BulkAddOrUpdateRecord', 'ReplaceTableData') and not a[1].startswith('_grist_'):
    return NOMETA
  if name == 'Calculate':
    return NOMETA
  if name == 'ModifyColumn':
    info = a[3] or {}
    if a[1] not in T or not set(info) <= {'formula', 'isFormula', 'type', 'widgetOptions', 'description'}:
      return UNMODELLED
    cs = [c for c in P['columns'] if c['parent'] == T[a[1]]['id'] and c['colId'] == a[2]]
    if len(cs) != 1:
      return UNMODELLED
    c = cs[0]
    guessed = c['isFormula'] and info.get('isFormula') is False and c['type'] == 'Any'
    if 'type' not in info and not guessed:
      return NOMETA
    qc = [x for x in Q['columns'] if x['id'] == c['id']]
    if len(qc) != 1:
      return UNMODELLED
    old, new = c['type'], qc[0]['type']
    rt = lambda t: t.split(':', 1)[1] if t.split(':')[0] in ('Ref', 'RefList') and ':' in t else None
    compatible = bool(rt(new)) and rt(new) == rt(old)
    qtypes = {x['id']: x['type'] for x in Q['columns']}
    copies = [x for x in P['columns'] if x['summarySource'] == c['id']]
    gchanged = any(qtypes.get(x['id']) != x['type'] for x in copies)
    return ('OModifyType', c['id'], ref_target(Q, new), compatible, new != old, gchanged)
  return UNMODELLED


# ------------------------------------------------------------------------------------------------
# histories -> cases

IMPORTS = ['Grist.Model.MetaCascade']


def regenerate(ctx):
  """Fail closed: (1) every function the model follows still has the pinned AST (harness/mc_pins.json);
  (2) the deciding pieces are re-translated into coq/gen/MetaCascade_gen.v (bridged in Proofs/MetaCascade_bridge.v)."""
  import os
  from harness import mc2v, mc2v_gen
  text = mc2v_gen.generate(core.GRIST)
  core.write_if_changed(os.path.join(core.COQ, 'gen', 'MetaCascade_gen.v'), text)
  ctx.extra['pinned_functions'] = mc2v.check_pins(core.GRIST)
  ctx.extra['regenerated'] = ['gen_auto_mode/gen_auto_fix (Engine.apply_user_actions end-of-bundle loop)',
                              'gen_goa (SummaryActions._get_or_add_columns)'] + \
                             ['%s (%d statements)' % (n, len(t)) for n, t in mc2v_gen.plans(core.GRIST)]


def run_histories(ctx, nhist, nb, weights=None, seed_base=0):
  """Random histories on the real engine; one record per successful bundle."""
  import random
  g = G()
  rec = Recorder()
  out = []
  try:
    for h in range(nhist):
      rng = random.Random(ctx.rng.getrandbits(48))
      gen = make_gen(rng, weights)
      e, _ = g.new_doc()
      gen.init_doc(e)
      hist = list(gen.applied)
      last = None
      for b in range(nb):
        bundle = gen.bundle(e)
        if last is None:
          last = projection(e)
        try:
          _, snaps, mid, final = rec.run(e, copy.deepcopy(bundle))
        except core.TieBroken:
          raise
        except Exception:
          ctx.bump('bundles failed')
          g.clean(e)
          hist.append(bundle)       # failed bundles stay in the history: replay_history replays them the same way
          if projection(e) != last:
            # a bundle that failed after its user actions (in the auto-removal phase, which the engine does not
            # roll back; here: ConvertFromColumn needs the JS side) left part of its changes: the document is
            # not the result of successful bundles any more (the subject of C04), the history ends
            ctx.bump('histories ended by a failed bundle that was not rolled back')
            break
          continue
        last = final
        gen.after_bundle(e)
        hist.append(bundle)
        out.append(dict(history=list(hist), bundle=bundle, snaps=snaps, mid=mid, final=final,
                        regroups=rec.last_regroups, rounds=rec.last_rounds))
        if refs_resolve(final):
          break          # the document is inconsistent from here on: reported by search, history ends
  finally:
    rec.uninstall()
  return out


def case_terms(r, names):
  """Coq terms of one recorded bundle: (pre, ops, mid, final, python verdict of the oracle on final)."""
  snaps = r['snaps'] + [r['mid']]
  ops = [translate(a, snaps[i], snaps[i + 1], names, [g for g in r.get('regroups', ()) if g['action'] == i])
         for i, a in enumerate(r['bundle'])]
  r['ops'] = ops
  verdict = not [i for i in refs_resolve(r['final']) if not extra_kind(i[0])]
  return '(%s, %s, %s, %s, %s)' % (coq_meta(snaps[0], names), core.coq_list([coq_op(o) for o in ops]),
                                  coq_meta(r['mid'], names), coq_meta(r['final'], names), core.boollit(verdict))


def case_defs(i, r, names):
  """One recorded bundle as Coq definitions (separate small definitions elaborate much faster than one large
  literal): returns (text, case term)."""
  snaps = r['snaps'] + [r['mid']]
  ops = [translate(a, snaps[k], snaps[k + 1], names, [g for g in r.get('regroups', ()) if g['action'] == k])
         for k, a in enumerate(r['bundle'])]
  r['ops'] = ops
  verdict = not [x for x in refs_resolve(r['final']) if not extra_kind(x[0])]
  r['verdict'] = verdict
  metas = [coq_meta(x, names).replace('%Z', '') for x in (snaps[0], r['mid'], r['final'])]
  return (metas, core.coq_list([coq_op(o) for o in ops]).replace('%Z', ''),
          '(%s, %d%%nat)' % (core.boollit(verdict), r.get('rounds', 0)))


def run_multi(ctx, name, items, checks, shard=60, timeout=300):
  """items: list of ([pre, mid, final] as Coq terms, ops term, verdict term); checks: list of (key, Coq term of
  type case -> bool).  Every check is evaluated on every case by vm_compute (one coqc per shard, 8 in
  parallel); equal states are defined once per shard.  Returns {key: sorted indexes where the check is not true}."""
  import os
  import re
  import subprocess
  paths = []
  for k in range(0, len(items), shard):
    part = items[k:k + shard]
    path = os.path.join(ctx.work, 'cases_%s_%d.v' % (name, k // shard))
    with open(path, 'w') as f:
      f.write('From Coq Require Import ZArith List Bool.\nImport ListNotations.\n')
      f.write('Require Import Grist.Lib.Cases Grist.Model.MetaCascade.\nOpen Scope Z_scope.\n')
      seen = {}
      terms = []
      for j, (metas, ops, verdict) in enumerate(part):
        ns = []
        for mt in metas:
          if mt not in seen:
            seen[mt] = 's%d' % len(seen)
            f.write('Definition %s : meta := %s.\n' % (seen[mt], mt))
          ns.append(seen[mt])
        f.write('Definition o%d : list op := %s.\n' % (j, ops))
        terms.append('(%s, o%d, %s, %s, %s)' % (ns[0], j, ns[1], ns[2], verdict))
      f.write('Definition the_cases := [\n  ' + ';\n  '.join(terms) + '\n].\n')
      for key, chk in checks:
        f.write('Goal True. idtac "@@RESULT %s;". exact I. Qed.\n' % key)
        f.write('Eval vm_compute in (failing (%s) the_cases).\n' % chk)
      f.write('Goal True. idtac "@@END". exact I. Qed.\n')
    paths.append((k, path))
  res = {key: [] for key, _ in checks}
  pending, running = list(paths), []

  def start(item):
    k, path = item
    p = subprocess.Popen(['timeout', str(timeout), 'coqc', '-w', '-notation-overridden,-deprecated',
                          '-Q', os.path.join(core.COQ, 'theories'), 'Grist', path],
                         stdout=subprocess.PIPE, stderr=subprocess.STDOUT, cwd=ctx.work)
    return (k, path, p)
  while pending or running:
    while pending and len(running) < 8:
      running.append(start(pending.pop(0)))
    k, path, p = running.pop(0)
    out = p.communicate()[0].decode('utf8', 'replace')
    if p.returncode != 0 or '@@END' not in out:
      for (_k, _p, q) in running:
        q.kill()
      raise core.TieBroken('cases file %s does not evaluate: %s' % (os.path.basename(path), out[-1500:]))
    for key, _ in checks:
      seg = out.split('@@RESULT %s;' % key, 1)[1].split('@@', 1)[0]
      mm = re.search(r'=\s*\[(.*?)\]\s*:\s*list nat', seg, re.S)
      if not mm:
        raise core.TieBroken('cannot parse result %s of %s: %s' % (key, os.path.basename(path), seg[-400:]))
      body = mm.group(1).strip()
      if body:
        res[key].extend(k + int(tok.strip().replace('%nat', '')) for tok in body.split(';'))
  return {key: sorted(v) for key, v in res.items()}


# issues the Python oracle reports beyond the Coq boolean (columns the model does not carry)
EXTRA_KINDS = ('table.no-record-card', 'section.linkSrcCol', 'section.linkTargetCol', 'section.linkSrcSectionRef')


def extra_kind(k):
  return k in EXTRA_KINDS or k.split('.')[0] in ('filters', 'cells', 'triggers')

CHECK_STEPS = ('fun c => match c with (pre, ops, mid, fin, v) => '
               'match steps ops pre with Ok m => meta_eqb m mid | Unmodelled => true | Fail => false end end')
CHECK_STEPS_OK = 'fun c => match c with (pre, ops, mid, fin, v) => res_ok (steps ops pre) end'
CHECK_AUTO = ('fun c => match c with (pre, ops, mid, fin, v) => '
              'match auto_fix (fuel_of mid) mid with Ok m => meta_eqb m fin | Unmodelled => true | Fail => false end end')
CHECK_AUTO_OK = 'fun c => match c with (pre, ops, mid, fin, v) => res_ok (auto_fix (fuel_of mid) mid) end'
CHECK_ORACLE = 'fun c => match c with (pre, ops, mid, fin, v) => Bool.eqb (RefsResolve fin) (fst v) end'
# the engine's apply_auto_removes loop and the model's make the same number of removing rounds
CHECK_ROUNDS = ('fun c => match c with (pre, ops, mid, fin, v) => match auto_fix (fuel_of mid) mid with '
                'Ok _ => Nat.eqb (auto_rounds (fuel_of mid) mid) (snd v) | _ => true end end')


# ------------------------------------------------------------------------------------------------
# the check

CHECKS = [('steps', CHECK_STEPS), ('auto', CHECK_AUTO), ('oracle', CHECK_ORACLE), ('stepsok', CHECK_STEPS_OK),
          ('autook', CHECK_AUTO_OK), ('rounds', CHECK_ROUNDS)]

BASE_DOC = [[['AddTable', 'T', [{'id': 'A', 'type': 'Text'}, {'id': 'B', 'type': 'Text'}]]],
            [['CreateViewSection', 1, 0, 'record', [3], None]]]

# scripted histories aimed at the cascades that only fire for particular combinations (each is replayed from a
# new document; the last bundle is the one under test)
TARGETED = [
  BASE_DOC + [[['RemoveColumn', 'T', 'B'], ['AddColumn', 'T_summary_B', 'Y', {'isFormula': True, 'formula': '1'}]]],
  BASE_DOC + [[['RemoveColumn', 'T', 'B'], ['AddView', 'T_summary_B', 'raw_data', 'V']]],
  BASE_DOC + [[['RemoveColumn', 'T', 'B'], ['CreateViewSection', 2, 0, 'record', None, None]]],
  BASE_DOC + [[['RemoveColumn', 'T', 'B']]],
  BASE_DOC + [[['UpdateSummaryViewSection', 4, []]]],
  BASE_DOC + [[['UpdateSummaryViewSection', 4, [2, 3]]]],
  BASE_DOC + [[['RemoveViewSection', 5], ['UpdateSummaryViewSection', 4, []]]],
  BASE_DOC + [[['AddRecord', '_grist_Views_section_field', None, {'parentId': 5, 'colRef': 6}]],
              [['UpdateSummaryViewSection', 5, []]]],
  BASE_DOC + [[['AddRecord', '_grist_Views_section_field', None, {'parentId': 5, 'colRef': 4}]],
              [['UpdateSummaryViewSection', 5, [2, 3]]]],
  BASE_DOC + [[['RemoveViewSection', 5]]],
  BASE_DOC + [[['RemoveView', 2]]],
  BASE_DOC + [[['RemoveTable', 'T']]],
  BASE_DOC + [[['RemoveColumn', 'T', 'A'], ['RemoveColumn', 'T', 'B']]],
  BASE_DOC + [[['SetDisplayFormula', 'T', None, 2, '$B']], [['RemoveColumn', 'T', 'B']]],
  BASE_DOC + [[['AddEmptyRule', 'T', 0, 2], ['AddEmptyRule', 'T', 1, 0], ['AddEmptyRule', 'T', 0, 0]],
              [['RemoveColumn', 'T', 'A']]],
  BASE_DOC + [[['AddEmptyRule', 'T', 0, 0]], [['UpdateRecord', '_grist_Views_section', 2, {'rules': None}]]],
  BASE_DOC + [[['UpdateSummaryViewSection', 5, [2]], ['UpdateSummaryViewSection', 5, [3]]]],
  BASE_DOC + [[['DetachSummaryViewSection', 5]]],
  BASE_DOC + [[['DetachSummaryViewSection', 4]]],
  BASE_DOC + [[['RemoveViewSection', 5], ['DetachSummaryViewSection', 4]]],
  # one history per back-reference cell: the record it points at is removed directly
  BASE_DOC + [[['SetDisplayFormula', 'T', 1, None, '$B']], [['RemoveColumn', 'T', 'gristHelper_Display']]],
  BASE_DOC + [[['SetDisplayFormula', 'T', None, 2, '$B']], [['RemoveColumn', 'T', 'gristHelper_Display']]],
  BASE_DOC + [[['SetDisplayFormula', 'T', None, 3, '$A']], [['RemoveColumn', 'T', 'gristHelper_Display']]],
  BASE_DOC + [[['AddEmptyRule', 'T', 0, 2]], [['RemoveColumn', 'T', 'gristHelper_ConditionalRule']]],
  BASE_DOC + [[['AddEmptyRule', 'T', 1, 0]], [['RemoveColumn', 'T', 'gristHelper_ConditionalRule']]],
  BASE_DOC + [[['AddEmptyRule', 'T', 0, 0]], [['RemoveColumn', 'T', 'gristHelper_RowConditionalRule']]],
  BASE_DOC + [[['AddEmptyRule', 'T', 0, 2], ['AddEmptyRule', 'T', 0, 2]],
              [['BulkRemoveRecord', '_grist_Tables_column', [7]]]],
  BASE_DOC + [[['UpdateRecord', '_grist_Tables_column', 2, {'visibleCol': 3}]], [['RemoveColumn', 'T', 'B']]],
  BASE_DOC + [[['UpdateRecord', '_grist_Views_section_field', 1, {'visibleCol': 3}]], [['RemoveColumn', 'T', 'B']]],
  BASE_DOC + [[['RemoveView', 1]]],
  BASE_DOC + [[['RemoveRecord', '_grist_Views', 2]]],
  BASE_DOC + [[['BulkRemoveRecord', '_grist_Views_section', [1, 5]]]],
  BASE_DOC + [[['BulkRemoveRecord', '_grist_Tables', [2]]]],
  BASE_DOC + [[['BulkRemoveRecord', '_grist_Tables', [1]]]],
  BASE_DOC + [[['SetDisplayFormula', 'T', 1, None, '$B'], ['SetDisplayFormula', 'T', 2, None, '$B']],
              [['SetDisplayFormula', 'T', 1, None, '']], [['SetDisplayFormula', 'T', 2, None, '']]],
]


SCOPE_DOC = [[['AddTable', 'T', [{'id': 'A', 'type': 'Text'}, {'id': 'B', 'type': 'Text'}]]],
             [['AddTable', 'U', [{'id': 'X', 'type': 'Text'}]], ['AddColumn', 'U', 'r', {'type': 'Ref:T', 'isFormula': False}]],
             [['CreateViewSection', 1, 0, 'record', [3], None]],
             [['SetDisplayFormula', 'U', None, 6, '$r.A'], ['AddEmptyRule', 'T', 0, 2]]]
# after SCOPE_DOC: tables 1 T, 2 U, 3 T_summary_B; columns 1-3 (T), 4-6 (U: manualSort, X, r), 7-9 (summary: B,
# group, count), 10 display helper (U), 11 rule helper (T); views 1, 2, 3; sections 1-3 (T), 4-6 (U), 7 raw and 8 (summary)
SCOPE_ACTIONS = [
  ['RemoveColumn', 'T', 'A'], ['RemoveColumn', 'T', 'B'], ['RemoveColumn', 'U', 'r'], ['RemoveColumn', 'U', 'X'],
  ['RemoveColumn', 'U', 'gristHelper_Display'], ['RemoveColumn', 'T', 'gristHelper_ConditionalRule'],
  ['RemoveTable', 'T'], ['RemoveTable', 'U'], ['RemoveTable', 'T_summary_B'],
  ['AddColumn', 'T', 'C', {'type': 'Int', 'isFormula': False}],
  ['AddColumn', 'T_summary_B', 'Y', {'isFormula': True, 'formula': '1'}],
  ['AddView', 'T', 'raw_data', 'V'], ['AddView', 'T_summary_B', 'raw_data', 'V'],
  ['CreateViewSection', 1, 1, 'record', None, None], ['CreateViewSection', 3, 0, 'single', None, None],
  ['CreateViewSection', 1, 2, 'record', [], None], ['CreateViewSection', 1, 0, 'record', [2, 3], None],
  ['UpdateSummaryViewSection', 8, []], ['UpdateSummaryViewSection', 8, [2]],
  ['RemoveViewSection', 8], ['RemoveViewSection', 1], ['RemoveView', 3], ['RemoveView', 1],
  ['SetDisplayFormula', 'U', None, 6, ''], ['SetDisplayFormula', 'T', None, 3, '$A'],
  ['AddEmptyRule', 'T', 0, 0], ['UpdateRecord', '_grist_Tables_column', 2, {'rules': None}],
  ['BulkRemoveRecord', '_grist_Pages', [1, 3]],
]


def small_scope(ctx):
  """Thorough tier: every ordered pair of SCOPE_ACTIONS as one bundle on the fixed document SCOPE_DOC."""
  rec = Recorder()
  out = []
  try:
    for a in SCOPE_ACTIONS:
      for b in [None] + SCOPE_ACTIONS:
        bundle = [a] if b is None else [a, b]
        r = replay_history(SCOPE_DOC + [copy.deepcopy(bundle)], rec)
        if r is None:
          ctx.bump('small-scope bundles failed')
          continue
        r['targeted'] = True
        out.append(r)
  finally:
    rec.uninstall()
  ctx.extra['exhaustive'] = True
  ctx.extra['exhaustive_space'] = ('all bundles of one or two actions from %d concrete actions on a fixed document '
                                   '(2 tables, Ref column, summary table, display and rule helpers)' % len(SCOPE_ACTIONS))
  return out


# a table N with a reference column g (column 9) to the SUMMARY table T_summary_B, showing its column B (4)
# through a display helper (column 10): when the summary table goes, g is converted and the helper loses its
# user only after the first round of auto-removals
REF_DOC = BASE_DOC + [
  [['AddTable', 'N', [{'id': 'X', 'type': 'Text'}, {'id': 'g', 'type': 'Ref:T_summary_B'}]]],
  [['UpdateRecord', '_grist_Tables_column', 9, {'visibleCol': 4}], ['SetDisplayFormula', 'N', None, 9, '$g.B']]]
TARGETED += [
  REF_DOC + [[['RemoveViewSection', 5]]],
  REF_DOC + [[['RemoveColumn', 'T', 'B']]],
  REF_DOC + [[['RemoveTable', 'T']]],
  REF_DOC + [[['RemoveView', 2]]],
  REF_DOC + [[['RemoveColumn', 'T', 'B'], ['AddColumn', 'N', 'Z', {'type': 'Int', 'isFormula': False}]]],
  REF_DOC + [[['AddEmptyRule', 'N', 0, 9]], [['RemoveViewSection', 5]]],
  REF_DOC + [[['AddEmptyRule', 'N', 0, 4]], [['RemoveViewSection', 5]]],
  REF_DOC + [[['AddEmptyRule', 'N', 0, 4], ['AddEmptyRule', 'N', 0, 9]], [['UpdateSummaryViewSection', 5, []]]],
  BASE_DOC + [[['AddTable', 'N', [{'id': 'X', 'type': 'Text'}, {'id': 'g', 'type': 'RefList:T_summary_B'}]]],
              [['SetDisplayFormula', 'N', None, 9, '$g.B']], [['RemoveViewSection', 5]]],
  BASE_DOC + [[['AddTable', 'N', [{'id': 'X', 'type': 'Text'}, {'id': 'g', 'type': 'Ref:T_summary_B'}]]],
              [['SetDisplayFormula', 'N', None, 9, '$g.B']], [['RemoveViewSection', 5]]],
]


# two summary tables of one source with DIFFERENT formula columns, the widgets show the extra columns; regrouping
# merges one into the other (by UpdateSummaryViewSection, and by RemoveColumn of a group-by source):
# _get_or_add_columns has to add the missing column to the target and the widget's field has to follow it
MERGE_DOC = [[['AddTable', 'T', [{'id': 'A', 'type': 'Text'}, {'id': 'B', 'type': 'Text'}]]],
             [['CreateViewSection', 1, 0, 'record', [2], None]]]           # T_summary_A: raw 4, page section 5
TARGETED += [
  MERGE_DOC + [[['AddColumn', 'T', 'D', {'type': 'Numeric', 'isFormula': False}]],
               [['CreateViewSection', 1, 0, 'record', [2, 3], None]],     # T_summary_A_B with SUM(D): page section 7
               [['UpdateSummaryViewSection', 7, [2]]]],
  MERGE_DOC + [[['CreateViewSection', 1, 0, 'record', [2, 3], None]],
               [['AddVisibleColumn', 'T_summary_A_B', 'X', {'isFormula': True, 'formula': '1'}]],
               [['RemoveColumn', 'T', 'B']]],
  MERGE_DOC + [[['CreateViewSection', 1, 0, 'record', [2, 3], None]],
               [['AddVisibleColumn', 'T_summary_A_B', 'X', {'isFormula': True, 'formula': '1'}]],
               [['UpdateSummaryViewSection', 7, [2]]]],
  MERGE_DOC + [[['CreateViewSection', 1, 0, 'record', [2, 3], None], ['CreateViewSection', 1, 3, 'record', [2, 3], None]],
               [['AddVisibleColumn', 'T_summary_A_B', 'X', {'isFormula': True, 'formula': '1'}]],
               [['UpdateSummaryViewSection', 7, [2]]]],                    # the old table stays alive (section 8)
  MERGE_DOC + [[['CreateViewSection', 1, 0, 'record', [2, 3], None]],
               [['AddColumn', 'T_summary_A_B', 'X', {'isFormula': True, 'formula': '1'}]],
               [['AddRecord', '_grist_Views_section_field', None, {'parentId': 7, 'colRef': 11}]],
               [['RemoveColumn', 'T', 'B']]],
  MERGE_DOC + [[['CreateViewSection', 1, 0, 'record', [2, 3], None]],
               [['AddVisibleColumn', 'T_summary_A', 'X', {'isFormula': True, 'formula': '2'}],
                ['AddVisibleColumn', 'T_summary_A_B', 'X', {'isFormula': True, 'formula': '1'}]],
               [['UpdateSummaryViewSection', 7, [2]]]],                    # same name, other formula: a further column
]


# column references outside the column/field/section records proper: the back-reference clearing of
# doBulkRemoveRecord is the only thing that keeps them from dangling when the column goes away with its table
FIELD_DOC = [[['AddTable', 'People', [{'id': 'name', 'type': 'Text'}]]],
             [['AddTable', 'Orders', [{'id': 'who', 'type': 'Ref:People'}, {'id': 'kind', 'type': 'Text'}]]],
             [['CreateViewSection', 2, 0, 'record', [4, 5], None]],     # Orders_summary_kind_who: page section 8
             # field 13 (who) of the page section gets a show column, a display helper and a rule of its own:
             # the helper columns 10 and 11 live in the summary table
             [['UpdateRecord', '_grist_Views_section_field', 13, {'visibleCol': 2}],
              ['SetDisplayFormula', 'Orders_summary_kind_who', 13, None, '$who.name']],
             [['AddEmptyRule', 'Orders_summary_kind_who', 13, None]]]
LINK_DOC = [[['AddTable', 'B', [{'id': 'x', 'type': 'Text'}]]],
            [['AddTable', 'A', [{'id': 'b', 'type': 'Ref:B'}]]],
            [['CreateViewSection', 2, 2, 'record', None, None]],        # section 7 shows A
            [['CreateViewSection', 1, 2, 'detail', None, None]],        # section 8 shows B
            [['BulkAddRecord', 'A', [None, None], {}]]]
TARGETED += [
  FIELD_DOC + [[['UpdateSummaryViewSection', 8, [4]]]],       # the field moves, the old table is auto-removed
  FIELD_DOC + [[['RemoveColumn', 'Orders', 'kind']]],
  FIELD_DOC + [[['UpdateSummaryViewSection', 8, [4]], ['AddColumn', 'Orders', 'Z', {'type': 'Int', 'isFormula': False}]]],
  FIELD_DOC + [[['RemoveTable', 'Orders']]],
  LINK_DOC + [[['UpdateRecord', '_grist_Views_section', 8, {'linkSrcSectionRef': 7, 'linkSrcColRef': 4}]],
              [['RemoveTable', 'A']]],
  LINK_DOC + [[['UpdateRecord', '_grist_Views_section', 8, {'linkSrcSectionRef': 7, 'linkSrcColRef': 4}]],
              [['RemoveColumn', 'A', 'b']]],
  LINK_DOC + [[['UpdateRecord', '_grist_Views_section', 8, {'linkSrcSectionRef': 7, 'linkTargetColRef': 2}]],
              [['RemoveColumn', 'B', 'x']]],
  LINK_DOC + [[['AddRecord', '_grist_Filters', None, {'viewSectionRef': 8, 'colRef': 4, 'filter': '{"included":[]}'}]],
              [['RemoveTable', 'A']]],
  LINK_DOC + [[['AddRecord', '_grist_Filters', None, {'viewSectionRef': 7, 'colRef': 4, 'filter': '{"included":[]}'}]],
              [['RemoveColumn', 'A', 'b']]],
  LINK_DOC + [[['AddRecord', '_grist_Triggers', None, {'tableRef': 1, 'eventTypes': ['L', 'add'], 'isReadyColRef': 4,
                                                       'watchedColRefList': ['L', 4, 2], 'actions': '[]'}]],
              [['RemoveTable', 'A']]],
  LINK_DOC + [[['AddRecord', '_grist_Triggers', None, {'tableRef': 2, 'eventTypes': ['L', 'add'], 'isReadyColRef': 4,
                                                       'watchedColRefList': ['L', 4], 'actions': '[]'}]],
              [['RemoveColumn', 'A', 'b']]],
  LINK_DOC + [[['AddRecord', '_grist_Cells', None, {'tableRef': 2, 'colRef': 4, 'rowId': 1, 'type': 1, 'root': True,
                                                    'content': '{}'}]],
              [['RemoveTable', 'A']]],
]


def regroup_defects(r):
  """Which of the two known defects of update_summary_section calls occurred in this bundle."""
  out = set()
  for g in r.get('regroups', ()):
    cols = [f['col'] for f in g['pre']['fields'] if f['section'] == g['sec']]
    if len(cols) != len(set(cols)):
      out.add('duplicate-field-regrouped')
    if any(t['raw'] == g['sec'] for t in g['pre']['tables']):
      direct = r['bundle'][g['action']][0] == 'UpdateSummaryViewSection'
      out.add('update-summary-raw-section' if direct else 'raw-section-regrouped')
    # right after the call every field of the section must show a column of the section's new table
    ps = [s for s in g['post']['sections'] if s['id'] == g['sec']]
    if ps and len(cols) == len(set(cols)):
      tcols = set(c['id'] for c in g['post']['columns'] if c['parent'] == ps[0]['table'])
      pre_ids = set(c['id'] for c in g['pre']['columns'])
      added = set(c['colId'] for c in g['post']['columns'] if c['id'] in tcols and c['id'] not in pre_ids)
      cname = {c['id']: c['colId'] for c in g['post']['columns']}
      for f in g['post']['fields']:
        if f['section'] == g['sec'] and f['col'] not in tcols:
          # the column was added to the target under the same id and the field still did not follow, or the
          # target has a same-named column with another formula, so the copy got a new id (X -> X2) and
          # update_summary_section, which matches fields and columns by id, does not move the field
          out.add('field-left-behind' if cname.get(f['col']) in added or not added
                  else 'renamed-column-field-left-behind')
  for k, a in enumerate(r['bundle']):
    if a[0] == 'DetachSummaryViewSection' and k < len(r['snaps']) and \
       any(t['raw'] == a[1] for t in r['snaps'][k]['tables']):
      out.add('detach-raw-section')
  return out


def classify(r, issues):
  """Failure mode of a bundle after which the oracle reports issues (narrow kinds for the known root causes)."""
  defects = regroup_defects(r)
  if 'duplicate-field-regrouped' in defects:
    return 'duplicate-field-regrouped'
  for k in ('raw-section-regrouped', 'update-summary-raw-section', 'detach-raw-section', 'field-left-behind',
            'renamed-column-field-left-behind'):
    if k in defects and all(i[0] in ('field.colRef', 'field.colRef-other-table', 'table.raw-of-other-table',
                                     'table.rawViewSectionRef') for i in issues):
      return k
  return 'oracle:' + issues[0][0]


def replay_history(history, rec=None):
  """Runs the bundles from a new document (a failing bundle is followed by Calculate, as when the history was
  generated); returns the record of the last bundle (None if that one fails)."""
  g = G()
  own = rec is None
  rec = rec or Recorder()
  try:
    e, _ = g.new_doc()
    r = None
    for k, b in enumerate(history):
      try:
        _, snaps, mid, final = rec.run(e, copy.deepcopy(b))
      except core.TieBroken:
        raise
      except Exception:
        if k == len(history) - 1:
          return None
        g.clean(e)
        r = None
        continue
      r = dict(history=history, bundle=b, snaps=snaps, mid=mid, final=final, regroups=rec.last_regroups,
               rounds=rec.last_rounds)
    return r
  finally:
    if own:
      rec.uninstall()


def collect(ctx):
  """All recorded bundles of this run (random histories + targeted ones), cached on ctx."""
  if getattr(ctx, '_c09_records', None) is not None:
    return ctx._c09_records
  recs = []
  for h in TARGETED:            # the witnesses of the repaired defects and the scripted cascades run first
    r = replay_history(h)
    if r is not None:
      r['targeted'] = True
      recs.append(r)
  recs.extend(run_histories(ctx, ctx.n(22, 260), ctx.n(10, 12)))
  ctx.log('recorded %d bundles on the engine' % len(recs))
  if ctx.tier == 'thorough':
    recs.extend(small_scope(ctx))
  ctx._c09_records = recs
  return recs


def correspond(ctx):
  recs = collect(ctx)
  names = Names()
  items = [case_defs(i, r, names) for i, r in enumerate(recs)]
  res = run_multi(ctx, 'tie', items, CHECKS, shard=ctx.n(56, 80))
  ctx.log('model evaluated on %d bundles in Coq: %s' % (len(items), {k: len(v) for k, v in res.items()}))
  not_ok = set(res['stepsok'])
  for i, r in enumerate(recs):
    meta_ops = [o[0] for o in r['ops'] if o[0] not in ('ONoMeta', 'OUnmodelled')]
    modelled = i not in not_ok
    changed = r['snaps'][0] != r['final']
    ctx.count((i, json.dumps(r['bundle'], sort_keys=True, default=repr)), nontrivial=modelled and changed,
              sample={'bundle': r['bundle'], 'ops': [repr(o) for o in r['ops']]} if modelled and changed else None,
              kind='modelled' if modelled else 'outside the modelled fragment')
    for o in r['ops']:
      ctx.bump('op ' + o[0])
    if r['mid'] != r['final']:
      ctx.bump('bundles with auto-removals')
    if r.get('rounds', 0) >= 2:
      ctx.bump('bundles with %d auto-removal rounds' % r['rounds'])
  for key, what in (('steps', 'model step differs from the metadata after the user actions'),
                    ('auto', 'model auto-removal loop differs from the final metadata'),
                    ('rounds', 'number of auto-removal rounds differs between model and engine'),
                    ('oracle', 'RefsResolve in Coq on the real metadata differs from the Python oracle')):
    for i in res[key][:5]:
      ctx.broken('correspondence:%s' % what,
                 'history %s ops %s' % (json.dumps(recs[i]['history'], default=repr), [repr(o) for o in recs[i]['ops']]))
  # the repaired defects must not occur in any successful bundle (each would also make the model reject or differ)
  for i, r in enumerate(recs):
    # duplicates are fine when all move; the renamed-column case is reported by the oracle (known finding);
    # detaching a raw section is refused since 811c657, so it cannot be part of a successful bundle
    for d in sorted(regroup_defects(r) - {'duplicate-field-regrouped', 'renamed-column-field-left-behind'}):
      ctx.broken('monitor:update_summary_section ran in a way the repaired code excludes (%s)' % d,
                 'history %s' % json.dumps(r['history'], default=repr))
  ctx.extra['bundles'] = len(recs)
  ctx.extra['bundles_fully_modelled'] = len(recs) - len(not_ok)
  ctx.extra['auto_fix_unmodelled'] = len(res['autook'])
  validate_goa(ctx)


GOA_DEFS = '''
Definition goa_ids (l : list goa_item) : list Z :=
  List.concat (List.map (fun i => match i with EAdd => [] | YExisting z => [z] | YAdded => [0] end) l).
Definition goa_adds (l : list goa_item) : Z :=
  Z.of_nat (List.length (filter (fun i => match i with EAdd => true | _ => false end) l)).
Definition goa_check (c : list (Z * (Z * Z)) * list (Z * Z) * list Z * Z) : bool :=
  let '(p, i, ys, n) := c in let g := gen_goa p i in zlist_eqb (goa_ids g) ys && (goa_adds g =? n).
'''


def validate_goa(ctx):
  """The regenerated gen_goa (the translation of _get_or_add_columns) against every call observed in this run:
  which existing columns came back, in which positions new ones did, and how many columns were added."""
  seen, cases, calls = set(), [], []
  for c in GOA_CALLS:
    toks = {}
    tok = lambda s: toks.setdefault(s, len(toks) + 1)
    prior_ids = set(i for _, i, _ in c['prior'])
    prior = '[%s]' % '; '.join('(%d, (%d, %d))' % (tok(('n', n)), i, tok(('f', f))) for n, i, f in c['prior'])
    infos = '[%s]' % '; '.join('(%d, %d)' % (tok(('n', n)), tok(('f', f))) for n, f in c['infos'])
    ys = '[%s]' % '; '.join(str(y if y in prior_ids else 0) for y in c['yields'])
    term = '(%s, %s, %s, %d)' % (prior, infos, ys, c['added'])
    if term not in seen:
      seen.add(term)
      cases.append(term)
      calls.append(c)
  del GOA_CALLS[:]
  bad = ctx.run_cases('goa', IMPORTS + ['Grist.Model.MetaCascadePlan', 'GristGen.MetaCascade_gen'], 'goa_check',
                      cases, shard=500, extra_defs=GOA_DEFS, case_type='list (Z * (Z * Z)) * list (Z * Z) * list Z * Z')
  ctx.extra['goa_calls_validated'] = len(cases)
  ctx.extra['goa_calls_adding'] = sum(1 for c in calls if c['added'])
  ctx.log('gen_goa validated on %d distinct observed calls of _get_or_add_columns (%d adding columns): %d differ'
          % (len(cases), ctx.extra['goa_calls_adding'], len(bad)))
  for i in bad[:3]:
    ctx.broken('translation:gen_goa differs from an observed call of _get_or_add_columns', json.dumps(calls[i]))


def shrink_history(history, still_fails):
  from harness import histgen
  if len(history) <= 1:
    return history
  head = histgen.shrink_list(history[:-1], lambda h: still_fails(h + [history[-1]])) if len(history) > 2 else history[:-1]
  if not still_fails(head + [history[-1]]):
    head = history[:-1]
  if still_fails([history[-1]]):
    head = []
  return head + [history[-1]]


def search(ctx):
  recs = collect(ctx)
  seen = set()
  for r in recs:
    issues = refs_resolve(r['final'])
    if not issues:
      continue
    kind = classify(r, issues)
    if kind in seen and not kind.startswith('oracle:'):
      continue
    seen.add(kind)

    def fails(h, kind=kind):
      rr = replay_history(h)
      if rr is None:
        return False
      iss = refs_resolve(rr['final'])
      return bool(iss) and classify(rr, iss) == kind
    hist = r['history'] if r.get('targeted') else shrink_history(r['history'], fails)
    ctx.violation(kind, 'after %s: %s' % (json.dumps(r['bundle'], default=repr), issues[:3]), {'history': hist})
    if len(ctx.violations) > 12:
      break


def replay(ctx, w):
  r = replay_history(w['history'])
  if r is None:
    return None
  issues = refs_resolve(r['final'])
  if not issues:
    return None
  return '%s: %s' % (classify(r, issues), issues[:3])


# ==== end ====
