"""C09 -- Metadata references always resolve (kernel K6: Model/MetaCascade.v)."""
import collections
import copy
import json
import traceback

from harness import core

ID = 'C09'
TITLE = 'Metadata references always resolve'
PROPS = ['Props/C09']
DISABLED = True

META_TABLES = ('_grist_Tables', '_grist_Tables_column', '_grist_Views', '_grist_Views_section',
               '_grist_Views_section_field', '_grist_TabBar', '_grist_Pages')

# column kinds of the model (Model/MetaCascade.v: ckind)
K_NORMAL, K_HIDDEN, K_GROUP, K_DISPLAY, K_RULE, K_ROWRULE = range(6)


def G():
  from harness import gristenv
  return gristenv


def col_kind(col_id):
  if col_id.startswith('gristHelper_Display'):
    return K_DISPLAY
  if col_id.startswith('gristHelper_ConditionalRule'):
    return K_RULE
  if col_id.startswith('gristHelper_RowConditionalRule'):
    return K_ROWRULE
  if col_id == 'group':
    return K_GROUP
  import column
  if not column.is_visible_column(col_id):
    return K_HIDDEN
  return K_NORMAL


def rows_of(e, t):
  d = e.fetch_table(t)
  out = []
  for i, r in enumerate(d.row_ids):
    out.append((r, {c: d.columns[c][i] for c in d.columns}))
  out.sort(key=lambda x: x[0])
  return out


def reflist(v):
  """Encoded or decoded RefList cell -> list of ints."""
  if not v:
    return []
  if isinstance(v, (list, tuple)):
    v = list(v)
    if v and v[0] == 'L':
      v = v[1:]
    return [int(x) for x in v]
  raise core.TieBroken('unexpected RefList cell %r' % (v,))


def projection(e):
  """The modelled columns of the metadata tables, as plain data (sorted by row id)."""
  g = G()
  names = {}
  P = {}
  P['tables'] = [dict(id=r, name=v['tableId'], primaryView=int(v['primaryViewId'] or 0),
                      summarySource=int(v['summarySourceTable'] or 0), raw=int(v['rawViewSectionRef'] or 0),
                      card=int(v['recordCardViewSectionRef'] or 0)) for r, v in rows_of(e, '_grist_Tables')]
  P['columns'] = [dict(id=r, parent=int(v['parentId'] or 0), kind=col_kind(v['colId']), colId=v['colId'],
                       display=int(v['displayCol'] or 0), visible=int(v['visibleCol'] or 0),
                       summarySource=int(v['summarySourceCol'] or 0), rules=reflist(v['rules']),
                       pos=v['parentPos'])
                  for r, v in rows_of(e, '_grist_Tables_column')]
  P['views'] = [r for r, v in rows_of(e, '_grist_Views')]
  P['sections'] = [dict(id=r, table=int(v['tableRef'] or 0), view=int(v['parentId'] or 0), rules=reflist(v['rules']),
                        custom=bool(v['layoutSpec'] or v['options'] or v['rules'] or v['theme']),
                        key=v['parentKey'], link=int(v['linkSrcSectionRef'] or 0),
                        linkSrcCol=int(v['linkSrcColRef'] or 0), linkTargetCol=int(v['linkTargetColRef'] or 0))
                   for r, v in rows_of(e, '_grist_Views_section')]
  P['fields'] = [dict(id=r, section=int(v['parentId'] or 0), col=int(v['colRef'] or 0),
                      display=int(v['displayCol'] or 0), visible=int(v['visibleCol'] or 0),
                      rules=reflist(v['rules']), wopt=bool(v['widgetOptions']), pos=v['parentPos'])
                 for r, v in rows_of(e, '_grist_Views_section_field')]
  P['tabbar'] = [dict(id=r, view=int(v['viewRef'] or 0)) for r, v in rows_of(e, '_grist_TabBar')]
  P['pages'] = [dict(id=r, view=int(v['viewRef'] or 0)) for r, v in rows_of(e, '_grist_Pages')]
  P['schema'] = sorted(t for t in e.tables if not t.startswith('_grist_'))
  return P


def refs_resolve(P):
  """The property's conjunction (transliteration of MetaCascade.RefsResolve); returns a list of issues."""
  iss = []
  T = {t['id']: t for t in P['tables']}
  C = {c['id']: c for c in P['columns']}
  V = set(P['views'])
  S = {s['id']: s for s in P['sections']}
  F = {f['id']: f for f in P['fields']}
  for c in P['columns']:
    if c['parent'] not in T:
      iss.append(('col.parentId', c['id'], c['parent']))
    for k in ('display', 'visible', 'summarySource'):
      if c[k] and c[k] not in C:
        iss.append(('col.' + k, c['id'], c[k]))
    for r in c['rules']:
      if r not in C:
        iss.append(('col.rules', c['id'], r))
  for f in P['fields']:
    if f['section'] not in S:
      iss.append(('field.parentId', f['id'], f['section']))
    elif f['col'] not in C:
      iss.append(('field.colRef', f['id'], f['col']))
    elif C[f['col']]['parent'] != S[f['section']]['table']:
      iss.append(('field.colRef-other-table', f['id'], f['col'], S[f['section']]['table']))
    for k in ('display', 'visible'):
      if f[k] and f[k] not in C:
        iss.append(('field.' + k, f['id'], f[k]))
    for r in f['rules']:
      if r not in C:
        iss.append(('field.rules', f['id'], r))
  for s in P['sections']:
    if s['table'] not in T:
      iss.append(('section.tableRef', s['id'], s['table']))
    if s['view'] and s['view'] not in V:
      iss.append(('section.parentId', s['id'], s['view']))
    for r in s['rules']:
      if r not in C:
        iss.append(('section.rules', s['id'], r))
    for k in ('linkSrcCol', 'linkTargetCol'):
      if s[k] and s[k] not in C:
        iss.append(('section.' + k, s['id'], s[k]))
    if s['link'] and s['link'] not in S:
      iss.append(('section.linkSrcSectionRef', s['id'], s['link']))
  for t in P['tables']:
    if t['raw'] not in S:
      iss.append(('table.rawViewSectionRef', t['id'], t['raw']))
    elif S[t['raw']]['table'] != t['id']:
      iss.append(('table.raw-of-other-table', t['id'], t['raw']))
    if t['card'] and t['card'] not in S:
      iss.append(('table.recordCardViewSectionRef', t['id'], t['card']))
    elif t['card'] and S[t['card']]['table'] != t['id']:
      iss.append(('table.card-of-other-table', t['id'], t['card']))
    if not t['card'] and not t['summarySource']:
      iss.append(('table.no-record-card', t['id']))
    if t['primaryView'] and t['primaryView'] not in V:
      iss.append(('table.primaryViewId', t['id'], t['primaryView']))
    if t['summarySource'] and t['summarySource'] not in T:
      iss.append(('table.summarySourceTable', t['id'], t['summarySource']))
  for b in P['tabbar']:
    if b['view'] not in V:
      iss.append(('tabbar.viewRef', b['id'], b['view']))
  for p in P['pages']:
    if p['view'] not in V:
      iss.append(('page.viewRef', p['id'], p['view']))
  names = [t['name'] for t in P['tables']]
  if sorted(names) != list(P['schema']):
    iss.append(('tables-vs-schema', sorted(names), list(P['schema'])))
  for c in P['columns']:
    if c['kind'] == K_DISPLAY:
      if not any(x['display'] == c['id'] for x in P['columns']) and \
         not any(x['display'] == c['id'] for x in P['fields']):
        iss.append(('unused-display-helper', c['id'], c['colId']))
    elif c['kind'] == K_RULE:
      if not any(c['id'] in x['rules'] for x in P['columns']) and \
         not any(c['id'] in x['rules'] for x in P['fields']):
        iss.append(('unused-rule-helper', c['id'], c['colId']))
    elif c['kind'] == K_ROWRULE:
      if not any(c['id'] in x['rules'] for x in P['sections']):
        iss.append(('unused-rowrule-helper', c['id'], c['colId']))
  return iss


# ------------------------------------------------------------------------------------------------
# history generator: the shared one, with the metadata operations of this property over-represented

WEIGHTS = {
  'addrec': 2, 'updrec': 1, 'rmrec': 1, 'tempids': 0, 'addcol': 5, 'addformula': 2, 'rmcol': 8, 'rencol': 1,
  'modtype': 2, 'modformula': 0, 'toformula': 1, 'todata': 1, 'addtable': 4, 'rmtable': 4, 'rentable': 1,
  'addref': 4, 'addreverse': 1, 'summary': 5, 'summaryformula': 2, 'updsummary': 4, 'label': 0,
  'renamechoices': 0, 'upsert': 0, 'invalid': 1,
  # own kinds
  'addview': 3, 'newsection': 5, 'summaryinview': 4, 'rmsection': 6, 'rmview': 4, 'rmpage': 2, 'rmtab': 1,
  'movepage': 2, 'displaycol': 5, 'displayfield': 4, 'cleardisplay': 3, 'addrule': 5, 'droprule': 3,
  'rmfield': 3, 'addfield': 2, 'customsection': 1, 'detach': 1, 'rmhelper': 1, 'rmtablerec': 1, 'rmcolrec': 2,
  'hiddencol': 1, 'linksection': 2, 'dupfield': 0,
}
RAW_WRITES = ('linksection', 'addfield', 'dupfield', 'droprule', 'movepage')


def make_gen(rng, weights=None):
  from harness import histgen

  class Gen(histgen.HistGen):
    def gen(self, kind, meta):
      r = self.r
      P = projection(meta.e)
      tabs = P['tables']
      secs = P['sections']
      cols = P['columns']
      flds = P['fields']
      tname = {t['id']: t['name'] for t in tabs}
      vis = [c for c in cols if c['kind'] == K_NORMAL]
      raws = set(t['raw'] for t in tabs) | set(t['card'] for t in tabs)
      if kind == 'addview':
        t = r.choice(tabs)
        return ['AddView', t['name'], r.choice(['raw_data', 'empty']), r.choice(['V', 'New page'])]
      if kind == 'newsection':
        t = r.choice(tabs)
        view = r.choice(P['views'] + [0]) if P['views'] else 0
        return ['CreateViewSection', r.choice([t['id'], t['id'], t['id'], 0]), view,
                r.choice(['record', 'record', 'single', 'detail', 'chart', 'form', 'custom']), None,
                r.choice([None, 'Fresh'])]
      if kind == 'summaryinview':
        src = [t for t in tabs if not t['summarySource']]
        if not src or not P['views']:
          return None
        t = r.choice(src)
        cs = [c for c in vis if c['parent'] == t['id']]
        gb = r.sample(cs, min(len(cs), r.randint(0, 2)))
        return ['CreateViewSection', t['id'], r.choice(P['views']), 'record', [c['id'] for c in gb], None]
      if kind == 'rmsection':
        if not secs:
          return None
        pool = [s for s in secs if s['id'] not in raws] or secs
        if r.random() < 0.1:
          pool = secs
        s = r.choice(pool)
        return r.choice([['RemoveViewSection', s['id']], ['RemoveRecord', '_grist_Views_section', s['id']]])
      if kind == 'rmview':
        if not P['views']:
          return None
        v = r.choice(P['views'])
        return r.choice([['RemoveView', v], ['RemoveRecord', '_grist_Views', v]])
      if kind == 'rmpage':
        if not P['pages']:
          return None
        k = r.randint(1, min(2, len(P['pages'])))
        return ['BulkRemoveRecord', '_grist_Pages', [p['id'] for p in r.sample(P['pages'], k)]]
      if kind == 'rmtab':
        if not P['tabbar']:
          return None
        return ['RemoveRecord', '_grist_TabBar', r.choice(P['tabbar'])['id']]
      if kind == 'movepage':
        if not P['pages']:
          return None
        return ['UpdateRecord', '_grist_Pages', r.choice(P['pages'])['id'],
                {'indentation': r.randint(0, 2), 'pagePos': r.choice([0.5, 1.5, 2.5, 10])}]
      if kind in ('displaycol', 'cleardisplay'):
        cand = [c for c in vis]
        if not cand:
          return None
        c = r.choice(cand)
        others = [x for x in vis if x['parent'] == c['parent']]
        f = '' if kind == 'cleardisplay' else r.choice(['$%s' % r.choice(others)['colId'], '$id', 'rec.id + 1'])
        if kind == 'cleardisplay':
          users = [x for x in vis if x['display']]
          if users:
            c = r.choice(users)
        return ['SetDisplayFormula', tname[c['parent']], None, c['id'], f]
      if kind == 'displayfield':
        cand = [f for f in flds if f['col']]
        if not cand:
          return None
        f = r.choice(cand)
        C = {c['id']: c for c in cols}
        if f['col'] not in C:
          return None
        c = C[f['col']]
        formula = r.choice(['$id', '$%s' % c['colId'], 'rec.id + 1', ''])
        return ['SetDisplayFormula', tname.get(c['parent'], 'T'), f['id'], None, formula]
      if kind == 'addrule':
        t = r.choice(tabs)
        which = r.choice(['col', 'field', 'row'])
        if which == 'col':
          cs = [c for c in vis if c['parent'] == t['id']]
          if cs:
            return ['AddEmptyRule', t['name'], 0, r.choice(cs)['id']]
        if which == 'field':
          S = {s['id']: s for s in secs}
          fs = [f for f in flds if f['section'] in S and S[f['section']]['table'] == t['id']]
          if fs:
            return ['AddEmptyRule', t['name'], r.choice(fs)['id'], 0]
        return ['AddEmptyRule', t['name'], 0, 0]
      if kind == 'droprule':
        owners = [('_grist_Tables_column', c) for c in cols if c['rules']] + \
                 [('_grist_Views_section_field', f) for f in flds if f['rules']] + \
                 [('_grist_Views_section', s) for s in secs if s['rules']]
        if not owners:
          return None
        tb, o = r.choice(owners)
        rules = list(o['rules'])
        rules.pop(r.randrange(len(rules)))
        return ['UpdateRecord', tb, o['id'], {'rules': ['L'] + rules if rules else None}]
      if kind == 'rmfield':
        if not flds:
          return None
        S = {s['id']: s for s in secs}
        pool = [f for f in flds if f['section'] not in set(t['raw'] for t in tabs)] or flds
        if r.random() < 0.1:
          pool = flds
        k = r.randint(1, min(2, len(pool)))
        return ['BulkRemoveRecord', '_grist_Views_section_field', [f['id'] for f in r.sample(pool, k)]]
      if kind in ('addfield', 'dupfield'):
        if not secs:
          return None
        s = r.choice(secs)
        shown = set(f['col'] for f in flds if f['section'] == s['id'])
        cs = [c for c in vis if c['parent'] == s['table'] and (kind == 'dupfield') == (c['id'] in shown)]
        if not cs:
          return None
        return ['AddRecord', '_grist_Views_section_field', None, {'parentId': s['id'], 'colRef': r.choice(cs)['id']}]
      if kind == 'customsection':
        if not secs:
          return None
        return ['UpdateRecord', '_grist_Views_section', r.choice(secs)['id'],
                r.choice([{'options': '{"x": 1}'}, {'theme': 'compact'}, {'layoutSpec': '{"a":1}'}])]
      if kind == 'detach':
        ss = [s for s in secs if s['id'] not in raws and
              any(t['id'] == s['table'] and t['summarySource'] for t in tabs)]
        if not ss:
          return None
        return ['DetachSummaryViewSection', r.choice(ss)['id']]
      if kind == 'rmhelper':
        hs = [c for c in cols if c['kind'] in (K_DISPLAY, K_RULE, K_ROWRULE)]
        if not hs:
          return None
        c = r.choice(hs)
        return ['RemoveColumn', tname[c['parent']], c['colId']]
      if kind == 'rmtablerec':
        if len(tabs) < 2:
          return None
        k = r.randint(1, 2)
        return ['BulkRemoveRecord', '_grist_Tables', [t['id'] for t in r.sample(tabs, k)]]
      if kind == 'rmcolrec':
        if not vis:
          return None
        k = r.randint(1, min(3, len(vis)))
        return ['BulkRemoveRecord', '_grist_Tables_column', [c['id'] for c in r.sample(vis, k)]]
      if kind == 'hiddencol':
        t = r.choice(tabs)
        return ['AddHiddenColumn', t['name'], r.choice(['gristHelper_Display', 'gristHelper_ConditionalRule', 'hid',
                                                        'gristHelper_Transform']),
                {'type': 'Any', 'isFormula': True, 'formula': r.choice(['', '$id'])}]
      if kind == 'linksection':
        ss = [s for s in secs if s['view']]
        if len(ss) < 2:
          return None
        a, b = r.sample(ss, 2)
        ca = [c for c in vis if c['parent'] == a['table']]
        cb = [c for c in vis if c['parent'] == b['table']]
        return ['UpdateRecord', '_grist_Views_section', a['id'],
                {'linkSrcSectionRef': b['id'], 'linkSrcColRef': r.choice(cb)['id'] if cb and r.random() < 0.5 else 0,
                 'linkTargetColRef': r.choice(ca)['id'] if ca and r.random() < 0.5 else 0}]
      if not tabs:
        return None if kind != 'addtable' else histgen.HistGen.gen(self, kind, meta)
      return histgen.HistGen.gen(self, kind, meta)

    def bundle(self, e, max_len=3):
      # actions that write references straight into metadata records are generated against the state they run in
      n = min(max_len, self.r.choice([1, 1, 1, 2, 2, 3]))
      out = [self.action(e)]
      for _ in range(n - 1):
        out.append(self.action(e, exclude=RAW_WRITES))
      return out

  w = dict(WEIGHTS)
  if weights:
    w.update(weights)
  return Gen(rng, weights=w, max_tables=4)
