"""C09 -- Metadata references always resolve (kernel K6: Model/MetaCascade.v)."""
import collections
import copy
import json
import traceback

from harness import core

ID = 'C09'
TITLE = 'Metadata references always resolve'
PROPS = ['Props/C09']
DISABLED = True

META_TABLES = ('_grist_Tables', '_grist_Tables_column', '_grist_Views', '_grist_Views_section',
               '_grist_Views_section_field', '_grist_TabBar', '_grist_Pages')

# column kinds of the model (Model/MetaCascade.v: ckind)
K_NORMAL, K_HIDDEN, K_GROUP, K_DISPLAY, K_RULE, K_ROWRULE = range(6)


def G():
  from harness import gristenv
  return gristenv


def col_kind(col_id):
  if col_id.startswith('gristHelper_Display'):
    return K_DISPLAY
  if col_id.startswith('gristHelper_ConditionalRule'):
    return K_RULE
  if col_id.startswith('gristHelper_RowConditionalRule'):
    return K_ROWRULE
  if col_id == 'group':
    return K_GROUP
  import column
  if not column.is_visible_column(col_id):
    return K_HIDDEN
  return K_NORMAL


def rows_of(e, t):
  d = e.fetch_table(t)
  out = []
  for i, r in enumerate(d.row_ids):
    out.append((r, {c: d.columns[c][i] for c in d.columns}))
  out.sort(key=lambda x: x[0])
  return out


def reflist(v):
  """Encoded or decoded RefList cell -> list of ints."""
  if not v:
    return []
  if isinstance(v, (list, tuple)):
    v = list(v)
    if v and v[0] == 'L':
      v = v[1:]
    return [int(x) for x in v]
  raise core.TieBroken('unexpected RefList cell %r' % (v,))


def projection(e):
  """The modelled columns of the metadata tables, as plain data (sorted by row id)."""
  P = {}
  P['tables'] = [dict(id=r, name=v['tableId'], primaryView=int(v['primaryViewId'] or 0),
                      summarySource=int(v['summarySourceTable'] or 0), raw=int(v['rawViewSectionRef'] or 0),
                      card=int(v['recordCardViewSectionRef'] or 0)) for r, v in rows_of(e, '_grist_Tables')]
  P['columns'] = [dict(id=r, parent=int(v['parentId'] or 0), kind=col_kind(v['colId']), colId=v['colId'],
                       display=int(v['displayCol'] or 0), visible=int(v['visibleCol'] or 0),
                       summarySource=int(v['summarySourceCol'] or 0), rules=reflist(v['rules']),
                       pos=v['parentPos'], formula=v['formula'], type=v['type'])
                  for r, v in rows_of(e, '_grist_Tables_column')]
  P['views'] = [r for r, v in rows_of(e, '_grist_Views')]
  P['sections'] = [dict(id=r, table=int(v['tableRef'] or 0), view=int(v['parentId'] or 0), rules=reflist(v['rules']),
                        custom=bool(v['layoutSpec'] or v['options'] or v['theme']),
                        cust=(v['layoutSpec'], v['options'], v['theme']),
                        key=v['parentKey'], link=int(v['linkSrcSectionRef'] or 0),
                        linkSrcCol=int(v['linkSrcColRef'] or 0), linkTargetCol=int(v['linkTargetColRef'] or 0))
                   for r, v in rows_of(e, '_grist_Views_section')]
  P['fields'] = [dict(id=r, section=int(v['parentId'] or 0), col=int(v['colRef'] or 0),
                      display=int(v['displayCol'] or 0), visible=int(v['visibleCol'] or 0),
                      rules=reflist(v['rules']), wopt=bool(v['widgetOptions']), pos=v['parentPos'])
                 for r, v in rows_of(e, '_grist_Views_section_field')]
  P['tabbar'] = [dict(id=r, view=int(v['viewRef'] or 0)) for r, v in rows_of(e, '_grist_TabBar')]
  P['pages'] = [dict(id=r, view=int(v['viewRef'] or 0)) for r, v in rows_of(e, '_grist_Pages')]
  P['schema'] = sorted(t for t in e.tables if not t.startswith('_grist_'))
  return P


def refs_resolve(P):
  """The property's conjunction (transliteration of MetaCascade.RefsResolve); returns a list of issues."""
  iss = []
  T = {t['id']: t for t in P['tables']}
  C = {c['id']: c for c in P['columns']}
  V = set(P['views'])
  S = {s['id']: s for s in P['sections']}
  F = {f['id']: f for f in P['fields']}
  for c in P['columns']:
    if c['parent'] not in T:
      iss.append(('col.parentId', c['id'], c['parent']))
    for k in ('display', 'visible', 'summarySource'):
      if c[k] and c[k] not in C:
        iss.append(('col.' + k, c['id'], c[k]))
    for r in c['rules']:
      if r not in C:
        iss.append(('col.rules', c['id'], r))
  for f in P['fields']:
    if f['section'] not in S:
      iss.append(('field.parentId', f['id'], f['section']))
    elif f['col'] not in C:
      iss.append(('field.colRef', f['id'], f['col']))
    elif C[f['col']]['parent'] != S[f['section']]['table']:
      iss.append(('field.colRef-other-table', f['id'], f['col'], S[f['section']]['table']))
    for k in ('display', 'visible'):
      if f[k] and f[k] not in C:
        iss.append(('field.' + k, f['id'], f[k]))
    for r in f['rules']:
      if r not in C:
        iss.append(('field.rules', f['id'], r))
  for s in P['sections']:
    if s['table'] not in T:
      iss.append(('section.tableRef', s['id'], s['table']))
    if s['view'] and s['view'] not in V:
      iss.append(('section.parentId', s['id'], s['view']))
    for r in s['rules']:
      if r not in C:
        iss.append(('section.rules', s['id'], r))
    for k in ('linkSrcCol', 'linkTargetCol'):
      if s[k] and s[k] not in C:
        iss.append(('section.' + k, s['id'], s[k]))
    if s['link'] and s['link'] not in S:
      iss.append(('section.linkSrcSectionRef', s['id'], s['link']))
  for t in P['tables']:
    if t['raw'] not in S:
      iss.append(('table.rawViewSectionRef', t['id'], t['raw']))
    elif S[t['raw']]['table'] != t['id']:
      iss.append(('table.raw-of-other-table', t['id'], t['raw']))
    if t['card'] and t['card'] not in S:
      iss.append(('table.recordCardViewSectionRef', t['id'], t['card']))
    elif t['card'] and S[t['card']]['table'] != t['id']:
      iss.append(('table.card-of-other-table', t['id'], t['card']))
    if not t['card'] and not t['summarySource']:
      iss.append(('table.no-record-card', t['id']))
    if t['primaryView'] and t['primaryView'] not in V:
      iss.append(('table.primaryViewId', t['id'], t['primaryView']))
    if t['summarySource'] and t['summarySource'] not in T:
      iss.append(('table.summarySourceTable', t['id'], t['summarySource']))
  for b in P['tabbar']:
    if b['view'] not in V:
      iss.append(('tabbar.viewRef', b['id'], b['view']))
  for p in P['pages']:
    if p['view'] not in V:
      iss.append(('page.viewRef', p['id'], p['view']))
  names = [t['name'] for t in P['tables']]
  if sorted(names) != list(P['schema']):
    iss.append(('tables-vs-schema', sorted(names), list(P['schema'])))
  for c in P['columns']:
    if c['kind'] == K_DISPLAY:
      if not any(x['display'] == c['id'] for x in P['columns']) and \
         not any(x['display'] == c['id'] for x in P['fields']):
        iss.append(('unused-display-helper', c['id'], c['colId']))
    elif c['kind'] == K_RULE:
      if not any(c['id'] in x['rules'] for x in P['columns']) and \
         not any(c['id'] in x['rules'] for x in P['fields']):
        iss.append(('unused-rule-helper', c['id'], c['colId']))
    elif c['kind'] == K_ROWRULE:
      if not any(c['id'] in x['rules'] for x in P['sections']):
        iss.append(('unused-rowrule-helper', c['id'], c['colId']))
  return iss


# ------------------------------------------------------------------------------------------------
# history generator: the shared one, with the metadata operations of this property over-represented

WEIGHTS = {
  'addrec': 2, 'updrec': 1, 'rmrec': 1, 'tempids': 0, 'addcol': 5, 'addformula': 2, 'rmcol': 8, 'rencol': 1,
  'modtype': 2, 'modformula': 0, 'toformula': 1, 'todata': 1, 'addtable': 4, 'rmtable': 4, 'rentable': 1,
  'addref': 4, 'addreverse': 1, 'summary': 5, 'summaryformula': 2, 'updsummary': 4, 'label': 0,
  'renamechoices': 0, 'upsert': 0, 'invalid': 1,
  # own kinds
  'addview': 3, 'newsection': 5, 'summaryinview': 4, 'rmsection': 6, 'rmview': 4, 'rmpage': 2, 'rmtab': 1,
  'movepage': 2, 'displaycol': 5, 'displayfield': 4, 'cleardisplay': 3, 'addrule': 5, 'droprule': 3,
  'rmfield': 3, 'addfield': 2, 'customsection': 1, 'detach': 1, 'rmhelper': 1, 'rmtablerec': 1, 'rmcolrec': 2,
  'hiddencol': 1, 'linksection': 2, 'dupfield': 0,
}
RAW_WRITES = ('linksection', 'addfield', 'dupfield', 'droprule', 'movepage')


def make_gen(rng, weights=None):
  from harness import histgen

  class Gen(histgen.HistGen):
    def gen(self, kind, meta):
      r = self.r
      P = projection(meta.e)
      tabs = P['tables']
      secs = P['sections']
      cols = P['columns']
      flds = P['fields']
      tname = {t['id']: t['name'] for t in tabs}
      vis = [c for c in cols if c['kind'] == K_NORMAL]
      raws = set(t['raw'] for t in tabs) | set(t['card'] for t in tabs)
      if kind == 'addview':
        t = r.choice(tabs)
        return ['AddView', t['name'], r.choice(['raw_data', 'empty']), r.choice(['V', 'New page'])]
      if kind == 'newsection':
        t = r.choice(tabs)
        view = r.choice(P['views'] + [0]) if P['views'] else 0
        return ['CreateViewSection', r.choice([t['id'], t['id'], t['id'], 0]), view,
                r.choice(['record', 'record', 'single', 'detail', 'chart', 'form', 'custom']), None,
                r.choice([None, 'Fresh'])]
      if kind == 'summaryinview':
        src = [t for t in tabs if not t['summarySource']]
        if not src or not P['views']:
          return None
        t = r.choice(src)
        cs = [c for c in vis if c['parent'] == t['id']]
        gb = r.sample(cs, min(len(cs), r.randint(0, 2)))
        return ['CreateViewSection', t['id'], r.choice(P['views']), 'record', [c['id'] for c in gb], None]
      if kind == 'rmsection':
        if not secs:
          return None
        pool = [s for s in secs if s['id'] not in raws] or secs
        if r.random() < 0.1:
          pool = secs
        s = r.choice(pool)
        return r.choice([['RemoveViewSection', s['id']], ['RemoveRecord', '_grist_Views_section', s['id']]])
      if kind == 'rmview':
        if not P['views']:
          return None
        v = r.choice(P['views'])
        return r.choice([['RemoveView', v], ['RemoveRecord', '_grist_Views', v]])
      if kind == 'rmpage':
        if not P['pages']:
          return None
        k = r.randint(1, min(2, len(P['pages'])))
        return ['BulkRemoveRecord', '_grist_Pages', [p['id'] for p in r.sample(P['pages'], k)]]
      if kind == 'rmtab':
        if not P['tabbar']:
          return None
        return ['RemoveRecord', '_grist_TabBar', r.choice(P['tabbar'])['id']]
      if kind == 'movepage':
        if not P['pages']:
          return None
        return ['UpdateRecord', '_grist_Pages', r.choice(P['pages'])['id'],
                {'indentation': r.randint(0, 2), 'pagePos': r.choice([0.5, 1.5, 2.5, 10])}]
      if kind in ('displaycol', 'cleardisplay'):
        cand = [c for c in vis]
        if not cand:
          return None
        c = r.choice(cand)
        others = [x for x in vis if x['parent'] == c['parent']]
        f = '' if kind == 'cleardisplay' else r.choice(['$%s' % r.choice(others)['colId'], '$id', 'rec.id + 1'])
        if kind == 'cleardisplay':
          users = [x for x in vis if x['display']]
          if users:
            c = r.choice(users)
        return ['SetDisplayFormula', tname[c['parent']], None, c['id'], f]
      if kind == 'displayfield':
        cand = [f for f in flds if f['col']]
        if not cand:
          return None
        f = r.choice(cand)
        C = {c['id']: c for c in cols}
        if f['col'] not in C:
          return None
        c = C[f['col']]
        formula = r.choice(['$id', '$%s' % c['colId'], 'rec.id + 1', ''])
        return ['SetDisplayFormula', tname.get(c['parent'], 'T'), f['id'], None, formula]
      if kind == 'addrule':
        t = r.choice(tabs)
        which = r.choice(['col', 'field', 'row'])
        if which == 'col':
          cs = [c for c in vis if c['parent'] == t['id']]
          if cs:
            return ['AddEmptyRule', t['name'], 0, r.choice(cs)['id']]
        if which == 'field':
          S = {s['id']: s for s in secs}
          fs = [f for f in flds if f['section'] in S and S[f['section']]['table'] == t['id']]
          if fs:
            return ['AddEmptyRule', t['name'], r.choice(fs)['id'], 0]
        return ['AddEmptyRule', t['name'], 0, 0]
      if kind == 'droprule':
        owners = [('_grist_Tables_column', c) for c in cols if c['rules']] + \
                 [('_grist_Views_section_field', f) for f in flds if f['rules']] + \
                 [('_grist_Views_section', s) for s in secs if s['rules']]
        if not owners:
          return None
        tb, o = r.choice(owners)
        rules = list(o['rules'])
        rules.pop(r.randrange(len(rules)))
        return ['UpdateRecord', tb, o['id'], {'rules': ['L'] + rules if rules else None}]
      if kind == 'rmfield':
        if not flds:
          return None
        S = {s['id']: s for s in secs}
        pool = [f for f in flds if f['section'] not in set(t['raw'] for t in tabs)] or flds
        if r.random() < 0.1:
          pool = flds
        k = r.randint(1, min(2, len(pool)))
        return ['BulkRemoveRecord', '_grist_Views_section_field', [f['id'] for f in r.sample(pool, k)]]
      if kind in ('addfield', 'dupfield'):
        if not secs:
          return None
        s = r.choice(secs)
        shown = set(f['col'] for f in flds if f['section'] == s['id'])
        cs = [c for c in vis if c['parent'] == s['table'] and (kind == 'dupfield') == (c['id'] in shown)]
        if not cs:
          return None
        return ['AddRecord', '_grist_Views_section_field', None, {'parentId': s['id'], 'colRef': r.choice(cs)['id']}]
      if kind == 'customsection':
        if not secs:
          return None
        return ['UpdateRecord', '_grist_Views_section', r.choice(secs)['id'],
                r.choice([{'options': '{"x": 1}'}, {'theme': 'compact'}, {'layoutSpec': '{"a":1}'}])]
      if kind == 'detach':
        ss = [s for s in secs if s['id'] not in raws and
              any(t['id'] == s['table'] and t['summarySource'] for t in tabs)]
        if not ss:
          return None
        return ['DetachSummaryViewSection', r.choice(ss)['id']]
      if kind == 'rmhelper':
        hs = [c for c in cols if c['kind'] in (K_DISPLAY, K_RULE, K_ROWRULE)]
        if not hs:
          return None
        c = r.choice(hs)
        return ['RemoveColumn', tname[c['parent']], c['colId']]
      if kind == 'rmtablerec':
        if len(tabs) < 2:
          return None
        k = r.randint(1, 2)
        return ['BulkRemoveRecord', '_grist_Tables', [t['id'] for t in r.sample(tabs, k)]]
      if kind == 'rmcolrec':
        if not vis:
          return None
        k = r.randint(1, min(3, len(vis)))
        return ['BulkRemoveRecord', '_grist_Tables_column', [c['id'] for c in r.sample(vis, k)]]
      if kind == 'hiddencol':
        t = r.choice(tabs)
        return ['AddHiddenColumn', t['name'], r.choice(['gristHelper_Display', 'gristHelper_ConditionalRule', 'hid',
                                                        'gristHelper_Transform']),
                {'type': 'Any', 'isFormula': True, 'formula': r.choice(['', '$id'])}]
      if kind == 'linksection':
        ss = [s for s in secs if s['view']]
        if len(ss) < 2:
          return None
        a, b = r.sample(ss, 2)
        ca = [c for c in vis if c['parent'] == a['table']]
        cb = [c for c in vis if c['parent'] == b['table']]
        return ['UpdateRecord', '_grist_Views_section', a['id'],
                {'linkSrcSectionRef': b['id'], 'linkSrcColRef': r.choice(cb)['id'] if cb and r.random() < 0.5 else 0,
                 'linkTargetColRef': r.choice(ca)['id'] if ca and r.random() < 0.5 else 0}]
      if not tabs:
        return None if kind != 'addtable' else histgen.HistGen.gen(self, kind, meta)
      return histgen.HistGen.gen(self, kind, meta)

    def bundle(self, e, max_len=3):
      # actions that write references straight into metadata records are generated against the state they run in
      n = min(max_len, self.r.choice([1, 1, 1, 2, 2, 3]))
      out = [self.action(e)]
      for _ in range(n - 1):
        out.append(self.action(e, exclude=RAW_WRITES))
      return out

  w = dict(WEIGHTS)
  if weights:
    w.update(weights)
  return Gen(rng, weights=w, max_tables=4)


# ------------------------------------------------------------------------------------------------
# Coq literals of a projection (MetaCascade.meta)

class Names(object):
  """Table ids (strings) as integer tokens, stable within one check run."""
  def __init__(self):
    self.tok = {}

  def __call__(self, name):
    if name not in self.tok:
      self.tok[name] = len(self.tok) + 1
    return self.tok[name]


def ref_target(P, typ):
  """Row id of the table a Ref:/RefList: type points at (0: not a reference type or no such table)."""
  if not isinstance(typ, str) or ':' not in typ:
    return 0
  base, tgt = typ.split(':', 1)
  if base not in ('Ref', 'RefList'):
    return 0
  for t in P['tables']:
    if t['name'] == tgt:
      return t['id']
  return 0


def coq_meta(P, names):
  z, zl, bl = core.zlit, core.zlist, core.boollit
  ts = ['mkT %s %s %s %s %s %s' % (z(t['id']), z(names(t['name'])), z(t['primaryView']), z(t['summarySource']),
                                   z(t['raw']), z(t['card'])) for t in P['tables']]
  cs = ['mkC %s %s %s %s %s %s %s %s' % (z(c['id']), z(c['parent']), z(c['kind']), z(c['display']), z(c['visible']),
                                        z(c['summarySource']), zl(c['rules']), z(ref_target(P, c['type'])))
        for c in P['columns']]
  ss = ['mkS %s %s %s %s %s' % (z(s['id']), z(s['table']), z(s['view']), zl(s['rules']), bl(s['custom']))
        for s in P['sections']]
  fs = ['mkF %s %s %s %s %s %s %s' % (z(f['id']), z(f['section']), z(f['col']), z(f['display']), z(f['visible']),
                                     zl(f['rules']), bl(f['wopt'])) for f in P['fields']]
  pr = lambda l: core.coq_list(['(%s, %s)' % (z(b['id']), z(b['view'])) for b in l])
  return '(mkM %s %s %s %s %s %s %s %s)' % (
    core.coq_list(ts), core.coq_list(cs), zl(P['views']), core.coq_list(ss), core.coq_list(fs),
    pr(P['tabbar']), pr(P['pages']), zl([names(n) for n in P['schema']]))


class RG(object):
  """A regroup descriptor (MetaCascade.regroup) read off one recorded update_summary_section call."""
  def __init__(self, d):
    self.d = d

  def __repr__(self):
    return 'RG(%r)' % (self.d,)


def coq_rg(d):
  z, zl = core.zlit, core.zlist
  remap = core.coq_list(['(%s, %s)' % (z(a), z(b)) for a, b in d['remap']])
  return '(mkRG %s %s %s %s %s %s %s %s %s %s %s)' % (
    z(d['sec']), z(d['target']), z(d['name']), z(d['src']), zl(d['gb']), zl(d['gbkinds']), zl(d['fkinds']),
    zl(d['added']), zl(d['dels']), remap, zl(d['new']))


def regroup_of(g, names):
  """Descriptor of one update_summary_section call from the projections before and after it (None: the
  call did something the model does not describe)."""
  pre, post = g['pre'], g['post']
  sec = g['sec']
  ps = [s for s in post['sections'] if s['id'] == sec]
  if len(ps) != 1:
    return None
  target = ps[0]['table']
  pre_t = set(t['id'] for t in pre['tables'])
  pre_c = set(c['id'] for c in pre['columns'])
  newcols = [c for c in post['columns'] if c['id'] not in pre_c]
  if any(c['parent'] != target or c['kind'] in (K_DISPLAY, K_RULE, K_ROWRULE) for c in newcols):
    return None
  d = dict(sec=sec, src=g['src'], gb=list(g['gb']), name=0, gbkinds=[], fkinds=[], added=[])
  if target in pre_t:
    d['target'] = target
    d['added'] = [c['kind'] for c in newcols]
  else:
    tr = [t for t in post['tables'] if t['id'] == target]
    if len(tr) != 1 or len(newcols) < len(g['gb']):
      return None
    d['target'] = 0
    d['name'] = names(tr[0]['name'])
    d['gbkinds'] = [c['kind'] for c in newcols[:len(g['gb'])]]
    d['fkinds'] = [c['kind'] for c in newcols[len(g['gb']):]]
  pf = {f['id']: f for f in pre['fields'] if f['section'] == sec}
  qf = {f['id']: f for f in post['fields'] if f['section'] == sec}
  d['dels'] = sorted(i for i in pf if i not in qf)
  d['remap'] = sorted((i, qf[i]['col']) for i in pf if i in qf and qf[i]['col'] != pf[i]['col'])
  d['new'] = [qf[i]['col'] for i in sorted(qf) if i not in pf]
  return RG(d)


def coq_op(o):
  """o is a tuple (constructor, args...) with ints, bools and int lists."""
  def lit(a):
    if isinstance(a, bool):
      return core.boollit(a)
    if isinstance(a, int):
      return core.zlit(a)
    if isinstance(a, RG):
      return coq_rg(a.d)
    if isinstance(a, (list, tuple)):
      if a and isinstance(a[0], RG):
        return core.coq_list([coq_rg(x.d) for x in a])
      return core.zlist(a)
    raise ValueError(a)
  if len(o) == 1:
    return o[0]
  return '(%s %s)' % (o[0], ' '.join(lit(a) for a in o[1:]))


# ------------------------------------------------------------------------------------------------
# recording a bundle: the projection before every user action, after the last one (before the auto-removals)
# and at the end

class Recorder(object):
  def __init__(self):
    import engine
    import docmodel
    for cls, name in ((engine.Engine, '_apply_one_user_action'), (docmodel.DocModel, 'apply_auto_removes')):
      if not hasattr(cls, name):
        raise core.TieBroken('instrumentation point %s.%s is gone' % (cls.__name__, name))
    self.engine, self.docmodel = engine, docmodel
    self.snaps = None
    self.mid = None
    rec = self
    self.o_ua = engine.Engine._apply_one_user_action
    self.o_ar = docmodel.DocModel.apply_auto_removes

    def _apply_one_user_action(eng, ua):
      if rec.snaps is not None:
        rec.snaps.append(projection(eng))
      return rec.o_ua(eng, ua)

    def apply_auto_removes(dm):
      if rec.snaps is not None and rec.mid is None:
        rec.mid = projection(dm._engine)
      return rec.o_ar(dm)

    import summary
    if not hasattr(summary.SummaryActions, 'update_summary_section'):
      raise core.TieBroken('instrumentation point summary.SummaryActions.update_summary_section is gone')
    self.summary = summary
    self.o_us = summary.SummaryActions.update_summary_section
    self.regroups = None

    def update_summary_section(sa, view_section, source_table, source_groupby_columns):
      if rec.snaps is None:
        return rec.o_us(sa, view_section, source_table, source_groupby_columns)
      eng = sa.useractions._engine
      item = dict(action=len(rec.snaps) - 1, sec=int(view_section.id), src=int(source_table.id),
                  gb=[int(c.id) for c in source_groupby_columns], pre=projection(eng))
      ret = rec.o_us(sa, view_section, source_table, source_groupby_columns)
      item['post'] = projection(eng)
      rec.regroups.append(item)
      return ret

    engine.Engine._apply_one_user_action = _apply_one_user_action
    docmodel.DocModel.apply_auto_removes = apply_auto_removes
    summary.SummaryActions.update_summary_section = update_summary_section

  def uninstall(self):
    self.engine.Engine._apply_one_user_action = self.o_ua
    self.docmodel.DocModel.apply_auto_removes = self.o_ar
    self.summary.SummaryActions.update_summary_section = self.o_us

  def run(self, e, bundle):
    """Applies the bundle; returns (out, snaps, mid, final) -- snaps[i] is the state before action i."""
    self.snaps, self.mid, self.regroups = [], None, []
    try:
      out = G().apply(e, bundle)
      snaps, mid = self.snaps, self.mid
      self.last_regroups = self.regroups
    finally:
      self.snaps, self.mid, self.regroups = None, None, None
    final = projection(e)
    if len(snaps) != len(bundle) or mid is None:
      raise core.TieBroken('recorder saw %d user actions for a bundle of %d (mid %s)' %
                           (len(snaps), len(bundle), mid is not None))
    return out, snaps, mid, final


# ------------------------------------------------------------------------------------------------
# user action -> model op.  P: projection before the action, Q: projection after it (before auto-removals).
# Parameters the model treats as environment (final table ids, column kinds decided by the sanitised column
# ids, whether an equal display formula already exists) are read here.

UNMODELLED = ('OUnmodelled',)
NOMETA = ('ONoMeta',)


def next_id(ids):
  return max(ids) + 1 if ids else 1


def translate(a, P, Q, names, rgs=()):
  name = a[0]
  T = {t['name']: t for t in P['tables']}
  if rgs:
    ds = [regroup_of(g, names) for g in rgs]
    if any(d is None for d in ds):
      return UNMODELLED
    if name == 'UpdateSummaryViewSection' and len(ds) == 1:
      return ('ORegroup', ds[0])
    cols = None
    if name == 'RemoveColumn' and a[1] in T:
      cs = [c for c in P['columns'] if c['parent'] == T[a[1]]['id'] and c['colId'] == a[2]]
      cols = [cs[0]['id']] if len(cs) == 1 else None
    elif name in ('RemoveRecord', 'BulkRemoveRecord') and a[1] == '_grist_Tables_column':
      cols = [a[2]] if name == 'RemoveRecord' else list(a[2])
    if cols is None or not all(isinstance(i, int) and i > 0 for i in cols):
      return UNMODELLED
    return ('ORemoveColumnsG', cols, ds)
  if name == 'CreateViewSection' and a[4] is not None:
    tref, vref, gb = a[1], a[2], a[4]
    if not (isinstance(tref, int) and isinstance(vref, int) and all(isinstance(i, int) for i in gb)):
      return UNMODELLED
    tid = next_id([t['id'] for t in P['tables']])
    new = [t for t in Q['tables'] if t['id'] == tid and t['summarySource'] == tref]
    if len(new) != 1:
      return UNMODELLED
    newcols = [c for c in Q['columns'] if c['parent'] == tid]
    if len(newcols) < len(gb):
      return UNMODELLED
    return ('OCreateSummary', tref, vref, list(gb), names(new[0]['name']),
            [c['kind'] for c in newcols[:len(gb)]], [c['kind'] for c in newcols[len(gb):]])
  if name in ('AddTable', 'AddEmptyTable', 'AddRawTable'):
    tid = next_id([t['id'] for t in P['tables']])
    new = [t for t in Q['tables'] if t['id'] == tid]
    if len(new) != 1:
      return UNMODELLED
    cols = [c for c in Q['columns'] if c['parent'] == tid and c['id'] >= next_id([c['id'] for c in P['columns']])]
    if any(ref_target(Q, c['type']) or c['type'].split(':')[0] in ('Ref', 'RefList') for c in cols):
      return UNMODELLED
    if not cols or cols[0]['colId'] != 'manualSort':
      return UNMODELLED
    return ('OAddTable', names(new[0]['name']), [c['kind'] for c in cols[1:]], name != 'AddRawTable')
  if name == 'RemoveTable':
    return ('ORemoveTables', [T[a[1]]['id']]) if a[1] in T else UNMODELLED
  if name in ('RemoveRecord', 'BulkRemoveRecord') and a[1] in META_TABLES:
    ids = [a[2]] if name == 'RemoveRecord' else list(a[2])
    if not all(isinstance(i, int) and i > 0 for i in ids):
      return UNMODELLED
    con = {'_grist_Tables': 'ORemoveTables', '_grist_Tables_column': 'ORemoveColumns', '_grist_Views': 'ORemoveViews',
           '_grist_Views_section': 'ORemoveSections', '_grist_Views_section_field': 'ORemoveFields',
           '_grist_TabBar': 'ORemoveTabs', '_grist_Pages': 'ORemovePages'}[a[1]]
    return (con, ids)
  if name in ('AddColumn', 'AddHiddenColumn'):
    if a[1] not in T:
      return UNMODELLED
    info = a[3] or {}
    if any(k in info for k in ('visibleCol', 'rules', 'displayCol', 'summarySourceCol')) or T[a[1]].get('onDemand'):
      return UNMODELLED
    cid = next_id([c['id'] for c in P['columns']])
    new = [c for c in Q['columns'] if c['id'] == cid]
    if len(new) != 1:
      return UNMODELLED
    reft = ref_target(Q, new[0]['type'])
    if new[0]['type'].split(':')[0] in ('Ref', 'RefList') and not reft:
      return UNMODELLED
    transform = new[0]['colId'].startswith(('gristHelper_Transform', 'gristHelper_Converted')) or \
        (a[2] or '').startswith(('gristHelper_Transform', 'gristHelper_Converted'))
    con = 'OAddHiddenColumn' if (name == 'AddHiddenColumn' or transform) else 'OAddColumn'
    return (con, T[a[1]]['id'], new[0]['kind'], reft)
  if name == 'RemoveColumn':
    if a[1] not in T:
      return UNMODELLED
    cs = [c for c in P['columns'] if c['parent'] == T[a[1]]['id'] and c['colId'] == a[2]]
    return ('ORemoveColumns', [cs[0]['id']]) if len(cs) == 1 else UNMODELLED
  if name == 'AddView':
    if a[1].startswith('GristHidden_'):
      return UNMODELLED
    return ('OAddView', T[a[1]]['id'] if a[1] in T else 0, a[2] == 'raw_data')
  if name == 'CreateViewSection':
    tref, vref, typ, gb = a[1], a[2], a[3], a[4]
    if gb is not None or typ in ('chart', 'form') or not isinstance(tref, int) or not isinstance(vref, int):
      return UNMODELLED
    newname = 0
    if tref == 0:
      tid = next_id([t['id'] for t in P['tables']])
      new = [t for t in Q['tables'] if t['id'] == tid]
      if len(new) != 1:
        return UNMODELLED
      newname = names(new[0]['name'])
    return ('OCreateSection', tref, vref, typ in ('single', 'detail'), newname)
  if name == 'RemoveViewSection':
    return ('ORemoveSections', [a[1]])
  if name == 'RemoveView':
    return ('ORemoveViews', [a[1]])
  if name == 'SetDisplayFormula':
    if a[1] not in T:
      return UNMODELLED
    tid = T[a[1]]['id']
    fld, col, formula = a[2] or 0, a[3] or 0, a[4]
    if isinstance(col, str):
      cs = [c for c in P['columns'] if c['parent'] == tid and c['colId'] == col]
      if len(cs) != 1:
        return UNMODELLED
      col = cs[0]['id']
    same = [c['id'] for c in P['columns'] if c['parent'] == tid and c['formula'] == formula and
            c['colId'].startswith('gristHelper_Display')]
    return ('OSetDisplay', tid, fld, col, bool(formula), same[0] if same else 0)
  if name == 'AddEmptyRule':
    if a[1] not in T:
      return UNMODELLED
    return ('OAddRule', T[a[1]]['id'], a[2] or 0, a[3] or 0)
  if name == 'UpdateRecord' and a[1] in META_TABLES:
    keys = set(a[3])
    if keys == {'rules'} and a[1] in ('_grist_Tables_column', '_grist_Views_section_field', '_grist_Views_section'):
      owner = {'_grist_Tables_column': 0, '_grist_Views_section_field': 1, '_grist_Views_section': 2}[a[1]]
      return ('OSetRules', owner, a[2], reflist(a[3]['rules']))
    if a[1] == '_grist_Views_section' and keys and keys <= {'options', 'theme', 'layoutSpec'}:
      ss = [s for s in P['sections'] if s['id'] == a[2]]
      if len(ss) != 1:
        return ('OSetCustom', a[2], True)
      cur = dict(zip(('layoutSpec', 'options', 'theme'), ss[0]['cust']))
      cur.update(a[3])
      return ('OSetCustom', a[2], bool(cur['layoutSpec'] or cur['options'] or cur['theme']))
    if a[1] == '_grist_Pages' and keys <= {'indentation', 'pagePos'}:
      return NOMETA
    return UNMODELLED
  if name == 'AddRecord' and a[1] == '_grist_Views_section_field':
    if set(a[3]) == {'parentId', 'colRef'} and a[2] is None:
      return ('OAddField', a[3]['parentId'], a[3]['colRef'])
    return UNMODELLED
  if name == 'RenameTable':
    if a[1] not in T:
      return UNMODELLED
    new = [t for t in Q['tables'] if t['id'] == T[a[1]]['id']]
    return ('ORenameTable', T[a[1]]['id'], names(new[0]['name'])) if len(new) == 1 else UNMODELLED
  if name in ('AddRecord', 'BulkAddRecord', 'UpdateRecord', 'BulkUpdateRecord', 'RemoveRecord', 'BulkRemoveRecord',
              'AddOrUpdateRecord', 'BulkAddOrUpdateRecord', 'ReplaceTableData') and not a[1].startswith('_grist_'):
    return NOMETA
  if name == 'Calculate':
    return NOMETA
  if name == 'ModifyColumn' and set(a[3] or {}) <= {'formula'}:
    return NOMETA
  return UNMODELLED


# ------------------------------------------------------------------------------------------------
# histories -> cases

IMPORTS = ['Grist.Model.MetaCascade']


def run_histories(ctx, nhist, nb, weights=None, seed_base=0):
  """Random histories on the real engine; one record per successful bundle."""
  import random
  g = G()
  rec = Recorder()
  out = []
  try:
    for h in range(nhist):
      rng = random.Random(ctx.rng.getrandbits(48))
      gen = make_gen(rng, weights)
      e, _ = g.new_doc()
      gen.init_doc(e)
      hist = []
      for b in range(nb):
        bundle = gen.bundle(e)
        try:
          _, snaps, mid, final = rec.run(e, copy.deepcopy(bundle))
        except core.TieBroken:
          raise
        except Exception:
          ctx.bump('bundles failed')
          g.clean(e)
          continue
        gen.after_bundle(e)
        hist.append(bundle)
        out.append(dict(history=list(hist), bundle=bundle, snaps=snaps, mid=mid, final=final,
                        regroups=rec.last_regroups))
  finally:
    rec.uninstall()
  return out


def case_terms(r, names):
  """Coq terms of one recorded bundle: (pre, ops, mid, final, python verdict of the oracle on final)."""
  snaps = r['snaps'] + [r['mid']]
  ops = [translate(a, snaps[i], snaps[i + 1], names, [g for g in r.get('regroups', ()) if g['action'] == i])
         for i, a in enumerate(r['bundle'])]
  r['ops'] = ops
  verdict = not [i for i in refs_resolve(r['final']) if i[0] not in EXTRA_KINDS]
  return '(%s, %s, %s, %s, %s)' % (coq_meta(snaps[0], names), core.coq_list([coq_op(o) for o in ops]),
                                  coq_meta(r['mid'], names), coq_meta(r['final'], names), core.boollit(verdict))


# issues the Python oracle reports beyond the Coq boolean (columns the model does not carry)
EXTRA_KINDS = ('table.no-record-card', 'section.linkSrcCol', 'section.linkTargetCol', 'section.linkSrcSectionRef')

CHECK_STEPS = ('fun c => match c with (pre, ops, mid, fin, v) => '
               'match steps ops pre with Ok m => meta_eqb m mid | Unmodelled => true | Fail => false end end')
CHECK_STEPS_OK = 'fun c => match c with (pre, ops, mid, fin, v) => res_ok (steps ops pre) end'
CHECK_AUTO = ('fun c => match c with (pre, ops, mid, fin, v) => '
              'match auto_fix (fuel_of mid) mid with Ok m => meta_eqb m fin | Unmodelled => true | Fail => false end end')
CHECK_AUTO_OK = 'fun c => match c with (pre, ops, mid, fin, v) => res_ok (auto_fix (fuel_of mid) mid) end'
CHECK_ORACLE = 'fun c => match c with (pre, ops, mid, fin, v) => Bool.eqb (RefsResolve fin) v end'


# ==== end ====
