"""C03 -- Redo after undo reproduces the post-bundle state (kernel K1; ApplyDocActions replays the stored actions)."""
import copy
import json

from harness import core
from harness.props import c01 as _c01

ID = 'C03'
TITLE = 'Redo after undo reproduces the post-bundle state'
PROPS = ['Props/C03']
PROP = 'C03'
RULE = _c01.RULE + '; for C03 the stored list of every recorded bundle is also replayed by the model after the model-level undo'
TRUSTED = _c01.TRUSTED
ASSUMPTIONS = ['ValLaws: proved for the encoded-value model of the tie (see C01; C03_redo_encoded_values_partial)',
               'proved class (C03_redo_stage3_partial, computable side conditions bundle_ok3, see C01; contains the class '
               'bundle_ok2 of C03_redo_docs_calcs_partial): doc actions, calc deltas, renames after calc deltas, any lossless '
               'doc action that keeps off the cells with a pending delta, removals of records / data columns / tables with '
               'pending deltas, the ModifyColumn / conversion delta / per-column flush triples of '
               'doModifyColumn; the stored list is then the doc actions in order, the stored update of every per-column flush '
               'right after its ModifyColumn, and one update per recalculated column at the end',
               'NOT proved: writes to cells with a pending delta, lossy doc actions; covered by the event-trace tie (same stored list as the engine, replayed by '
               'the model to the same tables) and by the redo oracle on the implementation',
               'formula values after redo that are not written by a stored action rely on recalculation (C05)']
TECHNIQUE = _c01.TECHNIQUE.replace('undo / whole-history undo oracles', 'undo-then-redo oracle')
LEVEL_TEXT = ('Kernel-checked for all documents and all bundles passing the computable side conditions bundle_ok3 (doc actions, calc '
              'deltas, renames after calc deltas, doModifyColumn triples incl. type changes, see C01): after the undo, replaying the stored list gives a document equivalent (tables, '
              'schema, row ids, cells up to encoding) to the one the bundle produced; replay of any action list is a congruence '
              'for document equivalence. Model compared with the running engine on recorded event traces; undo-then-redo '
              'oracle on the implementation on every run.')
LEVEL_NOTE = ('kernel strength; of stage 3, renames and the per-column flushes of doModifyColumn are proved, doc actions that keep '
              'off the pending cells and removals of cells with a pending delta; writes to such cells and lossy actions are _partial (trace refinement + oracle only).')
PROOF_TIMEOUT = 900


def regenerate(ctx):
  """coq/gen/DocActions_gen.v from /repo: the effect programs of docactions.py and the skeletons of the K1 glue; the pinned
  rest (value computations of docactions.py, Engine._recompute_step) is compared by normalised AST hash.  Fail closed."""
  from harness import da2v
  da2v.regenerate(ctx)


def correspond(ctx):
  K = _c01._k1()
  res = K.traced_run(ctx, *_c01.sizes(ctx))
  ctx._k1 = res
  ctx.extra['k1_stats'] = res['stats']
  for p in res['problems'][:5]:
    ctx.broken('instrumentation:K1', json.dumps(p, default=repr)[:800])
  hard = K.B_ACCEPT | K.B_STORED | K.B_STATE
  broken_kinds = set()
  for meta, code in zip(res['metas'], res['codes']):
    ctx.count(('trace', json.dumps(meta['bundle'], default=repr)), nontrivial=meta['n_events'] > 0,
              kind='pending-structure' if meta['pending'] else ('calc' if 'calc' in meta['kinds'] else 'doc-only'))
    if code & hard:
      broken_kinds.update(meta['kinds'])
      bits = [n for b, n in ((1, 'model rejects an event'), (4, 'final stored list differs'), (16, 'final tables differ'))
              if code & b]
      ctx.broken('correspondence:K1 model vs engine trace (%s)' % ', '.join(bits),
                 json.dumps({'history': meta['history'], 'bundle': meta['bundle']}, default=repr)[:1500])
    ctx.bump('theorem-hypotheses-hold' if not code & K.B_NOTHM else 'outside-proved-class')
    if not code & K.B_NOTHM and code & K.B_NOTHM2:
      ctx.bump('theorem-hypotheses-hold:stage3-only')
    if not code & K.B_NOTHM and code & K.B_MREDO and not code & K.B_MUNDO:
      ctx.broken('theorem contradicted on a recorded trace', json.dumps({'bundle': meta['bundle']}, default=repr)[:800])
    if code & K.B_MREDO:
      eng = [i for i in res['issues'] if i['replay'].get('bundle') == meta['bundle']]
      if not eng and 'ReplaceTableData' not in meta['kinds'] and code & K.B_MREDO_DATA:
        ctx.broken('correspondence:model redo replay fails on data cells where the engine redo succeeds',
                   json.dumps({'history': meta['history'], 'bundle': meta['bundle']}, default=repr)[:1500])
      ctx.bump('model-redo-replay-fails')
  if broken_kinds:
    # the tie broke: look for a concrete failing input around the kinds of doc actions of the disagreeing bundles
    for kind, what, rep in K.focused_search(broken_kinds, PROP):
      ctx.violation(kind, what, rep)
  for s in res['samples'][:3]:
    ctx.samples.append(s)


def search(ctx):
  K = _c01._k1()
  from harness import histrun
  # corpus, run first: the witnesses of the defects that were repaired in /repo (kind 'fixed' in known_findings.json);
  # if one fails again it is a plain VIOLATION (fixed entries suppress nothing)
  for k in core.load_known():
    if k['property'] == PROP and k.get('kind') == 'fixed' and k.get('witness'):
      desc = K.replay_witness(k['witness'], PROP, ctx)
      ctx.count(('corpus', k['id']), nontrivial=True, kind='corpus-witness')
      if desc:
        ctx.violation(k['witness'].get('kind') or 'regression', 'regression of %s (%s): %s' % (k['id'], k.get('commit'), desc),
                      k['witness'])
  # fixed templates, always run: value-dependent (counter) trigger formulas read by a formula column whose id sorts
  # before / after them; edits and adds of the dependency, an explicit value for the trigger cell, a removed row
  for kind, what, rep in K.template_search(PROP):
    ctx.count(('template', kind), nontrivial=True, kind='template')
    ctx.violation(kind, what, rep)
  res = getattr(ctx, '_k1', None) or K.traced_run(ctx, *_c01.sizes(ctx))
  n = 0
  for issue in res['issues']:
    if issue['prop'] == PROP and n < 6:
      n += 1
      _report(ctx, issue)
  shared = histrun.shared_run(ctx.tier, ctx.seed, ctx.n(20, 150), 10)
  ctx.extra['shared_run_stats'] = shared.get('stats')
  for issue in shared['issues']:
    if issue['prop'] == PROP:
      if 'CircularRefError' in issue['what']:
        ctx.bump('shared-run-issue-skipped:cyclic-formula-program')   # history-dependent values (C18/C05), outside C03
        continue
      rep = issue['replay']
      _report(ctx, {'prop': PROP, 'kind': issue['kind'], 'what': issue['what'],
                    'replay': {'history': rep.get('history', []), 'bundle': rep.get('bundle')}})
  ctx.count(('shared_run', ctx.tier, ctx.seed), nontrivial=True, kind='shared-history-run')


def _report(ctx, issue):
  K = _c01._k1()
  rep = issue['replay']
  kind = issue['kind']
  if rep.get('history') is not None and rep.get('bundle') is not None:
    if kind in ('redo-differs', 'redo-differs:formula-cells-only') and issue.get('trace_index') is None:
      probe = {'kind': kind}
      K.refine_with_code(probe, K.code_of_bundle(ctx, rep['history'], rep['bundle']))
      kind = probe['kind']
    try:
      by_code = kind.endswith((':recalculation-after-redo', ':formula-cells-only'))
      h, b = K.shrink_issue(rep['history'], rep['bundle'], PROP,
                               ('redo-differs', 'redo-differs:formula-cells-only') if by_code else kind)
      if by_code:
        issues3, _ = K.check_bundle(K.build(h), copy.deepcopy(b))
        kinds3 = {k3 for p3, k3, _w in issues3 if p3 == PROP}
        if not kinds3 & {'redo-differs', 'redo-differs:formula-cells-only'}:
          h, b = rep['history'], rep['bundle']
      rep = {'history': h, 'bundle': b, 'kind': kind}
    except Exception:
      pass
  ctx.violation(kind, issue['what'], rep)


def replay(ctx, w):
  return _c01._k1().replay_witness(w, PROP, ctx)


def _recalculation(violation, entry):
  return violation.get('kind') in ('redo-differs:recalculation-after-redo', 'redo-differs:formula-cells-only')


MATCHERS = {'recalculation': _recalculation}
