"""C26 -- Temporary row ids resolve consistently within a bundle
(action_summary.update_new_rows_map / translate_new_row_ids, column.Reference[List]Column.prepare_new_values,
 useractions.doBulkAddOrReplace / doBulkUpdateRecord / doBulkRemoveRecord)."""
import copy

from harness import core

ID = 'C26'
TITLE = 'Temporary row ids resolve consistently within a bundle'
PROPS = ['Props/C26']
RULE = ('stream 1 (model + oracle): documents: 3 tables, each with a Ref column R and a RefList column L whose targets are drawn at random (self '
        'references included), 0-4 initial rows with R/L cells; bundles of 1-6 actions drawn from AddRecord/'
        'BulkAddRecord (ids None, temporary negative, explicit fresh or existing), UpdateRecord/BulkUpdateRecord and '
        'RemoveRecord/BulkRemoveRecord whose row ids and R/L values use temporary ids (defined earlier, defined for '
        'another table, re-defined, or never defined), positive, dangling and 0 ids and alt text; plus direct calls of '
        'ActionSummary.update_new_rows_map/translate_new_row_ids on random argument lists; a bundle is non-trivial '
        'when a temporary id defined by an add is used later in the bundle or an unresolved negative id occurs. '
        'About 12% of the bundles name a row added in the bundle both by its temporary and by its allocated id (and repeatedly) '
        'inside one bulk update/removal, the last occurrence restating the stored value, with no other column set. '
        'Stream 2 (oracle only, no model): a document with four two-way reference pairs made by AddReverseColumn '
        '(Ref<->RefList, RefList<->RefList, and both as self pairs); bundles of automatic adds with temporary ids, then '
        'updates/removals, whose forward and reverse reference cells receive temporary ids of rows added in the bundle; '
        'each is compared with the same bundle written with the ids that will be allocated. '
        'Add requests also hold explicit ids in any position and, rarely, 0 or a repeated explicit id (rejected).')
TRUSTED = ['tmp2v translator (harness/tmp2v.py): update_new_rows_map, translate_new_row_ids, _reject_unresolved_temp_ids, '
           'Reference[List]Column.prepare_new_values and the row-id preparation of doBulkUpdateRecord / doBulkRemoveRecord '
           '-> Gallina on every run; validated each run by vm_compute of the generated definitions against the running '
           'functions / the source statements executed as they are',
           'pinned by AST shape, not translated: convert_action_values is called on (table_id, row_ids, columns) right after '
           'the update preparation; the removal clean-up loop asks get_updates_for_removed_target_rows(row_id_set)',
           'the bundle interpreter of Model/TempIds.v around those functions (doc actions on rows and R/L cells, '
           'reference clean-up): hand-written, compared with the running engine on every generated bundle',
           'Model/RowIds.alloc for the ids an add allocates (proved equal to the loops translated from the source, C27)',
           'cell conversion (usertypes convert, C22) is applied by the harness for the small vocabulary used: '
           'int -> int, None -> 0 / None, [] -> None, text -> alt text',
           'engine rollback after an exception (C04) is observed on the implementation, not modelled']
ASSUMPTIONS = ['in an update that names a row more than once only the last occurrence counts (fix 060dc6b): values of the '
               'earlier occurrences are overridden within the action and are not checked',
               'every generated update (except the alias bundles, whose rows all exist) sets column A to a value not stored anywhere, so trim_update_action never drops '
               'a row and an update of a missing row always reaches the doc action\'s assertion',
               'no two-way reference columns and no formula columns in the generated documents']

NT = 3                      # tables T0..T2
TXT = ['foo', 'bar']        # alt-text vocabulary; ROther/LOther tag = index + 1
EXC = {'ValueError': 'PyValueError', 'AssertionError': 'PyAssertionError', 'KeyError': 'PyKeyError',
       'TypeError': 'PyTypeError'}


def tname(t):
  return 'T%d' % t


def regenerate(ctx):
  import os
  from harness import tmp2v
  # Model/TempIds.v allocates ids with Model/RowIds.alloc, whose tie to the source is the translated loop
  # (GristGen.RowIds_gen): regenerate it here too, so that this check never runs against a stale translation.
  from harness.props import c27
  c27.regenerate(ctx)
  # the temporary-id code itself (action_summary.py, column.py, useractions.py) -> coq/gen/TempIds_gen.v
  try:
    text = tmp2v.generate(core.GRIST)
  except tmp2v.Untranslatable as e:
    raise core.TieBroken('the temporary-row-id code is outside the translated subset: %s' % e)
  path = os.path.join(core.COQ, 'gen', 'TempIds_gen.v')
  if core.write_if_changed(path, text):
    for ext in ('.vo', '.vos', '.vok', '.glob'):
      try:
        os.remove(path[:-2] + ext)
      except OSError:
        pass


# ------------------------------------------------------------------------------------------------
# generators

def gen_schema(rng):
  return [(rng.randrange(NT), rng.randrange(NT)) for _ in range(NT)]


def gen_refval(rng, pool):
  k = rng.random()
  if k < 0.45 and pool:
    return rng.choice(pool)
  if k < 0.62:
    return rng.randint(1, 8)          # existing or dangling positive id
  if k < 0.74:
    return 0
  if k < 0.84:
    return None
  if k < 0.95:
    return rng.choice(TXT)
  return -rng.randint(1, 9)           # any temp id, possibly never defined


def gen_listval(rng, pool):
  k = rng.random()
  if k < 0.08:
    return None
  if k < 0.14:
    return rng.choice(TXT)
  n = rng.choice([0, 1, 2, 2, 3])
  out = []
  for _ in range(n):
    j = rng.random()
    if j < 0.5 and pool:
      out.append(rng.choice(pool))
    elif j < 0.96:
      out.append(rng.randint(1, 8))
    else:
      out.append(-rng.randint(1, 9))
  return out


def gen_doc(rng):
  doc = []
  for t in range(NT):
    ids = sorted(rng.sample(range(1, 7), rng.choice([0, 1, 2, 3, 4])))
    rows = []
    for i in ids:
      r = rng.choice([0, 0, rng.randint(1, 7), rng.choice(TXT)]) if rng.random() < 0.7 else 0
      l = None
      if rng.random() < 0.5:
        l = [rng.randint(1, 7) for _ in range(rng.randint(1, 3))]
      rows.append((i, r, l))
    doc.append(rows)
  return doc


def gen_bundle(rng, sch, doc):
  """Actions as dicts: {'op','t','ids','R','L'}; 'R'/'L' are None when the column is not mentioned."""
  defined = {t: [] for t in range(NT)}      # temp ids defined so far, per table
  nexp = [0]
  acts = []
  for _ in range(rng.choice([1, 2, 2, 3, 3, 4, 5, 6])):
    t = rng.randrange(NT)
    k = rng.random()
    existing = [i for (i, _r, _l) in doc[t]]
    def vals(n, op):
      rpool = defined[sch[t][0]] + ([x for x in ids_new if isinstance(x, int) and x < 0] if sch[t][0] == t else [])
      lpool = defined[sch[t][1]] + ([x for x in ids_new if isinstance(x, int) and x < 0] if sch[t][1] == t else [])
      R = [gen_refval(rng, rpool) for _ in range(n)] if rng.random() < 0.6 else None
      L = [gen_listval(rng, lpool) for _ in range(n)] if rng.random() < 0.5 else None
      return R, L
    if k < 0.45:
      n = rng.choice([1, 1, 2, 3])
      ids_new = []
      for _ in range(n):
        j = rng.random()
        if j < 0.08:
          nexp[0] += 1
          ids_new.append(rng.choice([40 + 10 * nexp[0], rng.randint(1, 12)]))   # explicit: fresh, or wherever it lands
        elif j < 0.11 and existing:
          ids_new.append(rng.choice(existing))               # explicit, existing: the bundle must be rejected
        elif j < 0.12:
          ids_new.append(rng.choice([0] + [x for x in ids_new if isinstance(x, int) and x > 0]))   # 0 or a repeat
        elif j < 0.30:
          ids_new.append(None)
        else:
          ids_new.append(-rng.randint(1, 4))
      R, L = vals(n, 'add')
      acts.append({'op': 'add', 't': t, 'ids': ids_new, 'R': R, 'L': L})
      for x in ids_new:
        if isinstance(x, int) and x < 0 and x not in defined[t]:
          defined[t].append(x)
    else:
      ids_new = []
      n = rng.choice([1, 1, 2])
      ids = []
      for _ in range(n):
        j = rng.random()
        if j < 0.55 and defined[t]:
          ids.append(rng.choice(defined[t]))
        elif j < 0.93 and existing:
          ids.append(rng.choice(existing))
        elif j < 0.97:
          ids.append(-rng.randint(1, 9))                     # possibly a temp id this table never saw
        else:
          ids.append(rng.randint(1, 9))
      if k < 0.78:
        R, L = vals(n, 'update')
        acts.append({'op': 'update', 't': t, 'ids': ids, 'R': R, 'L': L})
      else:
        acts.append({'op': 'remove', 't': t, 'ids': ids, 'R': None, 'L': None})
  return acts


def gen_alias_bundle(rng, sch, doc):
  """A row added in the bundle is named, inside ONE bulk update / removal, both by its temporary id and by the id
  that will be allocated for it (and repeatedly).  In the update the last occurrence restates the stored value and an
  earlier one differs; no other column is set, so that trim_update_action sees exactly these values."""
  t = rng.randrange(NT)
  existing = [i for (i, _r, _l) in doc[t]]
  nxt = max(existing + [0]) + 1
  ids_new = rng.choice([[-1], [-2, -1], [None, -1], [-1, -3]])
  k = rng.randrange(len(ids_new))
  while ids_new[k] is None:
    k = rng.randrange(len(ids_new))
  a, r = ids_new[k], nxt + k                  # all slots automatic: ids nxt, nxt+1, ... in request order
  def refv():
    return rng.choice([0, 1, 2, 3, 5, 8, TXT[0]])
  def listv():
    return rng.choice([None, [1], [2, 3], [5, 5, 1], TXT[1]])
  v0, l0 = refv(), listv()
  useR, useL = rng.random() < 0.8, rng.random() < 0.5
  if not (useR or useL):
    useR = True
  acts = [{'op': 'add', 't': t, 'ids': list(ids_new),
           'R': [v0 if j == k else refv() for j in range(len(ids_new))],
           'L': [l0 if j == k else listv() for j in range(len(ids_new))]}]
  pattern = rng.choice([[a, r], [r, a], [a, r, a], [r, a, r], [a, a], [r, r], [a, 'x', r], [r, 'x', a]])
  other = rng.choice(existing) if existing else None
  ids = [other if x == 'x' else x for x in pattern if not (x == 'x' and other is None)]
  last = max(j for j, x in enumerate(ids) if x in (a, r))
  def differing(stored, gen):
    for _ in range(20):
      v = gen()
      if v != stored:
        return v
    return stored
  R = [(v0 if j == last else differing(v0, refv)) if x in (a, r) else refv() for j, x in enumerate(ids)] if useR else None
  L = [(l0 if j == last else differing(l0, listv)) if x in (a, r) else listv() for j, x in enumerate(ids)] if useL else None
  acts.append({'op': 'update', 't': t, 'ids': ids, 'R': R, 'L': L, 'noA': True})
  if rng.random() < 0.4:
    acts.append({'op': 'remove', 't': t, 'ids': rng.choice([[a, r], [r, a], [r, a, a], [a]]), 'R': None, 'L': None})
  return acts


def nontrivial(acts, sch):
  defined = {t: set() for t in range(NT)}
  hit = False
  for a in acts:
    t = a['t']
    if a['op'] == 'add':
      defined[t].update(x for x in a['ids'] if isinstance(x, int) and x < 0)
    else:
      hit = hit or any(x < 0 for x in a['ids'])
    for col, tgt in (('R', sch[t][0]), ('L', sch[t][1])):
      for v in a[col] or []:
        for r in (v if isinstance(v, list) else [v]):
          if isinstance(r, int) and r < 0:
            hit = True
  return hit


# ------------------------------------------------------------------------------------------------
# the implementation

class Docs(object):
  """One engine per schema, reset to the case's initial document before every bundle."""
  def __init__(self):
    from harness import rowids_env as env
    self.env = env
    self.engines = {}
    self.counter = 1000

  def engine(self, sch):
    key = tuple(sch)
    if key not in self.engines:
      self.engines[key] = self.env.new_doc(
        [(tname(t), [('R', 'Ref:' + tname(sch[t][0])), ('L', 'RefList:' + tname(sch[t][1]))]) for t in range(NT)])
    return self.engines[key]

  def reset(self, e, doc):
    env = self.env
    # (not ReplaceTableData: load_table clears reference columns without clearing their back-reference relation,
    #  and a later removal of a target row then fails inside get_updates_for_removed_target_rows)
    for t in range(NT):
      old = env.row_ids(e, tname(t))
      if old:
        env.apply(e, [['BulkRemoveRecord', tname(t), old]])
    for t in range(NT):
      rows = doc[t]
      if rows:
        env.apply(e, [['BulkAddRecord', tname(t), [i for (i, _r, _l) in rows],
                       {'A': [0] * len(rows), 'R': [r for (_i, r, _l) in rows],
                        'L': [None if l is None else ['L'] + list(l) for (_i, _r, l) in rows]}]])
    got = self.tables(e)
    want = [[(i, r, l) for (i, r, l) in doc[t]] for t in range(NT)]
    if got != want:
      raise core.TieBroken('cannot put the document into the initial state: %r vs %r' % (got, want))

  def tables(self, e):
    out = []
    for t in range(NT):
      rep = self.env.actions.get_action_repr(e.fetch_table(tname(t)))
      rows = []
      for k, i in enumerate(rep[2]):
        r = rep[3]['R'][k]
        l = rep[3]['L'][k]
        if isinstance(l, list):
          l = list(l[1:]) if l and l[0] == 'L' else ('?', repr(l))
        rows.append((int(i), r, l))
      out.append(rows)
    return out

  def user_actions(self, acts):
    out = []
    for a in acts:
      tn = tname(a['t'])
      n = len(a['ids'])
      cols = {}
      if a['R'] is not None:
        cols['R'] = list(a['R'])
      if a['L'] is not None:
        cols['L'] = [(['L'] + list(v)) if isinstance(v, list) else v for v in a['L']]
      if a['op'] == 'add':
        if n == 1 and a.get('single'):
          out.append(['AddRecord', tn, a['ids'][0], {c: v[0] for c, v in cols.items()}])
        else:
          out.append(['BulkAddRecord', tn, list(a['ids']), cols])
      elif a['op'] == 'update':
        if not a.get('noA'):
          self.counter += n
          cols['A'] = [self.counter - k for k in range(n)]       # never stored before: nothing is trimmed
        if n == 1 and a.get('single'):
          out.append(['UpdateRecord', tn, a['ids'][0], {c: v[0] for c, v in cols.items()}])
        else:
          out.append(['BulkUpdateRecord', tn, list(a['ids']), cols])
      else:
        if n == 1 and a.get('single'):
          out.append(['RemoveRecord', tn, a['ids'][0]])
        else:
          out.append(['BulkRemoveRecord', tn, list(a['ids'])])
    return out

  def run(self, sch, doc, acts):
    """One bundle = one apply_user_actions call.  -> dict(outcome, rets, tables, unchanged)"""
    env = self.env
    e = self.engine(sch)
    self.reset(e, doc)
    before = env.snapshot(e)
    try:
      out = env.apply(e, self.user_actions(acts))
    except Exception as ex:     # pylint: disable=broad-except
      after = env.snapshot(e)
      return {'outcome': env.exc_name(ex), 'msg': str(ex)[:160], 'unchanged': after == before, 'before': before}
    rets = []
    for a, r in zip(acts, out.retValues):
      if a['op'] == 'add':
        rets.append(list(r) if isinstance(r, list) else [r])
      else:
        rets.append(None)
    after = env.snapshot(e)
    meta_same = all(after[t] == before[t] for t in before if t.startswith('_grist_'))
    return {'outcome': 'ok', 'rets': rets, 'tables': self.tables(e), 'meta_same': meta_same}


def get_docs(ctx):
  d = getattr(ctx, '_c26_docs', None)
  if d is None:
    d = ctx._c26_docs = Docs()
  return d


# ------------------------------------------------------------------------------------------------
# Coq literals

def z(n):
  return core.zlit(n)


def zl(ns):
  # empty list literals carry their type: the first case of a shard fixes the type of the whole list
  return core.zlist(ns) if ns else '(@nil Z)'


def tl(items, ty):
  return core.coq_list(items) if items else '(@nil %s)' % ty


def refval_lit(v, raw=False):
  """A Ref cell (raw=False: as stored/converted; input None means 0)."""
  if v is None:
    return '(RInt 0%Z)'
  if isinstance(v, bool) or not isinstance(v, (int, str)):
    raise core.TieBroken('unexpected Ref cell %r' % (v,))
  if isinstance(v, int):
    return '(RInt %s)' % z(v)
  return '(ROther %s)' % z(TXT.index(v) + 1 if v in TXT else 99)


def listval_lit(v):
  if v is None or v == []:
    return 'LNone'
  if isinstance(v, list):
    if not all(isinstance(x, int) and not isinstance(x, bool) for x in v):
      raise core.TieBroken('unexpected RefList cell %r' % (v,))
    return '(LList %s)' % zl(v)
  if isinstance(v, str):
    return '(LOther %s)' % z(TXT.index(v) + 1 if v in TXT else 99)
  raise core.TieBroken('unexpected RefList cell %r' % (v,))


def doc_lit(doc):
  return core.coq_list(['(%s, %s)' % (z(t), tl(
    ['(mkrow %s %s %s)' % (z(i), refval_lit(r), listval_lit(l)) for (i, r, l) in doc[t]], 'row')) for t in range(NT)])


def schema_lit(sch):
  return core.coq_list(['(%s, (%s, %s))' % (z(t), z(sch[t][0]), z(sch[t][1])) for t in range(NT)])


def opt_list(vs, f, ty):
  return 'None' if vs is None else '(Some %s)' % tl([f(v) for v in vs], ty)


def action_lit(a):
  if a['op'] == 'add':
    return '(AAdd %s %s %s %s)' % (z(a['t']), tl([core.optlit(x, z) for x in a['ids']], '(option Z)'),
                                   opt_list(a['R'], refval_lit, 'refval'), opt_list(a['L'], listval_lit, 'reflistval'))
  if a['op'] == 'update':
    return '(AUpdate %s %s %s %s)' % (z(a['t']), zl(a['ids']),
                                      opt_list(a['R'], refval_lit, 'refval'), opt_list(a['L'], listval_lit, 'reflistval'))
  return '(ARemove %s %s)' % (z(a['t']), zl(a['ids']))


def result_lit(res):
  if res['outcome'] != 'ok':
    return '(PyErr %s)' % EXC[res['outcome']]
  rets = core.coq_list(['RetNone' if r is None else '(RetIds %s)' % zl(r) for r in res['rets']])
  return '(PyOk (%s, %s))' % (doc_lit(res['tables']), rets)


# ------------------------------------------------------------------------------------------------

def gen_cases(ctx):
  rng = ctx.rng
  cases = []
  fixed = [
    # the probes of the design phase
    ([(1, 1), (1, 0), (0, 0)], [[(1, 0, None), (2, 0, None)], [(1, 0, None), (2, 0, None), (3, 0, None)], []],
     [{'op': 'add', 't': 1, 'ids': [-1, -2], 'R': None, 'L': None},
      {'op': 'add', 't': 0, 'ids': [-1], 'R': [-1], 'L': [[-2, -1, 2]], 'single': True},
      {'op': 'update', 't': 0, 'ids': [-1], 'R': None, 'L': None, 'single': True},
      {'op': 'remove', 't': 1, 'ids': [-2], 'R': None, 'L': None, 'single': True}]),
    ([(1, 1), (1, 0), (0, 0)], [[(1, 0, None)], [(1, 0, None)], []],
     [{'op': 'add', 't': 0, 'ids': [None], 'R': [-5], 'L': None, 'single': True}]),
    ([(1, 1), (1, 0), (0, 0)], [[(1, 0, None)], [(1, 0, None)], []],
     [{'op': 'add', 't': 0, 'ids': [None], 'R': None, 'L': [[1, -5]], 'single': True}]),
    ([(1, 1), (1, 0), (0, 0)], [[(1, 0, None)], [(1, 0, None)], []],
     [{'op': 'add', 't': 1, 'ids': [-5], 'R': None, 'L': None}, {'op': 'add', 't': 0, 'ids': [None], 'R': [-5], 'L': None},
      {'op': 'add', 't': 1, 'ids': [-5], 'R': None, 'L': None}, {'op': 'add', 't': 0, 'ids': [None], 'R': [-5], 'L': None}]),
    ([(1, 1), (1, 0), (0, 0)], [[(1, 0, None)], [(1, 0, None)], []],
     [{'op': 'add', 't': 0, 'ids': [-5], 'R': None, 'L': None}, {'op': 'add', 't': 0, 'ids': [None], 'R': [-5], 'L': None}]),
    ([(1, 1), (1, 0), (0, 0)], [[(1, 0, None)], [(1, 0, None)], []],
     [{'op': 'add', 't': 1, 'ids': [-1, -2], 'R': [-2, -1], 'L': None}]),
    ([(1, 1), (1, 0), (0, 0)], [[(1, 2, [2, 3])], [(1, 0, None), (2, 0, None), (3, 0, None)], []],
     [{'op': 'remove', 't': 1, 'ids': [2], 'R': None, 'L': None}]),
    ([(1, 1), (1, 0), (0, 0)], [[], [(1, 0, None)], []],
     [{'op': 'add', 't': 1, 'ids': [-1], 'R': None, 'L': None}, {'op': 'remove', 't': 1, 'ids': [-1], 'R': None, 'L': None},
      {'op': 'update', 't': 1, 'ids': [-1], 'R': None, 'L': None}]),
    ([(1, 1), (1, 0), (0, 0)], [[], [(1, 0, None)], []],
     [{'op': 'update', 't': 0, 'ids': [-5], 'R': None, 'L': None, 'single': True}]),
    ([(1, 1), (1, 0), (0, 0)], [[(1, 0, None)], [(1, 0, None)], []],
     [{'op': 'remove', 't': 0, 'ids': [-5], 'R': None, 'L': None, 'single': True}]),
  ]
  fixed.append(([(1, 1), (1, 0), (0, 0)], [[(1, 0, None), (2, 0, None)], [(1, 0, None)], []],
                [{'op': 'add', 't': 0, 'ids': [-1], 'R': [1], 'L': None},
                 {'op': 'update', 't': 0, 'ids': [-1, 3], 'R': [0, 1], 'L': None, 'noA': True}]))
  for sch, doc, acts in fixed:
    cases.append((sch, doc, acts))
  schemas = [gen_schema(rng) for _ in range(ctx.n(4, 10))]
  for _ in range(ctx.n(450, 6000)):
    sch = rng.choice(schemas)
    doc = gen_doc(rng)
    acts = gen_alias_bundle(rng, sch, doc) if rng.random() < 0.12 else gen_bundle(rng, sch, doc)
    for a in acts:
      a['single'] = rng.random() < 0.5
    cases.append((sch, doc, acts))
  return cases


def correspond(ctx):
  from harness import tmp2v
  try:
    validate_translation(ctx)
  except tmp2v.Untranslatable as e:
    # already reported by regenerate(); the bundles below are still compared with the model
    ctx.log('translator validation skipped: the code is outside the translated subset (%s)' % str(e)[:120])
  # (a) ActionSummary.update_new_rows_map / translate_new_row_ids called directly
  import action_summary
  rng = ctx.rng
  coq = []
  raw = []
  for _ in range(ctx.n(300, 4000)):
    summ = action_summary.ActionSummary()
    ups = []
    for _u in range(rng.choice([1, 1, 2, 3])):
      n = rng.choice([0, 1, 2, 3, 4])
      temps = [rng.choice([None, 0, -1, -2, -3, -1, 5, 7, -2]) for _k in range(n)]
      finals = [rng.randint(1, 30) for _k in range(n if rng.random() < 0.85 else rng.randint(0, 4))]
      tb = rng.choice(['X', 'Y'])
      summ.update_new_rows_map(tb, list(temps), list(finals))
      ups.append((tb, temps, finals))
    ids = [rng.choice([-1, -2, -3, -4, 0, 1, 5, 7, 30]) for _k in range(rng.randint(0, 5))]
    qt = rng.choice(['X', 'Y'])
    got = summ.translate_new_row_ids(qt, list(ids))
    if not all(isinstance(x, int) for x in got):
      ctx.broken('correspondence:translate_new_row_ids returned a non-int', repr((ups, ids, got)))
      continue
    mine = [(t, f) for (tb, t, f) in ups if tb == qt]
    raw.append((ups, qt, ids, got))
    coq.append('(%s, %s, %s)' % (
      tl(['(%s, %s)' % (tl([core.optlit(x, z) for x in t], '(option Z)'), zl(f)) for t, f in mine],
         '(list (option Z) * list Z)'),
      zl(ids), zl(got)))
    ctx.bump('map-cases')
  if ctx.tier == 'thorough':
    import itertools
    alpha = [None, 0, -1, -2, 3]
    for n1 in range(0, 4):
      for t1 in itertools.product(alpha, repeat=n1):
        for t2 in ([], [-1], [-2, -1], [None, -2]):
          summ = action_summary.ActionSummary()
          ups = [('X', list(t1), [11, 12, 13][:n1]), ('X', list(t2), [21, 22][:len(t2)])]
          for tb, t, f in ups:
            summ.update_new_rows_map(tb, list(t), list(f))
          ids = [-1, -2, -3, 0, 3]
          got = summ.translate_new_row_ids('X', list(ids))
          raw.append((ups, 'X', ids, got))
          coq.append('(%s, %s, %s)' % (
            tl(['(%s, %s)' % (tl([core.optlit(x, z) for x in t], '(option Z)'), zl(f)) for _tb, t, f in ups],
               '(list (option Z) * list Z)'), zl(ids), zl(got)))
          ctx.bump('map-cases-exhaustive')
    ctx.extra['exhaustive'] = True
    ctx.extra['exhaustive_space'] = ('new-rows map: every request of length <= 3 over {None,0,-1,-2,3} followed by each of '
                                     '4 second requests, translated ids {-1,-2,-3,0,3}')
  bad = ctx.run_cases('maps', ['Grist.Lib.PyPrelude', 'Grist.Model.TempIds'],
                      'fun c => py_list_eqb Z.eqb (translate (fold_left (fun tm u => map_update tm (fst u) (snd u)) '
                      '(fst (fst c)) []) (snd (fst c))) (snd c)', coq, shard=2000)
  for i in bad[:5]:
    ctx.broken('correspondence:Model/TempIds.map_update/translate differ from ActionSummary', 'case %r' % (raw[i],))

  # (b) bundles on the real engine vs the interpreter of Model/TempIds.v
  docs = get_docs(ctx)
  cases = gen_cases(ctx)
  ctx._c26_cases = cases
  ctx._c26_results = []
  coq = []
  idx = []
  for n, (sch, doc, acts) in enumerate(cases):
    res = docs.run(sch, doc, acts)
    ctx._c26_results.append(res)
    ctx.count((sch, doc, [(a['op'], a['t'], a['ids'], a['R'], a['L']) for a in acts]),
              nontrivial=nontrivial(acts, sch),
              sample={'schema': sch, 'doc': doc, 'bundle': docs.user_actions(copy.deepcopy(acts)),
                      'outcome': res['outcome'], 'retValues': res.get('rets')},
              kind='actions:%d' % len(acts))
    for a in acts:
      ctx.bump('op:' + a['op'])
    ctx.bump('outcome:' + res['outcome'])
    if res['outcome'] != 'ok' and res['outcome'] not in EXC:
      ctx.broken('correspondence:unexpected exception', 'case %r -> %r' % ((sch, doc, acts), res))
      continue
    try:
      coq.append('(%s, %s, %s, %s)' % (schema_lit(sch), doc_lit(doc), core.coq_list([action_lit(a) for a in acts]),
                                       result_lit(res)))
    except core.TieBroken as e:
      ctx.broken('correspondence:cell outside the modelled vocabulary', '%s in case %r' % (e, (sch, doc, acts)))
      continue
    idx.append(n)
  bad = ctx.run_cases('bundles', ['Grist.Lib.PyPrelude', 'Grist.Lib.PyMonad', 'Grist.Model.RowIds', 'Grist.Model.TempIds'],
                      'fun c => bundle_result_eqb (run_bundle (fst (fst (fst c))) (snd (fst (fst c))) (snd (fst c))) (snd c)',
                      coq, shard=240)
  for i in bad[:5]:
    sch, doc, acts = cases[idx[i]]
    ctx.broken('correspondence:Model/TempIds.run_bundle differs from the engine',
               'schema %r doc %r bundle %r -> %r' % (sch, doc, docs.user_actions(copy.deepcopy(acts)),
                                                    {k: v for k, v in ctx._c26_results[idx[i]].items() if k != 'before'}))


# ------------------------------------------------------------------------------------------------
# the property's own oracle: the bundle with temporary ids must behave like the same bundle with every temporary
# id replaced by the row id the engine returned for it (run on the implementation itself)

def resolve(acts, sch, rets):
  """-> (resolved bundle, list of unresolved negative reference ids, list of unresolved negative row-id args)"""
  maps = {t: {} for t in range(NT)}
  out = []
  bad_refs = []
  bad_rows = []
  for a, ret in zip(acts, rets):
    t = a['t']
    b = copy.deepcopy(a)
    if a['op'] == 'add':
      if ret is None or len(ret) != len(a['ids']):
        return None, ['add returned %r for %r' % (ret, a['ids'])], []
      for x, f in zip(a['ids'], ret):
        if isinstance(x, int) and x < 0:
          maps[t][x] = f
      b['ids'] = list(ret)
    else:
      ids = []
      for x in a['ids']:
        if x < 0 and x in maps[t]:
          ids.append(maps[t][x])
        else:
          if x < 0:
            bad_rows.append(x)
          ids.append(x)
      b['ids'] = ids
    keep = list(range(len(a['ids'])))
    if a['op'] == 'update':
      # a row named more than once keeps its last occurrence (doBulkUpdateRecord since fix 060dc6b): the values of
      # the earlier occurrences are overridden inside the same action and are not reference values of the bundle
      last = {r: i for i, r in enumerate(b['ids'])}
      keep = sorted(last.values())
      b['ids'] = [b['ids'][i] for i in keep]
    for col, tgt in (('R', sch[t][0]), ('L', sch[t][1])):
      if a[col] is None:
        continue
      new = []
      for v in [a[col][i] for i in keep]:
        def one(r):
          if isinstance(r, int) and not isinstance(r, bool) and r < 0:
            if r in maps[tgt]:
              return maps[tgt][r]
            bad_refs.append(r)
          return r
        new.append([one(r) for r in v] if isinstance(v, list) else one(v))
      b[col] = new
    out.append(b)
  return out, bad_refs, bad_rows


def has_neg_ref(acts):
  for a in acts:
    for col in ('R', 'L'):
      for v in a[col] or []:
        for r in (v if isinstance(v, list) else [v]):
          if isinstance(r, int) and not isinstance(r, bool) and r < 0:
            return True
  return False


def all_refs_declared(acts, sch):
  declared = {t: set() for t in range(NT)}
  for a in acts:
    t = a['t']
    if a['op'] == 'add':
      declared[t].update(x for x in a['ids'] if isinstance(x, int) and x < 0)
    for col, tgt in (('R', sch[t][0]), ('L', sch[t][1])):
      for v in a[col] or []:
        for r in (v if isinstance(v, list) else [v]):
          if isinstance(r, int) and not isinstance(r, bool) and r < 0 and r not in declared[tgt]:
            return False
  return True


def without_neg_refs(acts):
  out = copy.deepcopy(acts)
  for a in out:
    for col in ('R', 'L'):
      if a[col] is not None:
        a[col] = [([r for r in v if not (isinstance(r, int) and r < 0)] if isinstance(v, list)
                   else (0 if isinstance(v, int) and not isinstance(v, bool) and v < 0 else v)) for v in a[col]]
  return out


def oracle(docs, sch, doc, acts, res):
  if res['outcome'] != 'ok':
    if not res['unchanged']:
      return ('rejected-but-changed', 'the bundle raised %s but left a trace in the document' % res['outcome'])
    # a bundle whose negative reference ids were all created by an earlier (or the same) add on the target table
    # must not be rejected because of them: without those references it must be rejected as well
    if has_neg_ref(acts) and all_refs_declared(acts, sch):
      res0 = docs.run(sch, doc, without_neg_refs(acts))
      if res0['outcome'] == 'ok':
        return ('resolvable-reference-rejected', 'every negative reference id was created by an add of the bundle, yet '
                'the bundle raises %s (%s); with those references blanked it is accepted' % (res['outcome'], res.get('msg')))
    return None
  if not res.get('meta_same', True):
    return ('metadata-changed', 'a record bundle changed a metadata table')
  resolved, bad_refs, _bad_rows = resolve(acts, sch, res['rets'])
  if resolved is None:
    return ('add-returned-wrong-shape', bad_refs[0])
  if bad_refs:
    return ('unresolved-negative-reference-accepted',
            'reference value(s) %r name no row created in the bundle, yet the bundle was accepted' % (bad_refs,))
  for t in range(NT):
    for (_i, r, l) in res['tables'][t]:
      if (isinstance(r, int) and r < 0) or (isinstance(l, list) and any(isinstance(x, int) and x < 0 for x in l)):
        return ('negative-id-stored', 'a negative row id was stored in a reference cell: %r' % ((r, l),))
  res2 = docs.run(sch, doc, resolved)
  if res2['outcome'] != 'ok':
    return ('resolved-bundle-rejected', 'the bundle was accepted, but the same bundle with the temporary ids replaced by '
            'the returned row ids raises %s: %s' % (res2['outcome'], res2.get('msg')))
  if res2['tables'] != res['tables']:
    return ('temporary-ids-resolve-differently', 'tables after the bundle %r differ from the tables after the bundle '
            'with the returned ids substituted %r' % (res['tables'], res2['tables']))
  return None


def search(ctx):
  docs = get_docs(ctx)
  cases = getattr(ctx, '_c26_cases', None)
  results = getattr(ctx, '_c26_results', None)
  if cases is None or results is None or len(cases) != len(results):
    cases = gen_cases(ctx)
    results = [docs.run(s, d, a) for (s, d, a) in cases]
  seen = {}
  for (sch, doc, acts), res in zip(cases, results):
    v = oracle(docs, sch, doc, acts, res)
    ctx.bump('oracle-runs')
    if v is None:
      continue
    kind, what = v
    ctx.bump('oracle:' + kind)
    key = (len(acts), sum(len(a['ids']) for a in acts))
    if kind not in seen or key < seen[kind][0]:
      seen[kind] = (key, what, {'schema': [list(x) for x in sch], 'doc': [[list(r) for r in tb] for tb in doc],
                                'bundle': acts})
  for kind, (_k, what, w) in sorted(seen.items()):
    ctx.violation(kind, what, w)
  search_twoway(ctx)


def get_twoway(ctx):
  tw = getattr(ctx, '_c26_twoway', None)
  if tw is None:
    tw = ctx._c26_twoway = TwoWay()
  return tw


def search_twoway(ctx):
  tw = get_twoway(ctx)
  empty = {'P0': {'ids': [1, 2], 'cols': {'R': [1, 2], 'L': [['L'], ['L']]}}, 'P1': {'ids': [1, 2], 'cols': {}}}
  corpus = [   # the bundles of seeded/C26-3/demo.py on this document
    (empty, [['AddRecord', 'P1', -1, {}], ['AddRecord', 'P0', None, {'R': -1}], ['BulkUpdateRecord', 'P0', [1], {'R': [-1]}]],
     [['AddRecord', 'P1', 3, {}], ['AddRecord', 'P0', 3, {'R': 3}], ['BulkUpdateRecord', 'P0', [1], {'R': [3]}]]),
    (empty, [['BulkAddRecord', 'P0', [-1, -2], {}], ['AddRecord', 'P1', -7, {'P0': ['L', -2, -1]}]],
     [['BulkAddRecord', 'P0', [3, 4], {}], ['AddRecord', 'P1', 3, {'P0': ['L', 4, 3]}]]),
    (empty, [['BulkAddRecord', 'P0', [-1, -2], {'S': [['L', -2], ['L', -1, 1]], 'Q': [-2, -1]}]],
     [['BulkAddRecord', 'P0', [3, 4], {'S': [['L', 4], ['L', 3, 1]], 'Q': [4, 3]}]]),
  ]
  cases = corpus + [gen_twoway(ctx.rng, tw) for _ in range(ctx.n(120, 1500))]
  seen = {}
  for doc, bundle, resolved in cases:
    v = oracle_twoway(tw, doc, bundle, resolved)
    uses_temp = any(isinstance(x, int) and x < 0 for a in bundle for x in _flat(a[3:] if a[0] != 'BulkRemoveRecord' else []))
    ctx.count(('twoway', doc, bundle), nontrivial=uses_temp, kind='twoway-bundles')
    if v is None:
      continue
    kind, what = v
    ctx.bump('oracle:' + kind)
    key = (len(bundle), len(repr(bundle)))
    if kind not in seen or key < seen[kind][0]:
      seen[kind] = (key, what, {'twoway': True, 'doc': doc, 'bundle': bundle, 'resolved': resolved})
  for kind, (_k, what, w) in sorted(seen.items()):
    ctx.violation(kind, what, w)


def _flat(x):
  if isinstance(x, dict):
    for v in x.values():
      for y in _flat(v):
        yield y
  elif isinstance(x, (list, tuple)):
    for v in x:
      for y in _flat(v):
        yield y
  else:
    yield x


def replay(ctx, w):
  if w.get('twoway'):
    v = oracle_twoway(get_twoway(ctx), w['doc'], w['bundle'], w['resolved'])
    return None if v is None else '%s: %s' % v
  docs = get_docs(ctx)
  sch = [tuple(x) for x in w['schema']]
  doc = [[tuple(r) for r in tb] for tb in w['doc']]
  acts = w['bundle']
  res = docs.run(sch, doc, acts)
  v = oracle(docs, sch, doc, acts, res)
  return None if v is None else '%s: %s' % v


TECHNIQUE = ('Coq proof over the temporary-id code translated from source on every run (tmp2v) and bridged pointwise to the '
             'model + hand-written bundle interpreter; differential bundles against the real engine, translator '
             'validation by vm_compute, metamorphic impl oracle')
LEVEL_TEXT = ('Kernel-checked, on the code as translated from /repo each run: after update_new_rows_map a temporary id '
              'translates to the id allocated for its last occurrence (for every history of adds the last mapping wins), '
              'other ids and tables are untouched; Ref and RefList values are translated per target table and any negative '
              'id left is rejected; updates (after keep-last de-duplication) and removals hand the doc action and the '
              'reference clean-up the allocated ids; in the bundle interpreter they act exactly as on the allocated rows.')
LEVEL_NOTE = ('Regenerated and bridged: action_summary update_new_rows_map/translate_new_row_ids, column '
              '_reject_unresolved_temp_ids and both prepare_new_values, the row-id preparation of doBulkUpdateRecord and '
              'doBulkRemoveRecord. Hand-written and tied by differential bundles: the interpreter around them. "No trace" '
              'after a rejected bundle is the engine rollback (C04), observed on the implementation, not modelled.')


# ------------------------------------------------------------------------------------------------
# differential validation of the translator (harness/tmp2v.py): the generated definitions, evaluated by vm_compute,
# against the running functions / the source statements executed as they are, on generated arguments

class _Obj(object):
  def __init__(self, **kw):
    self.__dict__.update(kw)


def cell_lit(v):
  if v is None:
    return 'CNone'
  if isinstance(v, list):
    return '(CList %s)' % zl(v)
  if isinstance(v, str):
    return '(COther %s)' % z(TXT.index(v) + 1 if v in TXT else 99)
  if isinstance(v, int) and not isinstance(v, bool):
    return '(CInt %s)' % z(v)
  raise core.TieBroken('unexpected cell %r' % (v,))


def validate_translation(ctx):
  import action_summary
  import actions
  from harness import tmp2v, rowids_env as env
  rng = ctx.rng
  up_fn, rm_fn = tmp2v.fragment_functions(core.GRIST)
  e = env.new_doc([('T0', [('R', 'Ref:T1'), ('L', 'RefList:T1')]), ('T1', [])])
  ref_col = e.tables['T0'].get_column('R')
  list_col = e.tables['T0'].get_column('L')
  TID = {'T0': 0, 'T1': 1}
  cases = {'translate': [], 'remove': [], 'update': [], 'ref': [], 'reflist': []}
  def ids_list(n):
    return [rng.choice([-1, -2, -3, -4, 0, 1, 5, 7, 30, -1, 5]) for _ in range(n)]
  for _ in range(ctx.n(150, 1500)):
    summ = action_summary.ActionSummary()
    sm = '(fun _ => [])'
    for _u in range(rng.choice([0, 1, 1, 2, 3])):
      n = rng.choice([0, 1, 2, 3, 4])
      temps = [rng.choice([None, 0, -1, -2, -3, -1, 5, 7, -2]) for _k in range(n)]
      finals = [rng.randint(1, 30) for _k in range(n if rng.random() < 0.85 else rng.randint(0, 4))]
      tb = rng.choice(['T0', 'T1'])
      summ.update_new_rows_map(tb, list(temps), list(finals))
      sm = '(update_new_rows_map %s %s %s %s)' % (sm, z(TID[tb]), tl([core.optlit(x, z) for x in temps], '(option Z)'),
                                                 zl(finals))
    ids = ids_list(rng.randint(0, 5))
    tb = rng.choice(['T0', 'T1'])
    cases['translate'].append('(%s, %s, %s, %s)' % (sm, z(TID[tb]), zl(ids), zl(summ.translate_new_row_ids(tb, list(ids)))))
    fake = _Obj(_engine=_Obj(out_actions=_Obj(summary=summ)), removed=None)
    fake._do_doc_action = lambda a, fake=fake: setattr(fake, 'removed', list(a.row_ids))
    removed, rset = rm_fn(fake, tb, list(ids), actions)
    cases['remove'].append('(%s, %s, %s, (%s, %s))' % (sm, z(TID[tb]), zl(ids), zl(removed), zl(sorted(rset))))
    cols = {0: [rng.randint(100, 999) for _k in ids], 1: [rng.randint(100, 999) for _k in ids]}
    ids2, cols2 = up_fn(fake, tb, list(ids), {k: list(v) for k, v in cols.items()})
    lit = lambda c: core.coq_list(['(%s, %s)' % (z(k), zl(c[k])) for k in (0, 1)])
    cases['update'].append('(%s, %s, %s, %s, (%s, %s))' % (sm, z(TID[tb]), zl(ids), lit(cols), zl(ids2), lit(cols2)))
    for col, kind, gen in ((ref_col, 'ref', lambda: rng.choice([rng.choice(ids_list(1)), 'foo', 'bar', None, 2])),
                           (list_col, 'reflist', lambda: rng.choice([ids_list(rng.randint(1, 3)), None, 'foo', [2, 5]]))):
      vals = [gen() for _k in range(rng.choice([0, 1, 2, 3]))]
      try:
        out, _adj = col.prepare_new_values(list(range(1, len(vals) + 1)), copy.deepcopy(vals), action_summary=summ)
        res = '(PyOk %s)' % tl([cell_lit(v) for v in out], 'pycell')
      except ValueError:
        res = '(PyErr PyValueError)'
      cases[kind].append('(%s, %s, %s)' % (sm, tl([cell_lit(v) for v in vals], 'pycell'), res))
  imports = ['Grist.Lib.PyPrelude', 'Grist.Lib.PyMonad', 'Grist.Lib.PyTmp', 'Grist.Model.RowIds', 'GristGen.TempIds_gen']
  cells_eqb = '(py_result_eqb (py_list_eqb pycell_eqb))'
  cols_eqb = '(py_list_eqb (py_pair_eqb Z.eqb (py_list_eqb Z.eqb)))'
  checks = {
    'translate': "fun c => let '(sm, t, ids, out) := c in py_list_eqb Z.eqb (translate_new_row_ids sm t ids) out",
    'remove': "fun c => let '(sm, t, ids, out) := c in let r := remove_row_ids sm t ids in "
              "py_list_eqb Z.eqb (fst r) (fst out) && same_setb (snd r) (snd out)",
    'update': "fun c => let '(sm, t, ids, cols, out) := c in let r := update_row_ids sm t ids cols in "
              "py_list_eqb Z.eqb (fst r) (fst out) && %s (snd r) (snd out)" % cols_eqb,
    'ref': "fun c => let '(sm, vals, out) := c in %s (ref_prepare_new_values sm 0 1 vals) out" % cells_eqb,
    'reflist': "fun c => let '(sm, vals, out) := c in %s (reflist_prepare_new_values sm 0 1 vals) out" % cells_eqb,
  }
  # one list of boolean terms (a single coqc run): each case is `chk_<kind> <case tuple>`
  defs = '\n'.join('Definition chk_%s := %s.' % (k, checks[k]) for k in sorted(checks))
  flat, origin, counts = [], [], {}
  for kind in sorted(cases):
    counts[kind] = len(cases[kind])
    ctx.bump('translator-validation:' + kind, len(cases[kind]))
    for c in cases[kind]:
      flat.append('(chk_%s %s)' % (kind, c))
      origin.append((kind, c))
  bad = ctx.run_cases('translator', imports, 'fun b : bool => b', flat, shard=400, extra_defs=defs)
  for i in bad[:5]:
    ctx.broken('correspondence:translated %s differs from the running code' % origin[i][0], origin[i][1][:600])
  ctx.extra['translator_validation'] = counts


# ------------------------------------------------------------------------------------------------
# two-way reference pairs (AddReverseColumn): oracle-only stream.  The model has no two-way columns; what is checked
# here, on the implementation, is the property's metamorphic reading: a bundle whose temporary ids were all created by
# its own (automatic) adds behaves exactly like the same bundle with the ids that will be allocated written out --
# accepted with the same tables, or rejected alike.

TW_TABLES = ('P0', 'P1')
# column -> (table, kind, target table); the last four are the reverse halves created by AddReverseColumn
TW_COLS = {'R': ('P0', 'ref', 'P1'), 'L': ('P0', 'list', 'P1'), 'S': ('P0', 'list', 'P0'), 'Q': ('P0', 'ref', 'P0')}
TW_REV = {'R': ('P1', 'P0', 'list', 'P0'), 'L': ('P1', 'P0_L', 'list', 'P0'),
          'S': ('P0', 'P0', 'list', 'P0'), 'Q': ('P0', 'P0_Q', 'list', 'P0')}


class TwoWay(object):
  def __init__(self):
    from harness import rowids_env as env
    self.env = env
    self.e = env.new_doc([('P0', [('R', 'Ref:P1'), ('L', 'RefList:P1'), ('S', 'RefList:P0'), ('Q', 'Ref:P0')]), ('P1', [])])
    self.cols = {t: {} for t in TW_TABLES}          # table -> {col: (kind, target)}
    for c, (t, kind, tgt) in TW_COLS.items():
      self.cols[t][c] = (kind, tgt)
    for c in ('R', 'L', 'S', 'Q'):
      out = env.apply(self.e, [['AddReverseColumn', 'P0', c]])
      t, name, kind, tgt = TW_REV[c]
      if out.retValues[0].get('colId') != name:
        raise core.TieBroken('AddReverseColumn P0.%s created %r, expected %s.%s' % (c, out.retValues[0], t, name))
      self.cols[t][name] = (kind, tgt)

  def reset(self, doc):
    env, e = self.env, self.e
    for t in TW_TABLES:
      old = env.row_ids(e, t)
      if old:
        env.apply(e, [['BulkRemoveRecord', t, old]])
    for t in ('P1', 'P0'):
      rows = doc[t]
      if rows['ids']:
        env.apply(e, [['BulkAddRecord', t, list(rows['ids']), copy.deepcopy(rows['cols'])]])
    for t in TW_TABLES:
      if env.row_ids(e, t) != sorted(doc[t]['ids']):
        raise core.TieBroken('cannot reset the two-way document: %s has %r' % (t, env.row_ids(e, t)))

  def run(self, doc, bundle):
    env, e = self.env, self.e
    self.reset(doc)
    before = env.snapshot(e)
    try:
      out = env.apply(e, copy.deepcopy(bundle))
    except Exception as ex:     # pylint: disable=broad-except
      return {'outcome': env.exc_name(ex), 'msg': str(ex)[:160], 'unchanged': env.snapshot(e) == before}
    snap = env.snapshot(e)
    return {'outcome': 'ok', 'rets': [r for r in out.retValues], 'tables': {t: snap[t] for t in TW_TABLES}}


def tw_value(rng, kind, pool, existing):
  def one():
    k = rng.random()
    if k < 0.6 and pool:
      return rng.choice(pool)
    if k < 0.9 and existing:
      return rng.choice(existing)
    return 0
  if kind == 'ref':
    return one()
  vals = [x for x in (one() for _ in range(rng.choice([0, 1, 2, 2, 3]))) if x != 0]
  return ['L'] + vals


def gen_twoway(rng, tw):
  """-> (doc, bundle with temporary ids, the same bundle with the ids that will be allocated)"""
  doc = {}
  for t in ('P1', 'P0'):
    ids = sorted(rng.sample(range(1, 6), rng.choice([0, 1, 2, 3])))
    cols = {}
    if t == 'P0':
      p1 = doc['P1']['ids']
      cols['R'] = [rng.choice(p1 + [0]) for _ in ids]
      cols['L'] = [['L'] + rng.sample(p1, rng.randint(0, len(p1))) for _ in ids]
    doc[t] = {'ids': ids, 'cols': cols}
  nxt = {t: max(doc[t]['ids'] + [0]) + 1 for t in TW_TABLES}
  alloc = {t: {} for t in TW_TABLES}           # temp id -> id that will be allocated (last definition)
  rows = {t: list(doc[t]['ids']) for t in TW_TABLES}
  bundle, resolved = [], []
  def res(v, tgt):
    if isinstance(v, list):
      return ['L'] + [alloc[tgt].get(x, x) for x in v[1:]]
    return alloc[tgt].get(v, v)
  def colvals(t, n, own):
    cv = {}
    for c, (kind, tgt) in sorted(tw.cols[t].items()):
      reverse_half = c not in TW_COLS
      if rng.random() < (0.12 if reverse_half else 0.55):
        # (a row of the same add as a two-way target is refused by the engine in both spellings: the reverse update is
        #  applied before the rows exist; keep such self references rare)
        pool = [x for x in alloc[tgt] if x not in own or rng.random() < 0.1]
        cv[c] = [tw_value(rng, kind, pool, rows[tgt]) for _ in range(n)]
    return cv
  for _ in range(rng.choice([1, 2, 2, 3])):                       # automatic adds first: ids are predictable
    t = rng.choice(TW_TABLES)
    n = rng.choice([1, 1, 2])
    ids = [rng.choice([None, -rng.randint(1, 3)]) for _ in range(n)]
    own = [x for x in ids if x is not None]
    final = [nxt[t] + k for k in range(n)]
    for x, f in zip(ids, final):
      if x is not None:
        alloc[t][x] = f
    nxt[t] += n
    cv = colvals(t, n, own)
    single = n == 1 and rng.random() < 0.5
    if single:
      bundle.append(['AddRecord', t, ids[0], {c: v[0] for c, v in cv.items()}])
      resolved.append(['AddRecord', t, final[0], {c: res(v[0], tw.cols[t][c][1]) for c, v in cv.items()}])
    else:
      bundle.append(['BulkAddRecord', t, ids, cv])
      resolved.append(['BulkAddRecord', t, final, {c: [res(x, tw.cols[t][c][1]) for x in v] for c, v in cv.items()}])
    rows[t] += final
  for _ in range(rng.choice([0, 1, 1, 2])):                       # then updates naming temp or real ids
    t = rng.choice(TW_TABLES)
    cands = list(alloc[t]) + rows[t]
    if not cands:
      continue
    ids = [rng.choice(cands) for _ in range(rng.choice([1, 1, 2]))]
    cv = colvals(t, len(ids), [])
    if not cv:
      continue
    bundle.append(['BulkUpdateRecord', t, ids, cv])
    resolved.append(['BulkUpdateRecord', t, [alloc[t].get(x, x) for x in ids],
                     {c: [res(x, tw.cols[t][c][1]) for x in v] for c, v in cv.items()}])
  if rng.random() < 0.25:                                         # and sometimes a removal
    t = rng.choice(TW_TABLES)
    cands = list(alloc[t]) + rows[t]
    if cands:
      ids = [rng.choice(cands)]
      bundle.append(['BulkRemoveRecord', t, ids])
      resolved.append(['BulkRemoveRecord', t, [alloc[t].get(x, x) for x in ids]])
  return doc, bundle, resolved


def oracle_twoway(tw, doc, bundle, resolved):
  a = tw.run(doc, bundle)
  b = tw.run(doc, resolved)
  if a['outcome'] != 'ok' and not a['unchanged']:
    return ('rejected-but-changed', 'the bundle raised %s but left a trace in the document' % a['outcome'])
  if a['outcome'] != 'ok' and b['outcome'] == 'ok':
    return ('resolvable-bundle-rejected', 'every temporary id is created by an add of the bundle, yet the bundle raises '
            '%s (%s); written with the ids that get allocated it is accepted' % (a['outcome'], a.get('msg')))
  if a['outcome'] == 'ok' and b['outcome'] != 'ok':
    return ('resolved-bundle-rejected', 'the bundle is accepted, but written with the allocated ids it raises %s (%s)'
            % (b['outcome'], b.get('msg')))
  if a['outcome'] == 'ok' and a['tables'] != b['tables']:
    diff = [t for t in TW_TABLES if a['tables'][t] != b['tables'][t]]
    return ('temporary-ids-resolve-differently', 'two-way references: tables %r after the bundle differ from the tables '
            'after the bundle written with the allocated ids: %r vs %r' % (diff, a['tables'][diff[0]], b['tables'][diff[0]]))
  return None
