"""C21 -- Generated identifiers are valid and unique (identifiers.py)."""
import keyword
import os
import re
import signal
import string
import sys
import unicodedata

from harness import core, id2v

ID = 'C21'
TITLE = 'Generated identifiers are valid and unique'
PROPS = ['Props/C21']
RULE = ('requested names from streams {valid identifier, keyword in any case / with accents / padded, digit- or '
        'underscore-leading, empty and None, punctuation and spaces, curated Unicode (accents, ligatures, full-width, '
        'dotless i, Kelvin sign, sharp s, combining marks, lone surrogate, astral), random code points, A..ZZ letters}; '
        'avoid sets built from the id the implementation would choose: case/Unicode variants of it and runs of its '
        'numeric suffixes (2,3,..n), first-n letters A,B,..,AA.. for empty names (thorough: beyond ZZ), Table1..n, plus '
        'noise; batches drawn with repetition from small pools; thorough adds the exhaustive space of all strings of '
        'length <= 3 over a 7-symbol alphabet x 4 avoid sets; every keyword in 5 case variants, bare and wrapped in invalid '
        'characters, through both pick functions, batches and engine AddTable/RenameTable/AddColumn/RenameColumn; '
        'engine histories with one or two (sister) summary tables followed by bundles that rename a group-by source '
        'column together with summary-table columns (BulkUpdateRecord on _grist_Tables_column by colId or label, or '
        'several UpdateRecords) to equal / case-variant / keyword / unsanitised names: after every bundle all ids of '
        'every table must be valid, non-keyword, pairwise distinct case-insensitively, and such a bundle must not fail. '
        'A case is non-trivial when the chosen id differs from the requested text (sanitised, prefixed, suffixed or '
        'generated) or, for a valid request, when the avoid set is non-empty.')
TRUSTED = ['harness/id2v.py translates every function of identifiers.py except the generator _make_letters into '
           'coq/gen/Ident_gen.v on every run (validated by evaluating the translation and the running functions on the '
           'same cases); Lib/IdPrelude.v gives the meaning of the Python constructs it uses; _make_letters, the regex '
           'pattern texts and the imports are pinned by equality; loop fuels are declared in id2v.FUEL',
           'Model/Ident.v is hand-written; it is compared on every run with identifiers._sanitize_ident, _add_suffix, '
           '_gen_ident, pick_table_ident, pick_col_ident, pick_col_ident_list on the generated cases (vm_compute)',
           'the three regular expressions are re-implemented by hand in the model (sub_invalid, fix_start, ends_in_digit)',
           'library oracles (Section variables): unicodedata.normalize/combining, str.upper, str.capitalize, re \\d; '
           'in the correspondence runs they are tables filled from the running Python',
           'keyword.kwlist of the running Python, regenerated into coq/gen/Kwlist_gen.v on every run',
           'a Python set is modelled as a list (only membership is used)']
ASSUMPTIONS = ['upper_ok: c.upper() of an ASCII character is its ASCII upper-case form (monitored for all 128)',
               'cap_ok: c.capitalize() of an ASCII character likewise (monitored for all 128)',
               'nfkd_ok: NFKD leaves ASCII strings unchanged (monitored: all 128 characters + every generated ASCII string)',
               'combining_ok: no ASCII character is a combining mark (monitored for all 128)',
               'upper_idem_ok: c.upper().upper() == c.upper() (monitored for all 1 114 112 code points; used only by the '
               'batch "kept" statements)',
               'str.upper is character-wise: s.upper() == "".join(c.upper() for c in s) (monitored on every generated string)',
               'kw_facts: no keyword ends in a digit, none consists of capital letters only (proved by computation on the '
               'regenerated list)',
               'requested names are str or None, names in avoid sets are str']
TECHNIQUE = 'Coq proof over a hand-written executable model + differential cases (vm_compute) + library-hypothesis monitors + impl oracle'
LEVEL_TEXT = ('Kernel-checked theorems for all strings, all avoid sets and every instance of the library oracles that '
              'behaves on ASCII as assumed: the chosen id matches [A-Za-z][A-Za-z0-9_]* (tables: [A-Z]...), is not in '
              'the regenerated keyword.kwlist, differs from every avoided name after upper-casing, batch results are '
              'pairwise different after upper-casing, valid unused requests are kept (single, whole batch, per batch '
              'element), and the suffix and A..Z,AA.. searches end within |avoid|+1 steps (pigeonhole). The model is '
              'compared with the running identifiers.py on generated cases; the assumed library facts are monitored.')
LEVEL_NOTE = ('Trusted: Coq kernel, the hand-written model (validated differentially each run), the table-driven '
              'instantiation of unicodedata/str.upper/re for non-ASCII characters. Case-insensitivity is upper-case '
              'equality, as in the code; for ASCII names this is ordinary ASCII case folding (separate theorem).')

KW_GEN = os.path.join(core.COQ, 'gen', 'Kwlist_gen.v')
SRC_GEN = os.path.join(core.COQ, 'gen', 'Ident_gen.v')
ID_RE = re.compile(r'[A-Za-z][A-Za-z0-9_]*')
CALL_LIMIT_S = 3.0
LIMIT = [CALL_LIMIT_S]      # current per-call limit (lowered while shrinking a non-terminating call)
TIMEOUTS = [0]
MAX_TIMEOUTS = 3


# ---------------------------------------------------------------------------------------------------
# implementation access

def impl():
  core.setup_impl_path()
  import identifiers
  for name in ('_sanitize_ident', '_add_suffix', '_gen_ident', 'pick_table_ident', 'pick_col_ident',
               'pick_col_ident_list'):
    if not hasattr(identifiers, name):
      raise core.TieBroken('identifiers.%s no longer exists' % name)
  return identifiers


class _Timeout(BaseException):
  pass


class _StopBuild(Exception):
  """several calls did not terminate: stop generating, the violations recorded so far are reported"""


def _alarm(_sig, _frm):
  raise _Timeout()


def call(fn, *args, **kw):
  """('ok', value) | ('exc', text) | ('timeout', text): the searches of identifiers.py are `while True` loops."""
  limit = kw.pop('_limit', None) or LIMIT[0]
  old = signal.signal(signal.SIGALRM, _alarm)
  signal.setitimer(signal.ITIMER_REAL, limit)
  try:
    return ('ok', fn(*args, **kw))
  except _Timeout:
    TIMEOUTS[0] += 1
    return ('timeout', 'no result after %ss' % limit)
  except Exception as e:           # pylint: disable=broad-except
    return ('exc', '%s: %s' % (type(e).__name__, e))
  finally:
    signal.setitimer(signal.ITIMER_REAL, 0)
    signal.signal(signal.SIGALRM, old)


# ---------------------------------------------------------------------------------------------------
# regenerate: keyword.kwlist of the running Python

def regenerate(ctx):
  ids = impl()
  kws = list(keyword.kwlist)
  # identifiers.py must use this very list
  if not all(ids.iskeyword(k) for k in kws) or ids.iskeyword('grist') or ids.iskeyword('match'):
    raise core.TieBroken('identifiers.iskeyword is not membership in keyword.kwlist')
  lines = ['(* GENERATED by harness/props/c21.py from keyword.kwlist of Python %s -- do not edit *)' %
           sys.version.split()[0],
           'From Coq Require Import ZArith List.', 'Import ListNotations.', 'Open Scope Z_scope.',
           'Definition kwlist : list (list Z) := [']
  lines.append(';\n'.join('  %s (* %s *)' % (core.strlit(k), k) for k in kws))
  lines.append('].')
  core.write_if_changed(KW_GEN, '\n'.join(lines) + '\n')
  # the functions of identifiers.py themselves, translated from the current source
  try:
    text = id2v.translate_module(os.path.join(core.GRIST, 'identifiers.py'))
  except id2v.Untranslatable as e:
    raise core.TieBroken('identifiers.py is outside the translated fragment: %s' % e)
  core.write_if_changed(SRC_GEN, text)


# ---------------------------------------------------------------------------------------------------
# the property's own oracle, on the implementation

def collides(r, a):
  """case-insensitive equality: upper-case forms (what the code compares); for ASCII names also lower-case."""
  if r.upper() == a.upper():
    return True
  return a.isascii() and r.isascii() and r.lower() == a.lower()


def check_id(r, avoid, table):
  if not isinstance(r, str):
    return ('not-a-string', 'result %r is not a string' % (r,))
  if not ID_RE.fullmatch(r) or not r.isidentifier():
    return ('invalid-identifier', 'result %r is not [A-Za-z][A-Za-z0-9_]*' % (r,))
  if keyword.iskeyword(r):
    return ('keyword', 'result %r is a Python keyword' % (r,))
  if table and not ('A' <= r[0] <= 'Z'):
    return ('table-not-capitalised', 'table id %r does not start with an upper-case letter' % (r,))
  for a in avoid:
    if collides(r, a):
      return ('collision', 'result %r collides case-insensitively with existing name %r' % (r, a))
  return None


def keepable(ident, avoid, table):
  return (isinstance(ident, str) and ID_RE.fullmatch(ident) is not None and not keyword.iskeyword(ident)
          and (not table or 'A' <= ident[0] <= 'Z') and not any(collides(ident, a) for a in avoid))


def oracle(w):
  """w: replay dict {'fn', 'ident'|'idents', 'avoid'}.  Returns (kind, description) or None."""
  ids = impl()
  fn, avoid = w['fn'], list(w['avoid'])
  if fn in ('pick_col_ident', 'pick_table_ident'):
    table = fn == 'pick_table_ident'
    st, r = call(getattr(ids, fn), w['ident'], avoid=set(avoid))
    if st != 'ok':
      return (st, '%s(%r, %r): %s' % (fn, w['ident'], avoid, r))
    bad = check_id(r, avoid, table)
    if bad:
      return (bad[0], '%s(%r, %r): %s' % (fn, w['ident'], avoid, bad[1]))
    if keepable(w['ident'], avoid, table) and r != w['ident']:
      return ('not-kept', '%s(%r, %r) = %r although the request is valid and unused' % (fn, w['ident'], avoid, r))
    return None
  if fn == 'pick_col_ident_list':
    idents = list(w['idents'])
    st, rs = call(ids.pick_col_ident_list, list(idents), avoid=set(avoid))
    if st != 'ok':
      return (st, '%s(%r, %r): %s' % (fn, idents, avoid, rs))
    if not isinstance(rs, list) or len(rs) != len(idents):
      return ('batch-length', '%s(%r, %r) = %r: wrong number of results' % (fn, idents, avoid, rs))
    for k, r in enumerate(rs):
      bad = check_id(r, avoid, False)
      if bad:
        return (bad[0], '%s(%r, %r) = %r: %s' % (fn, idents, avoid, rs, bad[1]))
      for r2 in rs[:k]:
        if collides(r, r2):
          return ('batch-collision', '%s(%r, %r) = %r: %r and %r collide' % (fn, idents, avoid, rs, r2, r))
      if keepable(idents[k], avoid + rs[:k], False) and r != idents[k]:
        return ('not-kept', '%s(%r, %r) = %r: element %d is valid and unused but was changed' %
                (fn, idents, avoid, rs, k))
    return None
  if fn == 'engine':
    return engine_oracle(w)
  raise ValueError('unknown replay function %r' % (fn,))


def replay(ctx, w):
  bad = oracle(w)
  return None if bad is None else '[%s] %s' % bad


# ---------------------------------------------------------------------------------------------------
# generators

ASCII_JUNK = " -./$%()'\"\n\t+*&#@!?,;:[]{}<>=\\|~`^"
UNI_POOL = ['\u00e9', '\u00c9', '\u00f1', '\u00fc', '\u00e0', '\u00df', '\u0131', '\u0130', '\u212a', '\u212b',
            '\ufb01', '\u01c6', '\u0149', '\u03a9', '\u03c9', '\u044f', '\u042f', '\u4e2d', '\u65e5', '\u0661',
            '\u0662', '\uff11', '\uff12', '\uff19', '\uff21', '\uff41', '\uff3f', '\u00b2', '\u00bd', '\u216b',
            '\u217b', '\u0301', '\u0308', '\u0327', '\u20dd', '\u00a0', '\u200b', '\u2028', '\U0001f600',
            '\U0001d400', '\U0001d7d8', '\ud800', '\x00', '\x7f', '\x80', '\u017f', '\u00b5', '\u1e9e', '\u0345',
            '\u03c2', '\u1f80', '\u0587', '\ufb13', '\u2160', '\u24b6', '\u24d0', '\u0660', '\u0967', '\uff10']
# non-ASCII characters whose upper-case form is ASCII: collisions with ASCII ids only through str.upper
UPPER_ALIASES = {'i': '\u0131', 'I': '\u0131', 's': '\u017f', 'S': '\u017f'}


def rand_ident(rng, lo=1, hi=8):
  n = rng.randint(lo, hi)
  return rng.choice(string.ascii_letters) + ''.join(
    rng.choice(string.ascii_letters + string.digits + '_') for _ in range(n - 1))


def recase(rng, s):
  return rng.choice([s, s.upper(), s.lower(), s.swapcase(), s.capitalize(), s.title(),
                     ''.join(rng.choice([c.upper(), c.lower()]) for c in s)])


def gen_name(rng):
  """returns (stream, name) -- name is a str or None"""
  k = rng.random()
  if k < 0.14:
    return 'valid', rand_ident(rng)
  if k < 0.28:
    kw = rng.choice(keyword.kwlist)
    form = rng.randrange(8)
    if form == 0:
      return 'keyword', kw
    if form == 1:
      return 'keyword', recase(rng, kw)
    if form == 2:
      return 'keyword', rng.choice([' ', '_', '__', '-', '\t']) + kw + rng.choice(['', ' ', '_', '!'])
    if form == 3:   # accent that NFKD splits off and the code then drops
      i = rng.randrange(len(kw))
      return 'keyword', kw[:i + 1] + rng.choice(['\u0301', '\u0308', '\u0327']) + kw[i + 1:]
    if form == 4:
      return 'keyword', kw + str(rng.randint(0, 12))
    if form == 5:   # the prefix in front of a keyword / double prefix
      return 'keyword', rng.choice(['c', 'T', 'cc', 'TT']) + recase(rng, kw)
    if form == 6:
      return 'keyword', rng.choice(string.digits) + kw
    return 'keyword', kw.lower()
  if k < 0.36:
    return 'digit-lead', ''.join(rng.choice(string.digits) for _ in range(rng.randint(1, 3))) + \
      rng.choice(['', rand_ident(rng, 1, 4), ' x', '_'])
  if k < 0.43:
    return 'underscore-lead', '_' * rng.randint(1, 3) + rng.choice(['', rand_ident(rng, 1, 4), '1', ' ', '9a'])
  if k < 0.50:
    return 'empty', rng.choice([None, '', ' ', '___', '!!', '\u0301', '\u4e2d\u65e5', '\u200b', '-', '_ _'])
  if k < 0.62:
    n = rng.randint(1, 8)
    return 'punct', ''.join(rng.choice(string.ascii_letters + string.digits + '_' + ASCII_JUNK * 2)
                            for _ in range(n))
  if k < 0.80:
    n = rng.randint(1, 7)
    return 'unicode', ''.join(rng.choice(UNI_POOL) if rng.random() < 0.5 else
                              rng.choice(string.ascii_letters + string.digits + '_ ') for _ in range(n))
  if k < 0.88:
    n = rng.randint(1, 5)
    return 'random-cp', ''.join(chr(rng.choice([rng.randrange(0x80, 0x800), rng.randrange(0x800, 0x10000),
                                               rng.randrange(0x10000, 0x110000), rng.randrange(0x20, 0x7f)]))
                               for _ in range(n))
  if k < 0.94:
    return 'letters', ''.join(rng.choice(string.ascii_uppercase) for _ in range(rng.randint(1, 2)))
  return 'ends-digit', rand_ident(rng, 1, 4) + rng.choice(string.digits) + rng.choice(['', '\n', '_2', '\u0661'])


def keyword_variants(full=True):
  """every keyword in every case variant that matters, bare and with invalid characters around it
  (deterministic: part of every run, for both pick functions, batches and the engine stream)"""
  return [w for v in bare_keyword_variants()
          for w in ((v, ' ' + v, v + '!', '_' + v, '-' + v + ' ', '1' + v) if full else (v, ' ' + v, v + '!', '_' + v))]


def bare_keyword_variants():
  out = []
  for kw in keyword.kwlist:
    for v in (kw, kw.lower(), kw.upper(), kw.capitalize(), kw.swapcase()):
      if v not in out:
        out.append(v)
  return out


def alias(rng, s):
  """a variant of s that has the same upper-case form (case changes, dotless i / long s)"""
  out = []
  for c in recase(rng, s):
    out.append(UPPER_ALIASES[c] if c in UPPER_ALIASES and rng.random() < 0.3 else c)
  return ''.join(out)


def letters(n):
  """the first n strings of A, B, .., Z, AA, AB, .."""
  out, k = [], 0
  while len(out) < n:
    k += 1
    m, s = k, ''
    while m > 0:
      m, r = divmod(m - 1, 26)
      s = chr(65 + r) + s
    out.append(s)
  return out


def gen_avoid(ctx, fn, name):
  """an avoid set aimed at the id the implementation would choose for `name`"""
  rng = ctx.rng
  ids = impl()
  st, r0 = call(fn, name, avoid=set())
  mode = rng.random()
  avoid = []
  if st != 'ok' or not isinstance(r0, str) or mode < 0.3:
    pass
  elif mode < 0.45:
    avoid.append(alias(rng, r0))
  else:
    n = rng.choice([1, 2, 3, 4, 6, 9, 12]) if ctx.tier == 'quick' else rng.choice([1, 2, 3, 5, 9, 12, 25, 60, 110])
    st2, sane = call(ids._sanitize_ident, name, prefix='T' if fn is ids.pick_table_ident else 'c',
                     capitalize=fn is ids.pick_table_ident)
    if st2 == 'ok' and sane == '' and fn is ids.pick_col_ident:
      if ctx.tier == 'thorough' and rng.random() < 0.02:
        n = rng.choice([701, 702, 703, 710])
      elif rng.random() < 0.3:
        n = rng.choice([25, 26, 27, 30, 52, 53])
      avoid.extend(alias(rng, s) for s in letters(n))
    elif st2 == 'ok' and sane == '':
      avoid.extend(alias(rng, 'Table%d' % k) for k in range(1, n + 1))
    else:
      base = r0 + '_' if r0[-1:].isdigit() else r0
      avoid.append(alias(rng, r0))
      avoid.extend(alias(rng, '%s%d' % (base, k)) for k in range(2, n + 1))
    if rng.random() < 0.25 and avoid:
      del avoid[rng.randrange(len(avoid))]        # a gap in the run
  for _ in range(rng.choice([0, 0, 1, 2, 4])):
    avoid.append(gen_name(rng)[1] or 'id')
  if rng.random() < 0.3:
    avoid.append('id')
  rng.shuffle(avoid)
  return avoid


def gen_batch(ctx):
  rng = ctx.rng
  pool = [gen_name(rng)[1] for _ in range(rng.randint(1, 4))]
  base = rng.choice(['A', 'x', 'if', 'Total', 'a1']) if rng.random() < 0.6 else (pool[0] or 'A')
  pool += [base, base, recase(rng, base), base + '2', base + '_2', base.upper() + '2_2', None, '']
  idents = [rng.choice(pool) for _ in range(rng.choice([0, 1, 2, 3, 4, 5, 6, 8, 12]))]
  avoid = [alias(rng, rng.choice([p for p in pool if p] or ['A'])) for _ in range(rng.choice([0, 0, 1, 2, 3]))]
  if rng.random() < 0.5:
    avoid.append('id')
  if rng.random() < 0.2:
    avoid.extend(alias(rng, s) for s in letters(rng.randint(1, 5)))
  return idents, avoid


# ---------------------------------------------------------------------------------------------------
# Coq literals / tables of library behaviour for one case

def ostr(s):
  return 'None' if s is None else '(Some %s)' % core.strlit(s)


def strs(l):
  return core.coq_list([core.strlit(s) for s in l])


def tables_for(norm_inputs, others):
  """mk_tables literal: unicodedata/str/re behaviour on exactly the non-ASCII text this case can touch."""
  nf = []
  chars = set()
  for s in norm_inputs:
    if s is None:
      continue
    chars.update(s)
    if not s.isascii():
      n = unicodedata.normalize('NFKD', s)
      chars.update(n)
      if n != s:
        nf.append((s, n))
  for s in others:
    if s is not None:
      chars.update(s)
  todo = list(chars)
  while todo:
    c = todo.pop()
    for d in c.upper() + c.capitalize():
      if d not in chars:
        chars.add(d)
        todo.append(d)
  non = sorted(c for c in chars if ord(c) >= 128)
  pair = lambda a, b: '(%s, %s)' % (a, b)
  return '(mk_tables %s %s %s %s %s)' % (
    core.coq_list([pair(core.strlit(a), core.strlit(b)) for a, b in sorted(set(nf))]),
    core.zlist([ord(c) for c in non if unicodedata.combining(c)]),
    core.coq_list([pair(core.zlit(ord(c)), core.strlit(c.upper())) for c in non if c.upper() != c]),
    core.coq_list([pair(core.zlit(ord(c)), core.strlit(c.capitalize())) for c in non if c.capitalize() != c]),
    core.zlist([ord(c) for c in non if re.match(r'\d', c)]))


# ---------------------------------------------------------------------------------------------------
# monitors of the library hypotheses

def monitors(ctx, seen_strings):
  for c in map(chr, range(128)):
    if c.upper() != (chr(ord(c) - 32) if 'a' <= c <= 'z' else c):
      ctx.broken('monitor:upper_ok', 'chr(%d).upper() = %r' % (ord(c), c.upper()))
    if c.capitalize() != (chr(ord(c) - 32) if 'a' <= c <= 'z' else c):
      ctx.broken('monitor:cap_ok', 'chr(%d).capitalize() = %r' % (ord(c), c.capitalize()))
    if unicodedata.normalize('NFKD', c) != c:
      ctx.broken('monitor:nfkd_ok', 'NFKD(chr(%d)) changes it' % ord(c))
    if unicodedata.combining(c):
      ctx.broken('monitor:combining_ok', 'chr(%d) is a combining mark' % ord(c))
    if bool(re.match(r'\d', c)) != ('0' <= c <= '9'):
      ctx.broken('monitor:udigit', r'\d on chr(%d)' % ord(c))
  bad = [c for c in range(0x110000) if chr(c).upper().upper() != chr(c).upper()]
  if bad:
    ctx.broken('monitor:upper_idem_ok', 'code points %r' % bad[:10])
  ctx.bump('monitor:upper_idem code points', 0x110000)
  n = 0
  for s in seen_strings:
    if s is None:
      continue
    n += 1
    if s.upper() != ''.join(c.upper() for c in s):
      ctx.broken('monitor:upper is character-wise', repr(s))
    if s.isascii() and unicodedata.normalize('NFKD', s) != s:
      ctx.broken('monitor:nfkd_ok', 'NFKD(%r) changes it' % s)
  ctx.bump('monitor:strings checked', n)


# ---------------------------------------------------------------------------------------------------
# correspondence: model (vm_compute) vs implementation

def classify(ids, fn, name, avoid, r):
  table = fn is ids.pick_table_ident
  st, sane = call(ids._sanitize_ident, name, prefix='T' if table else 'c', capitalize=table)
  if st != 'ok':
    return 'error'
  if sane == '':
    return 'generated' if not table else 'Table-n'
  if r != sane:
    return 'suffixed'
  if name is not None and keyword.iskeyword(sane[1:]):
    return 'keyword-prefixed'
  return 'kept' if sane == name else 'sanitised'


def small_scope():
  import itertools
  alpha = ['a', 'I', '1', '_', ' ', '\u00e9', '\u0131']
  for n in range(0, 4):
    for t in itertools.product(alpha, repeat=n):
      yield ''.join(t)


def build_cases(ctx):
  """All single-call cases of this run: list of (fn name, args...) with the implementation's answer."""
  ids = impl()
  rng = ctx.rng
  out = {'sanitize': [], 'suffix': [], 'gen': [], 'table': [], 'col': [], 'list': []}
  seen = []
  N = ctx.n(500, 12000)

  def pick_case(fn, key, name, avoid, stream):
    st, r = call(fn, name, avoid=set(avoid))
    w = {'fn': fn.__name__, 'ident': name, 'avoid': avoid}
    seen.extend([name] + avoid)
    if st != 'ok':
      ctx.violation(st, '%s(%r, %r): %s' % (fn.__name__, name, avoid, r), shrink(w, st))
      if TIMEOUTS[0] >= MAX_TIMEOUTS:
        raise _StopBuild()
      return
    kind = classify(ids, fn, name, avoid, r)
    ctx.count((fn.__name__, name, sorted(avoid)), nontrivial=(r != name or bool(avoid)),
              sample={'fn': fn.__name__, 'ident': name, 'avoid': avoid[:6], 'result': r},
              kind='%s:%s' % (key, kind))
    ctx.bump('stream:' + stream)
    out[key].append((w, 'case_%s %s %s %s %s' % (key, tables_for([name], avoid + [r]), ostr(name), strs(avoid),
                                                 core.strlit(r)), r))

  TIMEOUTS[0] = 0
  try:
    _build(ctx, ids, rng, out, seen, N, pick_case)
  except _StopBuild:
    ctx.log('stopped generating cases: %d calls did not terminate' % TIMEOUTS[0])
  return out, seen


def _build(ctx, ids, rng, out, seen, N, pick_case):
  # every keyword x case variant x surrounding junk, through both functions, without and with a colliding name
  kwv = keyword_variants(full=ctx.tier == 'thorough')
  for name in kwv:
    for fn, key in ((ids.pick_col_ident, 'col'), (ids.pick_table_ident, 'table')):
      pick_case(fn, key, name, [], 'keyword-variants')
  for name in bare_keyword_variants():   # the bare variants once more, with the id they would get already taken
    for fn, key in ((ids.pick_col_ident, 'col'), (ids.pick_table_ident, 'table')):
      st, r0 = call(fn, name, avoid=set())
      if st == 'ok' and isinstance(r0, str):
        pick_case(fn, key, name, [r0.swapcase(), 'id'], 'keyword-variants')
  for _ in range(N):
    stream, name = gen_name(rng)
    fn = rng.choice([ids.pick_col_ident, ids.pick_col_ident, ids.pick_table_ident])
    pick_case(fn, 'table' if fn is ids.pick_table_ident else 'col', name, gen_avoid(ctx, fn, name), stream)

  if ctx.tier == 'thorough':
    avoids = [[], ['A', 'a1', 'I'], ['\u0131', 'TABLE1', 'a', 'CA', 'A2', 'b'], ['id', 'E', 'AE', 'ca', 'TA', 'c1']]
    for s in small_scope():
      for av in avoids:
        pick_case(ids.pick_col_ident, 'col', s, list(av), 'small-scope')
        pick_case(ids.pick_table_ident, 'table', s, list(av), 'small-scope')
    ctx.extra['exhaustive'] = True
    ctx.extra['exhaustive_space'] = ('pick_col_ident and pick_table_ident on all strings of length <= 3 over '
                                     '{a, I, 1, _, space, e-acute, dotless-i} x 4 fixed avoid sets')

  # _sanitize_ident directly (other prefixes too)
  for _ in range(ctx.n(150, 3000)):
    _s, name = gen_name(rng)
    prefix = rng.choice(['c', 'T', 'c', 'T', 'x_', 'Col', 'q9'])
    cap = rng.random() < 0.5
    st, r = call(ids._sanitize_ident, name, prefix=prefix, capitalize=cap)
    seen.append(name)
    if st != 'ok':
      ctx.broken('correspondence:_sanitize_ident raised', '%r %r %r: %s' % (name, prefix, cap, r))
      continue
    ctx.count(('sanitize', name, prefix, cap), nontrivial=(r != name), kind='sanitize')
    out['sanitize'].append(((name, prefix, cap), 'case_sanitize %s %s %s %s %s' % (
      tables_for([name], [prefix, r]), ostr(name), core.strlit(prefix), core.boollit(cap), core.strlit(r)), r))

  # _add_suffix directly: arbitrary bases (Unicode digits, trailing newline), avoid given as is
  for _ in range(ctx.n(150, 3000)):
    base = gen_name(rng)[1] or rng.choice(['', 'Table', 'x1', 'x\n', '1\n', '\u0661', 'a\u0662\n'])
    k = rng.choice([1, 2, 2, 1, 7, 9, 10, 99, 0, -3, 123456789012345678901234567890])
    n = rng.choice([0, 1, 2, 3, 5, 11, 30])
    b2 = base + '_' if re.search(r'\d$', base) else base
    avoid = [('%s%d' % (b2, j)).upper() for j in range(k, k + n)]
    avoid += [gen_name(rng)[1] or 'X' for _ in range(rng.choice([0, 1, 3]))]
    if rng.random() < 0.2 and avoid:
      del avoid[rng.randrange(len(avoid))]
    st, r = call(ids._add_suffix, base, set(avoid), k)
    seen.extend([base] + avoid)
    if st != 'ok':
      ctx.broken('correspondence:_add_suffix raised or did not terminate', '%r %r %r: %s' % (base, avoid, k, r))
      if TIMEOUTS[0] >= MAX_TIMEOUTS:
        raise _StopBuild()
      continue
    ctx.count(('suffix', base, sorted(avoid), k), nontrivial=True, kind='add_suffix')
    out['suffix'].append(((base, avoid, k), 'case_suffix %s %s %s %s %s' % (
      tables_for([], [base, r] + avoid), core.strlit(base), strs(avoid), core.zlit(k), core.strlit(r)), r))

  # _gen_ident directly
  for _ in range(ctx.n(60, 600)):
    n = rng.choice([0, 1, 2, 5, 25, 26, 27, 30, 52, 60])
    if ctx.tier == 'thorough' and rng.random() < 0.03:
      n = rng.choice([701, 702, 703, 728])
    avoid = [alias(rng, s) for s in letters(n)]
    avoid += [gen_name(rng)[1] or 'X' for _ in range(rng.choice([0, 1, 3]))]
    if rng.random() < 0.3 and avoid:
      del avoid[rng.randrange(len(avoid))]
    rng.shuffle(avoid)
    st, r = call(ids._gen_ident, set(avoid))
    seen.extend(avoid)
    if st != 'ok':
      ctx.broken('correspondence:_gen_ident raised or did not terminate', '%r: %s' % (avoid, r))
      if TIMEOUTS[0] >= MAX_TIMEOUTS:
        raise _StopBuild()
      continue
    ctx.count(('gen', sorted(avoid)), nontrivial=True, kind='gen_ident')
    out['gen'].append(((avoid,), 'case_gen %s %s %s' % (tables_for([], avoid + [r]), strs(avoid), core.strlit(r)), r))

  # batches
  kwv = keyword_variants(full=ctx.tier == 'thorough')
  kw_batches = [(kwv[i:i + 12], ['id']) for i in range(0, len(kwv), 12)]
  for k in range(len(kw_batches) + ctx.n(250, 5000)):
    idents, avoid = kw_batches[k] if k < len(kw_batches) else gen_batch(ctx)
    st, rs = call(ids.pick_col_ident_list, list(idents), avoid=set(avoid))
    w = {'fn': 'pick_col_ident_list', 'idents': idents, 'avoid': avoid}
    seen.extend(idents + avoid)
    if st != 'ok' or not isinstance(rs, list) or not all(isinstance(r, str) for r in rs):
      kind = st if st != 'ok' else 'not-a-string'
      ctx.violation(kind, 'pick_col_ident_list(%r, %r): %r' % (idents, avoid, rs), shrink(w, kind))
      if TIMEOUTS[0] >= MAX_TIMEOUTS:
        raise _StopBuild()
      continue
    ctx.count(('list', idents, sorted(avoid)), nontrivial=(rs != idents),
              sample={'fn': 'pick_col_ident_list', 'idents': idents, 'avoid': avoid, 'result': rs},
              kind='list:len%d' % min(len(idents), 6))
    out['list'].append((w, 'case_list %s %s %s %s' % (
      tables_for(idents, avoid + rs), core.coq_list([ostr(s) for s in idents]), strs(avoid), strs(rs)), rs))


SRC_CHECK = '''
Definition check_case_src (kw : list str) (c : ccase) : bool :=
  match c with
  | case_sanitize t i prefix cap out =>
      opt_str_eqb (src_sanitize_ident (t_nfkd t) (t_comb t) (t_cap t) kw i prefix cap) out
  | case_suffix t base avoid k out => opt_str_eqb (src_add_suffix (t_upper t) (t_udigit t) base avoid k) out
  | case_gen t avoid out => opt_str_eqb (src_gen_ident (t_upper t) avoid) out
  | case_table t i avoid out =>
      opt_str_eqb (src_pick_table_ident (t_nfkd t) (t_comb t) (t_upper t) (t_cap t) (t_udigit t) kw i avoid) out
  | case_col t i avoid out =>
      opt_str_eqb (src_pick_col_ident (t_nfkd t) (t_comb t) (t_upper t) (t_cap t) (t_udigit t) kw i avoid) out
  | case_list t i avoid out =>
      opt_strs_eqb (src_pick_col_ident_list (t_nfkd t) (t_comb t) (t_upper t) (t_cap t) (t_udigit t) kw i avoid) out
  end.
'''


def correspond(ctx):
  cases, seen = build_cases(ctx)
  ctx._c21_cases = cases
  monitors(ctx, seen)
  flat = [(key, c) for key in ('sanitize', 'suffix', 'gen', 'table', 'col', 'list') for c in cases[key]]
  imports = ['Grist.Model.Ident', 'GristGen.Kwlist_gen', 'Grist.Lib.IdPrelude', 'GristGen.Ident_gen']
  both = ctx.run_cases('ident', imports, 'fun c => check_case kwlist c && check_case_src kwlist c',
                       [c[1] for _key, c in flat], shard=ctx.n(250, 400), extra_defs=SRC_CHECK)
  bad, bad_src = [], []
  if both:
    # attribute the disagreements: hand model vs implementation, translated source vs implementation
    sub = [flat[i][1][1] for i in both]
    m = set(ctx.run_cases('ident_model', imports, 'check_case kwlist', sub, shard=400, extra_defs=SRC_CHECK))
    t = set(ctx.run_cases('ident_src', imports, 'check_case_src kwlist', sub, shard=400, extra_defs=SRC_CHECK))
    bad = [i for k, i in enumerate(both) if k in m]
    bad_src = [i for k, i in enumerate(both) if k in t]
  ctx.extra['translator_validation'] = {
    'translator': 'harness/id2v.py', 'generated': 'coq/gen/Ident_gen.v',
    'functions': [id2v.SIGS[n][0] for n in id2v.ORDER], 'cases': len(flat), 'disagreements': len(bad_src)}
  for i in bad_src[:3]:
    key, c = flat[i]
    ctx.broken('translation:id2v output of %s differs from the running function' % key,
               'input %r -> implementation %r' % (c[0], c[2]))
  shown = {}
  for i in bad:
    key, c = flat[i]
    shown[key] = shown.get(key, 0) + 1
    if shown[key] <= 3:
      ctx.broken('correspondence:model of %s differs from identifiers.py' % key,
                 'input %r -> implementation %r' % (c[0], c[2]))
  bad = sorted(set(bad) | set(bad_src))
  ctx._c21_disagree = [flat[i] for i in bad]
  import itertools
  want = list(itertools.islice(impl()._make_letters(), ctx.n(800, 20000)))
  idx = sorted(set(range(0, 60)) | set(range(690, 760)) | {len(want) - 1} | set(ctx.rng.sample(range(len(want)), 60)))
  idx = [i for i in idx if i < len(want)]
  badl = ctx.run_cases('letters', ['Grist.Model.Ident', 'Grist.Lib.IdPrelude'],
                       'fun c => str_eqb (make_letters (fst c)) (snd c)',
                       ['(%d%%nat, %s)' % (i, core.strlit(want[i])) for i in idx], shard=400)
  ctx.bump('compared:_make_letters', len(idx))
  for i in badl[:3]:
    ctx.broken('correspondence:IdPrelude.make_letters differs from identifiers._make_letters', 'index %d' % idx[i])
  for key in cases:
    ctx.bump('compared:' + key, len(cases[key]))


# ---------------------------------------------------------------------------------------------------
# search: the property's oracle on the implementation

def names_of(key, c):
  """the requested names and avoid names of a disagreeing correspondence case, and the implementation's answer"""
  inp, out = c[0], c[2]
  names, avoid = [], []
  if key in ('col', 'table'):
    names, avoid = [inp['ident']], list(inp['avoid'])
  elif key == 'list':
    names, avoid = list(inp['idents']), list(inp['avoid'])
  elif key == 'sanitize':
    names = [inp[0]]
  elif key == 'suffix':
    names, avoid = [inp[0]], list(inp[1])
  elif key == 'gen':
    avoid = list(inp[0])
  outs = out if isinstance(out, list) else [out]
  return [n for n in names if isinstance(n, str)], avoid, [o for o in outs if isinstance(o, str)]


def neighbours(name):
  """case variants, prefixes/suffixes, stripped and re-wrapped forms of a name"""
  core_ = ''.join(ch for ch in name if ch.isascii() and (ch.isalnum() or ch == '_')).lstrip('_')
  base = [name, core_, core_[1:], core_[:-1], core_.rstrip(string.digits + '_')]
  for p in ('c', 'T', 'C', 't'):
    if core_[:1] == p:
      base.append(core_[1:])
  out = []
  for b in base:
    for v in (b, b.lower(), b.upper(), b.capitalize(), b.swapcase(), b[:1].lower() + b[1:], b[:1].upper() + b[1:]):
      for w in (v, ' ' + v, v + '!', '_' + v, '1' + v):
        if w not in out:
          out.append(w)
  for k in range(1, min(len(name), 6)):
    out.extend([name[:k], name[k:]])
  return out


def focused_search(ctx):
  """After a correspondence break: the property oracle on a neighbourhood of the disagreeing inputs (their case
  variants, prefixes/suffixes, the implementation's answers fed back as requests and as existing names), through
  pick_col_ident, pick_table_ident and pick_col_ident_list."""
  dis = getattr(ctx, '_c21_disagree', None) or []
  if not dis:
    return
  tried, found = 0, set()
  seen = set()
  for key, c in dis[:40]:
    names, avoid, outs = names_of(key, c)
    cands = []
    for n in names + outs:
      cands.extend(neighbours(n))
    if any(kw.lower() in n.lower() for kw in keyword.kwlist for n in names + outs):
      cands.extend(keyword_variants())       # a keyword is involved: every keyword in every case variant
    avoids = [[], avoid[:8], [o.swapcase() for o in outs][:4], [o.lower() for o in outs][:4] + [n for n in names][:4]]
    for cand in cands:
      for av in avoids:
        ws = [{'fn': 'pick_col_ident', 'ident': cand, 'avoid': av},
              {'fn': 'pick_table_ident', 'ident': cand, 'avoid': av},
              {'fn': 'pick_col_ident_list', 'idents': [cand, cand.swapcase(), cand], 'avoid': av}]
        for w in ws:
          k = repr(sorted(w.items()))
          if k in seen:
            continue
          seen.add(k)
          tried += 1
          bad = oracle(w)
          ctx.count(('focused', k), nontrivial=True, kind='focused-search')
          if bad and (bad[0], w['fn']) not in found:
            found.add((bad[0], w['fn']))
            small = shrink(w, bad[0])
            ctx.violation(bad[0], (oracle(small) or bad)[1], small)
          if len(ctx.violations) > 20 or TIMEOUTS[0] >= 2 * MAX_TIMEOUTS or tried >= 40000:
            ctx.log('focused search around %d disagreeing inputs: %d calls, %d failure modes' %
                    (len(dis), tried, len(found)))
            return
  ctx.log('focused search around %d disagreeing inputs: %d calls, %d failure modes' % (len(dis), tried, len(found)))


def search(ctx):
  cases = getattr(ctx, '_c21_cases', None)
  if cases is None:
    cases, _seen = build_cases(ctx)
  focused_search(ctx)
  for key in ('col', 'table', 'list'):
    for w, _coq, _r in cases[key]:
      bad = oracle(w)
      if bad:
        small = shrink(w, bad[0])
        ctx.violation(bad[0], (oracle(small) or bad)[1], small)
        if len(ctx.violations) > 20:
          return
  engine_search(ctx)


def shrink(w, kind):
  """greedy minimisation of a failing replay: drop avoid entries / batch elements / characters while the same
  kind of failure remains"""
  def fails(x):
    try:
      b = oracle(x)
    except Exception:      # pylint: disable=broad-except
      return False
    return b is not None and b[0] == kind
  w = dict(w)
  saved, count = LIMIT[0], TIMEOUTS[0]
  if kind == 'timeout':
    LIMIT[0] = 0.3
  try:
    w = _shrink(w, fails)
  finally:
    LIMIT[0], TIMEOUTS[0] = saved, count
  return w


def drop_rename(item, i):
  """the must-bundle without its i-th rename (None if it has another shape)"""
  acts = item['actions']
  new = dict(item)
  new['targets'] = item['targets'][:i] + item['targets'][i + 1:]
  if len(acts) == 1 and acts[0][0] == 'BulkUpdateRecord':
    a = acts[0]
    new['actions'] = [[a[0], a[1], a[2][:i] + a[2][i + 1:], {k: v[:i] + v[i + 1:] for k, v in a[3].items()}]]
    return new
  if all(a[0] == 'UpdateRecord' for a in acts) and len(acts) == len(item['targets']):
    new['actions'] = acts[:i] + acts[i + 1:]
    return new
  return None


def _shrink(w, fails):
  changed = True
  while changed:
    changed = False
    for field in ('avoid', 'idents', 'history'):
      if field in w:
        i = 0
        while i < len(w[field]):
          x = dict(w)
          x[field] = w[field][:i] + w[field][i + 1:]
          if fails(x):
            w, changed = x, True
          else:
            i += 1
    for k, item in enumerate(w.get('history', [])):
      if not isinstance(item, dict):
        continue
      n = len(item.get('targets', []))
      i = 0
      while n > 1 and i < n:
        new = drop_rename(item, i)
        x = dict(w)
        x['history'] = w['history'][:k] + [new] + w['history'][k + 1:]
        if new is not None and fails(x):
          w, item, n, changed = x, new, n - 1, True
        else:
          i += 1
    if isinstance(w.get('ident'), str):
      i = 0
      while i < len(w['ident']):
        x = dict(w)
        x['ident'] = w['ident'][:i] + w['ident'][i + 1:]
        if fails(x):
          w, changed = x, True
        else:
          i += 1
  return w


# ---------------------------------------------------------------------------------------------------
# engine level: the ids that end up in the metadata after AddTable / AddColumn / renames

def engine_ids(e):
  from harness import gristenv
  tabs = {}
  trep = gristenv.actions.get_action_repr(e.fetch_table('_grist_Tables'))
  crep = gristenv.actions.get_action_repr(e.fetch_table('_grist_Tables_column'))
  byref = {}
  for rid, tid in zip(trep[2], trep[3]['tableId']):
    byref[rid] = tid
    tabs[tid] = []
  for par, cid in zip(crep[3]['parentId'], crep[3]['colId']):
    tabs.setdefault(byref.get(par, '?%r' % par), []).append(cid)
  return tabs


LAST_TABLE = [None]       # table in which check_doc found the last failure


def col_rows(e):
  from harness import gristenv
  trep = gristenv.actions.get_action_repr(e.fetch_table('_grist_Tables'))
  crep = gristenv.actions.get_action_repr(e.fetch_table('_grist_Tables_column'))
  tname = dict(zip(trep[2], trep[3]['tableId']))
  tsum = dict(zip(trep[2], trep[3]['summarySourceTable']))
  return [{'ref': r, 'tref': p, 'table': tname.get(p), 'col': c, 'gb': bool(ssc), 'source': tsum.get(p) or 0}
          for r, p, c, ssc in zip(crep[2], crep[3]['parentId'], crep[3]['colId'], crep[3]['summarySourceCol'])]


def sister_propagation(before, refs, failing_table):
  """Is the failing table one that received a rename only because it holds a SISTER (same-named formula column of a
  sibling summary table of the same source) of a column the bundle renames?"""
  names = {r['table'] for r in before}
  for t in before:
    if t['ref'] not in refs or not t['source'] or t['gb']:
      continue
    sib = [r for r in before if r['source'] == t['source'] and r['tref'] != t['tref'] and not r['gb']
           and r['col'] == t['col']]
    if not sib:
      continue
    if failing_table is None or failing_table not in names or any(r['table'] == failing_table for r in sib):
      return True
  return False


def check_doc(e, a):
  """the ids stored in the metadata after action a: every table id / column id valid, unique case-insensitively"""
  tabs = engine_ids(e)
  seen_t = []
  for t, cols in tabs.items():
    bad = check_id(t, seen_t, True)
    if bad:
      return (bad[0], 'after %r: table id %s' % (a, bad[1]))
    seen_t.append(t)
    seen_c = ['id']
    for c in cols:
      bad = check_id(c, seen_c, False)
      if bad:
        LAST_TABLE[0] = t
        return (bad[0], 'after %r: column id of %s: %s' % (a, t, bad[1]))
      seen_c.append(c)
  return None


def apply_checked(e, a):
  """apply one history item: a user action (other failures than the property's are allowed), or
  {'actions': [...], 'must': True} = one bundle of valid renames that must succeed.
  Returns (kind, description) if the property fails, else None."""
  from harness import gristenv
  must = isinstance(a, dict)
  bundle = a['actions'] if must else [a]
  if must:
    # the recorded targets must still be those columns (a shrunk history may have lost the setup): else skip
    before = col_rows(e)
    now = {r['ref']: '%s.%s' % (r['table'], r['col']) for r in before}
    refs = [r for act in bundle for r in (act[2] if act[0] == 'BulkUpdateRecord' else [act[2]])]
    if [now.get(r) for r in refs] != list(a.get('targets', [])):
      return None
  try:
    gristenv.apply(e, bundle)
  except SyntaxError as ex:
    # the generated module (class <tableId>: ... <colId> = ...) does not compile: an id is not a usable identifier
    return ('generated-code-syntax-error', 'action %r raised %s: %s' % (bundle, type(ex).__name__, ex))
  except Exception as ex:      # pylint: disable=broad-except
    gristenv.clean(e)
    if must and a.get('must'):
      m = re.search(r'Column \S+ already exists in (\S+)', str(ex))
      if m and sister_propagation(before, refs, m.group(1)):
        return ('sister-rename-collision', 'the renames %r failed with %s: %s (a rename propagated to the sister '
                'column of a sibling summary table is not made unique there)' % (bundle, type(ex).__name__, ex))
      return ('valid-rename-batch-failed', 'the renames %r failed with %s: %s (ids picked in one batch must be '
              'made unique, not rejected)' % (bundle, type(ex).__name__, ex))
    return None
  LAST_TABLE[0] = None
  bad = check_doc(e, bundle)
  if bad and must and bad[0] == 'collision' and sister_propagation(before, refs, LAST_TABLE[0]):
    return ('sister-rename-collision', bad[1] + ' (a rename propagated to the sister column of a sibling summary '
            'table is not made unique there)')
  return bad


def run_history(hist):
  """Apply a list of concrete user actions; returns (kind, description) or None."""
  from harness import gristenv
  e, _ = gristenv.new_doc()
  for a in hist:
    bad = apply_checked(e, a)
    if bad:
      return bad
  return None


def gen_history(ctx):
  rng = ctx.rng
  pool = [gen_name(rng)[1] for _ in range(4)] + ['A', 'a', 'if', 'If', 'Table1', 'table1', '', None, 'id', 'ID',
                                                 'manualSort', 'gristHelper_Display', 'A2', 'a2']
  hist = []
  tables = []
  for _ in range(rng.randint(2, 7)):
    k = rng.random()
    name = rng.choice(pool)
    if k < 0.3 or not tables:
      cols = [{'id': rng.choice(pool), 'type': 'Text', 'isFormula': False} for _ in range(rng.randint(0, 4))]
      hist.append(['AddTable', name, cols])
      tables.append(len(tables))
    elif k < 0.6:
      hist.append(['AddColumn', ('$T', rng.choice(tables)), name, {'type': 'Text'}])
    elif k < 0.8:
      hist.append(['RenameColumn', ('$T', rng.choice(tables)), ('$C', rng.randrange(4)), name])
    elif k < 0.9:
      hist.append(['RenameTable', ('$T', rng.choice(tables)), name])
    else:
      hist.append(['AddEmptyTable', name])
      tables.append(len(tables))
  return hist


def resolve_and_run(hist, concrete):
  """`('$T', k)` = k-th user table currently in the document, `('$C', k)` = its k-th visible column."""
  from harness import gristenv
  e, _ = gristenv.new_doc()
  for a in hist:
    a = list(a)
    tabs = engine_ids(e)
    names = [t for t in tabs]
    ok = True
    for i, x in enumerate(a):
      if isinstance(x, (tuple, list)) and len(x) == 2 and x[0] == '$T':
        if not names:
          ok = False
          break
        a[i] = names[x[1] % len(names)]
      elif isinstance(x, (tuple, list)) and len(x) == 2 and x[0] == '$C':
        cols = [c for c in tabs.get(a[1], []) if c != 'manualSort' and not c.startswith('gristHelper_')]
        if not cols:
          ok = False
          break
        a[i] = cols[x[1] % len(cols)]
    if not ok:
      continue
    concrete.append(a)
    bad = apply_checked(e, a)
    if bad:
      return bad
  return None


def engine_oracle(w):
  st, bad = call(run_history, w['history'], _limit=15.0)
  if st == 'timeout':
    return ('timeout', 'engine history %r: %s' % (w['history'], bad))
  if st != 'ok':
    raise RuntimeError(bad)
  return bad


def keyword_histories(ctx):
  """AddTable / RenameTable / AddColumn / RenameColumn with every keyword variant as the requested name"""
  names = bare_keyword_variants()
  if ctx.tier == 'thorough':
    names = keyword_variants()
  out = []
  for i in range(0, len(names), 8):
    chunk = names[i:i + 8]
    h = [['AddTable', n, [{'id': n, 'type': 'Text', 'isFormula': False}]] for n in chunk[:4]]
    h += [['AddEmptyTable', None]]
    for n in chunk[4:]:
      h += [['RenameTable', ('$T', len(h)), n], ['AddColumn', ('$T', 0), n, {'type': 'Text'}],
            ['RenameColumn', ('$T', 0), ('$C', 0), n]]
    out.append(h)
  return out


# ---- summary tables: a rename of a source column lands in other tables too ---------------------------------

def col_table(e):
  """[(colRef, tableId, colId, is group-by column of a summary table, table is a summary table)]"""
  from harness import gristenv
  trep = gristenv.actions.get_action_repr(e.fetch_table('_grist_Tables'))
  crep = gristenv.actions.get_action_repr(e.fetch_table('_grist_Tables_column'))
  tname = dict(zip(trep[2], trep[3]['tableId']))
  tsum = dict(zip(trep[2], trep[3]['summarySourceTable']))
  return [(r, tname.get(p), c, bool(ssc), bool(tsum.get(p)))
          for r, p, c, ssc in zip(crep[2], crep[3]['parentId'], crep[3]['colId'], crep[3]['summarySourceCol'])]


RENAME_POOL = ['foo', 'class', 'none', 'a b', '1x', 'X', 'Y', 'Z', 'V', 'count', 'group', 'id', 'manualSort',
               '\u00e9t\u00e9', 'A', '', 'if', 'T', 'total_2', 'Total2']


def rename_names(rng, k):
  """k requested names that collide after sanitising: equal, case variants, padded, plus sometimes a stranger"""
  base = rng.choice(RENAME_POOL)
  forms = [base, base, base.capitalize(), base.upper(), base.swapcase(), ' ' + base, base + '!', base + '2',
           base.lower()]
  out = [rng.choice(forms) for _ in range(k)]
  if rng.random() < 0.3:
    out[rng.randrange(k)] = rng.choice(RENAME_POOL)
  return out


def summary_scenario(ctx, concrete):
  """T(X,Z,V) with one or two summary tables (sisters share the formula column Y), then bundles that rename a
  group-by SOURCE column and summary-table columns together (BulkUpdateRecord on _grist_Tables_column by colId or by
  label, or several UpdateRecords in one bundle).  The concrete actions are appended to `concrete` as they run."""
  from harness import gristenv
  rng = ctx.rng
  e, _ = gristenv.new_doc()

  def do(item):
    concrete.append(item)
    return apply_checked(e, item)

  def ref(t, c):
    for r, tt, cc, _g, _s in col_table(e):
      if tt == t and cc == c:
        return r
    return None

  bad = do(['AddTable', 'T', [{'id': 'X', 'type': 'Text', 'isFormula': False},
                              {'id': 'Z', 'type': 'Text', 'isFormula': False},
                              {'id': 'V', 'type': 'Numeric', 'isFormula': False}]])
  bad = bad or do(['BulkAddRecord', 'T', [None, None, None], {'X': ['a', 'b', 'a'], 'Z': ['p', 'p', 'q'], 'V': [1, 2, 3]}])
  if bad:
    return bad
  shape = rng.choice(['X', 'X', 'X+XZ', 'X+XZ', 'X+Z', 'XZ'])
  groups = {'X': [['X']], 'X+XZ': [['X'], ['X', 'Z']], 'X+Z': [['X'], ['Z']], 'XZ': [['X', 'Z']]}[shape]
  first = True
  for g in groups:
    bad = do(['CreateViewSection', 1, 0, 'record', [ref('T', c) for c in g], None])
    if bad:
      return bad
    if first:
      first = False
      st = [t for _r, t, _c, _g, s_ in col_table(e) if s_]
      if st:
        bad = do(['AddColumn', st[0], 'Y', {'formula': 'SUM($group.V)', 'isFormula': True}])
        if bad:
          return bad
  if rng.random() < 0.4:       # a second formula column in the last summary table only
    st = sorted({t for _r, t, _c, _g, s_ in col_table(e) if s_})
    if st:
      bad = do(['AddColumn', st[-1], rng.choice(['W', 'foo', 'y']), {'formula': '1', 'isFormula': True}])
      if bad:
        return bad

  for _ in range(rng.randint(1, 3)):
    cols = col_table(e)
    src = [(r, t, c) for r, t, c, g, s_ in cols if not s_ and c not in ('manualSort',) and not c.startswith('gristHelper_')]
    grouped_src = {c for _r, _t, c, g, s_ in cols if s_ and g}
    sumc = [(r, t, c) for r, t, c, g, s_ in cols
            if s_ and not g and c not in ('group', 'manualSort') and not c.startswith('gristHelper_')]
    a = [x for x in src if x[2] in grouped_src] or src
    targets = [rng.choice(a)]
    if sumc:
      targets.append(rng.choice(sumc))
    extra = [x for x in src + sumc if x not in targets]
    rng.shuffle(extra)
    targets += extra[:rng.choice([0, 0, 1, 2])]
    # at most one of several sister columns (they are renamed together by the engine)
    seen_names, uniq = set(), []
    for x in targets:
      key = (x[2], x[1] in {t for _r, t, _c, _g, s_ in cols if s_})
      if key in seen_names:
        continue
      seen_names.add(key)
      uniq.append(x)
    targets = uniq
    if rng.random() < 0.5:
      targets.reverse()
    names = rename_names(rng, len(targets))
    mode = rng.choice(['colId', 'colId', 'label', 'updates'])
    refs = [x[0] for x in targets]
    if mode == 'colId':
      acts = [['BulkUpdateRecord', '_grist_Tables_column', refs, {'colId': names}]]
    elif mode == 'label':
      acts = [['BulkUpdateRecord', '_grist_Tables_column', refs, {'label': names, 'untieColIdFromLabel': [False] * len(refs)}]]
    else:
      acts = [['UpdateRecord', '_grist_Tables_column', r, {'colId': n}] for r, n in zip(refs, names)]
    bad = do({'actions': acts, 'must': True,
              'targets': ['%s.%s' % (t, c) for _r, t, c in targets]})
    if bad:
      return bad
  return None


def summary_search(ctx):
  for _ in range(ctx.n(40, 1200)):
    concrete = []
    st, bad = call(summary_scenario, ctx, concrete, _limit=15.0)
    w = {'fn': 'engine', 'history': concrete, 'avoid': []}
    if st == 'timeout':
      ctx.violation('engine:timeout', 'the last action of the history %r did not finish' % (concrete,), w)
      return
    if st != 'ok':
      ctx.log('summary scenario could not be run: %s' % (bad,))
      ctx.bump('summary-scenario-error')
      continue
    ctx.count(('summary', repr(concrete)), nontrivial=True, kind='engine-summary-rename-history')
    if bad:
      ctx.bump('engine-summary:' + bad[0])
      if bad[0] == 'sister-rename-collision' and any(v['kind'] == 'engine:' + bad[0] for v in ctx.violations):
        continue       # the registered finding: one minimised instance per run is enough
      small = shrink(w, bad[0])
      ctx.violation('engine:' + bad[0], (engine_oracle(small) or bad)[1], small)
      if len(ctx.violations) > 20:
        return


def engine_search(ctx):
  summary_search(ctx)
  if len(ctx.violations) > 20:
    return
  hists = keyword_histories(ctx)
  n = ctx.n(12, 300)
  for k in range(len(hists) + n):
    hist = []
    st, msg = call(resolve_and_run, hists[k] if k < len(hists) else gen_history(ctx), hist, _limit=15.0)
    if st != 'ok':
      ctx.log('engine history could not be generated: %s' % (msg,))
      if st == 'timeout':
        ctx.violation('engine:timeout', 'the last action of the history %r did not finish: %s' % (hist, msg),
                      {'fn': 'engine', 'history': hist, 'avoid': []})
        return
      continue
    w = {'fn': 'engine', 'history': hist, 'avoid': []}
    bad = msg          # resolve_and_run checked the document after every action
    ctx.count(('engine', repr(hist)), nontrivial=True, kind='engine-history')
    if bad:
      small = w if bad[0] == 'timeout' else shrink(w, bad[0])
      ctx.violation('engine:' + bad[0], (engine_oracle(small) or bad)[1] if small is not w else bad[1], small)
      if len(ctx.violations) > 20 or bad[0] == 'timeout':
        return
