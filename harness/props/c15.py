"""C15 -- Trigger formulas recalculate exactly when configured (kernel K3, Model/Trigger.v)."""
import copy
import json

from harness import core
from harness import c15trace
from harness import gristenv as G
from harness import tg2v, tg2v_specs
from harness.histgen import shrink_list

ID = 'C15'
TITLE = 'Trigger formulas recalculate exactly when configured'
PROPS = ['Props/C15']

# ------------------------------------------------------------------------------------------------
# The document: one table T, columns numbered as in Model/Trigger.v
#   0 = Tr  data column with the trigger formula (evaluation counter)      1..3 = A, B, C  Int data columns
#   4 = F   formula column reading B                                         5 = G  formula column reading C
TR, A, B, C, F, GG = 0, 1, 2, 3, 4, 5
BASE_NAMES = {TR: 'Tr', A: 'A', B: 'B', C: 'C', F: 'F', GG: 'G'}
FCOLS = [(F, B), (GG, C)]
SRC = dict(FCOLS)
DATA_COLS = [A, B, C]
WHEN = {'DEFAULT': 0, 'NEVER': 1, 'MANUAL_UPDATES': 2}
COUNTER = '(value or 0) + 1'


def fformula(src_name):
  return '($%s or 0) // 2' % src_name


class Doc(object):
  """A real engine holding table T configured by cfg = {'when': name, 'deps': [column numbers]}."""

  def __init__(self, cfg):
    import engine as engine_mod
    self.cfg = cfg
    self.e, _ = G.new_doc()
    self.names = dict(BASE_NAMES)
    self.types = {c: 'Int' for c in BASE_NAMES}
    self.fresh = 0
    cols = [{'id': 'A', 'type': 'Int', 'isFormula': False}, {'id': 'B', 'type': 'Int', 'isFormula': False},
            {'id': 'C', 'type': 'Int', 'isFormula': False},
            {'id': 'F', 'type': 'Int', 'isFormula': True, 'formula': fformula('B')},
            {'id': 'G', 'type': 'Int', 'isFormula': True, 'formula': fformula('C')},
            {'id': 'Tr', 'type': 'Int', 'isFormula': False, 'formula': COUNTER}]
    G.apply(self.e, [['AddTable', 'T', cols]])
    self.refs = {c.colId: c.id for c in self.e.docmodel.columns.all if c.tableId == 'T'}
    deps = [self.refs[BASE_NAMES[c]] for c in cfg['deps']]
    G.apply(self.e, [['UpdateRecord', '_grist_Tables_column', self.refs['Tr'],
                      {'recalcWhen': WHEN[cfg['when']], 'recalcDeps': (['L'] + deps) if deps else None}]])
    self.evals = []          # rows for which the trigger formula was evaluated, in order
    doc = self
    if not hasattr(engine_mod.Engine, '_recompute_one_cell'):
      raise core.TieBroken('instrumentation point Engine._recompute_one_cell disappeared')
    orig = engine_mod.Engine._recompute_one_cell

    def spy(eng, table, col, row_id, *a, **k):
      if eng is doc.e and table.table_id == 'T' and col.col_id == doc.names[TR]:
        doc.evals.append(int(row_id))
      return orig(eng, table, col, row_id, *a, **k)
    self.e._recompute_one_cell = spy.__get__(self.e, type(self.e))
    self.undo_stack = []     # undo doc-action reprs of the bundles applied so far (most recent last)
    self.base_names = BASE_NAMES
    c15trace.install(self)   # spies for the effect traces (translator validation)

  # -- observation
  def col_of_name(self):
    return {n: c for c, n in self.names.items()}

  def table(self):
    t = self.e.fetch_table('T')
    out = {}
    for i, r in enumerate(t.row_ids):
      out[int(r)] = {c: num(t.columns[self.names[c]][i]) for c in (TR, A, B, C)}
    return out

  def next_row_id(self):
    return self.e.tables['T'].next_row_id()


def num(v):
  if isinstance(v, bool) or not isinstance(v, (int, float)) or v != int(v):
    raise core.TieBroken('cell value outside the model (ints only): %r' % (v,))
  return int(v)


# ------------------------------------------------------------------------------------------------
# Abstract user actions (JSON, what a replay file holds):
#   ['add', [ids or None], [cols], [[values per row]]]   ['upd', [ids], [cols], [[values per row]]]
#   ['rem', [ids]]   ['ren', col]   ['mod', col]   ['undo']
# to_engine turns one into the user action for the engine, given the current column names.

class St(object):
  """Working copy of the harness-side bookkeeping while a bundle is being built."""
  def __init__(self, doc):
    self.names, self.types, self.fresh = dict(doc.names), dict(doc.types), doc.fresh
    self.rows = set(doc.table())
    self.undo_stack = list(doc.undo_stack)


def to_engine_and_model(st, a):
  """(engine user-action repr, model user action in python form) of one abstract action; updates st."""
  k = a[0]
  if k in ('add', 'upd'):
    ids, cols, vals = list(a[1]), a[2], a[3]
    cv = {st.names[c]: [row[j] for row in vals] for j, c in enumerate(cols)}
    filled = []
    for rid in ids:
      if rid is None:
        rid = max(st.rows | set(filled) | {0}) + 1
      filled.append(rid)
    recs = [(rid, [(c, row[j]) for j, c in enumerate(cols)]) for rid, row in zip(filled, vals)]
    if k == 'add':
      st.rows |= set(filled)
      return ['BulkAddRecord', 'T', ids, cv], ('UAdd', list(cols), recs)
    return ['BulkUpdateRecord', 'T', ids, cv], ('UUpd', list(cols), recs)
  if k == 'rem':
    st.rows -= set(a[1])
    return ['BulkRemoveRecord', 'T', list(a[1])], ('UDocs', [('DRem', list(a[1]))])
  if k == 'ren':
    st.fresh += 1
    old, new = st.names[a[1]], '%s_r%d' % (BASE_NAMES[a[1]], st.fresh)
    st.names[a[1]] = new
    return ['RenameColumn', 'T', old, new], ('UDocs', [('DRename', a[1])])
  if k == 'mod':
    st.types[a[1]] = 'Numeric' if st.types[a[1]] == 'Int' else 'Int'
    return ['ModifyColumn', 'T', st.names[a[1]], {'type': st.types[a[1]]}], ('UDocs', [('DModify', a[1])])
  if k == 'undo':
    undo = st.undo_stack.pop()
    docs = docs_of_reprs(st.names, list(reversed(undo)), st.types)
    for d in docs:
      if d[0] == 'DAdd':
        st.rows |= set(r for r, _ in d[2])
      elif d[0] == 'DRem':
        st.rows -= set(d[1])
    return ['ApplyUndoActions', copy.deepcopy(undo)], ('UDocs', docs)
  raise ValueError(a)


def docs_of_reprs(names, reprs, types=None):
  """Model doc actions (python form) of doc-action reprs on table T, following renames through `names`
  (a mutable copy of the column-name map).  Actions on other tables (metadata) have no counterpart."""
  out = []
  for r in reprs:
    if len(r) < 2 or r[1] != 'T':
      continue
    byname = {n: c for c, n in names.items()}
    k = r[0]
    if k in ('AddRecord', 'UpdateRecord'):
      r = ['Bulk' + k, 'T', [r[2]], {c: [v] for c, v in r[3].items()}]
      k = r[0]
    if k in ('BulkAddRecord', 'BulkUpdateRecord'):
      cols = sorted(byname[c] for c in r[3] if c in byname)
      recs = []
      for i, rid in enumerate(r[2]):
        recs.append((int(rid), [(c, numf(r[3][names[c]][i])) for c in cols]))
      out.append(('DAdd' if k == 'BulkAddRecord' else 'DUpd', cols, recs))
    elif k in ('RemoveRecord', 'BulkRemoveRecord'):
      out.append(('DRem', [int(x) for x in (r[2] if k == 'BulkRemoveRecord' else [r[2]])]))
    elif k == 'RenameColumn':
      c = byname[r[2]]
      names[c] = r[3]
      out.append(('DRename', c))
    elif k == 'ModifyColumn':
      if 'type' in r[3] and types is not None:
        types[byname[r[2]]] = r[3]['type']
      out.append(('DModify', byname[r[2]]))
    else:
      raise core.TieBroken('doc action on T outside the model: %r' % (r[:3],))
  return out


def numf(v):
  """Values of replayed doc actions; formula columns may carry floats such as 0.5 after a type change."""
  if isinstance(v, (int, float)) and not isinstance(v, bool) and v == int(v):
    return int(v)
  return 0 if v is None else -7      # -7: a value the model never compares (formula column cells)


class BundleFailed(Exception):
  pass


def run_bundle(doc, abstract):
  """Apply one bundle of abstract actions to the real engine.  Returns a dict with the table before, the
  model actions, the observed evaluations of the trigger formula and the table after."""
  before = doc.table()
  st = St(doc)
  reprs, model = [], []
  for a in abstract:
    if a[0] == 'undo' and not st.undo_stack:
      continue
    r, m = to_engine_and_model(st, a)
    reprs.append(r)
    model.append(m)
  doc.evals = []
  doc.trace = []
  doc.tracing = True
  try:
    out = G.apply(doc.e, reprs)
  except Exception as e:          # the engine rolled the bundle back
    doc.tracing = False
    G.clean(doc.e)
    raise BundleFailed('%s: %s' % (type(e).__name__, e))
  finally:
    doc.tracing = False
  segs = c15trace.segments(doc.trace)
  if len(segs) != len(reprs):
    raise core.TieBroken('effect trace: %d user actions seen for %d applied' % (len(segs), len(reprs)))
  trace = [(r, m, s[1], s[2]) for r, m, s in zip(reprs, model, segs)]
  for m, ret in zip(model, out.retValues):
    if m[0] == 'UAdd' and [int(x) for x in ret] != [r for r, _ in m[2]]:
      raise core.TieBroken('row ids of an add were not the predicted ones: %r vs %r' % (ret, m[2]))
  doc.names, doc.types, doc.fresh = st.names, st.types, st.fresh
  doc.undo_stack = st.undo_stack + [G.reprs(out.undo)]
  after = doc.table()
  if set(after) != st.rows:
    raise core.TieBroken('rows after the bundle %r differ from the predicted %r' % (sorted(after), sorted(st.rows)))
  effect_cases = [c for c in (c15trace.effect_case(doc, r, m, s, ev) for r, m, s, ev in trace) if c is not None]
  return {'before': before, 'model': model, 'evals': list(doc.evals), 'after': after, 'effect_cases': effect_cases}


def run_history(cfg, bundles):
  """Runs a whole abstract history on a fresh document; returns the list of per-bundle results
  (failed bundles are skipped and reported as None)."""
  doc = Doc(cfg)
  out = []
  for b in bundles:
    try:
      out.append(run_bundle(doc, b))
    except BundleFailed as e:
      out.append(None)
  return out


# ------------------------------------------------------------------------------------------------
# Coq literals

def z(n):
  return core.zlit(n)


def coq_recs(recs):
  return core.coq_list(['(%s, %s)' % (z(r), core.coq_list(['(%s, %s)' % (z(c), z(v)) for c, v in kv]))
                        for r, kv in recs])


def coq_doc(d):
  if d[0] in ('DAdd', 'DUpd'):
    return '(%s %s %s)' % (d[0], core.zlist(d[1]), coq_recs(d[2]))
  if d[0] == 'DRem':
    return '(DRem %s)' % core.zlist(d[1])
  return '(%s %s)' % (d[0], z(d[1]))


def coq_uaction(m):
  if m[0] in ('UAdd', 'UUpd'):
    return '(%s %s %s)' % (m[0], core.zlist(m[1]), coq_recs(m[2]))
  return '(UDocs %s)' % core.coq_list([coq_doc(d) for d in m[1]])


def coq_cfg(cfg):
  fx = detect_fixes()
  return '{| when := %s; deps := %s; fcols := %s; fx := {| fx_add := %s; fx_lost := %s; fx_stale := %s; fx_trim := %s |} |}' % (
      cfg['when'], core.zlist(cfg['deps']), core.coq_list(['(%s, %s)' % (z(f), z(s)) for f, s in FCOLS]),
      core.boollit(fx['add']), core.boollit(fx['lost']), core.boollit(fx['stale']), core.boollit(fx['trim']))


# Which of the proposed repairs (notes/proposed_fixes/C15-*.diff) does the source under test contain?  Found out by
# replaying the minimal witness of each known finding; the model's switches [fx] are set accordingly, so the
# correspondence check keeps meaning "the model is the source" before and after such a repair lands.
_ADD3 = [['add', [None, None, None], [A], [[1], [2], [3]]]]
FIX_WITNESSES = {
  'add': ({'when': 'DEFAULT', 'deps': [A]}, [[['add', [None], [A, TR], [[3, 50]]]]]),
  'lost': ({'when': 'DEFAULT', 'deps': [A]}, [_ADD3, [['upd', [1], [A, TR], [[5, 77]]], ['upd', [2], [B], [[1]]]]]),
  'stale': ({'when': 'DEFAULT', 'deps': [A]}, [_ADD3, [['ren', A], ['upd', [1], [A], [[100]]]]]),
  'trim': ({'when': 'DEFAULT', 'deps': [F]}, [_ADD3, [['upd', [1], [TR, B], [[1, 9]]]]]),
}
_FIXES = {}


def detect_fixes():
  if not _FIXES:
    for k, (cfg, bundles) in FIX_WITNESSES.items():
      res = run_history(cfg, copy.deepcopy(bundles))[-1]
      _FIXES[k] = not judge(cfg, res)[0]
  return _FIXES


CHECK_DEFS = '''
Require Import Grist.Model.Trigger.
Definition subset (a b : list Z) := forallb (fun x => memz x b) a.
Definition same_set (a b : list Z) := subset a b && subset b a.
(* one case: cfg, then per bundle (actions, observed evaluated rows, must rows, may rows, table after) *)
Definition obs := (list uaction * list Z * list Z * list Z * list (Z * list (Z * Z)))%type.
Definition table_ok (t : tbl) (rowsvals : list (Z * list (Z * Z))) :=
  same_set (rows t) (map fst rowsvals) && (Nat.eqb (List.length (rows t)) (List.length rowsvals)) &&
  forallb (fun rv => forallb (fun cv => cell t (fst rv) (fst cv) =? snd cv) (snd rv)) rowsvals.
Fixpoint replay (g : cfg) (t : tbl) (h : list obs) : bool :=
  match h with
  | [] => true
  | (b, ev, mu, my, after) :: h' =>
      let t' := step g t b in
      let rs := rows t' in
      same_set (fired g t b) ev && Nat.eqb (List.length (fired g t b)) (List.length ev) &&
      same_set (filter (must g t b) rs) mu && same_set (filter (may g t b) rs) my &&
      table_ok t' after && replay g t' h'
  end.
Definition check (c : cfg * list obs) := replay (fst c) empty_tbl (snd c).
(* typed constructors, so that empty lists in the generated terms have a type *)
Definition ob (a : list uaction) (ev mu my : list Z) (after : list (Z * list (Z * Z))) : obs := (a, ev, mu, my, after).
Definition mk (g : cfg) (h : list obs) : cfg * list obs := (g, h).
'''


# ------------------------------------------------------------------------------------------------
# The property's own oracle, in Python, written from the property sentence (not from the engine and not by
# translating the Coq mechanism): for one bundle, which rows MUST have the trigger formula evaluated and
# which MAY.  It also remembers, per row, why - so that a disagreement can be named.

def feval(b):
  return b // 2


class Oracle(object):
  def __init__(self, cfg, table):
    self.when, self.deps = cfg['when'], list(cfg['deps'])
    self.selfdep = self.when == 'DEFAULT' and TR in self.deps
    self.tab = copy.deepcopy(table)
    self.must, self.may = set(), set()
    self.cancel = {}        # row -> (index of the user action, how) of the last explicit value
    self.triggers = {}      # row -> [(index, dependency column)] that made it "must" since the last cancel
    self.schema = []        # (index, position inside the action, kind, column)
    self.removed = set()    # row ids removed earlier in this bundle (an add may take such an id again)
    self.idx = -1

  def cell(self, r, c):
    return self.tab.get(r, {}).get(c, 0)

  # -- data (what the cells contain)
  def data_doc(self, d):
    if d[0] == 'DAdd':
      for r, kv in d[2]:
        self.tab[r] = {c: 0 for c in (TR, A, B, C)}
        self.tab[r].update({c: v for c, v in kv if c in (TR, A, B, C)})
    elif d[0] == 'DUpd':
      for r, kv in d[2]:
        self.tab.setdefault(r, {}).update({c: v for c, v in kv if c in (TR, A, B, C)})
    elif d[0] == 'DRem':
      for r in d[1]:
        self.tab.pop(r, None)
        self.removed.add(r)

  # -- the sentence
  def dep_changed(self, r, kv, c):
    new = dict(kv)
    if c in SRC:
      s = SRC[c]
      return s in new and feval(new[s]) != feval(self.cell(r, s))
    return c in new and new[c] != self.cell(r, c)

  def dep_written(self, kv, c):
    new = dict(kv)
    return c in new or (c in SRC and SRC[c] in new)

  def set_pending(self, r, must, may, why):
    if must:
      self.must.add(r)
      self.triggers.setdefault(r, []).extend((self.idx, 0, c) for c in why)
    if may:
      self.may.add(r)

  def cancel_row(self, r, how):
    self.must.discard(r)
    self.may.discard(r)
    self.cancel[r] = (self.idx, how)
    self.triggers.pop(r, None)

  def user(self, m):
    self.idx += 1
    if m[0] == 'UAdd':
      cols, recs = m[1], m[2]
      # "... unless NEVER or the action supplied a value" - a supplied value "is kept (unless the column
      # depends on itself)": a data-cleaning column cleans the supplied value (test_self_trigger)
      fires = self.when != 'NEVER' and (TR not in cols or self.selfdep)
      for r, kv in recs:
        self.cancel_row(r, 'add')
        if fires:
          self.cancel.pop(r, None)
          self.set_pending(r, True, True, ['new'])
      self.data_doc(('DAdd', cols, recs))
    elif m[0] == 'UUpd':
      cols, recs = m[1], m[2]
      explicit = TR in cols and not self.selfdep
      tr_kept = any(dict(kv)[TR] != self.cell(r, TR) for r, kv in recs) if TR in cols else False
      kept_cols = [c for c in cols if any(dict(kv)[c] != self.cell(r, c) for r, kv in recs)]
      for r, kv in recs:
        if explicit:
          row_kept = any(dict(kv)[c] != self.cell(r, c) for c in kept_cols)
          self.cancel_row(r, 'upd' if (tr_kept and row_kept) else 'upd-trimmed')
          continue
        if self.when == 'DEFAULT':
          why = [c for c in self.deps if self.dep_changed(r, kv, c)]
          self.set_pending(r, bool(why), any(self.dep_written(kv, c) for c in self.deps), why)
        elif self.when == 'MANUAL_UPDATES':
          ch = any(v != self.cell(r, c) for c, v in kv)
          self.set_pending(r, ch, ch, ['manual'])
      self.data_doc(('DUpd', cols, recs))
    else:
      # replayed doc actions: every value is explicit; explicit values win over triggers of the same user action
      expl, must, may = set(), {}, set()
      for pos, d in enumerate(m[1]):
        if d[0] == 'DAdd':
          expl |= set(r for r, _ in d[2])
        elif d[0] == 'DUpd':
          for r, kv in d[2]:
            if TR in d[1]:
              expl.add(r)
            if self.when == 'DEFAULT':
              why = [(self.idx, pos, c) for c in self.deps if self.dep_changed(r, kv, c)]
              if why:
                must.setdefault(r, []).extend(why)
              if any(self.dep_written(kv, c) for c in self.deps):
                may.add(r)
        elif d[0] in ('DRename', 'DModify'):
          self.schema.append((self.idx, pos, d[0], d[1]))
        self.data_doc(d)
      for r in set(must) | may:
        if r not in expl:
          if r in must:
            self.must.add(r)
            self.triggers.setdefault(r, []).extend(must[r])
          self.may.add(r)
      added = set(r for d in m[1] if d[0] == 'DAdd' for r, _ in d[2])
      for r in expl:
        self.cancel_row(r, 'add' if r in added else 'doc')

  def verdict(self, rows):
    """(must, may) restricted to the rows that exist at the end of the bundle."""
    return sorted(self.must & set(rows)), sorted(self.may & set(rows))

  def stale_for(self, trig):
    """Was the edge used by this trigger (index, position, dependency column) cut by a schema change earlier
    in the same bundle?  (rename of the dependency; rename/type change of a formula dependency or its source)"""
    i, pos, c = trig
    for (j, q, kind, col) in self.schema:
      if (j, q) < (i, pos):
        if c in SRC and col in (c, SRC[c]):
          return 'formula-edges-cleared'     # the formula column's own edges were cleared (ALL_ROWS)
        if c not in SRC and kind == 'DRename' and col == c:
          return 'stale-edge'                # the trigger edge names the old column id
    return None


def judge(cfg, res):
  """Disagreements between the engine and the property on one bundle: list of (kind, what); also (must, may)."""
  o = Oracle(cfg, res['before'])
  for m in res['model']:
    o.user(m)
  rows = set(res['after'])
  must, may = o.verdict(rows)
  fired = set(res['evals'])
  nact = len(res['model'])
  out = []
  if len(res['evals']) != len(fired):
    out.append(('evaluated-twice', 'trigger formula evaluated more than once for a row: %r' % (res['evals'],)))
  if fired - rows:
    out.append(('evaluated-absent-row', 'evaluated for rows not in the table: %r' % sorted(fired - rows)))
  for r in sorted((fired & rows) - set(may)):
    lc = o.cancel.get(r)
    if lc is None:
      kind = 'fired-without-cause'
    elif lc[1] == 'add':
      # the value a record is added with is not protected: visible when something makes the new row dirty -
      # its dependencies (DEFAULT with recalcDeps) or the removal of a row with the same id earlier in the bundle
      known_shape = (cfg['when'] == 'DEFAULT' and cfg['deps']) or r in o.removed
      kind = 'add-with-value' if known_shape else 'add-recalculated'
    elif lc[1] == 'upd-trimmed':
      kind = 'explicit-value-trimmed'
    elif lc[0] < nact - 1:
      kind = 'exemption-lost'
    else:
      kind = 'explicit-value-overwritten'
    out.append((kind, 'row %d: trigger formula evaluated although the property forbids it (%s; last explicit '
                      'value: %r)' % (r, cfg['when'], lc)))
  for r in sorted(set(must) - fired):
    trig = o.triggers.get(r, [])
    why = set(o.stale_for(t) for t in trig)
    if not trig or None in why:
      kind = 'missing-recalculation'
    else:
      kind = 'stale-edge' if 'stale-edge' in why else 'formula-edges-cleared'
    out.append((kind, 'row %d: trigger formula NOT evaluated although the property requires it (%s, triggers %r)'
                % (r, cfg['when'], trig)))
  for r in sorted(rows):
    want = {c: o.cell(r, c) for c in (TR, A, B, C)}
    if r in fired:
      want[TR] += 1
    if want != res['after'][r]:
      out.append(('value-mismatch', 'row %d: cells %r, expected %r' % (r, res['after'][r], want)))
  return out, must, may


# ------------------------------------------------------------------------------------------------
# Generator (online: each bundle is drawn looking at the table the engine reports)

DEPS_CHOICES = [[], [A], [F], [A, TR], [TR], [A, F], [B], [A, B, F, GG], [F, TR], [GG, A]]
CFGS = [{'when': w, 'deps': d} for w in ('DEFAULT', 'NEVER', 'MANUAL_UPDATES') for d in ([], [A], [F], [A, TR])]


def gen_cfg(rng):
  w = rng.choice(['DEFAULT'] * 5 + ['NEVER', 'MANUAL_UPDATES', 'MANUAL_UPDATES'])
  return {'when': w, 'deps': list(rng.choice(DEPS_CHOICES))}


def gen_action(rng, tab, can_undo):
  """One abstract action, drawn against (and applied to) the simulated table `tab`."""
  rows = sorted(tab)
  kinds = ['add'] * 3 + ['ren', 'mod']
  if rows:
    kinds += ['upd'] * 8 + ['rem']
  if can_undo:
    kinds += ['undo'] * 2
  k = rng.choice(kinds)
  if k == 'add':
    n = rng.choice([1, 1, 2])
    cols = [c for c in DATA_COLS if rng.random() < 0.5] + ([TR] if rng.random() < 0.4 else [])
    top = max(rows + [0])
    gap = rng.choice([0, 0, 1])
    ids = [None] * n if rng.random() < 0.6 else [top + 1 + gap + i for i in range(n)]
    vals = [[(rng.choice([5, 50]) if c == TR else rng.randint(0, 3)) for c in cols] for _ in range(n)]
    for i in range(n):
      rid = ids[i] if ids[i] is not None else max(list(tab) + [0]) + 1
      tab[rid] = {c: 0 for c in (TR, A, B, C)}
      tab[rid].update(dict(zip(cols, vals[i])))
    return ['add', ids, cols, vals]
  if k == 'upd':
    rs = rng.sample(rows, min(len(rows), rng.choice([1, 1, 2, 3])))
    cols = [c for c in DATA_COLS if rng.random() < 0.45] + ([TR] if rng.random() < 0.3 else [])
    if not cols:
      cols = [rng.choice(DATA_COLS)]
    vals = []
    for r in rs:
      row = []
      for c in cols:
        same = rng.random() < 0.4
        row.append(tab[r][c] if same else (rng.choice([5, 50, 77]) if c == TR else rng.randint(0, 3)))
      vals.append(row)
      tab[r].update(dict(zip(cols, row)))
    return ['upd', rs, cols, vals]
  if k == 'rem':
    r = rng.choice(rows)
    del tab[r]
    return ['rem', [r]]
  if k in ('ren', 'mod'):
    return [k, rng.choice([A, B, C, F, GG])]
  return ['undo']


def gen_bundle(rng, doc, first=False):
  tab = copy.deepcopy(doc.table())
  if first:
    return [gen_first(rng, tab)]
  if tab and rng.random() < 0.08:
    # a schema change followed, in the same bundle, by an update of a cell the changed column feeds
    c = rng.choice([A, B, C, F, GG])
    s = SRC.get(c, c)
    rs = rng.sample(sorted(tab), min(len(tab), rng.choice([1, 2])))
    return [[rng.choice(['ren', 'ren', 'mod']), c], ['upd', rs, [s], [[rng.randint(0, 7)] for _ in rs]]]
  n = rng.choice([1] * 6 + [2] * 3 + [3])
  out = []
  for i in range(n):
    a = gen_action(rng, tab, can_undo=(i == 0 and bool(doc.undo_stack)))
    if a[0] == 'undo' and n > 1:
      # the table after an undo is not simulated here: an undo stands alone or comes first with schema actions
      out.append(a)
      out.extend([k, rng.choice([A, B, C, F, GG])] for k in rng.sample(['ren', 'mod'], rng.choice([0, 1])))
      break
    out.append(a)
  return out


def gen_first(rng, tab):
  n = rng.choice([2, 3])
  vals = [[rng.randint(0, 3), rng.randint(0, 3)] for _ in range(n)]
  return ['add', [None] * n, [A, B], vals]


def make_history(rng, cfg, nb, ctx=None):
  """A random history run on the real engine: (abstract bundles that succeeded, their results)."""
  doc = Doc(cfg)
  bundles, results = [], []
  for i in range(nb):
    b = gen_bundle(rng, doc, first=(i == 0))
    try:
      res = run_bundle(doc, b)
    except BundleFailed as e:
      if ctx is not None:
        ctx.bump('bundle_failed')
        if ctx.hist['bundle_failed'] <= 3:
          ctx.log('bundle failed (skipped): %s %r' % (str(e)[:200], b))
      continue
    bundles.append(b)
    results.append(res)
    if not res['after']:
      # model scope: the table is never empty at the end of a bundle (see ASSUMPTIONS); the history ends here
      if ctx is not None:
        ctx.bump('history_ended_on_empty_table')
      break
  return bundles, results


def coq_case(cfg, results, verdicts):
  obs = []
  for res, (must, may) in zip(results, verdicts):
    after = core.coq_list(['(%s, %s)' % (z(r), core.coq_list(['(%s, %s)' % (z(c), z(v)) for c, v in sorted(cv.items())]))
                           for r, cv in sorted(res['after'].items())])
    obs.append('(ob %s %s %s %s %s)' % (core.coq_list([coq_uaction(m) for m in res['model']]),
                                        core.zlist(sorted(set(res['evals']))), core.zlist(must), core.zlist(may), after))
  return '(mk %s %s)' % (coq_cfg(cfg), core.coq_list(obs))


# Small-scope enumeration (thorough tier): on the table {1: A=1 B=0, 2: A=2 B=2} every bundle of one or two
# actions from this alphabet, for each of the 7 configurations of ENUM_CFGS.
ALPHABET = [
  ['add', [None], [A], [[3]]],                       # new record without a trigger value
  ['add', [None], [A, TR], [[3, 50]]],               # ... with one
  ['upd', [1], [A], [[9]]],                          # data dependency changes
  ['upd', [1, 2], [A], [[1], [7]]],                  # bulk: row 1 same value, row 2 changes
  ['upd', [1], [B], [[5]]],                          # source of F changes, F changes (0 -> 2)
  ['upd', [1], [B], [[1]]],                          # source of F changes, F recomputed to the same value
  ['upd', [1], [TR], [[77]]],                        # explicit trigger value
  ['upd', [1], [A, TR], [[9, 77]]],                  # explicit value and dependency change
  ['upd', [1], [A, TR], [[9, 1]]],                   # ... with the value the cell has (after the first bundle)
  ['upd', [1], [C], [[4]]],                          # neither a dependency nor a source of F
  ['rem', [1]],
  ['ren', A], ['ren', B], ['ren', F], ['mod', A], ['mod', B], ['mod', F],
  ['undo'],
]
ENUM_FIRST = [['add', [None, None], [A, B], [[1, 0], [2, 2]]]]
ENUM_CFGS = ([{'when': 'DEFAULT', 'deps': d} for d in ([], [A], [F], [A, TR])] +
             [{'when': 'NEVER', 'deps': [A]}, {'when': 'MANUAL_UPDATES', 'deps': []},
              {'when': 'MANUAL_UPDATES', 'deps': [A, TR]}])


def enumerated(ctx):
  out = []
  for cfg in ENUM_CFGS:
    for i, a in enumerate(ALPHABET):
      for b in [None] + list(ALPHABET):
        second = [a] if b is None else [a, b]
        if b is not None and b[0] == 'undo':
          continue
        bundles, results = [], []
        doc = Doc(cfg)
        try:
          for bun in (ENUM_FIRST, copy.deepcopy(second)):
            results.append(run_bundle(doc, bun))
            bundles.append(bun)
        except BundleFailed:
          ctx.bump('enum_bundle_failed')
        out.append((cfg, bundles, results))
  ctx.extra['exhaustive'] = True
  ctx.extra['exhaustive_space'] = ('7 configurations x every bundle of 1 or 2 actions from an alphabet of %d actions '
                                   'on a fixed two-row table' % len(ALPHABET))
  return out


def histories(ctx):
  if getattr(ctx, '_c15', None) is None:
    ctx._c15 = []
    n = ctx.n(50, 800)
    cfgs = list(CFGS)
    for i in range(n):
      cfg = cfgs[i] if i < len(cfgs) else gen_cfg(ctx.rng)
      bundles, results = make_history(ctx.rng, cfg, ctx.rng.choice([6, 10, 14]), ctx)
      ctx._c15.append((cfg, bundles, results))
    if ctx.tier == 'thorough':
      ctx._c15.extend(enumerated(ctx))
  return ctx._c15


def describe(res):
  ks = []
  for m in res['model']:
    if m[0] == 'UDocs':
      ks.extend(d[0] for d in m[1]) if len(m[1]) < 3 else ks.append('undo')
    else:
      ks.append(m[0] + ('+Tr' if TR in m[1] else ''))
  return ks


def regenerate(ctx):
  """coq/gen/Trigger_gen.v from the current source (harness/tg2v.py); pinned glue and pinned functions checked."""
  import os
  try:
    text = tg2v_specs.generate(core.GRIST)
  except tg2v.Untranslatable as e:
    raise core.TieBroken('the trigger-formula code is outside the translated subset or its pinned glue changed: %s' % e)
  bad = tg2v_specs.check_pins(core.GRIST)
  if bad:
    raise core.TieBroken('pinned functions changed: ' + '; '.join(bad))
  core.write_if_changed(os.path.join(core.COQ, 'gen', 'Trigger_gen.v'), text)
  ctx.extra['regenerated'] = {'functions': [s['name'] for s in tg2v_specs.SPECS],
                              'pinned_glue_statements': sum(len(s.get('glue', {})) + len(s.get('true_tests', {}))
                                                            for s in tg2v_specs.SPECS),
                              'pinned_functions': len(tg2v_specs.PINS)}


def validate_translator(ctx):
  """Generated definitions (vm_compute) against the running code: effect traces of real user actions, the pure
  functions on generated arguments, the trigger edges of real documents."""
  eff = []
  for cfg, bundles, results in histories(ctx):
    for res in results:
      eff.extend(res.get('effect_cases', ()))
  docs = 0
  for cfg in CFGS:
    doc = Doc(cfg)
    run_bundle(doc, [gen_first(ctx.rng, {})])
    eff.append(c15trace.trigger_deps_case(doc))
    docs += 1
  pure = c15trace.pure_cases(ctx.rng, ctx.n(40, 400))
  counts = {'effect_traces': len(eff) - docs, 'trigger_edge_documents': docs}
  bad = ctx.run_cases('gen_effs', [], '(fun c => effs_eqb (fst c) (snd c))', eff, shard=60, extra_defs=c15trace.DEFS)
  for i in bad[:3]:
    ctx.broken('translator:generated effects differ from what the running engine asks for', eff[i][:1500])
  for kind, check in (('bool', '(fun c => Bool.eqb (fst c) (snd c))'), ('zlist', '(fun c => zlist_eqb (fst c) (snd c))'),
                      ('action', '(fun c => action_eqb (fst c) (snd c))')):
    counts['pure_' + kind] = len(pure[kind])
    bad = ctx.run_cases('gen_' + kind, [], check, pure[kind], shard=200, extra_defs=c15trace.DEFS)
    for i in bad[:3]:
      ctx.broken('translator:generated function differs from the running function (%s)' % kind, pure[kind][i][:1500])
  ctx.extra['translator_validation'] = counts
  ctx.log('translator validation: %r' % (counts,))


def correspond(ctx):
  validate_translator(ctx)
  cases, keys = [], []
  ctx.extra['source_variant'] = {'repairs_detected_in_source': dict(detect_fixes())}
  if any(detect_fixes().values()):
    ctx.log('source contains repairs: %r (model switched accordingly)' % (detect_fixes(),))
  for cfg, bundles, results in histories(ctx):
    verdicts = []
    for res in results:
      issues, must, may = judge(cfg, res)
      verdicts.append((must, may))
      fired = bool(res['evals'])
      for k in describe(res):
        ctx.bump('action:' + k)
      ctx.bump('bundle:%d actions' % len(res['model']))
      ctx.count((cfg['when'], tuple(cfg['deps']), json.dumps(res['model'], default=list), sorted(res['before'].items())),
                nontrivial=fired or bool(may),
                sample={'cfg': cfg, 'actions': res['model'], 'evaluated_rows': res['evals'], 'must': must, 'may': may},
                kind='cfg:%s deps=%s' % (cfg['when'], 'none' if not cfg['deps'] else 'some'))
    cases.append(coq_case(cfg, results, verdicts))
    keys.append((cfg, bundles))
  bad = ctx.run_cases('hist', [], 'check', cases, shard=12, extra_defs=CHECK_DEFS)
  for i in bad[:5]:
    ctx.broken('correspondence:Model/Trigger.v (mechanism or spec) differs from the engine / the Python oracle',
               'history %s' % json.dumps({'cfg': keys[i][0], 'bundles': keys[i][1]}))


def issues_of(w, kind=None):
  out = []
  for i, res in enumerate(run_history(w['cfg'], w['bundles'])):
    if res is None:
      continue
    for k, what in judge(w['cfg'], res)[0]:
      if kind is None or k == kind:
        out.append((k, 'bundle %d: %s' % (i, what)))
  return out


def shrink(w, kind):
  fails = lambda bs: any(True for _ in issues_of({'cfg': w['cfg'], 'bundles': bs}, kind))
  bs = shrink_list(w['bundles'], fails, max_steps=60)
  changed = True
  while changed:
    changed = False
    for i in range(len(bs)):
      for j in range(len(bs[i])):
        cand = bs[:i] + ([bs[i][:j] + bs[i][j + 1:]] if len(bs[i]) > 1 else []) + bs[i + 1:]
        if cand and fails(cand):
          bs, changed = cand, True
          break
      if changed:
        break
  return {'cfg': w['cfg'], 'bundles': bs, 'kind': kind}


def search(ctx):
  shrunk = {}
  for cfg, bundles, results in histories(ctx):
    for i, res in enumerate(results):
      for kind, what in judge(cfg, res)[0]:
        ctx.bump('issue:' + kind)
        w = {'cfg': cfg, 'bundles': bundles[:i + 1], 'kind': kind}
        if shrunk.get(kind, 0) < 2:
          shrunk[kind] = shrunk.get(kind, 0) + 1
          try:
            w = shrink(w, kind)
          except Exception as e:
            ctx.log('shrinking failed: %r' % (e,))
          ctx.violation(kind, what, w)
        elif shrunk[kind] < 6:
          shrunk[kind] += 1
          ctx.violation(kind, what, w)


def replay(ctx, w):
  got = issues_of(w, w.get('kind'))
  return ('%s: %s' % got[0]) if got else None


RULE = ('histories of 6-14 bundles (1-3 user actions each) on a real document with one trigger column (evaluation '
        'counter), 3 Int data columns, 2 formula columns; all of DEFAULT/NEVER/MANUAL_UPDATES x recalcDeps '
        'none/{A}/{formula col}/{A,self} first, then random configurations; actions: adds with/without a trigger '
        'value and with given or engine-chosen ids, bulk updates with ~40% same-value cells, explicit trigger '
        'values, removes, renames and Int<->Numeric type changes of data/formula columns, undo of the previous '
        'bundle (also undo of undo). A bundle is non-trivial when the trigger formula was evaluated for some row '
        'or the property allows/requires an evaluation.')
TRUSTED = ['harness/tg2v.py (+ tg2v_specs.py): fail-closed translator Python -> Gallina of the deciding code '
           '(schema.RecalcWhen, docmodel recalcOnChangesToSelf, SingleRowsIdentityRelation.get_affected_rows, '
           'column.is_formula, Engine.prevent_recalc / trim_update_action / invalidate_column / invalidate_records / '
           'add_records / _maybe_update_trigger_dependencies, DocActions.Bulk{Add,Update,Remove}Record, the trigger '
           'parts of UserActions.doBulkAddOrReplace / doBulkUpdateRecord) into coq/gen/Trigger_gen.v on every run; '
           'validated on every run: generated effect lists (vm_compute) against the calls of Engine.prevent_recalc / '
           'DepGraph.invalidate_deps / add_edge the running engine makes for the same record actions, and the pure '
           'generated functions against the running Python functions on generated arguments',
           'glue of the translated functions (undo/summary bookkeeping, cell writes, checks on metadata tables) and 21 '
           'untranslated functions (apply_user_actions, _recompute_step, invalidate_deps, RenameColumn, ...) are pinned '
           'by the hash of their normalised AST',
           'Proofs/Trigger_bridge.v [run_eff]: the meaning of an effect for the trigger column (what invalidate_deps '
           'reaches = Model/Trigger.v [reach]) is hand-written',
           'Model/Trigger.v [mech_*]: hand-written model of the four code sites, proved pointwise equal to the '
           'generated code (C15_bridge_*) and compared on every run with the '
           'engine (rows for which Engine._recompute_one_cell evaluates the trigger column per bundle, and the '
           'table contents) by vm_compute replay of the same histories',
           'Model/Trigger.v [spec_*]: the property sentence; compared on every run with the independent Python '
           'oracle of harness/props/c15.py on the same histories',
           'the switches [fx] of the model (which proposed repairs the source contains) are set by replaying the '
           'four repairable witnesses on the source at the start of every run (detect_fixes); the theorems hold '
           'for every setting of the switches']
ASSUMPTIONS = ['kernel scope: one table, int cell values, formula columns reading one data column of the same row, '
               'trigger column configuration fixed during the history, no lookups/references in dependencies',
               'model scope: the table is not empty at the end of a bundle that contained a schema action (a formula '
               'column whose dependency edges were cleared re-learns them only by being evaluated on some row; with '
               'no rows it stays without edges, which the model does not track; generated histories end when the '
               'table becomes empty)',
               'replayed doc actions (undo) are read as explicit values for every cell they carry',
               'the sentence leaves open (and the theorems say so: must <= fired <= may): a dependency written '
               'with the value it has, recomputed to the value it has, or a formula column written by a replayed '
               'doc action']
TECHNIQUE = ('Coq proof over code regenerated from source on every run (tg2v) bridged pointwise to a hand-written '
             'mechanism model + declarative spec; translator validated against effect traces of the running engine; '
             'model also tied by vm_compute replay of real engine histories; Python oracle search')
LEVEL_TEXT = ('Kernel-checked: for every configuration, table and bundle of user actions the mechanism model fires the '
              'trigger formula for a row whenever the property requires it and only when it allows it, provided none '
              'of five named transitions occurs; each of the five is refuted by a vm_compute witness that also fails '
              'on the real engine (registered known findings); schema-only bundles never fire, unconditionally. '
              'The record-action part of the mechanism is the code itself: C15_bridge_* prove the functions '
              'translated from /repo on every run equal to the model, and C15_code_* restate the property about the '
              'rows the generated code fires (cfired).')
LEVEL_NOTE = ('Strength: kernel. Trusted: Coq kernel; the hand-written model (validated per run against '
              'Engine._recompute_one_cell on random histories). Partial: C15_trigger_fires_iff holds only under '
              '[regular]; the full statement is refuted five ways (one root cause each).')
