"""C16 -- Renames never change formula results (useractions rename paths, codebuilder.parse_grist_names, textbuilder)."""
import collections
import copy
import json
import random
import re

from harness import core
from harness import gristenv as G
from harness import histgen
from harness import c16loc, c16gen

ID = 'C16'
TITLE = 'Renames never change formula results'
PROPS = ['Props/C16']

def regenerate(ctx):
  """coq/gen/Renames_gen.v from the current useractions.py / gencode.py, and the AST pins of the untranslated glue."""
  import os
  from harness import c16v
  try:
    text = c16v.generate(core.GRIST)
  except c16v.Untranslatable as e:
    raise core.TieBroken('the rename code is outside the translated subset: %s' % e)
  os.makedirs(os.path.join(core.COQ, 'gen'), exist_ok=True)
  core.write_if_changed(os.path.join(core.COQ, 'gen', 'Renames_gen.v'), text.replace(core.GRIST, '<grist>'))
  ctx.extra['regenerated'] = ['UserActions._prepare_formula_renames', 'GenCode.grist_names',
                              'UserActions._adjust_one_column_update.add',
                              'UserActions._updateTableRecords: table_renames',
                              'UserActions._updateColumnRecords: formula merge']
  changed = c16v.check_pins(core.GRIST)
  ctx.extra['pinned'] = sum(len(v) for v in c16v.PINNED.values())
  if changed:
    raise core.TieBroken('pinned code changed (normalised AST differs from the text the model was written against): '
                         + ', '.join(changed))


# table ids that do not collide with a name exported by `functions` (a table named T, N, SUM ... is a known root cause)
SAFE_TABLES = ['Tt', 'Foo', 'Bar baz', 'People', 'items', 'R2', 'Table1']
CLASH_TABLES = ['T', 'N', 'Foo', 'People']
COL_TARGETS = ['X', 'Y', 'Q', 'A', 'B', 'ren 1', 'class', 'if', '1abc', '_x', 'é t', 'id', 'group', 'count',
               'manualSort', 'F', 'Zz', 'name', 'lookupRecords', 'rec', 'table', 'value', 'find', 'None', 'x y  z',
               'gristHelper_Display', '', 'A' * 3, 'Éa', 'total', 'ref']
TABLE_TARGETS = ['Xt', 'Yy', 'Foo', 'Bar baz', 'People', 'ren 1', 'class', '1abc', '_x', 'é t', 'id', 'group', 'count',
                 'Table1', 'items', 'Tt2', 'rec', 'table', 'People_summary_A', 'Zz_summary_B']


class Gen16(histgen.HistGen):
  """HistGen whose formulas are generated from trees (harness/c16gen.py) in every supported reference form."""
  def __init__(self, rng, stream='main'):
    w = {'addformula': 14, 'modformula': 5, 'addref': 8, 'summary': 4, 'summaryformula': 4, 'addrec': 8,
         'rencol': 2, 'rentable': 1, 'label': 1, 'invalid': 1, 'rmcol': 1, 'rmtable': 0, 'modtype': 2,
         'renamechoices': 0, 'upsert': 0, 'tempids': 0, 'addreverse': 1, 'toformula': 1, 'todata': 1}
    histgen.HistGen.__init__(self, rng, weights=w, max_tables=3)
    self.stream = stream
    self.table_pool = CLASH_TABLES if stream == 'clash' else SAFE_TABLES
    self.trees = {}

  def gen_addtable(self, meta):
    a = histgen.HistGen.gen_addtable(self, meta)
    a[1] = self.r.choice(self.table_pool)
    return a

  def gen(self, kind, meta):
    if kind == 'rentable':
      t = self.pick_table(meta)
      return ['RenameTable', t['tableId'], self.r.choice(self.table_pool)] if t else None
    if kind == 'summaryformula' and self.r.random() < 0.6:
      st = self.pick_table(meta, summary=True)
      if st is None:
        return None
      cid = self.r.choice(['total', 'n', 'S', 'agg'])
      self.pend(st['tableId'], cid, 10)
      return ['AddColumn', st['tableId'], cid, {'type': 'Any', 'isFormula': True,
                                               'formula': self.formula(meta, st['id'], 10)}]
    a = histgen.HistGen.gen(self, kind, meta)
    if a is not None and kind in ('addref', 'addcol') and a[0] == 'AddColumn' and self.r.random() < 0.25:
      # a column named like a TABLE (the reference's target, the table itself, or any other table)
      ids = [t['tableId'] for t in meta.user_tables()]
      target = a[3].get('type', '').split(':', 1)[1] if ':' in a[3].get('type', '') else None
      name = target if (target in ids and self.r.random() < 0.6) else self.r.choice(ids)
      if name.isidentifier():
        a[2] = name
        self.pend(a[1], name, 0)
    return a

  def formula(self, meta, tref, level):
    tid = meta.tables[tref]['tableId']
    tg = c16gen.TreeGen(self.r, meta, lambda tr: self.lower_cols(meta, tr, level), tid, gaps=(self.stream == 'gaps'))
    tree = tg.scalar(self.r.choice([1, 2, 2, 3]))
    text = c16gen.pr(tree)
    self.trees[text] = tree
    return text


# ---- observation ------------------------------------------------------------------------------------
def plain_schema(e):
  return {t: {c: (v[0], v[1], v[2]) for c, v in cols.items()} for t, cols in G.engine_schema(e).items()}


def observe(e):
  """What the oracle looks at: tables and columns keyed by their metadata row ids, cell values, formula texts."""
  m = histgen.Meta(e)
  tabs = {tr: t['tableId'] for tr, t in m.tables.items()}
  cols = {}
  for cr, c in m.cols.items():
    cols[cr] = {'tref': c['parentId'], 'colId': c['colId'], 'isFormula': bool(c['isFormula']),
                'formula': c['formula'], 'type': c['type'], 'label': c['label']}
  vals, rows = {}, {}
  for tr, tid in tabs.items():
    if tid not in e.tables:
      continue
    rep = G.actions.get_action_repr(e.fetch_table(tid, formulas=True))
    rows[tr] = list(rep[2])
    byname = rep[3]
    for cr, c in cols.items():
      if c['tref'] == tr and c['colId'] in byname:
        vals[cr] = G.norm(byname[c['colId']])
  summ = set(t['tableId'] for t in m.tables.values() if t['summarySourceTable'])
  return {'tabs': tabs, 'cols': cols, 'vals': vals, 'rows': rows, 'schema': plain_schema(e), 'summary': summ}


def map_value(v, tmap):
  """A cell value keyed through a table rename: encoded records carry the table id."""
  if isinstance(v, list):
    if len(v) == 3 and v[0] in ('R', 'r') and isinstance(v[1], str):
      return [v[0], tmap.get(v[1], v[1]), map_value(v[2], tmap)]
    return [map_value(x, tmap) for x in v]
  if isinstance(v, str) and tmap:
    for old, new in tmap.items():
      v = re.sub(r'(?<![A-Za-z0-9_])%s(?=\[)' % re.escape(old), lambda m: new, v)    # str(record) is 'Table[id]'
    return v
  return v


def explains(old, new, pairs, spans):
  """Can `new` be obtained from `old` by replacing some of the name-token spans `spans` = {start: end} whose text is
  an old name of `pairs` [(old name, new name)] by the corresponding new name, and nothing else?"""
  memo = {}

  def go(i, j):
    key = (i, j)
    if key in memo:
      return memo[key]
    res = False
    if i == len(old) and j == len(new):
      res = True
    else:
      if i in spans:
        for o, n in pairs:
          if spans[i] == i + len(o) and old.startswith(o, i) and new.startswith(n, j) and go(i + len(o), j + len(n)):
            res = True
            break
      if not res and i < len(old) and j < len(new) and old[i] == new[j]:
        k = 1      # run of equal characters up to the next span start (keeps the recursion shallow)
        while i + k < len(old) and j + k < len(new) and old[i + k] == new[j + k] and (i + k) not in spans:
          k += 1
        res = go(i + k, j + k)
    memo[key] = res
    return res
  return go(0, 0)


def name_spans(text):
  """{start: end} of every NAME token (without the `$`) and of every string-literal content (without quote and a
  leading '-'), found with the stdlib tokenizer only: the places where a rename is ALLOWED to touch the text."""
  toks = c16loc.tokens_at(text)
  if toks is None:
    return None
  import tokenize
  spans = {}
  for s, (ty, st, e) in toks.items():
    if ty == tokenize.NAME:
      spans[s + 1 if st.startswith(c16loc.DOLLAR) else s] = e
    elif ty == tokenize.STRING and len(st) >= 2 and st[0] in '"\'' and st[-1] == st[0] and not st.startswith(st[0] * 3):
      a = s + 2 if st[1:2] == '-' else s + 1
      spans[a] = e - 1
  return spans


def apply_occs(text, occs, renames):
  """The formula text the rename SHOULD produce according to the independent locator."""
  out, pos = [], 0
  missed_tags = set()
  for o in occs:
    new = renames.get((o.table, o.col))
    if new is None or o.start < pos:
      continue
    out.append(text[pos:o.start])
    out.append(new)
    pos = o.end
  out.append(text[pos:])
  return ''.join(out)


def mentions(name, formulas):
  pat = re.compile(r'(?<![A-Za-z0-9_])%s(?![A-Za-z0-9_])' % re.escape(name))
  return any(pat.search(f) for f in formulas)


GAP_KINDS = {'gap:function_named_table': 'ref_to_table_named_like_function',
             'gap:comprehension_over_reference_list': 'comprehension_over_reference_list'}


def judge(b, a, act):
  """Compares the observations before/after one successful rename action.  Returns (info, problems):
  info: {'renamed': n entities, 'fresh': bool, 'touched': n formulas changed}; problems: [(kind, what)]."""
  problems = []
  tmap = {b['tabs'][tr]: a['tabs'][tr] for tr in b['tabs'] if tr in a['tabs'] and a['tabs'][tr] != b['tabs'][tr]}
  cren = {}      # (old table id, old col id) -> new col id
  for cr, c in b['cols'].items():
    if cr in a['cols'] and a['cols'][cr]['colId'] != c['colId']:
      cren[(b['tabs'][c['tref']], c['colId'])] = a['cols'][cr]['colId']
  renames = dict(cren)
  for o, n in tmap.items():
    renames[(o, None)] = n
  info = {"renamed": len(renames), "fresh": True, "touched": 0, "renames": renames}
  if set(b['cols']) != set(a['cols']) or set(b['tabs']) != set(a['tabs']):
    gone = [b['cols'][cr] for cr in set(b['cols']) - set(a['cols'])]
    what = 'the rename removed %s' % ', '.join('%s.%s' % (b['tabs'][c['tref']], c['colId']) for c in gone)
    if gone and set(a['cols']) <= set(b['cols']) and set(b['tabs']) == set(a['tabs']) and \
        str(requested_name(act)).startswith('gristHelper_'):
      # the column now carries the reserved helper prefix and is garbage-collected as an unused helper column
      problems.append(('rename_to_helper_prefix_removes_column', what + ' (new name %r)' % requested_name(act)))
    else:
      problems.append(('columns_or_tables_changed', what + '; added %r' % sorted(set(a['cols']) - set(b['cols']))))
    return info, problems
  formulas = [c['formula'] for c in b['cols'].values() if c['formula']]
  for (t, c), n in renames.items():
    if mentions(n, formulas):
      info['fresh'] = False      # the new name was already mentioned by some formula: changes are not attributable
  pairs = sorted(set((c if c is not None else t, n) for (t, c), n in renames.items()))
  # 1. formula texts: only name tokens change, and exactly the occurrences the independent locator finds
  culprit_tags, culprits = set(), []
  loc = c16loc.Locator(b['schema'])
  for cr, c in sorted(b['cols'].items()):
    old, new = c['formula'], a['cols'][cr]['formula']
    if not old and not new:
      continue
    tid = b['tabs'][c['tref']]
    if old != new:
      info['touched'] += 1
      spans = name_spans(old)
      if spans is not None and not explains(old, new, pairs, spans):
        problems.append(('text_changed_outside_name_tokens', '%s.%s: %r -> %r' % (tid, c['colId'], old, new)))
        continue
    if not renames:
      continue
    occs = loc.occurrences(tid, old)
    if occs is None:
      continue
    want = apply_occs(old, occs, renames)
    if want != new:
      plain = apply_occs(old, [o for o in occs if not o.tags], renames)
      tags = set()
      for o in occs:
        if o.tags and (o.table, o.col) in renames:
          tags |= o.tags
      if plain == new and tags:
        culprit_tags |= tags
      else:
        culprit_tags.add('other')
      culprits.append('%s.%s: %r -> %r, expected %r' % (tid, c['colId'], old, new, want))
  # 2. values, keyed through the rename
  changed = []
  for tr in b['rows']:
    if b['rows'][tr] != a['rows'].get(tr):
      problems.append(('rows_changed', '%s: %r -> %r' % (b['tabs'][tr], b['rows'][tr][:8], a['rows'].get(tr, [])[:8])))
  data_changed, alt_text_only = 0, True
  for cr, v in sorted(b['vals'].items()):
    va = a['vals'].get(cr)
    mv = map_value(v, tmap)
    if mv != va:
      c = b['cols'][cr]
      diff = [i for i, (x, y) in enumerate(zip(mv, va or [])) if x != y]
      rid = b['rows'][c['tref']][diff[0]] if diff else None
      changed.append('%s.%s[%s] (%s) %r' % (b['tabs'][c['tref']], c['colId'], rid, 'formula' if c['isFormula'] else 'data',
                                          c['formula'] or (mv[diff[0]], va[diff[0]]) if diff else ''))
      if not c['isFormula']:
        data_changed += 1
        target = c['type'].split(':', 1)[1] if c['type'].split(':')[0] in ('Ref', 'RefList') else None
        if not (target in tmap and diff and all(isinstance(v[i], str) for i in diff)):
          alt_text_only = False
  accepted_protected = [(t, c) for (t, c) in cren if is_protected(b, t, c)]
  if accepted_protected:
    # a protected column must keep its name (fixed by b90267a): accepting the rename is a failure whether or not a
    # cell value happens to change in this document
    t, c = accepted_protected[0]
    kind = 'rename_of_summary_group_column' if c == 'group' else 'rename_of_manualsort_column'
    problems.append((kind, 'rename of protected column %s.%s to %r was accepted%s' % (
      t, c, cren[(t, c)], ('; values changed: ' + '; '.join(changed[:3])) if changed else '')))
  elif changed and info['fresh']:
    if any(n == 'manualSort' for n in cren.values()):
      # a table without a manualSort column (a summary table) accepts it as a NEW column name; the column then IS
      # the table's manualSort: sorted lookups on the table use it as their tie-break (and depend on it)
      kind = 'rename_to_manualsort_in_table_without_it'
    elif tmap and data_changed and alt_text_only:
      # RenameTable retypes Ref:Old columns to Int and back: alternative text that parses as a number becomes a row id
      kind = 'rename_table_reinterprets_alt_text_in_reference_columns'
    elif culprit_tags and culprit_tags <= set(GAP_KINDS) and len(culprit_tags) == 1:
      kind = GAP_KINDS[next(iter(culprit_tags))]
    elif culprits:
      kind = 'formula_not_renamed'
    else:
      kind = 'value_changed'
    problems.append((kind, 'values changed: %s%s' % ('; '.join(changed[:4]),
                                                       (' | formulas: ' + '; '.join(culprits[:3])) if culprits else '')))
  elif culprits and info['fresh']:
    # values happen to agree (or nothing to compare) but a formula was not rewritten as the locator expects
    if culprit_tags <= set(GAP_KINDS) and len(culprit_tags) == 1:
      problems.append((GAP_KINDS[next(iter(culprit_tags))] + ':text', '; '.join(culprits[:3])))
    else:
      problems.append(('formula_not_renamed:text', '; '.join(culprits[:3])))
  info['changed'] = len(changed)
  return info, problems


# ---- histories and rename actions ---------------------------------------------------------------------
def gen_rename(rng, m, stream):
  """One rename action by one of the rename paths; returns (path name, action) or None."""
  tabs = m.user_tables() + m.user_tables(summary=True)
  if not tabs:
    return None
  t = rng.choice(tabs)
  tid, tref = t['tableId'], t['id']
  cols = [c for c in m.by_table[tref] if not c['colId'].startswith('gristHelper_')]
  path = rng.choice(['RenameColumn'] * 4 + ['RenameTable'] * 2 + ['colId', 'label', 'label_untied', 'label_retie',
                                                                   'tableId'])
  names = COL_TARGETS + [c['colId'] for c in cols] + [x['tableId'] for x in tabs]
  tnames = TABLE_TARGETS + [x['tableId'] for x in tabs] + (CLASH_TABLES if stream == 'clash' else [])
  if path in ('RenameTable', 'tableId'):
    new = rng.choice(tnames)
    if stream != 'clash' and new in c16loc.function_names():
      return None
    if path == 'RenameTable':
      return path, ['RenameTable', tid, new]
    return path, ['UpdateRecord', '_grist_Tables', tref, {'tableId': new}]
  if not cols:
    return None
  c = rng.choice(cols)
  new = rng.choice(names)
  if path == 'RenameColumn':
    return path, ['RenameColumn', tid, c['colId'], new]
  if path == 'colId':
    return path, ['UpdateRecord', '_grist_Tables_column', c['id'], {'colId': new}]
  if path == 'label':
    return path, ['UpdateRecord', '_grist_Tables_column', c['id'], {'label': new}]
  if path == 'label_untied':
    return path, ['UpdateRecord', '_grist_Tables_column', c['id'], {'label': new, 'untieColIdFromLabel': True}]
  return path, ['UpdateRecord', '_grist_Tables_column', c['id'], {'label': new, 'untieColIdFromLabel': False}]


def try_apply(e, gen, bundle):
  try:
    G.apply(e, bundle)
    if gen is not None:
      gen.after_bundle(e)
    return True
  except Exception:
    G.clean(e)
    return False


def requested_name(act):
  if act[0] in ('RenameColumn', 'RenameTable'):
    return act[-1]
  vals = act[3]
  return vals.get('colId', vals.get('tableId', vals.get('label')))


def is_protected(b, table_id, col_id):
  """Columns the engine recognises by NAME (and protects since fix b90267a)."""
  return col_id == 'manualSort' or (col_id == 'group' and table_id in b['summary'])


def protected_target(b, act):
  """(table id, col id) when the action addresses a protected column, else None."""
  if act[0] == 'RenameColumn':
    t, c = act[1], act[2]
  elif act[0] == 'UpdateRecord' and act[1] == '_grist_Tables_column' and act[2] in b['cols']:
    col = b['cols'][act[2]]
    t, c = b['tabs'].get(col['tref']), col['colId']
  else:
    return None
  return (t, c) if is_protected(b, t, c) else None


VALUE_KINDS = ('value_changed', 'formula_not_renamed', 'rows_changed')


def check_rename(e, act, bundles=None, collect=False):
  """Applies one rename action to a CLEAN document; returns (status, info, problems).
  When cell values change for no recognised reason and `bundles` (the document's history) is given, the document is
  rebuilt and compared with a from-scratch recalculation of itself: if it was already STALE before the rename
  (history-dependent values; that is C05/C06's subject), the change is not attributable to the rename."""
  b = observe(e)
  reported = None
  if collect:
    reported = collections.defaultdict(list)
    for (finfo, pos, tb, col) in e.gencode.grist_names():
      reported[finfo].append((pos, tb, col))
  prot = protected_target(b, act)
  snap = G.snapshot(e) if prot else None
  try:
    out_group = G.apply(e, [act])
  except Exception as ex:
    if prot:
      # a rename of a protected column (manualSort; group of a summary table) is rejected and leaves no trace:
      # every table, metadata included, is as before, and a Calculate afterwards has nothing to do
      problems = []
      after = G.snapshot(e)
      if after != snap:
        problems.append(('rejected_protected_rename_left_trace', 'rename of %s.%s rejected (%s) but the document '
                         'changed: %s' % (prot[0], prot[1], type(ex).__name__, '; '.join(G.diff_snapshots(snap, after)))))
      out = G.clean(e)
      if out is not None and G.reprs(out.stored):
        problems.append(('rejected_protected_rename_left_trace', 'rename of %s.%s rejected but the next Calculate emits %r'
                         % (prot[0], prot[1], G.reprs(out.stored)[:3])))
      return 'rejected_protected:%s' % type(ex).__name__, {}, problems
    G.clean(e)
    return 'rejected:%s' % type(ex).__name__, {}, []
  a = observe(e)
  info, problems = judge(b, a, act)
  info['undo'] = G.reprs(out_group.undo)        # for histories that undo the rename
  if collect:
    info['schema'] = b['schema']
    info['formulas'] = []
    for cr, c in sorted(b['cols'].items()):
      if c['formula'] and cr in a['cols']:
        tid = b['tabs'][c['tref']]
        info['formulas'].append((tid, c['colId'], c['formula'], a['cols'][cr]['formula'],
                                 sorted(reported.get((tid, c['colId']), []))))
  if bundles is not None and any(k in VALUE_KINDS for k, _ in problems):
    e2, _ = G.new_doc()
    for bundle in bundles:
      try_apply(e2, None, bundle)
    tabs = G.user_tables(e2)
    try:
      fresh = G.snapshot(G.clone_by_reload(e2), tables=tabs)
    except Exception:
      fresh = None
    if fresh is not None and fresh != G.snapshot(e2, tables=tabs):
      return 'stale_document', info, []
  return 'applied', info, problems


def run_history(seed, stream, nb, nren, collect=False):
  """Builds a document with a random acyclic formula program, then tries rename actions on it.
  Yields (bundles so far, path, action, status, info, problems, gen)."""
  rng = random.Random(seed)
  gen = Gen16(rng, stream)
  e, _ = G.new_doc()
  done = []
  real_do = gen._do

  def recording_do(e_, bundle):
    done.append(copy.deepcopy(bundle))
    return real_do(e_, bundle)
  gen._do = recording_do
  gen.init_doc(e, n_tables=rng.randint(2, 3))
  for _ in range(nb):
    bundle = gen.bundle(e, max_len=2)
    done.append(copy.deepcopy(bundle))
    try_apply(e, gen, bundle)
  for _ in range(nren):
    r = gen_rename(rng, histgen.Meta(e), stream)
    if r is None:
      continue
    path, act = r
    status, info, problems = check_rename(e, act, list(done), collect)
    yield list(done), path, act, status, info, problems, gen
    done.append([act])
    if status == 'applied':
      gen.after_bundle(e)


IDENTS = ['A', 'B', 'C', 'name', 'amount', 'x1', 'Ea', 'val', 'key', 'Q', 'city', 'n_2']
# every supported reference form, as templates over a two-table document T(a Text, b Int, r Ref:U, l RefList:U),
# U(k Text, v Int, p Ref:T) and the summary table S of U by k (with a formula column `tot`)
FORMS = [
  '${r}.{v}', 'rec.{r}.{v}', '${r}.{p}.{b}', 'rec.{r}.{p}.{r}.{k}', 'list(${l}.{v})', 'list(${l}.{p}.{a})',
  '{U}.lookupOne({k}=${a}).{v}', '{U}.lookupOne({k}=${a}, {v}=rec.{b}).{p}.{b}',
  'len({U}.lookupRecords({k}=${a}, order_by="-{v}"))',
  '[r.{v} for r in {U}.lookupRecords({k}=${a}, order_by=("{k}", "-{v}"))]',
  '[r.{v} + ${b} for r in {U}.all if r.{k} == ${a}]', 'SUM(r.{p}.{b} for r in {U}.all)',
  '[[s.{v} for s in {U}.lookupRecords({k}=r.{k})] for r in {U}.all]',
  'PREVIOUS(rec, order_by="{b}").{b}', 'NEXT(rec, group_by="{a}", order_by="-{b}").id',
  'RANK(rec, order_by=("{a}", "-{b}"))', 'PREVIOUS(${r}, group_by=("{k}",), order_by="{v}").{v}',
  '{U}.lookupRecords({k}=${a}).find.lt(${b}).{v}', 'x = ${r}\nreturn x.{v}', 'f"{{${b}}} {{rec.{b}}}"',
  '"{b}" + str(${b}) + " ${b}"  # ${b} {b}', '{U}.lookupOne({v}={U}.lookupOne({k}=${a}).{v}).{k}',
  'max([r.{v} for r in {U}.lookupRecords({p}=rec)] or [0])', '{S}.lookupOne({k}=${a}).tot',
  '{S}.lookupOne({k}=${a}).count', 'len({T}.lookupRecords({r}=${r}))', '{T}.lookupOne({a}=${a}).{r}.{v}',
]
SUMMARY_FORMS = ['SUM($group.{v})', 'len($group)', 'list($group.{p}.{b})', 'MAX($group.id)', '$count + len(rec.group)']
GAP_FORMS = ['[r.{v} for r in ${l}]', 'SUM(r.{v} for r in ${l} if r.{k})']
GAP_SUMMARY_FORMS = ['SUM(r.{v} for r in $group)', '[x.{p}.{b} for x in $group]']


def directed_bundles(rng, stream):
  """The bundles that build the two-table document with one formula column per reference form."""
  pool = CLASH_TABLES[:2] + ['Foo'] if stream == 'clash' else ['Tt', 'Uu', 'People', 'Foo', 'Items']
  T, U = rng.sample(pool, 2)
  names = rng.sample(IDENTS, 7)
  n = dict(zip('abrlkvp', names), T=T, U=U)
  n['S'] = '%s_summary_%s' % (U, n['k'])
  forms = FORMS + (GAP_FORMS if stream == 'gaps' else [])
  sforms = SUMMARY_FORMS + (GAP_SUMMARY_FORMS if stream == 'gaps' else [])
  types = lambda: rng.choice(['Any', 'Any', 'Any', 'Text', 'Int'])
  bundles = [
    [['AddTable', U, [{'id': n['k'], 'type': 'Text', 'isFormula': False}, {'id': n['v'], 'type': 'Int', 'isFormula': False}]]],
    [['AddTable', T, [{'id': n['a'], 'type': 'Text', 'isFormula': False}, {'id': n['b'], 'type': 'Int', 'isFormula': False},
                      {'id': n['r'], 'type': 'Ref:' + U, 'isFormula': False},
                      {'id': n['l'], 'type': 'RefList:' + U, 'isFormula': False}]]],
    [['AddColumn', U, n['p'], {'type': 'Ref:' + T, 'isFormula': False}]],
    [['BulkAddRecord', T, [None] * 4, {n['a']: ['a', 'b', 'a', ''], n['b']: [1, 2, 3, 2]}]],
    [['BulkAddRecord', U, [None] * 4, {n['k']: ['a', 'b', 'a', 'c'], n['v']: [10, 20, 30, 5], n['p']: [1, 2, 3, 1]}]],
    [['BulkUpdateRecord', T, [1, 2, 3, 4], {n['r']: [1, 2, 3, 0], n['l']: [['L', 1, 2], None, ['L', 3], ['L', 4, 1]]}]],
    [['CreateViewSection', 1, 0, 'record', [2], None]],     # summary of U (table 1) by k (column 2)
    [['AddColumn', n['S'], 'tot', {'type': 'Any', 'isFormula': True, 'formula': 'SUM($group.%s)' % n['v']}]],
  ]
  for i, f in enumerate(forms):
    bundles.append([['AddColumn', T, 'f%d' % i, {'type': types(), 'isFormula': True, 'formula': f.format(**n)}]])
  for i, f in enumerate(sforms):
    bundles.append([['AddColumn', n['S'], 's%d' % i, {'type': 'Any', 'isFormula': True, 'formula': f.format(**n)}]])
  return bundles, n


def run_directed(seed, stream, nren, collect=False):
  rng = random.Random(seed)
  bundles, n = directed_bundles(rng, stream)

  def build(done):
    e, _ = G.new_doc()
    for bundle in done:
      try_apply(e, None, bundle)
    return e
  done = list(bundles)
  e = build(done)
  for _ in range(nren):
    r = gen_rename(rng, histgen.Meta(e), stream)
    if r is None:
      continue
    path, act = r
    status, info, problems = check_rename(e, act, list(done), collect)
    yield list(done), path, act, status, info, problems, None
    if problems:
      e = build(done)      # continue from the document before the damaging rename
    else:
      done.append([act])


def run_sisters(seed, nren):
  """Two (or three) summary tables of ONE source table whose same-named ("sister") formula columns hold DIFFERENT
  formulas mentioning a source column; then the source columns are renamed by RenameColumn, colId and label paths.
  Every sister must keep its own formula, rewritten only in the renamed name tokens, and its values."""
  rng = random.Random(seed)
  S = rng.choice(['Address', 'Tt', 'Orders'])
  c1, c2, n1, n2, tag = rng.sample(['city', 'state', 'amount', 'qty', 'tag', 'kind', 'A', 'B', 'C', 'Ea', 'val'], 5)
  col = lambda i, t: {'id': i, 'type': t, 'isFormula': False}
  bundles = [
    [['AddTable', S, [col(c1, 'Text'), col(c2, 'Text'), col(n1, rng.choice(['Numeric', 'Int'])), col(n2, 'Int'),
                      col(tag, 'Text')]]],
    [['BulkAddRecord', S, [None] * 5, {c1: ['a', 'b', 'a', 'c', 'b'], c2: ['x', 'y', 'x', 'z', 'y'],
                                       n1: [1, 2, 30, 4, 50], n2: [5, 4, 3, 2, 1], tag: ['p', 'q', 'p', '', 'q']}]],
    [['CreateViewSection', 1, 0, 'record', [2], None]],       # by c1 (column refs: manualSort 1, c1 2, c2 3 ...)
    [['CreateViewSection', 1, 0, 'record', [3], None]],       # by c2
  ]
  s1, s2 = '%s_summary_%s' % (S, c1), '%s_summary_%s' % (S, c2)
  summaries = [s1, s2]
  if rng.random() < 0.5:
    bundles.append([['CreateViewSection', 1, 0, 'record', [2, 3], None]])
    summaries.append('%s_summary_%s' % (S, '_'.join(sorted([c1, c2]))))
  aggs = ['MAX($group.%s)', 'MIN($group.%s)', 'len($group.%s)', 'list($group.%s)', 'SUM(r.%s for r in %s.all)',
          '[x for x in $group.%s if x]', 'SUM($group.%s) + 1']
  fmt = lambda a, c: a % ((c, S) if a.count('%s') == 2 else (c,))
  # (a) the automatic numeric sister n1 = SUM($group.n1) is replaced by something else in some summary tables
  for st in rng.sample(summaries, rng.randint(1, len(summaries) - 1)):
    bundles.append([['RemoveColumn', st, n1]])
    bundles.append([['AddColumn', st, n1, {'type': 'Any', 'isFormula': True, 'formula': fmt(rng.choice(aggs), n1)}]])
  # (b) a sister named after a source column without an automatic copy: a different formula in every summary table
  for st, a in zip(summaries, rng.sample(aggs, len(summaries))):
    bundles.append([['AddColumn', st, tag, {'type': 'Any', 'isFormula': True, 'formula': fmt(a, tag)}]])
  # (c) sisters not named after a source column, mentioning n2
  for st, a in zip(summaries, rng.sample(aggs, len(summaries))):
    bundles.append([['AddColumn', st, 'extra', {'type': 'Any', 'isFormula': True, 'formula': fmt(a, n2)}]])

  def build(done):
    e, _ = G.new_doc()
    for bundle in done:
      try_apply(e, None, bundle)
    return e
  done = list(bundles)
  e = build(done)
  fresh = ['paid', 'Part', 'Zz', 'X9', 'tot2', 'w_1', 'Quantity', 'Label 2']
  rng.shuffle(fresh)
  for k in range(nren):
    m = histgen.Meta(e)
    src = m.table_by_id.get(S) or next((t for t in m.user_tables()), None)
    if src is None:
      break
    cols = [c for c in m.data_cols(src['id']) if c['type'] in ('Int', 'Numeric', 'Text')]
    cols = [c for c in cols if c['colId'] not in (c1, c2)] or cols      # mostly the columns the sisters mention
    c = rng.choice(cols)
    new = fresh[k % len(fresh)] + ('' if k < len(fresh) else str(k))
    path = rng.choice(['RenameColumn', 'RenameColumn', 'colId', 'label', 'label', 'label_retie'])
    if k < 2:
      path = ['RenameColumn', 'label'][(k + seed) % 2]      # every document sees both main paths
    if path == 'RenameColumn':
      act = ['RenameColumn', src['tableId'], c['colId'], new]
    elif path == 'colId':
      act = ['UpdateRecord', '_grist_Tables_column', c['id'], {'colId': new}]
    elif path == 'label':
      act = ['UpdateRecord', '_grist_Tables_column', c['id'], {'label': new}]
    else:
      act = ['UpdateRecord', '_grist_Tables_column', c['id'], {'label': new, 'untieColIdFromLabel': False}]
    status, info, problems = check_rename(e, act, list(done))
    yield list(done), path, act, status, info, problems, None
    if problems:
      e = build(done)
    else:
      done.append([act])


LAYOUT_FORMULAS = [
  '${p} * ${q}', 'rec.{p} + ${q}', 'x = ${p}\nreturn x * ${q}', 'if ${p}:\n  return ${q}\nreturn ${t}',
  '{T}.lookupOne({t}=${t}).{p} + ${q}', 'len({T}.lookupRecords({t}=${t}, order_by="-{q}"))',
  'SUM(r.{q} for r in {T}.all if r.{t} == ${t})', '[r.{p}\n for r in {T}.all]', '${p} * ${q}  # {q} of {p}',
  'RANK(rec, order_by=("{t}", "-{q}"))',
]


def layout_variant(rng, text, safe=False):
  """The same formula laid out differently: the generated code is identical (gencode dedents the body and
  normalises line endings), the STORED text -- which rename patches are positions in -- is not."""
  # re-indenting every line and LF <-> CRLF leave the generated module text IDENTICAL; trailing blanks do not (kept rare)
  k = rng.choice(['indent'] * 5 + ['crlf'] * 2 + ['dedent'] + ['mix'] * 3 + ([] if safe else ['trail']))
  lines = text.replace('\r\n', '\n').split('\n')
  if k in ('indent', 'mix'):
    pad = ' ' * rng.choice([1, 2, 4, 7])
    lines = [pad + l for l in lines]
  if k == 'dedent':
    n = min(len(l) - len(l.lstrip(' ')) for l in lines if l.strip()) if any(l.strip() for l in lines) else 0
    lines = [l[n:] for l in lines]
  if k == 'trail':
    lines = [l + rng.choice(['', ' ', '  ']) for l in lines]
  return ('\r\n' if k in ('crlf', 'mix') else '\n').join(lines)


def run_layout(seed, nsteps, collect=False):
  """A rename HISTORY on one engine: renames interleaved with undo of a rename and with layout-only edits of formulas
  (re-indent all lines, CRLF, trailing blanks).  Oracle as for every rename: formulas change only in the renamed name
  tokens, values are unchanged."""
  rng = random.Random(seed)
  T = rng.choice(['Orders', 'Tt', 'Items'])
  p, q, t = rng.sample(['Price', 'Qty', 'tag', 'A', 'B', 'amount', 'kind'], 3)
  n = dict(T=T, p=p, q=q, t=t)
  col = lambda i, ty: {'id': i, 'type': ty, 'isFormula': False}
  done = [[['AddTable', T, [col(p, 'Int'), col(q, 'Int'), col(t, 'Text')]]],
          [['BulkAddRecord', T, [None] * 4, {p: [1, 2, 3, 0], q: [5, 6, 7, 8], t: ['a', 'b', 'a', '']}]]]
  for i, f in enumerate(rng.sample(LAYOUT_FORMULAS, rng.randint(2, 5))):
    done.append([['AddColumn', T, 'f%d' % i, {'type': 'Any', 'isFormula': True, 'formula': f.format(**n)}]])
  # a column z that exactly ONE formula (g) mentions: rename + undo of z then restores the generated module text
  # exactly (an undo moves the renamed column and the rewritten formulas to the end, in reverse order)
  z = rng.choice(['Zq', 'weight', 'n_1'])
  done.append([['AddColumn', T, z, {'type': 'Int', 'isFormula': False}]])
  done.append([['AddColumn', T, 'g', {'type': 'Any', 'isFormula': True, 'formula': rng.choice(
    ['$%s + 1', 'rec.%s * 2', 'x = $%s\nreturn x + 1', 'if $%s:\n  return 1\nreturn 0', '[$%s,\n 1]']) % z}]])
  e, _ = G.new_doc()
  for bundle in done:
    try_apply(e, None, bundle)
  fresh = ['Count', 'paid', 'Zz', 'X9', 'Label 2', 'w_1', 'Total2', 'n2', 'Cost', 'Units']
  undo, k = None, 0
  first_layout, prefer = True, []        # the first layout step keeps the module text; the next rename hits what it edited
  script = ['rename z', 'undo', 'rename z', 'undo', 'layout g', 'rename z'] + \
           [rng.choice(['rename', 'undo', 'layout', 'layout', 'rename', 'rename z', 'layout g']) for _ in range(nsteps)]
  zref = gref = None
  for step in script:
    m = histgen.Meta(e)
    tb = next((x for x in m.user_tables()), None)
    if zref is None and tb is not None:
      zref = next((c['id'] for c in m.by_table[tb['id']] if c['colId'] == z), None)
      gref = next((c['id'] for c in m.by_table[tb['id']] if c['colId'] == 'g'), None)
    target = None
    if step.endswith(' z') or step.endswith(' g'):
      target = m.cols.get(zref if step.endswith(' z') else gref)
      step = step.split()[0]
      if target is None:
        continue
    if tb is None:
      break
    if step == 'undo':
      if undo is not None:
        b = [['ApplyUndoActions', undo]]
        done.append(copy.deepcopy(b))
        try_apply(e, None, b)
        undo = None
      continue
    if step == 'layout':
      fc = [c for c in m.formula_cols(tb['id']) if c['formula']]
      for c in ([target] if target is not None else rng.sample(fc, min(len(fc), rng.randint(1, 3)))):
        b = [['ModifyColumn', tb['tableId'], c['colId'], {'formula': layout_variant(rng, c['formula'], first_layout)}]]
        prefer += [x for x in m.data_cols(tb['id']) if mentions(x['colId'], [c['formula']])]
        before = G.snapshot(e, tables=[tb['tableId']])
        done.append(copy.deepcopy(b))
        if try_apply(e, None, b) and G.snapshot(e, tables=[tb['tableId']]) != before:
          return      # the edit was not layout-only for the engine (not this property's business): stop this history
      first_layout = False
      continue
    dc = m.data_cols(tb['id'])
    if not dc:
      break
    ids = set(x['id'] for x in dc)
    pc = [x for x in prefer if x['id'] in ids]
    c = rng.choice(pc) if pc and rng.random() < 0.8 else rng.choice(dc)
    if target is not None:
      c = target
    prefer = []
    new = fresh[k % len(fresh)] + ('' if k < len(fresh) else str(k))
    k += 1
    path = rng.choice(['RenameColumn', 'RenameColumn', 'label', 'colId', 'RenameTable'])
    if target is not None and path == 'RenameTable':
      path = 'RenameColumn'
    if path == 'RenameColumn':
      act = ['RenameColumn', tb['tableId'], c['colId'], new]
    elif path == 'label':
      act = ['UpdateRecord', '_grist_Tables_column', c['id'], {'label': new}]
    elif path == 'colId':
      act = ['UpdateRecord', '_grist_Tables_column', c['id'], {'colId': new}]
    else:
      act = ['RenameTable', tb['tableId'], rng.choice(['Sales', 'Xt', 'Yy', 'Deals']) + str(k)]
    status, info, problems = check_rename(e, act, list(done), collect)
    yield list(done), path, act, status, info, problems, None
    done.append([act])
    undo = info.get('undo') if status == 'applied' else None
    if problems:
      return


def run_namesake(seed, nren):
  """Column ids that coincide with TABLE ids: a table has a column named like another table (a Ref to it, or plain) and
  like itself, and its formulas mention those tables by name (T.lookupRecords / lookupOne / .all) next to the columns
  ($T, rec.T.x).  Table names and column names live in different scopes of the generated module; renaming the table
  must rewrite the table tokens only, renaming the column the column tokens only."""
  rng = random.Random(seed)
  P, O = rng.sample(['People', 'Orders', 'Items', 'Tt', 'Deals'], 2)
  k, v, q = rng.sample(['name', 'amount', 'A', 'B', 'kind', 'qty'], 3)
  col = lambda i, t: {'id': i, 'type': t, 'isFormula': False}
  done = [
    [['AddTable', P, [col(k, 'Text'), col(v, 'Int')]]],
    [['AddTable', O, [col(q, 'Text'), col(P, 'Ref:' + P)]]],          # Orders.People : Ref:People
    [['AddColumn', O, O, {'type': rng.choice(['Int', 'Text']), 'isFormula': False}]],     # Orders.Orders
    [['AddColumn', P, P, {'type': 'Int', 'isFormula': False}]],       # People.People
    [['AddColumn', P, O, {'type': 'RefList:' + O, 'isFormula': False}]],                   # People.Orders : RefList:Orders
    [['BulkAddRecord', P, [None] * 3, {k: ['a', 'b', 'a'], v: [1, 2, 3], P: [7, 8, 9]}]],
    [['BulkAddRecord', O, [None] * 3, {q: ['a', 'b', 'c'], P: [1, 2, 0]}]],
    [['BulkUpdateRecord', P, [1, 2], {O: [['L', 1, 2], ['L', 3]]}]],
  ]
  n = dict(P=P, O=O, k=k, v=v, q=q)
  in_o = ['len({P}.lookupRecords({k}=${q}))', '{P}.lookupOne({k}=${q}).{v}', '${P}.{v}', 'rec.{P}.{k}',
          '[r.{v} for r in {P}.all]', '{P}.lookupOne({P}=7).{k}', 'len({O}.lookupRecords({P}=${P}))',
          'SUM(r.{P} for r in {P}.all) + len({O}.all)', '{O}.lookupOne({O}=${O}).id', '${O}',
          '{P}.lookupOne({k}=${q}, order_by="-{P}").{P}']
  in_p = ['${P} + len({P}.all)', 'len({O}.lookupRecords({P}=rec))', 'list(${O}.{q})', '{P}.lookupOne({P}=${P}).id',
          '[r.{O} for r in {O}.all]', 'len(${O}) + ${P}']
  for i, f in enumerate(rng.sample(in_o, rng.randint(5, len(in_o)))):
    done.append([['AddColumn', O, 'f%d' % i, {'type': 'Any', 'isFormula': True, 'formula': f.format(**n)}]])
  for i, f in enumerate(rng.sample(in_p, rng.randint(3, len(in_p)))):
    done.append([['AddColumn', P, 'g%d' % i, {'type': 'Any', 'isFormula': True, 'formula': f.format(**n)}]])

  def build(bs):
    e, _ = G.new_doc()
    for bundle in bs:
      try_apply(e, None, bundle)
    return e
  e = build(done)
  fresh = ['Persons', 'Clients', 'Zz', 'X9', 'Sales', 'w_1', 'Units', 'Buyers']
  rng.shuffle(fresh)
  for i in range(nren):
    m = histgen.Meta(e)
    tabs = m.user_tables()
    if not tabs:
      break
    new = fresh[i % len(fresh)] + ('' if i < len(fresh) else str(i))
    # renames of the tables, and of the columns named like a table, come first
    namesakes = [(t, c) for t in tabs for c in m.data_cols(t['id']) if c['colId'] in m.table_by_id]
    kind = ['RenameTable', 'namesake', 'tableId', 'namesake'][i] if i < 4 else rng.choice(['RenameTable', 'namesake', 'col'])
    if kind in ('RenameTable', 'tableId'):
      t = rng.choice(tabs)
      path = kind
      act = ['RenameTable', t['tableId'], new] if kind == 'RenameTable' else \
            ['UpdateRecord', '_grist_Tables', t['id'], {'tableId': new}]
    else:
      t, c = rng.choice(namesakes) if (kind == 'namesake' and namesakes) else \
             (lambda tt: (tt, rng.choice(m.data_cols(tt['id']))))(rng.choice([x for x in tabs if m.data_cols(x['id'])]))
      path = rng.choice(['RenameColumn', 'label'])
      act = ['RenameColumn', t['tableId'], c['colId'], new] if path == 'RenameColumn' else \
            ['UpdateRecord', '_grist_Tables_column', c['id'], {'label': new}]
    status, info, problems = check_rename(e, act, list(done), True)
    yield list(done), path, act, status, info, problems, None
    if problems:
      e = build(done)
    else:
      done.append([act])


def replay(ctx, w):
  """Re-runs a recorded scenario: the bundles (failures ignored, document cleaned), then the rename."""
  e, _ = G.new_doc()
  for bundle in w['bundles']:
    try_apply(e, None, bundle)
  status, info, problems = check_rename(e, w['rename'], w['bundles'])
  want = w.get('kind')
  for kind, what in problems:
    if want is None or kind.split(':')[0] == want.split(':')[0]:
      return '%s: %s' % (kind, what)
  return None


# ---- known findings: one matcher per root cause (the oracle's own classification, see judge) -----------------
KINDS = ['rename_of_summary_group_column', 'rename_of_manualsort_column', 'rename_to_helper_prefix_removes_column',
         'rename_table_reinterprets_alt_text_in_reference_columns', 'ref_to_table_named_like_function',
         'comprehension_over_reference_list', 'rename_to_manualsort_in_table_without_it']


def _kind_matcher(name):
  return lambda violation, entry: str(violation.get('kind', '')).split(':')[0] == name
MATCHERS = {k: _kind_matcher(k) for k in KINDS}


# ---- Coq terms -----------------------------------------------------------------------------------------------
def zl(s):
  return '[' + '; '.join('%d%%Z' % ord(c) for c in s) + ']'


def coq_occ(o):
  pos, t, c = o
  return '(%s, %s, %s)' % (core.zlit(pos), zl(t), 'None' if c is None else '(Some %s)' % zl(c))


def coq_renames(renames):
  rt = ['(%s, %s)' % (zl(t), zl(n)) for (t, c), n in sorted(renames.items(), key=repr) if c is None]
  rc = ['(%s, %s, %s)' % (zl(t), zl(c), zl(n)) for (t, c), n in sorted(renames.items(), key=repr) if c is not None]
  return ('(%s : list (name * name))' % core.coq_list(rt), '(%s : list (name * name * name))' % core.coq_list(rc))


def coq_schema(schema):
  tabs = []
  for t, cols in sorted(schema.items()):
    if t.startswith('_grist_'):
      continue
    cs = []
    for c, (ctype, _isf, _f) in cols.items():
      if ctype.startswith('Ref:'):
        ty = '(CRef %s)' % zl(ctype[4:])
      elif ctype.startswith('RefList:'):
        ty = '(CRefList %s)' % zl(ctype[8:])
      else:
        ty = 'CPlain'
      cs.append('mkcol %s %s None []' % (zl(c), ty))
    tabs.append('mktab %s %s [] []' % (zl(t), core.coq_list(cs)))
  return core.coq_list(tabs)


EXTRA_DEFS = '''
Require Import Grist.Model.Renames Grist.Model.RenamesPrint.
Definition res_is (r : R text) (o : option text) : bool :=
  match r, o with ROk a, Some b => name_eqb a b | RErr _, None => true | _, _ => false end.
(* typed case constructors: every literal is elaborated against a known type *)
Definition cR (t : text) (ps : list patch) (o : option text) := (t, ps, o).
Definition cT (old : text) (rep : list occ) (rt : list (name * name)) (rc : list (name * name * name)) (new : text) :=
  (old, rep, rt, rc, new).
Definition cP (f : expr) (t : text) := (f, t).
Definition cE (d : doc) (self : name) (f : expr) (rt : list (name * name)) (rc : list (name * name * name)) (new : text) :=
  (d, self, f, rt, rc, new).
(* the definition translated from useractions._prepare_formula_renames on this run, evaluated on the same inputs *)
Require Import Grist.Lib.RenPrelude GristGen.Renames_gen.
Fixpoint rc_get (l : list (name * name * name)) (t c : name) : option text :=
  match l with [] => None | (t', c', n) :: r => if name_eqb t' t && name_eqb c' c then Some n else rc_get r t c end.
Definition renames_get_of (rt : list (name * name)) (rc : list (name * name * name)) (t : name) (c : option name) :=
  match c with Some cc => rc_get rc t cc | None => lookup_env t rt end.
Definition gen_ok (old : text) (rep : list occ) rt rc (new : text) : bool :=
  let k0 : colkey := ([75%Z], [48%Z]) in
  match gen_prepare_formula_renames (renames_get_of rt rc) (fun _ => old)
          (map (fun o : occ => (k0, fst (fst o), snd (fst o), snd o)) rep) with
  | [] => name_eqb old new
  | [(k, ROk t)] => colkey_eqb k k0 && name_eqb t new
  | _ => false
  end.
'''


def replacer_cases(ctx):
  """(text, patches, impl result or None when it raises ValueError) for textbuilder.Replacer over textbuilder.Text."""
  import textbuilder
  r = ctx.rng
  out = []
  alphabet = 'ab$. _xé"(=)\n'
  for i in range(ctx.n(160, 3000)):
    text = ''.join(r.choice(alphabet) for _ in range(r.choice([0, 1, 3, 6, 10, 16])))
    patches = []
    for _ in range(r.choice([0, 1, 1, 2, 3, 4])):
      a = r.randint(0, len(text) + 1)
      b = a + r.choice([0, 1, 1, 2, 3])
      if r.random() < 0.85:
        old = text[a:b]
      else:
        old = r.choice(['', 'a', 'zz'])            # a patch that does not fit: ValueError
      patches.append(textbuilder.Patch(a, b, old, r.choice(['', 'Q', 'new', 'a', 'éé'])))
    if patches and r.random() < 0.15:
      patches.append(r.choice(patches))            # the same position reported twice
    r.shuffle(patches)
    try:
      res = textbuilder.Replacer(textbuilder.Text(text), patches).get_text()
    except ValueError:
      res = None
    out.append((text, patches, res))
  return out


def run_streams(ctx):
  """All engine runs of one check: random histories and the directed documents, in the three streams.
  Returns the list of judged renames: dicts(stream, mode, seed, bundles, path, act, status, info, problems, trees)."""
  plan = [('main', 'random', ctx.n(18, 320)), ('main', 'directed', ctx.n(1, 12)),
          ('clash', 'directed', ctx.n(1, 6)), ('gaps', 'directed', ctx.n(1, 6)),
          ('clash', 'random', ctx.n(1, 30)), ('gaps', 'random', ctx.n(1, 30)),
          ('sisters', 'sisters', ctx.n(3, 40)), ('layout', 'layout', ctx.n(8, 150)),
          ('namesake', 'namesake', ctx.n(3, 40))]
  out = []
  # the witnesses of the FIXED findings stay in the corpus and run first: the rename must now be rejected without trace
  for k in core.load_known():
    if k.get('property') == ID and k.get('kind') == 'fixed' and 'witness' in k:
      w = k['witness']
      e, _ = G.new_doc()
      for bundle in w['bundles']:
        try_apply(e, None, bundle)
      status, info, problems = check_rename(e, w['rename'], w['bundles'])
      if not status.startswith('rejected_protected'):
        problems = problems or [(w.get('kind', 'fixed_witness'), 'the witness of fixed finding %s is no longer rejected '
                                 '(status %s)' % (k['id'], status))]
      out.append({'stream': 'fixed-witness', 'mode': 'witness', 'seed': k['id'], 'bundles': w['bundles'],
                  'path': w['rename'][0], 'act': w['rename'], 'status': status, 'info': info, 'problems': problems,
                  'trees': {}})
  for stream, mode, n in plan:
    for k in range(n):
      seed = ctx.rng.randrange(1 << 30)
      collect = ctx.tier == 'thorough' or k % 2 == 0       # what parse_grist_names reports is recorded for these
      if mode == 'random':
        it = run_history(seed, stream, 8, 5, collect=collect)
      elif mode == 'sisters':
        it = run_sisters(seed, ctx.n(3, 6))
      elif mode == 'namesake':
        it = run_namesake(seed, ctx.n(4, 8))
      elif mode == 'layout':
        it = run_layout(seed, ctx.n(4, 10), collect=collect)
      else:
        it = run_directed(seed, stream, ctx.n(4, 12), collect=collect)
      for done, path, act, status, info, problems, gen in it:
        out.append({'stream': stream, 'mode': mode, 'seed': seed, 'bundles': done, 'path': path, 'act': act,
                    'status': status, 'info': info, 'problems': problems,
                    'trees': dict(gen.trees) if gen is not None else {}})
  return out


def monitor_names_complete(ctx, runs):
  """names_complete: on every formula of the judged documents, the positions the real name discovery reports are
  exactly the occurrences the independent locator finds (for names of existing tables/columns), each a whole NAME
  token or the content of a string literal."""
  seen = set()
  bad = 0
  for form in c16loc.FORMS:
    ctx.hist.setdefault('names_complete form: ' + form, 0)      # a form that is never exercised shows as 0
  for r in runs:
    info = r['info']
    if 'formulas' not in info:
      continue
    sch = info['schema']
    loc = c16loc.Locator(sch, follow_gaps=False)
    loc_gaps = c16loc.Locator(sch, follow_gaps=True)
    exists = lambda t, c: t in sch and (c is None or c in sch[t])
    for tid, cid, old, _new, reported in info['formulas']:
      key = (tid, cid, old, json.dumps(sorted(sch.get(tid, {})), default=repr))
      if key in seen:
        continue
      seen.add(key)
      occs = loc.occurrences(tid, old)
      if occs is None:
        ctx.bump('monitor:unparsable formula')
        continue
      mine = sorted(o.key() for o in occs if exists(o.table, o.col))
      # per reference form: how many formulas exercised it (reported by the real discovery AND found by the locator)
      rset = set(x for x in reported if exists(x[1], x[2]))
      for form in set(o.form for o in occs if o.key() in rset):
        ctx.bump('names_complete form: ' + form)
      # the occurrences behind the registered gaps (known findings) may or may not be reported
      allowed = set(o.key() for o in (loc_gaps.occurrences(tid, old) or []) if exists(o.table, o.col))
      real = sorted(x for x in reported if exists(x[1], x[2]))
      ctx.bump('monitor:formulas compared')
      toks = c16loc.tokens_at(old)
      tok_bad = [x for x in real if not c16loc.token_ok(toks, x[0], x[0] + len(x[2] if x[2] is not None else x[1]))]
      if not (set(mine) <= set(real) <= allowed) or len(set(real)) != len(real) or tok_bad:
        bad += 1
        if bad <= 3:
          ctx.broken('monitor:names_complete',
                     'formula %r of %s.%s: parse_grist_names reports %r, the independent locator finds %r; '
                     'not name tokens: %r' % (old, tid, cid, real, mine, tok_bad))
  ctx.extra['names_complete_formulas'] = len(seen)


def correspond(ctx):
  runs = run_streams(ctx)
  ctx._c16_runs = runs
  ctx.log('engine runs: %d rename actions judged' % len(runs))
  monitor_names_complete(ctx, runs)
  ctx.log('names_complete monitored on %d formulas' % ctx.extra.get('names_complete_formulas', 0))
  # (1) textbuilder.Replacer vs replacer_text
  rc = replacer_cases(ctx)
  terms = []
  for text, patches, res in rc:
    ps = core.coq_list(['mkpatch %s %s %s %s' % (core.zlit(p.start), core.zlit(p.end), zl(p.old_text), zl(p.new_text))
                        for p in patches])
    terms.append('(cR %s %s %s)' % (zl(text), ps, core.optlit(res, zl)))
  jobs = [('replacer', 'fun c => res_is (replacer_text (fst (fst c)) (snd (fst c))) (snd c)', terms, 500, EXTRA_DEFS,
           'correspondence:replacer_text differs from textbuilder.Replacer', [repr(x) for x in rc])]
  ctx.extra['replacer_cases'] = len(rc)
  # (2) _prepare_formula_renames vs rename_text, (3) the printers, (4) ren + pr vs the formula the engine wrote
  t2, t3, t4, src2, src4 = [], [], [], [], []
  seen3 = set()
  schemas = {}
  for r in runs:
    info = r['info']
    if r['status'] != 'applied' or 'formulas' not in info or not info['renames']:
      continue
    rt, rcs = coq_renames(info['renames'])
    for tid, cid, old, new, reported in info['formulas']:
      if len(t2) < ctx.n(70, 4000) and (old != new or len(t2) % 3 == 0):
        t2.append('(cT %s %s %s %s %s)' % (zl(old), core.coq_list([coq_occ(o) for o in reported]), rt, rcs, zl(new)))
        src2.append((old, reported, info['renames'], new))
      tree = r['trees'].get(old)
      if tree is not None and r['stream'] != 'clash' and r['stream'] == 'gaps':
        # the model does not follow the registered gaps; formulas where that matters are left to the engine oracle
        og = c16loc.Locator(info['schema'], follow_gaps=True).occurrences(tid, old) or []
        if any(o.tags and (o.table, o.col) in info['renames'] for o in og):
          ctx.bump('tree-level case skipped: a registered gap is involved')
          tree = None
      if tree is not None and r['stream'] != 'clash':
        if old not in seen3:
          seen3.add(old)
          t3.append('(cP %s %s)' % (c16gen.coq(tree), zl(old)))
        sch = coq_schema(info['schema']) if len(t4) < ctx.n(80, 2500) else None
        if sch is not None and (sch in schemas or len(schemas) < ctx.n(6, 100000)):
          if sch not in schemas:
            schemas[sch] = 'sch_%d' % len(schemas)
          t4.append('(cE %s %s %s %s %s %s)' % (schemas[sch], zl(tid), c16gen.coq(tree), rt, rcs, zl(new)))
          src4.append((tid, old, info['renames'], new))
  jobs.append(('renametext', 'fun c => match c with (old, rep, rt, rc, new) => '
               'res_is (rename_text (rt_of rt) (rc_of rc) old rep) (Some new) && gen_ok old rep rt rc new end', t2, 400, EXTRA_DEFS,
               'correspondence:rename_text differs from _prepare_formula_renames', [repr(x) for x in src2]))
  jobs.append(('printer', 'fun c => name_eqb (pr_text (fst c)) (snd c)', t3, 400, EXTRA_DEFS,
               'correspondence:Coq pr differs from the harness printer', [x[:400] for x in t3]))
  jobs.append(('rentree', 'fun c => match c with (d, self, f, rt, rc, new) => '
               'name_eqb (pr_text (ren (rt_of rt) (rc_of rc) d self [] f)) new end', t4, 300,
               EXTRA_DEFS + ''.join('Definition %s : doc := %s.\n' % (v, k) for k, v in schemas.items()),
               'correspondence:ren (tree level) differs from the formula the engine wrote', [repr(x) for x in src4]))
  # (5) the evaluation semantics itself, cell by cell: `cell` on the translated document against the engine's values,
  #     before the renames on the document and after each rename on rename_doc of it (harness/c16eval.py)
  from harness import c16eval
  ev_terms, ev_src, n_cells, n_steps, skipped = [], [], 0, 0, 0
  for _ in range(ctx.n(12, 220)):
    seed = ctx.rng.randrange(1 << 30)
    c = c16eval.build_case(seed, nb=10, nren=3)
    if 'skipped' in c:
      skipped += 1
      continue
    steps = []
    for ren, cells in c['steps']:
      srt, src = coq_renames(ren)
      steps.append('(%s, %s, %s)' % (srt, src, c16eval.coq_cells(cells)))
      n_cells += len(cells)
    n_cells += len(c['cells'])
    n_steps += len(c['steps'])
    ev_terms.append('(cV %s %s %s)' % (c['doc'], c16eval.coq_cells(c['cells']), core.coq_list(steps)))
    ev_src.append('eval tie seed %d: renames %r' % (seed, [r for r, _ in c['steps']]))
  jobs.append(('evalcell', 'case_ok', ev_terms, ctx.n(6, 14), EXTRA_DEFS + c16eval.COQ_DEFS,
               'correspondence:Model/Renames.v `cell` differs from the engine cell values', ev_src))
  ctx.extra.update({'eval_tie_documents': len(ev_terms), 'eval_tie_cells': n_cells, 'eval_tie_rename_steps': n_steps,
                    'eval_tie_skipped_documents': skipped})
  ctx.bump('eval tie: formula cells compared', n_cells)
  ctx.bump('eval tie: rename steps (cells re-compared on rename_doc)', n_steps)
  # (6) retype_val: what RenameTable's Int detour does to alternative text in Ref / RefList cells (finding 4's model)
  texts = ['2', '12', '007', '0', 'abc', 'x1', 'a2', '3x', 'None', '10'] + \
          [str(ctx.rng.randint(0, 999)) for _ in range(ctx.n(4, 30))] + \
          [''.join(ctx.rng.choice('ab1 x') for _ in range(3)).strip() or 'q' for _ in range(ctx.n(4, 30))]
  def numeric(t):
    try:
      float(t)
      return True
    except ValueError:
      return False
  # the model covers unsigned decimal integers; other numeric spellings ('1e3', ' 3', '-1') are left out of the tie
  texts = [t for t in dict.fromkeys(texts) if (t.isdigit() and t.isascii()) or not numeric(t)]
  e, _ = G.new_doc()
  G.apply(e, [['AddTable', 'R2', [{'id': 'B', 'type': 'Text', 'isFormula': False}]]])
  G.apply(e, [['BulkAddRecord', 'R2', [None] * 2, {'B': ['x', 'y']}]])
  G.apply(e, [['AddTable', 'Tt', [{'id': 'ref', 'type': 'Ref:R2', 'isFormula': False},
                                  {'id': 'rl', 'type': 'RefList:R2', 'isFormula': False}]]])
  G.apply(e, [['BulkAddRecord', 'Tt', [None] * len(texts), {'ref': list(texts), 'rl': list(texts)}]])
  G.apply(e, [['RenameTable', 'R2', 'People']])
  snap = G.snapshot(e, tables=['Tt'])['Tt']['cols']
  rt_terms, rt_src = [], []
  for i, t in enumerate(texts):
    for kind, colid in (('CRef', 'ref'), ('CRefList', 'rl')):
      try:
        exp = c16eval.mval(snap[colid][i])
      except c16eval.Untranslatable:
        continue
      rt_terms.append('(cY (%s %s) %s %s)' % (kind, zl('R2'), zl(t), exp))
      rt_src.append('%s cell %r became %r' % (colid, t, snap[colid][i]))
  jobs.append(('retype', 'fun c => match c with (ty, s, v) => val_seqb (retype_val ty (VStr s)) v end', rt_terms, 400,
               EXTRA_DEFS + c16eval.COQ_DEFS + 'Definition cY (ty : ctyp) (s : text) (v : val) := (ty, s, v).\n',
               'correspondence:retype_val differs from what RenameTable does to alternative text', rt_src))
  ctx.extra['retype_cases'] = len(rt_terms)
  # the four families are independent: evaluate them side by side
  import concurrent.futures
  # (one after the other in the thorough tier, where each family already fills 8 coqc processes with its shards)
  with concurrent.futures.ThreadPoolExecutor(max_workers=ctx.n(4, 1)) as ex:
    futs = [(j, ex.submit(ctx.run_cases, j[0], [], j[1], j[2], j[3], 1200, j[4])) for j in jobs]
    for j, fut in futs:
      for i in fut.result()[:3]:
        ctx.broken(j[5], j[6][i])
  ctx.extra.update({'rename_text_cases': len(t2), 'printer_cases': len(t3), 'tree_rename_cases': len(t4)})


def search(ctx):
  runs = getattr(ctx, '_c16_runs', None)
  if runs is None:
    runs = run_streams(ctx)
  reported_kinds = collections.Counter()
  per_path = collections.Counter()
  for r in runs:
    info = r['info']
    exercised = r['status'] == 'applied' and info.get('renamed', 0) > 0 and info.get('touched', 0) > 0
    ctx.count((r['seed'], r['act']), nontrivial=exercised,
              sample={'rename': r['act'], 'path': r['path'], 'renamed_entities': info.get('renamed'),
                      'formulas_rewritten': info.get('touched')} if exercised else None,
              kind='%s/%s/%s' % (r['stream'], r['path'], r['status'] if r['status'] != 'applied' else
                                 ('rewrote' if exercised else ('renamed' if info.get('renamed') else 'no-op'))))
    if r['status'] == 'applied' and info.get('renamed') and not info.get('fresh', True):
      ctx.bump('new name already mentioned by a formula (values not compared)')
    for kind, what in r['problems']:
      reported_kinds[kind] += 1
      per_path[(kind, r['path'])] += 1
      if per_path[(kind, r['path'])] > 2:
        continue          # one failure mode is reported with at most two witnesses per rename path
      w = {'bundles': r['bundles'], 'rename': r['act'], 'kind': kind}
      if kind.split(':')[0] not in KINDS:
        # an unrecognised failure: minimise the history before reporting it
        def fails(bs, act=r['act'], kind=kind):
          return replay(ctx, {'bundles': bs, 'rename': act, 'kind': kind}) is not None
        try:
          if fails(w['bundles']):
            w['bundles'] = histgen.shrink_list(w['bundles'], fails, max_steps=60)
        except Exception:
          pass
      ctx.violation(kind, what, w)
  ctx.extra['problem_kinds'] = dict(reported_kinds)


RULE = ('random acyclic documents (HistGen with formulas generated from trees in every supported reference form: $c, '
        'rec.c, chains through Ref/RefList columns, lookupOne/lookupRecords keywords, order_by strings, .all, '
        'comprehensions over lookups and .all, PREVIOUS/NEXT/RANK group_by/order_by, summary-table formulas) kept CLEAN, '
        'plus directed two-table documents with one formula per reference form (incl. .find.*, f-strings, assignments, '
        'nested comprehensions); then rename actions by every path (RenameColumn, RenameTable, colId / tableId metadata '
        'update, label with untieColIdFromLabel unset/true/false) to targets including keywords, names needing sanitising, '
        'colliding names, id/group/count/manualSort/gristHelper_ names; streams `clash` (tables named like a function) and '
        '`gaps` (comprehensions over reference lists) exercise the registered root causes. A case is non-trivial when the '
        'rename was applied, renamed at least one entity and rewrote at least one formula.')
TRUSTED = ['Model/Renames.v `cell`/`eval` (hand-written) is compared with the engine cell by cell on generated documents '
           '(Int/Text/Ref/RefList data, Any formulas over the model grammar, a summary table), before each rename on '
           'the translated document and after it on rename_doc of it (harness/c16eval.py). Outside that domain it is '
           'trusted: alt text, floats/dates, lookup keys of a type other than their column, list/record rich '
           'comparisons, Record order across tables (depends on table names), manualSort orders other than row id',
           'harness/c16eval.py translation engine document -> model doc (summary group membership is taken from the '
           "engine's group cells)",
           'astroid name discovery (codebuilder.parse_grist_names): premise names_complete, monitored on every formula of '
           'the generated documents against harness/c16loc.py (stdlib ast/tokenize)',
           'CPython tokenisation of the patched text (premise of the text round trip)',
           'harness/c16gen.py printer (compared with the Coq printer on every generated tree)']
ASSUMPTIONS = ['fresh new name: not a column of the table / table of the document and not mentioned by any formula',
               'supported reference forms only (wf_static): every attribute, keyword and order_by/group_by name has a '
               'statically known table; comprehension variables only over lookups and .all',
               'group_ok: a column carrying the group formula is not renamed from or to `group` '
               '(C16_group_rename_must_be_rejected shows why; the engine rejects renames of manualSort and of a summary '
               "table's group column since b90267a, and the search checks that the rejection leaves no trace)",
               'builtins do not inspect table names (proved for the standard ones; str(record) shows the table id and is '
               'keyed through the rename by the oracle)']
TECHNIQUE = ('Deciding rename code regenerated from source on every run (harness/c16v.py -> coq/gen/Renames_gen.v) with bridging proofs + AST pins; Coq proof of equivariance of an executable formula semantics under injective renamings + text-level model '
             'of textbuilder.Replacer proved to touch only the reported name spans; differential cases (Replacer, '
             '_prepare_formula_renames, tree-level rename vs the formulas the engine writes) + monitored oracle hypothesis '
             '+ engine-level search over every rename path')
LEVEL_TEXT = ('Kernel-checked: for every document, formula, row and fuel, consistently renaming tables/columns in schema '
              'and references leaves every value unchanged (general injective renamings; corollaries for one fresh column '
              'or table name), round trips restore formulas, and the text produced by patching the reported name positions '
              'is the old text with exactly those name tokens replaced and equals the print of the renamed tree. The '
              'model shows why a group-formula column named `group` must keep its name '
              '(C16_group_rename_must_be_rejected); the engine rejects such renames (fix b90267a) and the search checks '
              'that the rejection leaves no trace.')
LEVEL_NOTE = ('Kernel strength: name discovery (astroid) is an oracle whose completeness is a monitored premise; the '
              'evaluation semantics is a hand-written model compared with the engine cell by cell on generated '
              'documents (before and after renames). Whole-document and history theorems: every cell of every table '
              'after any acceptable sequence of renames. Alt text reinterpreted by RenameTable is a model-level refutation '
              '(C16_refuted_alt_text_reinterpreted; positive theorem under no_alt_text). Implementation-only findings: '
              'tables named like a function, gristHelper_ targets (known); renaming manualSort or a summary group column '
              '(fixed by b90267a, witnesses kept in the corpus).')
