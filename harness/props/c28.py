"""C28 -- Upserts follow their specification (UserActions.BulkAddOrUpdateRecord / AddOrUpdateRecord)."""
import copy
import itertools
import logging

from harness import core, up2v

ID = 'C28'
TITLE = 'Upserts follow their specification'
PROPS = ['Props/C28']
RULE = ('each case: a fresh table T(A Text, B Int, C Text, D Int, N Numeric, K Bool, G Any, L ChoiceList, F formula, E empty column) with 0-6 rows (duplicate and missing keys, '
        'gaps in row ids) and one BulkAddOrUpdateRecord/AddOrUpdateRecord call through apply_user_actions: 0-3 require '
        'columns out of A,B,C,F,id (rarely an unknown one), 0-2 value columns (rarely a formula/unknown/id column), 0-4 '
        'input rows, mistyped values ("1" for an Int column etc.), explicit row ids (existing, fresh, 0, negative, '
        'too high, repeated), every options combination, plus dedicated streams for empty require with/without '
        'allow_empty_require, several input rows hitting the same record, mismatched lengths, duplicate keys, an EMPTY '
        'column (isFormula=True, formula="") named in require and/or col_values, and repeated upserts (the same call '
        'made a second time must update, not add), require keys that are ONE value spelled with different number/bool '
        'types (1, 1.0, True / 0, 0.0, False / 2, 2.0 on Int/Numeric/Bool/Any key columns, "a" vs "a" as control): '
        'duplicates by Python value equality must be rejected; a require keyed on a ChoiceList column (oracle only); thorough '
        'adds an exhaustive small scope. A case is non-trivial when a record was added or updated or an argument '
        'error was raised')
TRUSTED = ['harness/up2v.py translates BulkAddOrUpdateRecord/AddOrUpdateRecord (useractions.py) to Gallina on every run '
           '(fail closed); three computed quantities (the dict of lengths, its set, the number of unique require keys) '
           'and `table = self._engine.tables[table_id]` are pinned by AST equality instead of being translated; the '
           'translation is validated on every run: the generated functions are evaluated (vm_compute) on every case '
           'and compared with the running engine',
           'the opaque environment of the generated code is instantiated by the hand models of table.lookup_records, '
           'BulkAddRecord (id filling, docactions add) and BulkUpdateRecord (last occurrence, trimming) of '
           'Model/Upsert.v; these are compared with the running engine on every generated case',
           'column.convert / the lookup-key conversion are an uninterpreted function of the model (theorems hold for '
           'every such function); the harness tabulates it from the running engine for the values of each case',
           'formula columns are recomputed by the engine, not by the action: their cells are not compared after the call']
ASSUMPTIONS = ['values are None, ints, strings, and bools / integral floats identified with the equal int (Python value equality; a '
               'case is skipped when a column stores two such spellings differently, e.g. Text);  columns are data columns of type Text/Int, real formula columns, '
               'and one empty column (isFormula=True, formula="") that only receives non-blank non-numeric strings '
               '(its type is then guessed as Text) and whose untouched cells are compared modulo None = ""; no '
               'reference/position columns, no trigger formulas; tables are user tables']
TECHNIQUE = ('Coq proof over code translated from source on every run (up2v) bridged to a hand model: generated code = '
             'structured mirror (by computation) = row-major model = per-row reference specification; + differential cases '
             'against the real engine evaluated by vm_compute + independent Python oracle on the implementation')
LEVEL_TEXT = ('Kernel-checked theorems about BulkAddOrUpdateRecord/AddOrUpdateRecord AS REGENERATED from useractions.py on every '
              'run (C28_code_*: pointwise bridge to the hand model, refinement of the reference, argument errors), and, '
              'for all tables/arguments/options/conversion functions: the executable model of '
              'BulkAddOrUpdateRecord (lookup on the pre-call table, on_many, add/update flags, allow_empty_require, '
              'accumulated BulkAddRecord + BulkUpdateRecord (last occurrence of a row kept, unchanged entries trimmed), returned id lists) equals a per-row reference '
              'specification, the four argument errors reject without change, and AddOrUpdateRecord agrees with its '
              'reference. Two deviations found while building the check were repaired in /repo (e346da4, 060dc6b); '
              'their witnesses stay in the corpus and as regression examples. The model is compared with the running engine on every run.')
LEVEL_NOTE = ('Trusted: Coq kernel, the hand-written model (validated differentially each run), column.convert as an '
              'uninterpreted function. Record add/update internals (undo, formula recalculation) are outside C28.')

logging.disable(logging.CRITICAL)

# column ids of the model
COLS = {'id': 0, 'A': 1, 'B': 2, 'C': 3, 'D': 4, 'F': 5, 'E': 6, 'N': 7, 'K': 8, 'Z': 9, 'G': 10}
BASE = ['A', 'B', 'C', 'D', 'N', 'K', 'G']   # Text/Int/Numeric/Bool/Any data columns (L: a ChoiceList column, oracle only)
DATA = ['A', 'B', 'C', 'D', 'E', 'N', 'K', 'G']   # in schema order; E: an EMPTY column (isFormula=True, formula='') until first written
DEFAULTS = {'A': '', 'B': 0, 'C': '', 'D': 0, 'E': '', 'N': 0.0, 'K': False, 'G': None}
SCHEMA_COQ = ('[{| c_id := 1; c_data := true; c_default := VText [] |}; {| c_id := 2; c_data := true; c_default := VInt 0 |}; '
              '{| c_id := 3; c_data := true; c_default := VText [] |}; {| c_id := 4; c_data := true; c_default := VInt 0 |}; '
              '{| c_id := 5; c_data := false; c_default := VNone |}; {| c_id := 6; c_data := true; c_default := VText [] |}; '
              '{| c_id := 7; c_data := true; c_default := VInt 0 |}; {| c_id := 8; c_data := true; c_default := VInt 0 |}; '
              '{| c_id := 10; c_data := true; c_default := VNone |}]')
ON_MANY = {'first': 'OnFirst', 'none': 'OnNone', 'all': 'OnAll'}


def regenerate(ctx):
  """The deciding code is translated from /repo's useractions.py on every run."""
  import os
  try:
    text = up2v.translate(os.path.join(core.GRIST, 'useractions.py'))
  except up2v.Untranslatable as e:
    # no stale translation may stand in: the code-level theorems are not established on this tree
    core.write_if_changed(os.path.join(core.COQ, 'gen', 'Upsert_gen.v'),
                          '(* translation failed: %s *)\nDefinition gen_upsert := tt.\nDefinition gen_upsert_single := tt.\n'
                          % str(e).replace('*', '.'))
    raise core.TieBroken('BulkAddOrUpdateRecord/AddOrUpdateRecord are outside the translated subset: %s' % e)
  core.write_if_changed(os.path.join(core.COQ, 'gen', 'Upsert_gen.v'), text)
  ctx.extra['regenerated'] = 'coq/gen/Upsert_gen.v (gen_upsert, gen_upsert_single) from sandbox/grist/useractions.py'
  ctx.extra['translated_lines'] = text.count('\n')


class Unrepresentable(Exception):
  pass


# ---------------------------------------------------------------------------------------------
# implementation side

def ua(*a):
  import useractions
  return useractions.from_repr(list(a))


def fresh_engine():
  import engine
  e = engine.Engine()
  e.load_empty()
  e.apply_user_actions([ua('InitNewDoc')])
  e.apply_user_actions([ua('AddTable', 'T', [
    {'id': 'A', 'type': 'Text', 'isFormula': False}, {'id': 'B', 'type': 'Int', 'isFormula': False},
    {'id': 'C', 'type': 'Text', 'isFormula': False}, {'id': 'D', 'type': 'Int', 'isFormula': False},
    {'id': 'N', 'type': 'Numeric', 'isFormula': False}, {'id': 'K', 'type': 'Bool', 'isFormula': False},
    {'id': 'G', 'type': 'Any', 'isFormula': False}, {'id': 'L', 'type': 'ChoiceList', 'isFormula': False},
    {'id': 'F', 'type': 'Any', 'isFormula': True, 'formula': '$A.upper() if $A else ""'}])])
  e.apply_user_actions([ua('AddColumn', 'T', 'E', {})])        # an empty column: isFormula=True, formula=''
  return e


def e_is_empty(e):
  rec = e.docmodel.get_column_rec('T', 'E')
  return bool(rec.isFormula) and not rec.formula


def fetch(e):
  t = e.fetch_table('T')
  rows = [dict([('id', r)] + [(c, t.columns[c][i]) for c in DATA + ['F']]) for i, r in enumerate(t.row_ids)]
  for r in rows:
    if r['E'] is None:         # untouched cells of the empty column read None, '' once the column holds data
      r['E'] = ''
  return rows


def tabulate(e, case):
  """column.convert and the lookup-key conversion of the running engine, for the values of this case."""
  import usertypes
  table = e.tables['T']
  conv, key = {}, {}
  for d in (case['require'], case['col_values']):
    for c, vals in d.items():
      if c not in COLS or c == 'Z':
        continue
      col = table.get_column(c)
      for v in (vals if case['bulk'] else [vals]):
        k = (c, rep_key(v))
        stored = col.convert(v)
        rich = col._convert_raw_value(stored)
        if k in conv and not same(conv[k][2], stored):
          # two spellings of one value (1, 1.0, True) that this column stores differently (Text: '1', '1.0', 'True')
          raise Unrepresentable('%s stores %r and %r differently' % (c, conv[k][1], v))
        conv[k] = (c, v, stored)
        # a wrong-type value is looked up as AltText(text), which equals the AltText of a stored cell with that text
        key[k] = (c, v, ('some', str(rich)) if isinstance(rich, usertypes.AltText) else ('some', rich))
  return list(conv.values()), list(key.values())


def is_num(v):
  return isinstance(v, (int, float)) and not (isinstance(v, float) and v != v)


def rep_key(v):
  """Python value equality, the notion lookup_records and the uniqueness check use: 1 == 1.0 == True."""
  if is_num(v):
    return ('num', v)
  if isinstance(v, list):
    return ('list', tuple(rep_key(x) for x in v))
  return (type(v).__name__, v)


_POOL = {'engine': None}


def get_engine(case):
  """A clean engine: reused between cases when the previous case left nothing behind but ordinary rows."""
  e = _POOL['engine']
  _POOL['engine'] = None
  if e is None or REUSE_ENGINE is False:
    e = fresh_engine()
  return e


REUSE_ENGINE = True


def release_engine(e, case, outcome, post):
  """Empty the table again with an ordinary action; drop the engine after anything unusual."""
  if not REUSE_ENGINE or outcome[0] != 'ok' or case.get('prior') or not e_is_empty(e):
    return
  ids = [r['id'] for r in post]
  raw = []
  for d in (case['require'], case['col_values']):
    v = d.get('id', [])
    raw.extend(v if isinstance(v, list) else [v])
  if any(i > 60 for i in ids) or any(not isinstance(x, int) or isinstance(x, bool) or x == 0 or x > 60 for x in raw if x is not None):
    return
  try:
    if ids:
      e.apply_user_actions([ua('BulkRemoveRecord', 'T', ids)])
    t = e.tables['T']
    if fetch(e) or t.next_row_id() != 1:
      return
  except Exception:      # pylint: disable=broad-except
    return
  _POOL['engine'] = e


def run_impl(case):
  """Returns (pre, convtab, keytab, outcome, post)."""
  import useractions
  e = get_engine(case)
  rows = case['rows']
  if rows:
    cols = {c: [r.get(c, DEFAULTS[c]) for r in rows] for c in BASE}
    if any(r.get('E') for r in rows):       # E already holds data before the call
      cols['E'] = [r.get('E') or '' for r in rows]
    e.apply_user_actions([ua('BulkAddRecord', 'T', [r['id'] for r in rows], cols)])
  case['_prior'] = []
  for call in case.get('prior', []):        # earlier upserts of a repeated-upsert case
    try:
      out = e.apply_user_actions([ua('BulkAddOrUpdateRecord' if call['bulk'] else 'AddOrUpdateRecord', 'T',
                                     copy.deepcopy(call['require']), copy.deepcopy(call['col_values']),
                                     dict(call['options']))])
      case['_prior'].append(('ok', out.retValues[0]))
    except Exception as ex:      # pylint: disable=broad-except
      case['_prior'].append(('err', repr(ex)[:100]))
  pre = fetch(e)
  convtab, keytab = tabulate(e, case)
  name = 'BulkAddOrUpdateRecord' if case['bulk'] else 'AddOrUpdateRecord'
  counter = [0]
  orig = useractions.UserActions._do_doc_action
  def counting(self, action):
    counter[0] += 1
    return orig(self, action)
  useractions.UserActions._do_doc_action = counting
  try:
    try:
      out = e.apply_user_actions([ua(name, 'T', copy.deepcopy(case['require']), copy.deepcopy(case['col_values']),
                                     dict(case['options']))])
      outcome = ('ok', out.retValues[0])
    except Exception as ex:      # pylint: disable=broad-except
      outcome = ('err', classify_exc(ex), counter[0], repr(ex)[:200])
  finally:
    useractions.UserActions._do_doc_action = orig
  post = fetch(e)
  release_engine(e, case, outcome, post)
  return pre, convtab, keytab, outcome, post


def classify_exc(ex):
  if isinstance(ex, ValueError):
    s = str(ex)
    if s.startswith('on_many should be'):
      return 'EOnMany'
    if s.startswith('require is empty'):
      return 'EEmptyRequire'
    if s.startswith('Value lists must all have the same length'):
      return 'ELengths'
    if s.startswith('require values must be unique'):
      return 'EUnique'
  return 'EEnv'


# ---------------------------------------------------------------------------------------------
# Coq literals

def vlit(v):
  if v is None:
    return 'VNone'
  if isinstance(v, float) and v == int(v) and abs(v) < 2 ** 52:
    v = int(v)                 # 1, 1.0 and True are one value (Python equality): the model's VInt 1
  if not isinstance(v, (int, str)):
    raise Unrepresentable(repr(v))
  if isinstance(v, int):
    return '(VInt %s)' % core.zlit(int(v))
  return '(VText %s)' % core.strlit(v)


def cells_lit(pairs):
  return core.coq_list(['(%s, %s)' % (core.zlit(COLS[c]), vlit(v)) for c, v in pairs])


def table_lit(rows, cols):
  return core.coq_list(['(%s, %s)' % (core.zlit(r['id']), cells_lit([(c, r[c]) for c in cols])) for r in rows])


def kv_lit(d):
  return core.coq_list(['(%s, %s)' % (core.zlit(COLS[c]), core.coq_list([vlit(v) for v in vals])) for c, vals in d.items()])


def opts_lit(o):
  return ('{| o_on_many := %s; o_update := %s; o_add := %s; o_allow_empty := %s |}' % (
    ON_MANY.get(o.get('on_many', 'first'), 'OnBad'), core.boollit(bool(o.get('update', True))),
    core.boollit(bool(o.get('add', True))), core.boollit(bool(o.get('allow_empty_require', False)))))


def idlists(l):
  return core.coq_list([core.zlist(x) for x in l])


def coq_case(case, pre, convtab, keytab, outcome, post):
  if case.get('choicelist'):
    raise Unrepresentable('list-valued require key')
  conv = core.coq_list(['(%s, %s, %s)' % (core.zlit(COLS[c]), vlit(v), vlit(s)) for c, v, s in convtab])
  key = core.coq_list(['(%s, %s, %s)' % (core.zlit(COLS[c]), vlit(v), 'None' if k is None else '(Some %s)' % vlit(k[1]))
                       for c, v, k in keytab])
  env = '{| e_schema := the_schema; e_conv := conv_tab %s; e_key := key_tab %s |}' % (conv, key)
  tbl = table_lit(pre, DATA + ['F'])
  if case['bulk']:
    req, cv = kv_lit(case['require']), kv_lit(case['col_values'])
  else:
    req, cv = cells_lit(case['require'].items()), cells_lit(case['col_values'].items())
  if outcome[0] == 'ok':
    ret = outcome[1]
    if case['bulk']:
      exp = '(okb %s (%s, %s, %s))' % (table_lit(post, DATA), idlists(ret['recordIds']),
                                          core.zlist(ret['addRecordIds']), idlists(ret['updateRecordIds']))
    else:
      exp = '(oks %s (%s, %s))' % (table_lit(post, DATA), core.zlist(ret['recordIds']),
                                      {'NONE': 'ANone', 'ADD': 'AAdd', 'UPDATE': 'AUpdate'}[ret['action']])
  else:
    exp = '(%s %s)' % ('errb' if case['bulk'] else 'errs', outcome[1])
  return '(%s %s %s %s %s %s %s)' % ('mkb' if case['bulk'] else 'mks', env, tbl, req, cv, opts_lit(case['options']), exp)


EXTRA_DEFS = '''
Definition the_schema := %s.
Definition keep := [1; 2; 3; 4; 6; 7; 8; 10].
Definition expb := (table * (list (list Z) * list Z * list (list Z)) + error)%%type.
Definition exps := (table * (list Z * action) + error)%%type.
Definition okb (t : table) (r : list (list Z) * list Z * list (list Z)) : expb := inl (t, r).
Definition errb (x : error) : expb := inr x.
Definition oks (t : table) (r : list Z * action) : exps := inl (t, r).
Definition errs (x : error) : exps := inr x.
Definition mkb (e : env) (t : table) (rq cv : kv) (o : options) (x : expb) := (e, t, rq, cv, o, x).
Definition mks (e : env) (t : table) (rq cv : cells) (o : options) (x : exps) := (e, t, rq, cv, o, x).
Definition judge_bulk (r : res (table * retval)) (exp : expb) : bool :=
  match r, exp with
  | Ok (t', r), inl (x, ids) => table_eqb (project keep (sort_rows t')) x && ret_eqb r ids
  | Err a, inr b => error_eqb a b
  | _, _ => false
  end.
Definition judge_single (r : res (table * (list Z * action))) (exp : exps) : bool :=
  match r, exp with
  | Ok (t', (ids, a)), inl (x, (ids', a')) =>
      table_eqb (project keep (sort_rows t')) x && list_eqb Z.eqb ids ids' && action_eqb a a'
  | Err a, inr b => error_eqb a b
  | _, _ => false
  end.
(* the hand model AND the code regenerated from useractions.py (over the modelled environment) against the engine *)
Definition check_bulk (c : env * table * kv * kv * options * expb) : bool :=
  match c with (e, t, req, cv, o, exp) =>
    judge_bulk (upsert e t req cv o) exp && judge_bulk (gen_upsert (oenv_of e) t req cv o) exp end.
Definition check_single (c : env * table * cells * cells * options * exps) : bool :=
  match c with (e, t, req, cv, o, exp) =>
    judge_single (upsert_single e t req cv o) exp && judge_single (gen_upsert_single (oenv_of e) t req cv o) exp end.
''' % SCHEMA_COQ


# ---------------------------------------------------------------------------------------------
# generator

POOL_REQ = {
  'A': ['a', 'a', 'b', 'c', 'z', 'q', 5, None],
  'B': [1, 1, 2, 2, 9, '1', '2', 'zz', None],
  'C': ['c0', 'c1', 'n'],
  'F': ['A', 'B', 'Z', 'a'],
  'E': ['k', 'k', 'm', 'v'],          # non-blank, non-numeric strings (the column type is then guessed as Text)
  'D': [0, 5, 5.0, 0.0, False, 1, True],
  'N': [1, 1.0, True, 2, 2.0, 0, False, 3],
  'K': [1, True, 1.0, 0, False, 0.0, 2],
  'G': [1, 1.0, True, 2, 2.0, 'g', None],
  'Z': ['a', 1],
}
SPELLINGS = {0: [0, 0.0, False], 1: [1, 1.0, True], 2: [2, 2.0]}
POOL_VAL = {
  'N': [1, 2.0, 5, True],
  'K': [True, 0, 1.0],
  'G': ['h', 3, 2.0],
  'A': ['a', 'b', 'q', 7],
  'B': [1, 2, 5, '3', 'xx', None],
  'C': ['c0', 'c0', 'c1', 'n1', 'n2', 8, None],
  'D': [0, 5, 6, '7'],
  'E': ['v', 'w', 'k'],
  'F': ['x'],
  'Z': ['x'],
  'id': [50, 51],
}


def gen_rows(rng):
  k = rng.choice([0, 1, 2, 3, 3, 4, 5, 6])
  if rng.random() < 0.25:
    ids = sorted(rng.sample(range(1, 12), k))
  else:
    ids = list(range(1, k + 1))
  e_data = rng.random() < 0.3          # E already holds data (a Text column by then); else it is still an empty column
  return [{'id': i, 'A': rng.choice(['a', 'a', 'b', 'c']), 'B': rng.choice([1, 2]),
           'C': rng.choice(['c0', 'c0', 'c1']), 'D': rng.choice([0, 5]),
           'N': rng.choice([0.0, 1.0, 1.0, 2.0]), 'K': rng.choice([True, False]), 'G': rng.choice([None, 1, 1.0, 2, 'g']),
           'E': rng.choice(['k', 'k', 'm', '']) if e_data else None} for i in ids]


def gen_options(rng, force=None):
  o = {}
  if rng.random() < 0.6:
    o['on_many'] = rng.choice(['first', 'all', 'all', 'none', 'none', 'bogus'] if rng.random() < 0.15
                              else ['first', 'all', 'all', 'none'])
  if rng.random() < 0.3:
    o['update'] = rng.random() < 0.5
  if rng.random() < 0.3:
    o['add'] = rng.random() < 0.5
  if rng.random() < 0.3:
    o['allow_empty_require'] = rng.random() < 0.8
  if force:
    o.update(force)
  return o


def id_pool(rng, rows):
  existing = [r['id'] for r in rows]
  fresh = [i for i in range(1, 16) if i not in existing]
  pool = existing * 2 + fresh[:3] * 2 + [rng.choice(fresh or [20])] + [-1, -3, None]
  if rng.random() < 0.2:
    pool += [0, 0, '2', 1000001, 1000000]
  return pool


def gen_case(rng):
  rows = gen_rows(rng)
  stream = rng.random()
  spell = False
  bulk = rng.random() < 0.8
  m = rng.choice([0, 1, 1, 2, 2, 3, 4]) if bulk else 1
  if stream < 0.12:                       # empty require
    reqkeys = []
    valkeys = rng.sample(['C', 'D', 'A'], rng.choice([0, 1, 1, 2]))
    opts = gen_options(rng, {'allow_empty_require': True} if rng.random() < 0.75 else None)
    if rng.random() < 0.7:
      opts['on_many'] = rng.choice(['all', 'all', 'first'])
  elif stream < 0.24:                     # several input rows hitting the same record through conversion
    reqkeys = ['B'] + (['A'] if rng.random() < 0.2 else [])
    valkeys = rng.sample(['C', 'D'], rng.choice([1, 1, 2]))
    opts = gen_options(rng, {'on_many': rng.choice(['all', 'all', 'first'])})
  elif stream < 0.38:                     # the empty column in require and/or col_values
    reqkeys = ['E'] + rng.sample(['A', 'B', 'id'], rng.choice([0, 0, 1]))
    valkeys = rng.sample(['C', 'D', 'E'], rng.choice([0, 1, 1, 2]))
    if rng.random() < 0.3:
      reqkeys, valkeys = rng.sample(['A', 'B'], 1), ['E'] + rng.sample(['C', 'D'], rng.choice([0, 1]))
    opts = gen_options(rng)
  elif stream < 0.52:                     # keys that are one VALUE spelled with different number/bool types
    spell = True
    bulk = bulk or rng.random() < 0.7
    m = rng.choice([2, 2, 3]) if bulk else 1
    numcols = rng.sample(['N', 'K', 'G', 'B', 'D'], rng.choice([1, 1, 2]))
    reqkeys = numcols + (['A'] if rng.random() < 0.3 else [])
    valkeys = rng.sample(['C', 'D', 'A', 'N'], rng.choice([0, 1, 1, 2]))
    opts = gen_options(rng)
  elif stream < 0.55:                     # a require keyed on a ChoiceList column (list values): oracle only
    m = rng.choice([1, 2]) if bulk else 1
    lists = [['L', 'a', 'b'], ['L', 'c']][:m]
    vals = [rng.choice(POOL_VAL['C']) for _ in range(m)]
    return {'rows': rows, 'bulk': bulk, 'require': {'L': lists if bulk else lists[0]},
            'col_values': {'C': vals if bulk else vals[0]}, 'options': {}, 'choicelist': True}
  else:
    reqkeys = rng.sample(['A', 'B', 'F', 'id', 'C', 'E', 'N', 'K', 'G'] + (['Z'] if rng.random() < 0.05 else []), rng.choice([0, 1, 1, 1, 2, 2, 3]))
    valkeys = rng.sample(['C', 'D', 'A', 'B', 'E', 'N', 'K', 'G'] + (rng.sample(['F', 'Z', 'id'], 1) if rng.random() < 0.07 else []),
                         rng.choice([0, 1, 1, 2]))
    opts = gen_options(rng)
  ids = id_pool(rng, rows)
  def pick_req(c):
    return rng.choice(ids) if c == 'id' else rng.choice(POOL_REQ[c])
  require = {c: [pick_req(c) for _ in range(m)] for c in reqkeys}
  if stream >= 0.12 and stream < 0.24 and m >= 2:
    base = rng.choice([1, 2])
    alts = [base, str(base)] + [rng.choice(POOL_REQ['B']) for _ in range(m - 2)]
    require['B'] = alts
    if 'A' in require:
      require['A'] = [require['A'][0]] * m
  if spell and m >= 2:
    if rng.random() < 0.75:               # row 1 repeats the key of row 0, mostly in another spelling
      for c in reqkeys:
        if c == 'A':
          require[c][0] = require[c][1] = rng.choice(['a', 'two'])
        else:
          sp = SPELLINGS[rng.choice([0, 1, 1, 2])]
          require[c][0], require[c][1] = rng.choice(sp), rng.choice(sp)
    else:                                 # different values, mixed spellings
      for c in reqkeys:
        if c != 'A':
          ns = rng.sample([0, 1, 2], 2)
          require[c][0], require[c][1] = rng.choice(SPELLINGS[ns[0]]), rng.choice(SPELLINGS[ns[1]])
  # mostly unique keys
  if reqkeys and not spell and rng.random() < 0.85:
    seen, keep = set(), []
    for i in range(m):
      k = tuple(rep_key(require[c][i]) for c in reqkeys)
      if k not in seen:
        seen.add(k)
        keep.append(i)
    require = {c: [require[c][i] for i in keep] for c in reqkeys}
    m = len(keep)
  col_values = {c: [rng.choice(POOL_VAL[c]) for _ in range(m)] for c in valkeys}
  # values equal to what is stored, so that some updates are no-ops
  if rows and valkeys and rng.random() < 0.35:
    c = valkeys[0]
    if c in BASE:
      col_values[c] = [rng.choice([r[c] for r in rows] + [col_values[c][i]]) for i in range(m)]
  if bulk and rng.random() < 0.07:        # mismatched lengths
    d = rng.choice([d for d in (require, col_values) if d] or [col_values])
    if d:
      c = rng.choice(list(d))
      d[c] = d[c] + [d[c][0] if d[c] else 'a'] if rng.random() < 0.6 else d[c][:-1]
  if not bulk:
    require = {c: (v[0] if v else pick_req(c)) for c, v in require.items()}
    col_values = {c: (v[0] if v else rng.choice(POOL_VAL[c])) for c, v in col_values.items()}
  case = {'rows': rows, 'bulk': bulk, 'require': require, 'col_values': col_values, 'options': opts}
  if rng.random() < 0.15:                 # repeated upsert: the same call was already made once before
    case['prior'] = [copy.deepcopy({k: case[k] for k in ('bulk', 'require', 'col_values', 'options')})]
    if rng.random() < 0.3 and col_values:  # ... with other values
      c = rng.choice(list(col_values))
      if bulk:
        case['prior'][0]['col_values'][c] = [rng.choice(POOL_VAL[c]) for _ in col_values[c]]
      else:
        case['prior'][0]['col_values'][c] = rng.choice(POOL_VAL[c])
  return case


def exhaustive_cases():
  """Small scope: 2-row tables over A in {a,b}, C in {c0,c1}; require A (1-2 input rows) or empty; value C; all options."""
  out = []
  tables = [[], [{'id': 1, 'A': 'a', 'B': 1, 'C': 'c0', 'D': 0}],
            [{'id': 1, 'A': 'a', 'B': 1, 'C': 'c0', 'D': 0}, {'id': 2, 'A': 'a', 'B': 2, 'C': 'c1', 'D': 0}],
            [{'id': 1, 'A': 'a', 'B': 1, 'C': 'c0', 'D': 0}, {'id': 3, 'A': 'b', 'B': 1, 'C': 'c0', 'D': 0}]]
  reqs = [{}, {'A': ['a']}, {'A': ['b']}, {'A': ['a', 'b']}, {'A': ['a', 'a']}, {'B': [1, '1']}, {'id': [3]}, {'id': [3, 3], 'A': ['a', 'b']}]
  for rows, req, om, upd, add, allow in itertools.product(tables, reqs, ['first', 'all', 'none', 'bogus'], [True, False],
                                                          [True, False], [True, False]):
    m = len(next(iter(req.values()))) if req else 2
    for cv in ({}, {'C': ['c1', 'c0'][:m]}, {'C': ['x', 'y'][:m]}, {'C': ['x']}):
      out.append({'rows': copy.deepcopy(rows), 'bulk': True, 'require': copy.deepcopy(req), 'col_values': copy.deepcopy(cv),
                  'options': {'on_many': om, 'update': upd, 'add': add, 'allow_empty_require': allow}})
  return out


# witnesses of findings (known or repaired) stay in the corpus
REGRESSION = [
  {'rows': [], 'bulk': True, 'require': {'id': [5, 5], 'A': ['x', 'y']}, 'col_values': {}, 'options': {}},
  {'rows': [{'id': 1, 'A': 'a', 'B': 1, 'C': 'c0', 'D': 0}], 'bulk': True, 'require': {'id': [0]},
   'col_values': {'C': ['p']}, 'options': {}},
  {'rows': [{'id': 1, 'A': 'a', 'B': 1, 'C': 'c0', 'D': 0}], 'bulk': False, 'require': {'id': 0},
   'col_values': {'C': 'p'}, 'options': {}},
  {'rows': [{'id': 1, 'A': 'a', 'B': 1, 'C': 'c0', 'D': 0}, {'id': 2, 'A': 'a', 'B': 1, 'C': 'c0', 'D': 0}], 'bulk': True,
   'require': {'A': ['x', 'y', 'z'], 'id': [-1, 3, None]}, 'col_values': {'C': ['p', 'q', 'r']}, 'options': {}},
  {'rows': [{'id': 1, 'A': 'a', 'B': 1, 'C': 'c0', 'D': 0}], 'bulk': True, 'require': {},
   'col_values': {'C': ['x', 'c0']}, 'options': {'allow_empty_require': True}},
  # an empty column in require: the added record carries the require value; the repeated call updates it
  {'rows': [{'id': 1, 'A': 'a', 'B': 1, 'C': 'c0', 'D': 0}], 'bulk': False, 'require': {'E': 'k'},
   'col_values': {'C': 'x'}, 'options': {}},
  {'rows': [{'id': 1, 'A': 'a', 'B': 1, 'C': 'c0', 'D': 0}], 'bulk': False, 'require': {'E': 'k'},
   'col_values': {'C': 'x'}, 'options': {},
   'prior': [{'bulk': False, 'require': {'E': 'k'}, 'col_values': {'C': 'x'}, 'options': {}}]},
  {'rows': [], 'bulk': True, 'require': {'E': ['k', 'm']}, 'col_values': {'D': [5, 6]}, 'options': {},
   'prior': [{'bulk': True, 'require': {'E': ['k', 'm']}, 'col_values': {'D': [5, 6]}, 'options': {}}]},
  # require rows that are one key spelled with different number/bool types must be rejected as duplicates
  {'rows': [], 'bulk': True, 'require': {'K': [1, 1.0]}, 'col_values': {'C': ['x', 'y']}, 'options': {}},
  {'rows': [{'id': 1, 'A': 'a', 'B': 1, 'C': 'c0', 'D': 0, 'N': 1.0}], 'bulk': True, 'require': {'N': [1, True]},
   'col_values': {'C': ['x', 'y']}, 'options': {}},
  {'rows': [], 'bulk': True, 'require': {'A': ['two', 'two'], 'B': [2, 2.0]}, 'col_values': {}, 'options': {}},
  {'rows': [], 'bulk': True, 'require': {'G': [0, False, 0.0]}, 'col_values': {'D': [1, 2, 3]}, 'options': {}},
  # a require keyed on a ChoiceList column (known finding: TypeError unhashable list)
  {'rows': [], 'bulk': True, 'require': {'L': [['L', 'a', 'b']]}, 'col_values': {'C': ['x']}, 'options': {},
   'choicelist': True},
]


def cases(ctx):
  out = copy.deepcopy(REGRESSION) + [gen_case(ctx.rng) for _ in range(ctx.n(400, 6000))]
  if ctx.tier == 'thorough':
    out.extend(exhaustive_cases())
    ctx.extra['exhaustive'] = True
    ctx.extra['exhaustive_space'] = ('4 tables x 8 require shapes x on_many(4) x update x add x allow_empty_require x 4 '
                                     'col_values shapes')
  return out


# ---------------------------------------------------------------------------------------------
# the property's own oracle (independent Python reference, per input row, on the pre-call table)

def same(a, b):
  if is_num(a) and is_num(b):
    return a == b
  return type(a) is type(b) and a == b


def reference(case, pre, convtab, keytab):
  """('ok', table, ret) or ('err', kind, reason); table = rows over id + DATA."""
  conv = {(c, rep_key(v)): s for c, v, s in convtab}
  key = {(c, rep_key(v)): k for c, v, k in keytab}
  opts = case['options']
  require, col_values = case['require'], case['col_values']
  if not case['bulk']:
    if not require and not col_values:
      return ('ok', [{k: r[k] for k in ['id'] + DATA} for r in pre], {'recordIds': [], 'action': 'NONE'})
    require = {c: [v] for c, v in require.items()}
    col_values = {c: [v] for c, v in col_values.items()}
  on_many = opts.get('on_many', 'first')
  table = [{k: r[k] for k in ['id'] + DATA} for r in pre]
  if on_many not in ('first', 'all', 'none'):
    return ('err', 'EOnMany', 'bad on_many')
  if not require and not opts.get('allow_empty_require', False):
    return ('err', 'EEmptyRequire', 'empty require')
  if not require and not col_values:
    return finish(case, table, [], [])
  lens = set(len(v) for v in list(require.values()) + list(col_values.values()))
  if len(lens) != 1:
    return ('err', 'ELengths', 'lengths')
  n = lens.pop()
  keys = [tuple(rep_key(require[c][i]) for c in require) for i in range(n)]
  if require and len(set(keys)) < n:
    return ('err', 'EUnique', 'duplicate keys')
  if any(c not in ['id', 'F'] + DATA for c in require):
    return ('err', 'EEnv', 'unknown require column')
  # what each input row asks for, on the pre-call table
  asks = []
  for i in range(n):
    def matches(r):
      for c in require:
        k = key[(c, rep_key(require[c][i]))]
        if k is None or not same(k[1], r[c]):
          return False
      return True
    found = sorted(r['id'] for r in pre if matches(r))
    if not found:
      asks.append('add' if opts.get('add', True) else None)
    elif not opts.get('update', True):
      asks.append(None)
    elif len(found) == 1 or on_many == 'all':
      asks.append(found)
    elif on_many == 'first':
      asks.append(found[:1])
    else:
      asks.append(None)
  if any(a is not None for a in asks) and any(c not in DATA for c in col_values):
    return ('err', 'EEnv', 'column does not accept data')
  # automatic ids start above every existing id and every row id explicitly requested for a new record
  next_id = max([r['id'] for r in table] + [0]) + 1
  for i, a in enumerate(asks):
    x = require['id'][i] if (a == 'add' and 'id' in require) else None
    if isinstance(x, int) and 0 <= x <= 1000000:
      next_id = max(next_id, x + 1)
  resolved = []
  case['_hits'] = hits = {}
  for i, a in enumerate(asks):
    if a is None:
      resolved.append(None)
    elif a == 'add':
      explicit = require['id'][i] if 'id' in require else None
      if explicit is None or (isinstance(explicit, int) and explicit < 0):
        rid = next_id
      elif not isinstance(explicit, int):
        return ('err', 'EEnv', 'row id is not a number')
      elif explicit > 1000000:
        return ('err', 'EEnv', 'row id too high')
      else:
        rid = explicit
      if rid <= 0 or any(r['id'] == rid for r in table):
        return ('err', 'EEnv', 'id-collision')
      new = dict(DEFAULTS, id=rid)
      for c in require:
        if c in DATA:
          new[c] = conv[(c, rep_key(require[c][i]))]
      for c in col_values:
        new[c] = conv[(c, rep_key(col_values[c][i]))]
      table.append(new)
      if rid == next_id:
        next_id += 1
      resolved.append(('add', rid))
    else:
      written = {c: conv[(c, rep_key(col_values[c][i]))] for c in col_values}
      for r in table:
        if r['id'] in a:
          r.update(written)
          hits.setdefault(r['id'], []).append(written)
      resolved.append(('upd', a))
  return finish(case, table, resolved, asks)


def finish(case, table, resolved, asks):
  table = sorted(table, key=lambda r: r['id'])
  if case['bulk']:
    ret = {'recordIds': [[] if x is None else ([x[1]] if x[0] == 'add' else list(x[1])) for x in resolved],
           'addRecordIds': [x[1] for x in resolved if x and x[0] == 'add'],
           'updateRecordIds': [list(x[1]) for x in resolved if x and x[0] == 'upd']}
  else:
    x = resolved[0] if resolved else None
    if x is None:
      ret = {'recordIds': [], 'action': 'NONE'}
    elif x[0] == 'add':
      ret = {'recordIds': [x[1]], 'action': 'ADD'}
    else:
      ret = {'recordIds': list(x[1]), 'action': 'UPDATE'}
  return ('ok', table, ret)


def repeated_adds_again(case, outcome):
  """Upserts are idempotent on plain data columns: after the same call was made once, every require row has a match
  (or adding is off), so the repeated call must not add a record."""
  prior, done = case.get('prior'), case.get('_prior')
  if not prior or not done or done[-1][0] != 'ok' or outcome[0] != 'ok':
    return None
  call, req = prior[-1], case['require']
  if any(call[k] != case[k] for k in ('bulk', 'require', 'options')) or not req:
    return None
  if set(req) & (set(case['col_values']) | set(call['col_values'])):
    return None                 # col_values override the require values of the added record
  for c, vals in req.items():
    vals = vals if case['bulk'] else [vals]
    if c in ('A', 'C', 'E'):
      ok = all(isinstance(v, str) and v for v in vals)
    elif c in ('B', 'D'):
      ok = all(isinstance(v, int) and not isinstance(v, bool) for v in vals)
    else:
      return None               # formula columns are not copied into the added record; ids are C27's subject
    if not ok:
      return None
  ret = outcome[1]
  added = ret['addRecordIds'] if case['bulk'] else (ret['recordIds'] if ret['action'] == 'ADD' else [])
  if added:
    return ('repeat-adds-again', 'the same upsert was made twice; the first returned %r, the repeated call added '
            'records %r instead of updating the records the first call added' % (done[-1][1], added))
  return None


def judge(case, pre, convtab, keytab, outcome, post):
  """None when the implementation follows the reference, else (kind, description)."""
  if case.get('choicelist'):
    # the rows of `require` are distinct lists of choices: nothing in the documentation rejects them
    if outcome[0] == 'err' and 'unhashable' in outcome[3]:
      return ('unhashable-require-key', 'require names a ChoiceList column (list values): the uniqueness check builds a set '
              'of the decoded rows and raises %s; the reference looks the records up and adds/updates' % outcome[3])
    return None
  v = repeated_adds_again(case, outcome)
  if v:
    return v
  exp = reference(case, pre, convtab, keytab)
  pre_d = [{k: r[k] for k in ['id'] + DATA} for r in pre]
  post_d = [{k: r[k] for k in ['id'] + DATA} for r in post]
  if outcome[0] == 'err':
    if post != pre:
      return ('error-changed-table', 'the call raised %s but the table changed' % outcome[3])
    if exp[0] != 'err':
      return ('oracle', 'the call raised %s, the reference accepts it' % outcome[3])
    if exp[1] != outcome[1]:
      return ('oracle', 'raised %s, the reference expects %s (%s)' % (outcome[3], exp[1], exp[2]))
    if exp[1] != 'EEnv' and outcome[2] != 0:
      return ('arg-error-after-change', 'argument error %s raised after %d document actions' % (exp[1], outcome[2]))
    return None
  if exp[0] == 'err':
    if exp[2] == 'id-collision':
      return ('new-id-collision', 'a record was to be added under a row id that is 0 or already taken; the call '
              'succeeded, returned %r, table %r' % (outcome[1], post_d))
    return ('oracle', 'the reference rejects (%s: %s) but the call returned %r' % (exp[1], exp[2], outcome[1]))
  if outcome[1] != exp[2]:
    return ('oracle', 'returned %r, reference %r' % (outcome[1], exp[2]))
  if post_d != exp[1]:
    diff = [r['id'] for r in post_d if r not in exp[1]] + [r['id'] for r in exp[1] if r not in post_d]
    if case['bulk'] and stale_case(case, pre, post_d, diff):
      return ('stale-duplicate-update', 'records %r were updated by several input rows; the last one carries the '
              'stored values and is dropped, an earlier one wins: got %r, reference %r' % (sorted(set(diff)),
              [r for r in post_d if r not in exp[1]], [r for r in exp[1] if r not in post_d]))
    return ('oracle', 'table differs from the reference at records %r: got %r, reference %r' % (
      sorted(set(diff)), [r for r in post_d if r not in exp[1]], [r for r in exp[1] if r not in post_d]))
  return None


def stale_case(case, pre, post_d, diff):
  """Every differing record was updated by several input rows, the last of them writes the stored values, and the
  record holds what the last input row that does change it wrote (trim_update_action on repeated row ids)."""
  hits = case.get('_hits', {})
  if not diff:
    return False
  for rid in set(diff):
    entries = hits.get(rid, [])
    before = [r for r in pre if r['id'] == rid]
    after = [r for r in post_d if r['id'] == rid]
    if len(entries) < 2 or len(before) != 1 or len(after) != 1:
      return False
    noop = lambda w: all(same(w[c], before[0][c]) for c in w)
    if not noop(entries[-1]):
      return False
    changing = [w for w in entries if not noop(w)]
    if not changing:
      return False
    expect = {k: before[0][k] for k in ['id'] + DATA}
    expect.update(changing[-1])
    if expect != after[0]:
      return False
  return True


# ---------------------------------------------------------------------------------------------

def correspond(ctx):
  cs = cases(ctx)
  done = []
  bulk, single = [], []
  global REUSE_ENGINE
  oracle_only = []
  ctx._c28_oracle_only = oracle_only
  for n, case in enumerate(cs):
    r = None
    try:
      r = run_impl(case)
      if n % 20 == 0:        # monitor: reusing the engine between cases does not change what the engine does
        REUSE_ENGINE = False
        try:
          r2 = run_impl(case)
        finally:
          REUSE_ENGINE = True
        ctx.bump('re-run on a fresh engine')
        if repr(r2) != repr(r):
          ctx.broken('harness:engine reuse changes the outcome', 'case %r reused %r fresh %r' % (public(case), r[3:], r2[3:]))
      term = coq_case(case, *r)
    except Unrepresentable:
      if r is not None:      # the model has no such values (lists): judged by the oracle only
        oracle_only.append((case, r))
        ctx.count(case_key(case), nontrivial=True, kind='oracle only:list-valued require key')
      else:
        ctx.bump('skipped:unrepresentable value')
      continue
    done.append((case, r))
    (bulk if case['bulk'] else single).append((len(done) - 1, term))
    outcome = r[3]
    if outcome[0] == 'err':
      kind, nontrivial = 'error:' + outcome[1], outcome[1] != 'EEnv'
    else:
      ret = outcome[1]
      if case['bulk']:
        a, u = bool(ret['addRecordIds']), bool(ret['updateRecordIds'])
        many = any(len(x) > 1 for x in ret['updateRecordIds'])
        flat = [i for x in ret['updateRecordIds'] for i in x]
        kind = 'bulk:' + ('add+update' if a and u else 'add' if a else 'update' if u else 'nothing')
        if many:
          ctx.bump('updates several records for one input row')
        if len(flat) != len(set(flat)):
          ctx.bump('several input rows hit the same record')
        nontrivial = a or u
      else:
        kind, nontrivial = 'single:' + ret['action'], ret['action'] != 'NONE'
    if not case['require']:
      ctx.bump('empty require')
    ctx.count(case_key(case), nontrivial=nontrivial, kind=kind,
              sample={'rows': case['rows'], 'call': [case['bulk'], case['require'], case['col_values'], case['options']],
                      'outcome': list(outcome[:2])})
  ctx._c28 = done
  ctx.extra['generated_code_evaluations'] = '%d bulk + %d single cases: gen_upsert / gen_upsert_single over oenv_of vs the engine' % (len(bulk), len(single))
  ctx.log('implementation ran on %d cases' % len(done))
  def evaluate(with_gen):
    if with_gen:
      imports, defs, tag = (['Grist.Model.Upsert', 'Grist.Lib.UpsertPrelude', 'GristGen.Upsert_gen',
                             'Grist.Proofs.Upsert_bridge'], EXTRA_DEFS, '')
    else:          # the generated code / its bridge do not compile on this tree: still compare the hand model
      imports, tag = ['Grist.Model.Upsert'], 'm'
      defs = EXTRA_DEFS.replace(' && judge_bulk (gen_upsert (oenv_of e) t req cv o) exp', '') \
                       .replace(' && judge_single (gen_upsert_single (oenv_of e) t req cv o) exp', '')
    bad = ctx.run_cases('bulk' + tag, imports, 'check_bulk', [t for _, t in bulk], shard=170, extra_defs=defs)
    for i in bad[:5]:
      case, r = done[bulk[i][0]]
      ctx.broken('correspondence:model%s of BulkAddOrUpdateRecord differs from the engine' % (' or generated code' if with_gen else ''),
                 'case %r engine %r table %r' % (public(case), r[3], r[4]))
    bad = ctx.run_cases('single' + tag, imports, 'check_single', [t for _, t in single], shard=170, extra_defs=defs)
    for i in bad[:5]:
      case, r = done[single[i][0]]
      ctx.broken('correspondence:model%s of AddOrUpdateRecord differs from the engine' % (' or generated code' if with_gen else ''),
                 'case %r engine %r table %r' % (public(case), r[3], r[4]))
  try:
    evaluate(True)
  except core.TieBroken as e:
    ctx.broken('correspondence:generated code cannot be evaluated', str(e)[-600:])
    evaluate(False)


def case_key(case):
  return repr(public(case))


def public(case):
  return copy.deepcopy({k: case[k] for k in ('rows', 'bulk', 'require', 'col_values', 'options', 'prior', 'choicelist') if k in case})


def search(ctx):
  ctx.log('model evaluated on the cases')
  done = getattr(ctx, '_c28', None)
  if done is None:
    done = []
    for case in cases(ctx):
      try:
        done.append((case, run_impl(case)))
      except Unrepresentable:
        pass
  for case, r in list(done) + list(getattr(ctx, '_c28_oracle_only', [])):
    try:
      v = judge(case, *r)
    except Unrepresentable:
      continue
    if v:
      ctx.violation(v[0], v[1], public(case))
      if len(ctx.violations) > 200:
        break


def replay(ctx, w):
  case = public(w)
  v = judge(case, *run_impl(case))
  return None if v is None else '%s: %s' % v
