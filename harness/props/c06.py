"""C06 -- Formula results do not depend on evaluation order (engine.py Engine._update_loop and friends; kernel K2)."""
import collections
import copy
import random
import re

from harness import core, gristenv as G, histgen, schedtrace as ST, sk2v

ID = 'C06'
TITLE = 'Formula results do not depend on evaluation order'
PROPS = ['Props/C06']
RULE = ('tie: random documents with 1-5 formula columns from the grammar n | $X | $R.X | a+b | (a if c>0 else b) | 1/0 | '
        'try/except | try/except re-raising CircularRefError | len(T.lookupRecords(K=e)) | T.lookupOne(K=e).id | '
        'sum(r.X for r in T.lookupRecords(K=e)) with K the data column or a lookup-free key formula column '
        '(cycles allowed, 1-3 rows), follow-up bundles (data/reference edits, formula changes, new rows), each in '
        'a fresh engine whose work items are permuted by a random priority (lookup nodes first); every recorded update '
        'loop is one case, non-trivial when at least one OrderError reordering, cycle or opportunistic evaluation '
        'occurred. search: (a) shared random histories (acyclic programs, full action vocabulary) and (b) cyclic $col '
        'programs without try/except, each replayed in fresh engines under k random permutations and compared with the '
        'engine\'s own order on every table and on the multiset of stored actions after every bundle; (c) programs with '
        'try/except on a cycle (known finding).')
TRUSTED = ['harness/sk2v.py (fail-closed translator, rename-invariant): on every run the sort key/reverse of '
           'Engine._make_sorted_work_items, the pop and the OrderError handler of _update_loop, the row-loop guards, cycle flag, '
           'OrderError handling and changes acquisition of _recompute_step, the step order of _use_node, the cycle value of '
           '_recompute_one_cell and the error branches of BaseColumn.get_cell_value are regenerated into coq/gen/Sched_gen.v and '
           'proved pointwise equal to Model/SchedCode.v (Proofs/Sched_bridge.v); validated each run by executing the source '
           'fragments (96 row-loop combinations, 8 get_cell_value combinations, observed work-item orders); the rest of those '
           'functions and _recompute/_pre_update/_post_update/_bring_all_up_to_date are pinned by AST hash',
           'Model/Sched.v is hand-written; tied to engine.py on every run by replaying the recorded evaluation traces '
           '(transition by transition, dirty set and lock set at every _recompute_step entry, final values) in Coq; in '
           'addition the modelled deterministic engine strategy is compared with each recorded trace (informational: '
           'exact except where the engine\'s row iteration skips a row because nested calls shrink the set it iterates)',
           'harness/schedtrace.py: instrumentation wrappers and the translation of recorded events to model labels '
           '(a wrong translation makes the replay fail, it cannot make it pass: every label is re-executed by the model)',
           'the formula grammar of the tie (incl. single-key lookupRecords/lookupOne on one table with mid-loop invalidation '
           'events): formulas outside it (sorted/CONTAINS/cross-table lookups, PREVIOUS/NEXT/RANK, summary tables, trigger '
           'formulas) are covered by the search only (kernel strength)']
ASSUMPTIONS = ['sched_confluent/C06: no handler catches CircularRefError (cre_strict_prog; strict_prog is the special case '
               'without handlers; handler_gap_exact shows the condition is exact per handler) or the program is acyclic; the '
               'starting state is consistent (wf_init: clean cells hold their from-scratch value) - monitored on the '
               'recorded loops by check_scratch',
               'lookup-index nodes are processed first in every permutation (the engine\'s own rule); theorems '
               'lookups_first_no_lost_invalidation / engine_order_is_lookups_first / lookups_first_is_needed say what it buys; '
               'after_lookups_confluent assumes the state is consistent once all index cells are clean (invalidation complete: C05)']
TECHNIQUE = ('Coq proof about a nondeterministic transition system of the update loop + trace refinement of recorded engine '
             'runs (vm_compute) + differential runs of the engine under permuted work-item orders')
LEVEL_TEXT = ('Kernel-checked: every run of the scheduler model terminates (also with mid-loop lookup invalidation) and never '
              'gets stuck; all complete runs from a consistent state end in the same cell values for acyclic programs '
              '(handlers allowed) and for arbitrary cyclic programs whose handlers do not catch CircularRefError (exact per '
              'handler); with the lookups-first rule no invalidation is lost (and without it the result is stale, witness '
              'replayed on the engine); corollary for every permutation of the engine\'s '
              'work items. The full statement is refuted in the model by a try/except formula on a cycle, reproduced on '
              'the engine (known finding). Kernel strength: the model covers the scheduler and a formula grammar, not '
              'lookups/summaries, which the permutation search exercises on the implementation.')
LEVEL_NOTE = ('Trusted: Coq kernel; hand-written Sched.v tied by trace replay; instrumentation in harness/schedtrace.py. '
              'Hypotheses: strict formulas or acyclic program; consistent starting state.')


# ---- tie ------------------------------------------------------------------------------------------------

def traced_cases(ctx, n_docs, p_try, rng=None, n_edits=3, p_tryo=0.0, p_lookup=0.0, p_multi=0.0):
  """[(coq term, info, stats)] from n_docs random documents."""
  rng = rng or ctx.rng
  out = []
  skipped = collections.Counter()
  for _ in range(n_docs):
    prog = ST.gen_program(rng, p_try=p_try, p_tryo=p_tryo, p_lookup=p_lookup, p_multi=p_multi)
    n = rng.choice([1, 2, 2, 3])
    d, r = ST.gen_rows(rng, n)
    pseed = rng.randrange(1 << 30)
    prio = ST.priority_from(random.Random(pseed)) if rng.random() < 0.85 else None
    info = {'stream': 'tie', 'prog': {c: list_of(a) for c, a in prog.items()}, 'd': d, 'r': r, 'prio': pseed if prio else None, 'edits': []}
    try:
      e, loops = ST.limited2(lambda: ST.new_traced_doc(prog, d, r, prio))
    except core.TieBroken:
      raise
    except ST.Timeout:
      ctx.violation('nontermination', 'recalculation of a grammar document did not terminate within the time limit', info)
      if too_many_hangs(ctx):
        break
      continue
    except Exception as x:
      ctx.violation('exception', 'building a grammar document raised %r' % (x,), info)
      continue
    done = 0
    for k in range(n_edits + 1):
      snap = copy.deepcopy(prog)
      for lp in loops[done:]:
        term, st = ST.coq_case(lp, snap)
        if term is None:
          skipped[st[:40]] += 1
        else:
          out.append((term, copy.deepcopy(info), st, all(not ST.has_try(a) and not ST.has_multi(a) for a in snap.values()), ST.coq_edges(lp)))
      done = len(loops)
      if k == n_edits:
        break
      b = ST.gen_edit(rng, e, prog)
      info['edits'].append(b)
      try:
        ST.limited(lambda: G.apply(e, b))
      except ST.Timeout:
        if replay_tie(info, 40):      # confirmed in a fresh engine with a long limit
          ctx.violation('nontermination', 'recalculation after a bundle did not terminate within the time limit',
                        copy.deepcopy(info))
        else:
          ctx.bump('tie-skipped:slow run')
        break
      except Exception as x:
        ctx.violation('exception', 'a grammar bundle raised %r' % (x,), copy.deepcopy(info))
        break
  for k, v in skipped.items():
    ctx.bump('tie-skipped:' + k, v)
  return out


def list_of(a):
  return [list_of(x) if isinstance(x, tuple) else x for x in a]


def tuple_of(a):
  return tuple(tuple_of(x) if isinstance(x, list) else x for x in a)


CHECKS = [('check_trace', 'fun cb => check_trace (fst (fst cb))'),
          ('check_scratch', 'fun cb => negb (snd (fst cb)) || check_scratch (fst (fst cb))'),
          # the engine's dependency graph after the loop contains an edge for every Read of every evaluation of the
          # loop, abandoned ones included (_use_node adds the edge before it brings the read node up to date)
          ('check_edges', 'fun cb => check_edges (fst (fst cb)) (snd cb)')]
# informational: the deterministic model of the engine's own order reproduces the recorded trace exactly.  Not an
# obligation: the engine's row iteration in _recompute_step runs over a set that nested calls shrink (dirty_rows -=
# cleaned), so it occasionally skips a row; such traces are still runs of the (nondeterministic) model.
STRATEGY = ('check_strategy', 'fun cb => check_strategy (fst (fst cb))')


def run_tie(ctx, name, cases, shard=60):
  """[(case index, failing check)]; all checks are evaluated in one coqc run per shard."""
  # plain numerals (the cases file opens Z_scope): elaboration of the literals is the dominant cost
  terms = ['(((%s : trace_case), %s), %s)' % (c[0].replace('%Z', ''), core.boollit(c[3]), '(%s : list (Z * Z))' % c[4]) for c in cases]
  res = ST.run_cases_multi(ctx, name, ['Grist.Model.Sched'], CHECKS + [STRATEGY], terms, shard=shard)
  exact = len(cases) - len(res[STRATEGY[0]])
  ctx.bump('tie:engine strategy reproduces the trace exactly', exact)
  ctx.bump('tie:engine strategy differs (row skipped by the engine\'s set iteration)', len(res[STRATEGY[0]]))
  if cases and exact * 10 < len(cases) * 9:
    ctx.broken('correspondence:check_strategy', 'the modelled engine strategy reproduces only %d of %d recorded update '
               'loops' % (exact, len(cases)))
  return sorted((i, label) for label, _ in CHECKS for i in res[label])


def lookups_rule_demo(lookups_last):
  """The document of Props/C06.v lookups_first_is_needed on the real engine; returns column B after the bundle."""
  e, _ = G.new_doc()
  if lookups_last:
    o_sort = e._make_sorted_work_items
    def sort_items(nodes):
      items = o_sort(nodes)
      # work items are popped from the end of the list: lookup nodes at the front are processed LAST
      return ([w for w in items if w.node.col_id.startswith('#lookup')] +
              [w for w in items if not w.node.col_id.startswith('#lookup')])
    e._make_sorted_work_items = sort_items
  G.apply(e, [['AddTable', 'T', [{'id': 'D', 'type': 'Int', 'isFormula': False}, {'id': 'E', 'type': 'Int', 'isFormula': False},
                                 {'id': 'Z', 'type': 'Any', 'isFormula': True, 'formula': 'len(T.lookupRecords(D=$D))'},
                                 {'id': 'B', 'type': 'Any', 'isFormula': True, 'formula': '$Z + $E'}]]])
  G.apply(e, [['BulkAddRecord', 'T', [None, None], {'D': [1, 2], 'E': [0, 0]}]])
  G.apply(e, [['UpdateRecord', 'T', 2, {'D': 1}], ['UpdateRecord', 'T', 1, {'E': 9}]])
  return G.snapshot(e, tables=['T'])['T']['cols']['B']


def regenerate(ctx):
  sk2v.regenerate(ctx)


def correspond(ctx):
  sk2v.differential(ctx)
  # the model's claim about the lookups-first rule (theorem lookups_first_is_needed), on the engine
  first, last = ST.limited2(lambda: lookups_rule_demo(False)), ST.limited2(lambda: lookups_rule_demo(True))
  ctx.bump('tie:lookups-first example replayed on the engine')
  if last != [10, 2]:
    ctx.broken('correspondence:lookups_first_is_needed', 'with lookup nodes processed last the engine gives B = %r '
               '(model: [10, 2], a lost invalidation)' % (last,))
  if first != [11, 2]:
    # the engine's own order gives a stale value: a concrete failing input, reported by search (RULE_DOC) with its replay
    ctx.notes.append('engine order gives B = %r on the lookups-first example (from scratch: [11, 2])' % (first,))
  cases = traced_cases(ctx, ctx.n(30, 500), p_try=0.12, p_tryo=0.2, p_lookup=0.4, p_multi=0.25)
  for term, info, st, strict, _edges in cases:
    nontrivial = bool(st.get('need') or st.get('cycle') or st.get('opp'))
    ctx.count(term, nontrivial=nontrivial, sample=info if nontrivial else None,
              kind='tie:' + ('cycle' if st.get('cycle') else 'reorder' if st.get('need') else 'plain'))
    for k in ('done', 'need', 'cycle', 'opp', 'opp_abandoned', 'invalidated'):
      ctx.bump('events:' + k, st.get(k, 0))
    ctx.bump('tie:loops with lookups', int(any(ST.has_lookup(K2a) for K2a in map(tuple_of, info['prog'].values()))))
  bad = run_tie(ctx, 'tie', cases)
  for j, which in bad[:5]:
    ctx.broken('correspondence:%s fails on a recorded update loop' % which, 'document %r' % (cases[j][1],))
  ctx.log('tie: %d recorded update loops (%d without try/except), %d failing' %
          (len(cases), sum(1 for c in cases if c[3]), len(bad)))
  ctx.extra['tie_cases'] = len(cases)


# ---- search: the engine under permuted work-item orders -----------------------------------------------------

class RecGen(histgen.HistGen):
  """The shared history generator, recording every bundle it applies."""
  def __init__(self, *a, **k):
    histgen.HistGen.__init__(self, *a, **k)
    self.script = []

  def _do(self, e, bundle):
    self.script.append(copy.deepcopy(bundle))
    return histgen.HistGen._do(self, e, bundle)


def node_priority(seed):
  rng = random.Random(seed)
  memo = {}
  def prio(node):
    k = (node.table_id, node.col_id)
    if k not in memo:
      memo[k] = rng.random()
    return memo[k]
  return prio


def run_script(script, pseed, seconds=10):
  """Apply the bundles in a fresh engine (work items permuted by pseed unless None); observable result per bundle.
  A timeout is reported only after a second complete run with a long limit timed out too."""
  e, _ = G.new_doc()
  if pseed is not None:
    ST.inject_order(e, node_priority(pseed))
  res = []
  for b in script:
    try:
      out = ST.limited(lambda: G.apply(e, b), seconds)
      res.append(('ok', G.canon(G.snapshot(e)), sorted(G.canon(x) for x in G.reprs(out.stored))))
    except ST.Timeout:
      if seconds < 30:
        return run_script(script, pseed, 40)
      res.append(('timeout',))
      break
    except Exception as x:    # the engine rolled the bundle back
      G.clean(e)
      res.append(('exc', type(x).__name__, G.canon(G.snapshot(e))))
  return res


def compare_runs(script, pseeds):
  """None, or (bundle index, pseed, description) for the first difference from the engine's own order."""
  base = run_script(script, None)
  for i, a in enumerate(base):
    if a[0] == 'timeout':
      return i, None, 'bundle %d: recalculation did not terminate within the time limit (engine order)' % i
  for ps in pseeds:
    other = run_script(script, ps)
    for i, (a, b) in enumerate(zip(base, other)):
      if a == b:
        continue
      if b[0] == 'timeout':
        return i, ps, 'bundle %d: recalculation did not terminate within the time limit (%s)' % (
          i, 'engine order' if a[0] == 'timeout' else 'permutation %d' % ps)
      if a[0] != b[0]:
        return i, ps, 'bundle %d: %s under the engine order, %s under permutation %d' % (i, a[:2] if a[0] == 'exc' else 'ok',
                                                                                      b[:2] if b[0] == 'exc' else 'ok', ps)
      if a[0] == 'ok' and a[1] != b[1]:
        import json
        d = G.diff_snapshots(json.loads(a[1]), json.loads(b[1]))
        return i, ps, 'bundle %d: cell values differ under permutation %d: %s' % (i, ps, '; '.join(d[:3]))
      if a[0] == 'ok':
        return i, ps, 'bundle %d: the multiset of stored actions differs under permutation %d' % (i, ps)
      return i, ps, 'bundle %d: state after the failed bundle differs under permutation %d' % (i, ps)
  return None


def hist_script(seed, nb):
  rng = random.Random(seed)
  gen = RecGen(rng)
  e, _ = G.new_doc()
  gen.init_doc(e)
  for _ in range(nb):
    gen._do(e, gen.bundle(e))
  return gen.script


def prog_script(prog, d, r, edits):
  return [[ST.table_action(prog)], [ST.rows_action(d, r)]] + [copy.deepcopy(b) for b in edits]


def on_cycle_with_try(progs):
  """Some try/except formula column lies on a cycle of the mentions graph (in one of the program versions)."""
  for prog in progs:
    g = {c: ST.mentions(a) & set(prog) for c, a in prog.items()}
    for c, a in prog.items():
      if not ST.has_try(a):
        continue
      seen, todo = set(), list(g[c])
      while todo:
        x = todo.pop()
        if x in seen:
          continue
        seen.add(x)
        todo.extend(g[x])
      if c in seen:
        return True
  return False


def gen_prog_case(rng, p_try, p_tryo=0.0, p_lookup=0.0):
  prog = ST.gen_program(rng, p_try=p_try, p_tryo=p_tryo, p_lookup=p_lookup)
  n = rng.choice([1, 2, 2, 3])
  d, r = ST.gen_rows(rng, n)
  versions = [copy.deepcopy(prog)]
  e, _ = G.new_doc()
  edits = []
  try:
    ST.limited(lambda: (G.apply(e, [ST.table_action(prog)]), G.apply(e, [ST.rows_action(d, r)])))
  except Exception:
    return versions, d, r, edits
  for _ in range(rng.choice([0, 1, 2, 3])):
    b = ST.gen_edit(rng, e, prog)
    try:
      ST.limited(lambda: G.apply(e, b))
    except Exception:
      break
    edits.append(b)
    versions.append(copy.deepcopy(prog))
  return versions, d, r, edits


# ---- directed stream: documents whose result depends on WHEN a lookup index is brought up to date -------------------
# witness: {'stream': 'lookupdoc', 'family', 'cols': [[id, formula]], 'data': {col: [values]}, 'bundles': [...], 'pseeds'}

def lookupdoc_script(w):
  n = len(next(iter(w['data'].values())))
  cols = [{'id': c, 'type': 'Int', 'isFormula': False} for c in w['data']]
  cols += [{'id': c, 'type': 'Any', 'isFormula': True, 'formula': f} for c, f in w['cols']]
  return [[['AddTable', 'T', cols]], [['BulkAddRecord', 'T', [None] * n, copy.deepcopy(w['data'])]]] + \
    copy.deepcopy(w['bundles'])


def scratch_diff(script):
  """Engine's own order: after every bundle the document must equal its own reload + Calculate (recalculation from
  scratch).  None or (bundle index, description)."""
  def go():
    e, _ = G.new_doc()
    for i, b in enumerate(script):
      G.apply(e, b)
      if i < 2:
        continue
      f = G.clone_by_reload(e)
      G.apply(f, [['Calculate']])
      a, c = G.snapshot(e), G.snapshot(f)
      if a != c:
        return i, 'bundle %d: the engine holds values that a recalculation from scratch does not: %s (engine vs scratch)' % (
          i, '; '.join(G.diff_snapshots(a, c)[:4]))
    return None
  return ST.limited2(go)


def lookup_chain(cols):
  """Some lookup is keyed on a column that is itself computed through a lookup (directly or via a $reference)."""
  f = dict((c, x) for c, x in cols)
  uses = {c: bool(re.search(r'lookup(Records|One)\(', x)) for c, x in f.items()}
  for c, x in f.items():
    for d in re.findall(r'\$(\w+)', x):
      if uses.get(d):
        uses[c] = True
  for x in f.values():
    for key in re.findall(r'lookup(?:Records|One)\(\s*(\w+)\s*=', x):
      if uses.get(key):
        return True
  return False


def run_lookupdoc(w):
  """None or (kind, description, bundle index)."""
  script = lookupdoc_script(w)
  try:
    d = scratch_diff(script)
  except ST.Timeout:
    return 'nontermination', 'recalculation did not terminate within the time limit', 0
  except Exception as x:
    return 'exception', 'the document raised %r' % (x,), 0
  if d:
    return 'stale_vs_scratch', d[1], d[0]
  diff = compare_runs(script, w.get('pseeds', []))
  if diff:
    return ('nontermination' if 'did not terminate' in diff[2] else 'order_dependent'), diff[2], diff[0]
  return None


LOOKUP_FORMS = ['len(T.lookupRecords(D=$D))', 'sum(r.E for r in T.lookupRecords(D=$D))', 'SUM(T.lookupRecords(D=$D).E)',
                'len(T.lookupRecords(K=$K))']


def gen_downstream(rng):
  """A lookup-using column L, a column `down` = $L + $E whose id sorts BEFORE L; one bundle changes the key of row j so
  that L changes in a row i < j, and independently dirties `down` in row i."""
  down, look = rng.choice([('B', 'Z'), ('A', 'S'), ('A_total', 'Sum'), ('C', 'L')])
  form = rng.choice(LOOKUP_FORMS)
  n = rng.choice([2, 3, 4])
  i = rng.randint(1, n - 1)
  j = rng.randint(i + 1, n)
  cols = [[look, form], [down, '$%s + $E' % look]]
  if '$K' in form:
    cols.insert(0, ['K', '$D + 1'])
  data = {'D': list(range(1, n + 1)), 'E': [rng.choice([0, 1, 100]) for _ in range(n)]}
  acts = [['UpdateRecord', 'T', j, {'D': data['D'][i - 1]}], ['UpdateRecord', 'T', i, {'E': rng.choice([5, 9, 1000])}]]
  if rng.random() < 0.3:
    acts.reverse()
  return {'family': 'downstream', 'cols': cols, 'data': data, 'bundles': [acts]}


def gen_chain(rng):
  """A = count lookup on D; B = count lookup on A (+ $E); X = count lookup on B: index of B is keyed on a column computed
  through the index of A, which is keyed on a column computed through the index of D.  Names are drawn at random: the
  engine processes the index nodes in name order."""
  a, b, x = rng.sample(['A', 'B', 'P', 'Y', 'Z', 'AA', 'M'], 3)
  cols = [[a, 'len(T.lookupRecords(D=$C))'], [b, 'len(T.lookupRecords(%s=$K2)) + $E' % a], [x, 'len(T.lookupRecords(%s=$E))' % b]]
  n = rng.choice([2, 2, 3])
  data = {'D': [1, 2, 3][:n], 'C': [1, 9, 9][:n], 'K2': [7, 2, 2][:n], 'E': [0] * n}
  r = rng.randint(1, n)
  acts = [['UpdateRecord', 'T', 2, {'D': 1}], ['UpdateRecord', 'T', r, {'E': 5}]]
  return {'family': 'chain', 'cols': cols, 'data': data, 'bundles': [acts]}


RULE_DOC = {'family': 'downstream', 'cols': [['Z', 'len(T.lookupRecords(D=$D))'], ['B', '$Z + $E']],
            'data': {'D': [1, 2], 'E': [0, 0]},
            'bundles': [[['UpdateRecord', 'T', 2, {'D': 1}], ['UpdateRecord', 'T', 1, {'E': 9}]]]}


def search_lookupdocs(ctx, k):
  cases = [copy.deepcopy(RULE_DOC)]
  cases += [gen_downstream(ctx.rng) for _ in range(ctx.n(10, 200))]
  cases += [gen_chain(ctx.rng) for _ in range(ctx.n(6, 120))]
  for w in cases:
    w['stream'] = 'lookupdoc'
    w['pseeds'] = [ctx.rng.randrange(1 << 30) for _ in range(k)]
    ctx.count(('lookupdoc', repr(w)), nontrivial=True, kind='search:lookup %s' % w['family'])
    bad = run_lookupdoc(w)
    if bad:
      w['bundles'] = w['bundles'][:max(1, bad[2] - 1)]
      chain = lookup_chain(w['cols'])
      kind = bad[0] if bad[0] in ('nontermination', 'exception') else \
        ('lookup_index_order' if chain else bad[0])
      ctx.violation(kind, bad[1] + '; formulas %r, data %r, bundle %r' % (w['cols'], w['data'], w['bundles'][-1]), w)
    if too_many_hangs(ctx):
      return


# ---- directed stream: trigger-formula DATA columns whose formula handles exceptions ---------------------------------
# A trigger formula that catches exceptions (IFERROR / try-except) and reads a formula column that is still dirty must be
# postponed like any other cell (the pending OrderError is re-raised after the user code swallowed it), so its stored
# value does not depend on whether its work item ran before or after the column it reads.

TRIGGER_FORMS = [
  ('IFERROR($%(f)s * 2, -1)', lambda t, p: 2 * t),
  ('try:\n  return $%(f)s + 1\nexcept Exception:\n  return -1', lambda t, p: t + 1),
  ('IFERROR($%(f)s, 0) + $Price', lambda t, p: t + p),
  ('try:\n  x = $%(f)s\nexcept Exception:\n  x = -5\nreturn x * 3', lambda t, p: 3 * t),
]


def gen_triggerdoc(rng):
  f = rng.choice(['Total', 'Z', 'T9'])
  names = rng.sample(['Audit', 'Charged', 'A1', 'B', 'Mark'], rng.choice([1, 2]))
  trig = [(nm, rng.randrange(len(TRIGGER_FORMS))) for nm in names]
  rows = []
  bundles = []
  for _ in range(rng.choice([1, 2, 3])):
    k = rng.choice([1, 1, 2, 3])
    vals = [(rng.choice([1, 2, 10, 7]), rng.choice([0, 1, 3, 5])) for _i in range(k)]
    rows += vals
    if k == 1 and rng.random() < 0.6:
      bundles.append([['AddRecord', 'Orders', None, {'Price': vals[0][0], 'Qty': vals[0][1]}]])
    else:
      bundles.append([['BulkAddRecord', 'Orders', [None] * k, {'Price': [v[0] for v in vals], 'Qty': [v[1] for v in vals]}]])
  return {'stream': 'triggerdoc', 'f': f, 'trig': [list(x) for x in trig], 'bundles': bundles, 'rows': [list(x) for x in rows]}


def triggerdoc_script(w):
  f = w['f']
  script = [[['AddTable', 'Orders', [{'id': 'Price', 'type': 'Int', 'isFormula': False},
                                     {'id': 'Qty', 'type': 'Int', 'isFormula': False},
                                     {'id': f, 'type': 'Int', 'isFormula': True, 'formula': '$Price * $Qty'},
                                     {'id': 'Zz', 'type': 'Int', 'isFormula': True, 'formula': '$Price + 1'}]]]]
  for nm, k in w['trig']:
    script.append([['AddColumn', 'Orders', nm, {'type': 'Int', 'isFormula': False, 'formula': TRIGGER_FORMS[k][0] % {'f': f},
                                                'recalcWhen': 0, 'recalcDeps': None}]])
  return script + copy.deepcopy(w['bundles'])


def run_triggerdoc(w):
  """Engine order against the reference values, then against permuted orders.  None or (kind, description)."""
  script = triggerdoc_script(w)
  exp = {w['f']: [p * q for p, q in w['rows']], 'Zz': [p + 1 for p, q in w['rows']]}
  for nm, k in w['trig']:
    exp[nm] = [TRIGGER_FORMS[k][1](p * q, p) for p, q in w['rows']]
  def go():
    e, _ = G.new_doc()
    for b in script:
      G.apply(e, b)
    return G.snapshot(e, tables=['Orders'])['Orders']['cols']
  try:
    got = ST.limited2(go)
  except ST.Timeout:
    return 'nontermination', 'recalculation did not terminate within the time limit'
  except Exception as x:
    return 'exception', 'the document raised %r' % (x,)
  for c in sorted(exp):
    if got.get(c) != exp[c]:
      return 'trigger_handler_order', ('engine order: column %s holds %r, expected %r (no error occurs anywhere: %s = $Price * '
                                       '$Qty; trigger formulas %r; bundles %r)' % (
                                         c, got.get(c), exp[c], w['f'],
                                         [(nm, TRIGGER_FORMS[k][0] % {'f': w['f']}) for nm, k in w['trig']], w['bundles']))
  diff = compare_runs(script, w.get('pseeds', []))
  if diff:
    return ('nontermination' if 'did not terminate' in diff[2] else 'order_dependent'), diff[2] + \
      '; trigger formulas %r' % ([(nm, TRIGGER_FORMS[k][0] % {'f': w['f']}) for nm, k in w['trig']],)
  return None


def search_triggerdocs(ctx, k):
  for _ in range(ctx.n(12, 250)):
    w = gen_triggerdoc(ctx.rng)
    w['pseeds'] = [ctx.rng.randrange(1 << 30) for _ in range(k)]
    ctx.count(('triggerdoc', repr(w)), nontrivial=True, kind='search:trigger column with handler')
    bad = run_triggerdoc(w)
    if bad:
      ctx.violation(bad[0], bad[1], w)
    if too_many_hangs(ctx) or sum(1 for v in ctx.violations if v['kind'] == 'trigger_handler_order') > 5:
      return


def _index_order_matcher(v, entry):
  """Only: a lookup keyed on a column that is itself computed through a lookup (the engine brings lookup indexes up to
  date in name order, not in dependency order)."""
  w = v.get('replay', {})
  return v.get('kind') == 'lookup_index_order' and w.get('stream') == 'lookupdoc' and lookup_chain(w.get('cols', []))


def too_many_hangs(ctx):
  return sum(1 for v in ctx.violations if v['kind'] == 'nontermination') >= 2


def search(ctx):
  k = ctx.n(2, 3)
  # (a) shared random histories, acyclic programs, full vocabulary
  for _ in range(ctx.n(8, 150)):
    seed = ctx.rng.randrange(1 << 30)
    nb = ctx.rng.choice([4, 6, 8])
    pseeds = [ctx.rng.randrange(1 << 30) for _ in range(k)]
    w = {'stream': 'hist', 'seed': seed, 'nb': nb, 'pseeds': pseeds}
    try:
      try:
        script = ST.limited(lambda: hist_script(seed, nb), 120)
      except ST.Timeout:
        script = ST.limited(lambda: hist_script(seed, nb), 900)
    except ST.Timeout:
      ctx.violation('nontermination', 'a shared random history did not finish within the time limit', w)
      continue
    diff = compare_runs(script, pseeds)
    ctx.count(('hist', seed), nontrivial=True, kind='search:history', sample=None)
    ctx.bump('search:bundles', len(script) * (k + 1))
    if diff:
      w['pseeds'] = [diff[1]] if diff[1] is not None else []
      ctx.violation('nontermination' if 'did not terminate' in diff[2] else 'order_dependent', diff[2], w)
    if too_many_hangs(ctx):
      return
  ctx.log('search: histories done')
  search_lookupdocs(ctx, k)
  search_triggerdocs(ctx, k)
  ctx.log('search: lookup and trigger documents done')
  # (a') edit sequences that create and break reference cycles (which cell is flagged depends on the order)
  for _ in range(ctx.n(25, 250)):
    script = cycle_break_script(ctx.rng)
    pseeds = [ctx.rng.randrange(1 << 30) for _ in range(k)]
    w = {'stream': 'script', 'script': script, 'pseeds': pseeds}
    diff = compare_runs(script, pseeds)
    ctx.count(('script', repr(script)), nontrivial=True, kind='search:cycle-break sequence')
    ctx.bump('search:bundles', len(script) * (k + 1))
    if diff:
      w['pseeds'] = [diff[1]] if diff[1] is not None else []
      w['script'] = script[:diff[0] + 1]
      ctx.violation('nontermination' if 'did not terminate' in diff[2] else 'order_dependent', diff[2], w)
    if too_many_hangs(ctx):
      return
  # (a'') formulas that require several rows of a column at once (sum($RefList.col), lookupRecords(...).col) with
  # row-dependent formulas: cycles / chains through some rows of a column (generator of C18's multi-row stream)
  from harness.props import c18
  for _ in range(ctx.n(12, 300)):
    mw = c18.gen_multirow(ctx.rng)
    script = c18.mr_script(mw)[0]
    pseeds = [ctx.rng.randrange(1 << 30) for _ in range(k)]
    w = {'stream': 'script', 'script': script, 'pseeds': pseeds}
    diff = compare_runs(script, pseeds)
    ctx.count(('script', repr(script)), nontrivial=True, kind='search:multi-row requirement')
    if diff:
      w['pseeds'] = [diff[1]] if diff[1] is not None else []
      w['script'] = script[:diff[0] + 1]
      ctx.violation('nontermination' if 'did not terminate' in diff[2] else 'order_dependent', diff[2], w)
    if too_many_hangs(ctx):
      return
  # (b) cyclic grammar programs without handlers; (c) with handlers
  for stream, p_try, n in (('strict', 0.0, ctx.n(40, 800)), ('handlers', 0.5, ctx.n(12, 150))):
    for _ in range(n):
      versions, d, r, edits = gen_prog_case(ctx.rng, p_try, 0.25 if stream == 'strict' else 0.0, 0.35)
      pseeds = [ctx.rng.randrange(1 << 30) for _ in range(k)]
      w = {'stream': stream, 'prog': {c: list_of(a) for c, a in versions[0].items()}, 'd': d, 'r': r, 'edits': edits,
           'pseeds': pseeds, 'versions': [{c: list_of(a) for c, a in ver.items()} for ver in versions]}
      diff = compare_runs(prog_script(versions[0], d, r, edits), pseeds)
      cyc = on_cycle_with_try(versions)
      ctx.count(('prog', repr(w)), nontrivial=True, kind='search:%s%s' % (stream, '+try-on-cycle' if cyc else ''))
      if diff:
        w['pseeds'] = [diff[1]] if diff[1] is not None else []
        kind = 'nontermination' if 'did not terminate' in diff[2] else 'handler_on_cycle' if cyc else 'order_dependent'
        ctx.violation(kind, diff[2], w)
      if too_many_hangs(ctx):
        return


def cycle_break_script(rng):
  """Create a reference cycle, break it at each of its columns in turn (re-creating it in between), row edits in
  between: the generator of C18's edit sequences, as a script of bundles."""
  from harness.props import c18
  n = rng.choice([2, 3, 3, 4])
  graph, steps = c18.gen_cycle_sequence(rng, n)
  script = [[ST.table_action(c18.graph_prog(graph))], [ST.rows_action([1, 2], [1, 1])]]
  nrows = 2
  for st in steps:
    if st[0] == 'mod':
      graph = c18._set_col(graph, st[1], st[2])
      c = ST.FCOLS[st[1]]
      script.append([['ModifyColumn', ST.TABLE, c, {'formula': ST.py_formula(c18.graph_prog(graph)[c])}]])
    elif st[0] == 'upd' and st[1] <= nrows:
      script.append([['UpdateRecord', ST.TABLE, st[1], {ST.DATA: st[2]}]])
    elif st[0] == 'add':
      script.append([['AddRecord', ST.TABLE, None, {ST.DATA: st[1], ST.REF: 1}]])
      nrows += 1
  return script


def replay_tie(w, seconds=30):
  prog = collections.OrderedDict((c, tuple_of(a)) for c, a in w['prog'].items())
  prio = ST.priority_from(random.Random(w['prio'])) if w.get('prio') is not None else None
  try:
    e, _loops = ST.limited(lambda: ST.new_traced_doc(prog, w['d'], w['r'], prio), seconds)
    for b in w.get('edits', []):
      ST.limited(lambda: G.apply(e, b), seconds)
  except ST.Timeout:
    return 'recalculation did not terminate within the time limit'
  except Exception as x:
    return 'a grammar bundle raised %r' % (x,)
  return None


def replay(ctx, w):
  if w.get('stream') == 'tie':
    return replay_tie(w)
  if w.get('stream') == 'lookupdoc':
    bad = run_lookupdoc(w)
    return bad[1] if bad else None
  if w.get('stream') == 'triggerdoc':
    bad = run_triggerdoc(w)
    return bad[1] if bad else None
  if w.get('stream') == 'script':
    script = w['script']
  elif w.get('stream') == 'hist':
    script = hist_script(w['seed'], w['nb'])
  else:
    prog = collections.OrderedDict((c, tuple_of(a)) for c, a in w['prog'].items())
    script = prog_script(prog, w['d'], w['r'], w.get('edits', []))
  diff = compare_runs(script, w['pseeds'])
  return diff[2] if diff else None


def _versions_of(w):
  return [collections.OrderedDict((c, tuple_of(a)) for c, a in ver.items()) for ver in w.get('versions', [])]


def _handler_matcher(v, entry):
  """Only: results differ between orders AND a try/except formula lies on a reference cycle of that document."""
  w = v.get('replay', {})
  return v.get('kind') == 'handler_on_cycle' and w.get('stream') == 'handlers' and on_cycle_with_try(_versions_of(w))


MATCHERS = {'c06_handler_on_cycle': _handler_matcher, 'c06_lookup_index_order': _index_order_matcher}
