"""C05 -- Incremental recalculation equals recalculation from scratch (depend.py, relation.py, lookup.py, engine.py)."""
import copy
import random
import time

from harness import core
from harness import gristenv as G
from harness import histgen, histrun
from harness import depsenv, depsexport, c05lib

import depend   # noqa: E402

ID = 'C05'
TITLE = 'Incremental recalculation equals recalculation from scratch'
PROPS = ['Props/C05', 'Props/C05code']
RULE = ('random documents (1-3 tables, summary tables, Ref/RefList columns) and user-action histories from the shared '
        'generator and from a C05 generator that over-represents lookups (CONTAINS, order_by, multi-key), reference '
        'chains across tables, $group formulas, PREVIOUS/NEXT/RANK, and schema edits of dependencies; after EVERY bundle '
        '(i) all tables are compared with a fresh engine loaded from metadata + data columns, (ii) the dependency '
        'monitor checks every recorded cell read of every clean formula cell against the real dep_graph; a case is one '
        'bundle, non-trivial when at least one formula cell read/lookup was checked (monitor) or at least one user '
        'formula column exists (oracle); model cases: Graph.invalidate_deps on the exported real graph vs DepsExec.inval')
TRUSTED = ['Model/Deps*.v is hand-written; tied each run by (a) Graph.invalidate_deps of the real engine vs the model on '
           'exported real graphs (vm_compute), (b) the dependency-soundness monitor = hypothesis [read_ok] of the theorem '
           'evaluated on the real dep_graph for every read of every clean formula cell',
           'formula evaluation itself (CPython) is the interaction tree; the scheduler (order of evaluation, OrderError) is '
           'K2 Sched.v (C06/C18), here only "a dirty cell whose reads are clean may be evaluated"',
           'instrumentation: Engine._use_node, _recompute_one_cell, BaseColumn.get_cell_value, '
           '_RelationTracker.update_relation_from_current_node, Table.lookup_records, RecordSet._bisect_index']
ASSUMPTIONS = ['formula programs are acyclic, counting lookup keys and sort keys as dependencies (hypothesis [acyclic]; '
               'C05_full_statement_refuted shows it is needed; engine-side: known finding C05-cyclic-through-lookup)',
               'volatile/side-effecting formulas (NOW, TODAY, RANDOM, REQUEST, PEEK) and trigger-formula data columns are '
               'outside the property; trigger columns are loaded as data by the oracle',
               'every evaluation records a covering edge or a lookup registration for each read (eval_ok.v_rec): checked '
               'on the implementation by the monitor, proved for the relation models (reference/lookup/composed)']
TECHNIQUE = 'Coq proof of the dependency kernel (invariant + preservation + scratch equality) + dependency-soundness monitor and model tie on the real graph + scratch-recalculation oracle on random histories'
LEVEL_TEXT = ('Kernel-checked: from a consistent state, any interleaving of edits (with their invalidation) and cell '
              'evaluations that ends quiescent leaves every formula cell of an acyclic program equal to recalculation '
              'from scratch; Graph.invalidate_deps (executable model incl. ALL_ROWS/clear_dependencies) meets the '
              'invalidation guarantee; Reference/Lookup/Composed relations are sound against models of the inverse map and '
              'lookup index. The recording of dependencies by Record/RecordSet attribute access is checked on the '
              'implementation for every read (monitor), not proved.')
LEVEL_NOTE = ('Strength: kernel. Trusted: Coq kernel; hand-written model tied by exported-graph cases and the monitor. '
              'The executable model is shown to refine the kernel for data edits, schema edits (ALL_ROWS with '
              'clear_dependencies), one evaluation step with eagerly and lazily (lookup) tracked reads, and the '
              're-evaluation of a lookup-map cell with its post-invalidation; invalidate_deps terminates within an '
              'explicit fuel bound; abstract scheduler: any interleaving of picks of ready cells (also with '
              'post-invalidation of higher-ranked cells) is finite, stops only at quiescence and then holds the scratch '
              'values. Not modelled: multi-key/CONTAINS index cells (sets of keys per row), the sorted-lookup helper, '
              'and the concrete order of Engine._update_loop (C06/C18). Known finding: programs cyclic through '
              'a lookup. Repaired (eb8849a, witness replayed first each run): RecordSet.<RefList column> recorded a '
              'dependency with the wrong relation.')
PROOF_TIMEOUT = 900


def regenerate(ctx):
  """coq/gen/Deps_gen.v (and K4_gen.v for ReferenceRelation) from /repo's current source; pinned glue compared by AST."""
  import json
  import os
  from harness import py2v, dep2v_main, dep2v_gen, k4tr_specs
  try:
    core.write_if_changed(os.path.join(core.COQ, 'gen', 'K4_gen.v'), k4tr_specs.generate(core.GRIST))
  except py2v.Untranslatable as ex:
    raise core.TieBroken('ReferenceRelation is outside the translated subset (harness/k4tr.py): %s' % ex)
  try:
    text = dep2v_main.generate(core.GRIST)
  except py2v.Untranslatable as ex:
    raise core.TieBroken('dependency code outside the translated subset (harness/dep2v*.py): %s' % ex)
  core.write_if_changed(os.path.join(core.COQ, 'gen', 'Deps_gen.v'), text.replace(core.GRIST, '<repo>/sandbox/grist'))
  try:
    now = dep2v_gen.pin_hashes(core.GRIST)
  except py2v.Untranslatable as ex:
    raise core.TieBroken('pinned glue: %s' % ex)
  with open(os.path.join(core.VERIF, 'harness', 'dep2v_pins.json')) as f:
    want = json.load(f)
  bad = sorted(k for k in want if now.get(k) != want[k])
  ctx.extra['regenerated'] = {'generated_file': 'coq/gen/Deps_gen.v (+ K4_gen.v)', 'translated_functions': text.count('Definition gen_') + text.count('Fixpoint gen_'),
                              'pinned_functions': len(want)}
  if bad:
    raise core.TieBroken('glue the model was written from changed (AST differs from harness/dep2v_pins.json): %s' % ', '.join(bad))


def classify(e, diffs_a, diffs_b):
  """kind of a scratch mismatch: cyclic-through-lookup when every differing column is on/behind such a cycle."""
  cyc = c05lib.cyclic_through_lookup(e)
  if not cyc:
    return 'incremental-differs-from-scratch'
  tainted = set(cyc)
  changed = True
  while changed:
    changed = False
    for ed in e.dep_graph._all_edges:
      if ed.in_node in tainted and ed.out_node not in tainted:
        tainted.add(ed.out_node)
        changed = True
  bad = set()
  for t in diffs_a:
    if t not in diffs_b or diffs_a[t]['ids'] != diffs_b[t]['ids']:
      return 'incremental-differs-from-scratch'
    for c in diffs_a[t]['cols']:
      if diffs_a[t]['cols'][c] != diffs_b[t]['cols'].get(c):
        bad.add(depend.Node(t, c))
  return 'cyclic-through-lookup' if bad and bad <= tainted else 'incremental-differs-from-scratch'


SORT_HELPER = 'stale:sort-helper-survives-column-removal'


def stale_sort_helper(e, a, b):
  """True if every differing column sits on/behind a SortedLookupMapColumn whose sort column no longer exists
  (table.py _get_sorted_lookup_map reuses the cached helper; creating it anew raises KeyError)."""
  def bound_columns(helper):
    """Column objects captured by sort_key.make_sort_key when the helper was created."""
    out = []
    fn = getattr(getattr(helper, '_sort_key', None), '__init__', None)
    for cell in (getattr(fn, '__closure__', None) or ()):
      try:
        v = cell.cell_contents
      except ValueError:
        continue
      if isinstance(v, list) and v and all(isinstance(x, tuple) and len(x) == 2 for x in v):
        out.extend(x[0] for x in v if hasattr(x[0], 'get_cell_value'))
    return out
  stale = set()
  for t in e.tables.values():
    for col in getattr(t, '_special_cols', {}).values():
      ids = getattr(col, '_sort_col_ids', None)
      if not ids:
        continue
      if any(not t.has_column(c) for c in ids) or \
         any(t.all_columns.get(c.col_id) is not c for c in bound_columns(col)):
        stale.add(col.node)
  if not stale:
    return False
  tainted = set(stale)
  changed = True
  while changed:
    changed = False
    for ed in e.dep_graph._all_edges:
      if ed.in_node in tainted and ed.out_node not in tainted:
        tainted.add(ed.out_node)
        changed = True
  bad = set()
  for t in a:
    if t not in b or a[t]['ids'] != b[t]['ids']:
      return False
    for c in a[t]['cols']:
      if a[t]['cols'][c] != b[t]['cols'].get(c):
        bad.add(depend.Node(t, c))
  return bool(bad) and bad <= tainted


LOOKUP_SCHEMA = 'stale-error:lookup-column-schema-change'
SUMMARY_ROWSETS = [0]     # how often the row set of a summary table differed (left to C12)


def lookup_schema_change(e, a, b, bundle):
  """True if every differing cell holds an error from scratch (and an error / nothing incrementally) and belongs to
  a column whose formula does a lookup (lookupRecords/lookupOne/PREVIOUS/NEXT/RANK) that names a column the last
  bundle added, removed, retyped or converted: the dependence of a lookup on the EXISTENCE and TYPE of its key and
  sort columns is not recorded (table.py lookup_records converts the key by the column's type and raises before
  any _use_node), so such a cell is not re-evaluated and keeps its previous error / empty value."""
  import re
  changed = set()
  for act in bundle or ():
    if act[0] in ('RemoveColumn', 'AddColumn'):
      changed.add(act[2])
    elif act[0] == 'ModifyColumn' and ('type' in act[3] or 'isFormula' in act[3]):
      changed.add(act[2])
    elif act[0] == 'RenameColumn':
      changed.update([act[2], act[3]])
  if not changed:
    return False
  meta = histgen.Meta(e)
  formulas = {}
  for c in meta.cols.values():
    t = meta.tables.get(c['parentId'])
    if t is not None:
      formulas[(t['tableId'], c['colId'])] = c['formula'] or ''
  found = False
  for t in a:
    if t not in b or a[t]['ids'] != b[t]['ids']:
      return False
    for c, vals in a[t]['cols'].items():
      other = b[t]['cols'].get(c)
      if vals == other:
        continue
      found = True
      f = formulas.get((t, c), '')
      if not re.search(r'lookupRecords|lookupOne|PREVIOUS|NEXT|RANK', f):
        return False
      if not any(re.search(r'(?<![A-Za-z0-9_])%s(?![A-Za-z0-9_])' % re.escape(x), f) for x in changed):
        return False
      if not isinstance(other, list) or len(other) != len(vals):
        return False
      for x, y in zip(vals, other):
        if x != y:
          is_err = lambda v: isinstance(v, list) and len(v) >= 1 and v[0] == 'E'
          # either the fresh engine raises where the cell kept an older error / empty value, or the cell kept the
          # error it got while the column was missing and the fresh engine computes a value
          ok = (is_err(y) and (is_err(x) or x in (None, '', 0, ['L']))) or (is_err(x) and not is_err(y))
          if not ok:
            return False
  return found


def oracle(e, bundle=None):
  """(kind, what) if incremental values differ from scratch recalculation, else None."""
  f = histrun.scratch_values(e)
  a, b = G.snapshot(e), G.snapshot(f)
  if a == b:
    return None
  # Which rows a SUMMARY table has is decided by side-effecting formulas (lookupOrAddDerived / setAutoRemove in
  # `group`), which the property excludes (C12 owns "summary tables are exact group-bys"): where the two engines
  # disagree on the row set of a summary table, only the rows both have are compared here.
  meta = a.get('_grist_Tables')
  if meta:
    for tid, src in zip(meta['cols']['tableId'], meta['cols']['summarySourceTable']):
      if src and tid in a and tid in b and a[tid]['ids'] != b[tid]['ids']:
        SUMMARY_ROWSETS[0] += 1
        common = [r for r in a[tid]['ids'] if r in set(b[tid]['ids'])]
        for snap in (a, b):
          idx = [snap[tid]['ids'].index(r) for r in common]
          snap[tid] = {'ids': common, 'cols': {c: [v[i] for i in idx] for c, v in snap[tid]['cols'].items()}}
    if a == b:
      return None
  kind = classify(e, a, b)
  if kind == 'incremental-differs-from-scratch' and stale_sort_helper(e, a, b):
    kind = SORT_HELPER
  if kind == 'incremental-differs-from-scratch' and lookup_schema_change(e, a, b, bundle):
    kind = LOOKUP_SCHEMA
  if kind == 'incremental-differs-from-scratch' and summary_helper_raises(e, a, b):
    kind = SUMMARY_HELPER
  return kind, '; '.join(G.diff_snapshots(a, b))


SUMMARY_HELPER = 'summary:helper-raises (C12-helper-raises)'


def summary_helper_raises(e, a, b):
  """True if every differing column belongs to a summary table and some source record's summary helper cell
  (#summary#<table>) holds an error: the record then stays in its old group (known finding C12-helper-raises)."""
  import objtypes
  broken = set()
  for t in e.tables.values():
    for cid, col in t.all_columns.items():
      if cid.startswith('#summary#'):
        if any(isinstance(col.raw_get(r), objtypes.RaisedException) for r in t.row_ids):
          broken.add(cid[len('#summary#'):])
  if not broken:
    return False
  bad = set()
  for t in a:
    if t not in b or a[t]['ids'] != b[t]['ids']:
      return False
    if any(a[t]['cols'][c] != b[t]['cols'].get(c) for c in a[t]['cols']):
      bad.add(t)
  return bool(bad) and bad <= broken


FLATTEN = 'reflist-flatten-id-read'


def c05_kinds(violation, entry):
  """The oracle/monitor classified the violation into one of the kinds of the entry's root cause."""
  return violation.get('kind') in entry.get('violation_kinds', [])


MATCHERS = {'c05_kinds': c05_kinds}


def flatten_sig(p):
  """Monitor problem caused by usertypes.ReferenceList.do_convert reading `rec.id` of records that carry the bare
  ReferenceRelation of their column (table.py _get_col_obj_subset -> col_obj.convert(list of RecordSets))."""
  import relation
  return (p[0] == 'relation-does-not-cover' and len(p) > 3 and p[2][0].col_id == 'id'
          and type(p[3][1]) is relation.ReferenceRelation)


def monitor_run(bundles):
  """Replays bundles under the monitor; returns (engine, list of (step, problem))."""
  depsenv.Monitor.install()
  e, _ = G.new_doc()
  m = depsenv.Monitor(e)
  outer = depsenv.Monitor.active       # a monitored history may be in progress (diagnose is called from report)
  depsenv.Monitor.active = m
  found = []
  try:
    for i, b in enumerate(bundles):
      c05lib.apply_or_clean(e, copy.deepcopy(b))
      for p in m.check(limit=50)[0]:
        found.append((i, p))
  finally:
    depsenv.Monitor.active = outer
  return e, found


def diagnose(history, bundle, a, b):
  """Narrow kind for a scratch mismatch whose differing columns all sit on/behind a reader with flatten_sig."""
  try:
    e, found = monitor_run(history + [bundle])
  except Exception:
    return None
  readers = {p[3][0] for (_i, p) in found if flatten_sig(p)}
  if not readers:
    return None
  tainted = set(readers)
  changed = True
  while changed:
    changed = False
    for ed in e.dep_graph._all_edges:
      if ed.in_node in tainted and ed.out_node not in tainted:
        tainted.add(ed.out_node)
        changed = True
  bad = set()
  for t in a:
    if t not in b or a[t]['ids'] != b[t]['ids']:
      return None
    for c in a[t]['cols']:
      if a[t]['cols'][c] != b[t]['cols'].get(c):
        bad.add(depend.Node(t, c))
  return 'stale:' + FLATTEN if bad and bad <= tainted else None


def replay(ctx, w):
  if w.get('mode') == 'monitor':
    _e, found = monitor_run(w.get('history', []) + [w['bundle']])
    hits = [p for (_i, p) in found if p[0] == w.get('problem')]
    return ('monitor: ' + hits[0][1]) if hits else None
  e = c05lib.run_bundles(w.get('history', []))
  try:
    G.apply(e, copy.deepcopy(w['bundle']))
  except Exception:
    G.clean(e)
  try:
    r = oracle(e, w['bundle'])
  except Exception as ex:
    return 'scratch recalculation raises %r' % (ex,)
  return None if r is None else '%s: %s' % r


def shrink(history, bundle):
  def fails(bs):
    try:
      e = c05lib.run_bundles(bs[:-1])
      try:
        G.apply(e, copy.deepcopy(bs[-1]))
      except Exception:
        G.clean(e)
      return oracle(e, bs[-1]) is not None
    except Exception:
      return False
  small = histgen.shrink_list(history + [bundle], fails, max_steps=120)
  return small[:-1], small[-1]


def report(ctx, e, r, history, bundle):
  kind, what = r
  h, b = shrink(history, bundle) if len(ctx.violations) < 4 else (history, bundle)
  if kind == 'incremental-differs-from-scratch':
    try:
      e2 = c05lib.run_bundles(h)
      try:
        G.apply(e2, copy.deepcopy(b))
      except Exception:
        G.clean(e2)
      kind = diagnose(h, b, G.snapshot(e2), G.snapshot(histrun.scratch_values(e2))) or kind
    except Exception:
      pass
  ctx.violation(kind, what, {'history': copy.deepcopy(h), 'bundle': copy.deepcopy(b)})


def n_user_formulas(e):
  return sum(1 for t in G.user_tables(e) for c in e.tables[t].all_columns.values()
             if c.is_formula() and not c.col_id.startswith('#') and not c.col_id.startswith('gristHelper'))


# ---- model tie: real Graph.invalidate_deps vs DepsExec.inval on the exported real graph ---------------
def inval_cases(ctx, e, k, history=None):
  """k cases (Coq literals) from the current graph of e; [] if it cannot be exported."""
  r = ctx.rng
  try:
    ex = depsexport.Export(e)
    inv, lkrows, lkkeys = ex.inv(), ex.lkrows(), ex.lkkeys()
  except depsexport.Unexportable:
    ctx.bump('model:unexportable')
    return []
  if not ex.edges:
    return []
  nodes = sorted(ex.nid.values())
  back = {i: n for n, i in ex.nid.items()}
  # start at user-visible data/formula nodes that have dependents, mostly
  starts = sorted({i for (_o, i, _r, _e) in ex.edges if not back[i].table_id.startswith('_grist_')}) or nodes
  out = []
  for _ in range(k):
    n = r.choice(starts) if r.random() < 0.85 else r.choice(nodes)
    t = e.tables.get(back[n].table_id)
    rows_all = sorted(t.row_ids) if t is not None else []
    if r.random() < 0.25:
      rows = None
    else:
      rows = sorted(set(r.sample(rows_all, min(len(rows_all), r.randint(1, 3))) + ([r.randint(1, 9)] if r.random() < 0.2 else [])))
    incl = r.random() < 0.4
    m0 = {}
    if r.random() < 0.4:          # a pre-filled map: the walk stops at rows that are already dirty
      for nn in r.sample(nodes, min(len(nodes), r.randint(1, 3))):
        tt = e.tables.get(back[nn].table_id)
        ra = sorted(tt.row_ids) if tt is not None else []
        m0[nn] = None if r.random() < 0.2 else sorted(r.sample(ra, min(len(ra), r.randint(0, 2))))
    try:
      expected = depsexport.scratch_invalidate(ex, m0, n, rows, incl)
    except depsexport.Unexportable:
      ctx.bump('model:unexportable')
      continue
    out.append(depsexport.case_lit(ex, inv, lkrows, lkkeys, m0, n, rows, incl, expected))
    ctx._c05_case_info.append((copy.deepcopy(history or []), back[n].table_id, back[n].col_id))
    dirtied = sum(1 for v in expected.values() if v is None or v)
    ctx.count(('inval', len(ctx._c05_cases) + len(out), n, rows, incl), nontrivial=dirtied > (1 if incl else 0),
              kind='model:inval:' + ('all' if rows is None else 'rows'))
  return out


def exploit(ctx, e, m, problem, history):
  """Turn a monitor failure into a concrete failing input: edit the uncovered cell, compare with scratch."""
  cell = problem[2] if len(problem) > 2 else None
  if not cell:
    return False
  dnode, q = cell
  t = e.tables.get(dnode.table_id)
  if t is None or dnode.col_id not in t.all_columns or t.all_columns[dnode.col_id].is_formula() \
     or dnode.table_id.startswith('_grist_') or q not in t.row_ids:
    return focused_search(ctx, history, dnode.table_id, dnode.col_id)
  for v in (7, 'zz', 0, 3.5, None):
    b = [['UpdateRecord', dnode.table_id, q, {dnode.col_id: v}]]
    try:
      G.apply(e, copy.deepcopy(b))
    except Exception:
      G.clean(e)
      continue
    r = oracle(e, b)
    if r is not None:
      report(ctx, e, r, history, b)
      return True
    history.append(b)
  return focused_search(ctx, history, dnode.table_id, dnode.col_id)


def schema_probes(table_id, col_id):
  """Sequences of bundles that edit the SCHEMA of one column (the dependency a tie/monitor failure points at)."""
  if table_id.startswith('_grist_') or col_id.startswith('#') or col_id in ('id', 'manualSort'):
    return []
  seqs = [[[['ModifyColumn', table_id, col_id, {'type': ty}]]] for ty in ('Text', 'Int', 'Numeric', 'Any', 'Bool')]
  seqs.append([[['RenameColumn', table_id, col_id, col_id + '_r9']], [['RenameColumn', table_id, col_id + '_r9', col_id]]])
  seqs.append([[['RemoveColumn', table_id, col_id]], [['AddColumn', table_id, col_id, {'type': 'Text', 'isFormula': False}]]])
  seqs.append([[['ModifyColumn', table_id, col_id, {'isFormula': True, 'formula': '$id'}]],
               [['ModifyColumn', table_id, col_id, {'isFormula': False}]]])
  return seqs


def focused_search(ctx, history, table_id, col_id):
  """Same document, schema edits of the given column, scratch oracle after each; True if a failing input was found."""
  for seq in schema_probes(table_id, col_id):
    try:
      e = c05lib.run_bundles(history)
    except Exception:
      return False
    done = [copy.deepcopy(b) for b in history]
    for b in seq:
      c05lib.apply_or_clean(e, copy.deepcopy(b))
      ctx.bump('focused:schema-probe')
      try:
        r = oracle(e, b)
      except Exception:
        break
      if r is not None:
        kind = known_kind(r[0])
        if kind:                 # a registered root cause: not what the broken tie is about, keep looking
          continue
        report(ctx, e, r, done, b)
        return True
      done.append(b)
  return False


def known_kind(kind):
  return kind in (SORT_HELPER, LOOKUP_SCHEMA, SUMMARY_HELPER, 'cyclic-through-lookup')


SHAPES = [
  ('plain-field', r'\$\w+|rec\.\w+'), ('ref-chain', r'\$\w+\.\w+'), ('ref-chain-2', r'\$\w+\.\w+\.\w+'),
  ('reflist-field', r'list\(\$\w+\.\w+\)|for \w+ in \$\w+|len\(\$\w+\)'),
  ('lookupRecords', r'lookupRecords\('), ('lookupOne', r'lookupOne\('), ('lookup-CONTAINS', r'CONTAINS\('),
  ('lookup-order_by', r'order_by=|sort_by='), ('lookup-multi-key', r'lookup\w+\(\w+=[^,)]+, \w+=\$'),
  ('table.all', r'\w+\.all\b'), ('summary-group', r'\$group'), ('PREVIOUS', r'PREVIOUS\('), ('NEXT', r'NEXT\('),
  ('RANK', r'RANK\('), ('recordset-field (RefList flatten)', r'lookupRecords\([^)]*\)\.\w+|\$group\.\w+'),
  ('recordset.Ref.field (two hops through a set)',
   r'lookupRecords\([^)]*\)\.\w+\.\w+|\$group\.\w+\.\w+|list\(\$\w+\.\w+\.\w+\)|in \$\w+\.\w+\.\w+|in \$\w+\.\w+\]'),
]


def shape_classifier(e):
  """node -> list of formula shapes of that column (by its formula text in the metadata)."""
  import re
  meta = histgen.Meta(e)
  table = {}
  for c in meta.cols.values():
    t = meta.tables.get(c['parentId'])
    if t is not None and c['formula']:
      table[(t['tableId'], c['colId'])] = [name for name, rx in SHAPES if re.search(rx, c['formula'])]
  return lambda node: table.get((node.table_id, node.col_id), []) if not node.table_id.startswith('_grist_') else []


def monitored_history(ctx, seed, nb, cases_per_hist):
  r = random.Random(seed)
  gen = c05lib.Gen05(r) if r.random() < 0.75 else histgen.HistGen(r)
  e, _ = G.new_doc()
  m = depsenv.Monitor(e)
  depsenv.Monitor.active = m
  history = []
  try:
    plan = [[gen.gen_addtable(histgen.Meta(e))] for _ in range(r.randint(1, 2))] + [None] * nb
    for step, b in enumerate(plan):
      bundle = b if b is not None else gen.bundle(e)
      ok = c05lib.apply_or_clean(e, copy.deepcopy(bundle), gen) is not None
      history.append(bundle)
      ctx.bump('monitor:bundle_ok' if ok else 'monitor:bundle_failed')
      problems, st = m.check(limit=3, shapes_of=shape_classifier(e))
      for k2, v in st.items():
        if k2.startswith('shape-'):
          kind2, sh = k2.split(':', 1)
          ctx._c05_shapes.setdefault(sh, {'cells': 0, 'reads': 0})['cells' if kind2 == 'shape-cells' else 'reads'] += v
        else:
          ctx.bump('monitor:' + k2, v)
      ctx.count(('mon', seed, step), nontrivial=(st.get('reads', 0) + st.get('lookups', 0)) > 0, kind='monitor:bundles',
                sample={'seed': seed, 'bundle': bundle, 'cells': st.get('cells', 0), 'reads': st.get('reads', 0),
                        'lookups': st.get('lookups', 0)} if step == 4 else None)
      for p in problems[:3]:
        if flatten_sig(p):
          ctx.violation('monitor:' + FLATTEN, p[1],
                        {'mode': 'monitor', 'problem': p[0], 'history': copy.deepcopy(history[:-1]),
                         'bundle': copy.deepcopy(bundle)})
          continue
        ctx.broken('monitor:' + p[0], '%s  [history seed %d step %d, last bundle %r]' % (p[1], seed, step, bundle))
        exploit(ctx, e, m, p, history)
      if step >= 2 and step % 3 == 2 and len(ctx._c05_cases) < ctx._c05_case_budget:
        ctx._c05_cases.extend(inval_cases(ctx, e, cases_per_hist, history))
  finally:
    depsenv.Monitor.active = None
  return m


def monitored_script(ctx, hist):
  """A fixed list of bundles replayed under the monitor (checked after every bundle)."""
  e, _ = G.new_doc()
  m = depsenv.Monitor(e)
  depsenv.Monitor.active = m
  done = []
  try:
    for step, bundle in enumerate(hist):
      c05lib.apply_or_clean(e, copy.deepcopy(bundle))
      done.append(bundle)
      problems, st = m.check(limit=3, shapes_of=shape_classifier(e))
      for k2, v in st.items():
        if k2.startswith('shape-'):
          kind2, sh = k2.split(':', 1)
          ctx._c05_shapes.setdefault(sh, {'cells': 0, 'reads': 0})['cells' if kind2 == 'shape-cells' else 'reads'] += v
        else:
          ctx.bump('monitor:' + k2, v)
      ctx.count(('mon-script', len(ctx._c05_shapes), step, repr(bundle)[:80]),
                nontrivial=(st.get('reads', 0) + st.get('lookups', 0)) > 0, kind='monitor:bundles')
      for p in problems[:3]:
        if flatten_sig(p):
          ctx.violation('monitor:' + FLATTEN, p[1], {'mode': 'monitor', 'problem': p[0],
                                                     'history': copy.deepcopy(done[:-1]), 'bundle': copy.deepcopy(bundle)})
          continue
        ctx.broken('monitor:' + p[0], '%s  [directed history step %d, last bundle %r]' % (p[1], step, bundle))
        exploit(ctx, e, m, p, done)
  finally:
    depsenv.Monitor.active = None
  return m


def correspond(ctx):
  depsenv.Monitor.install()
  ctx._c05_cases = []
  ctx._c05_case_info = []
  ctx._c05_shapes = {name: {'cells': 0, 'reads': 0} for name, _rx in SHAPES}
  ctx._c05_case_budget = ctx.n(400, 4000)
  t0 = time.time()
  budget = ctx.n(18, 420)
  n = 0
  evals = 0
  for i in range(ctx.n(40, 1200)):
    if time.time() - t0 > budget:
      break
    m = monitored_history(ctx, ctx.rng.randrange(1 << 30), ctx.n(8, 12), ctx.n(6, 4))
    evals += m.evals
    n += 1
  evals += monitored_script(ctx, c05lib.shape_tour()).evals
  for fixed in (7, 8, 9):       # three-table documents whose middle hop is a set of records (always run)
    evals += monitored_script(ctx, c05lib.twohop_history(random.Random(fixed))).evals
    n += 1
  for hist in c05lib.unhashable_key_histories():     # lookup keys that become unhashable and hashable again
    evals += monitored_script(ctx, hist).evals
    n += 1
  n += 1
  for i in range(ctx.n(12, 200)):       # the small documents of named shapes (reference chains, blank references, ...)
    hr = random.Random(ctx.rng.randrange(1 << 30))
    pick = hr.random()
    hist = c05lib.blankref_history(hr) if pick < 0.25 else c05lib.twohop_history(hr) if pick < 0.5 else c05lib.directed_history(hr)
    evals += monitored_script(ctx, hist).evals
    n += 1
  ctx.extra['monitor_histories'] = n
  ctx.extra['monitor_coverage_by_formula_shape'] = ctx._c05_shapes     # cell checks / read checks per shape; 0 = never exercised
  for sh, v in ctx._c05_shapes.items():
    if not v['reads']:
      ctx.notes.append('monitor: formula shape %r was not exercised in this run' % sh)
  ctx.extra['monitor_cell_evaluations'] = evals
  ctx.log('monitor: %d histories, %d cell evaluations, %d model cases' % (n, evals, len(ctx._c05_cases)))
  gen_defs = ('Require Import GristGen.Deps_gen.\n'
              'Definition run_icase_gen (c : icase) : bool :=\n'
              '  let g := mkG (c_edges c) (mkR (mk_inv (c_inv c)) (mk_lkrows (c_lkrows c)) (mk_lkkeys (c_lkkeys c))) (mk_map (c_map c)) [] in\n'
              '  match gen_invalidate_deps 5000 g (c_node c) (match c_rows c with None => AllRows | Some l => Rows l end) (c_incl c) with\n'
              '  | Some g\' => forallb (entry_matches (g_map g\')) (c_expected c) | None => false end.\n')
  # translator validation: the GENERATED invalidate_deps and the model, both against the running Graph.invalidate_deps
  bad = ctx.run_cases('inval', ['Grist.Model.Deps', 'Grist.Model.DepsSpec', 'Grist.Model.DepsExec', 'Grist.Lib.DepsCases'],
                      '(fun c => run_icase c && run_icase_gen c)', ctx._c05_cases, shard=500, timeout=900, extra_defs=gen_defs)
  ctx.extra['translator_validation'] = {'gen_invalidate_deps vs running Graph.invalidate_deps (exported graphs)': len(ctx._c05_cases),
                                        'disagreements': len(bad)}
  for i in bad[:5]:
    ctx.broken('correspondence:DepsExec.invalidate_deps differs from depend.Graph.invalidate_deps',
               ctx._c05_cases[i][:3000])
  tried = set()
  for i in bad:                       # focused search around the disagreeing start node: schema edits of that column
    if i < len(ctx._c05_case_info) and len(tried) < 6:
      hist, tid, cid = ctx._c05_case_info[i]
      if (tid, cid, len(hist)) not in tried:
        tried.add((tid, cid, len(hist)))
        if focused_search(ctx, hist, tid, cid):
          break
  ctx.log('model tie: %d invalidate_deps cases evaluated in Coq, %d differ' % (len(ctx._c05_cases), len(bad)))


# ---- search ---------------------------------------------------------------------------------------------
def oracle_history(ctx, seed, nb, tag):
  r = random.Random(seed)
  gen = c05lib.Gen05(r)
  e, _ = G.new_doc()
  history = []
  plan = [[gen.gen_addtable(histgen.Meta(e))] for _ in range(r.randint(1, 3))] + [None] * nb
  for step, b in enumerate(plan):
    bundle = b if b is not None else gen.bundle(e)
    ok = c05lib.apply_or_clean(e, copy.deepcopy(bundle), gen) is not None
    ctx.bump('oracle:bundle_ok' if ok else 'oracle:bundle_failed')
    for a in bundle:
      ctx.bump('op:' + a[0])
    try:
      res = oracle(e, bundle)
    except Exception as ex:
      ctx.violation('scratch-raises', 'scratch recalculation raised %r' % (ex,),
                    {'history': copy.deepcopy(history), 'bundle': copy.deepcopy(bundle)})
      return
    ctx.count((tag, seed, step), nontrivial=n_user_formulas(e) > 0, kind='oracle:' + tag)
    if res is not None:
      report(ctx, e, res, history, bundle)
      return
    history.append(bundle)


def corpus(ctx):
  """Witnesses of the FIXED known-findings entries of this property: run first, a regression is a violation."""
  for k in core.load_known():
    if k['property'] != ID or k.get('kind') != 'fixed' or 'witness' not in k:
      continue
    desc = replay(ctx, k['witness'])
    ctx.count(('corpus', k['id']), nontrivial=True, kind='corpus:fixed-witness')
    if desc:
      ctx.violation('regression:' + k['id'], '%s (repaired by %s): %s' % (k['id'], k.get('commit'), desc), k['witness'])
    if k['id'] == 'C05-reflist-flatten-id-read':       # the monitor's view of the same witness
      w = dict(k['witness'], mode='monitor', problem='relation-does-not-cover')
      desc = replay(ctx, w)
      ctx.count(('corpus', k['id'], 'monitor'), nontrivial=True, kind='corpus:fixed-witness')
      if desc:
        ctx.violation('regression:' + k['id'], '%s (repaired by %s): %s' % (k['id'], k.get('commit'), desc), w)


def search(ctx):
  corpus(ctx)
  # 1. the shared run (oracles of C01-C05, C08, C31 on one set of histories)
  res = histrun.shared_run(ctx.tier, ctx.seed, ctx.n(20, 150), 10)
  for k, v in res.get('stats', {}).items():
    ctx.bump('shared:' + k, v)
  for it in res['issues']:
    if it['prop'] == 'C05':
      kind = it['kind']
      if kind == 'incremental-differs-from-scratch':
        try:
          h, b = it['replay'].get('history', []), it['replay']['bundle']
          e2 = c05lib.run_bundles(h)
          try:
            G.apply(e2, copy.deepcopy(b))
          except Exception:
            G.clean(e2)
          r2 = oracle(e2, b)
          if r2 is not None:
            kind = r2[0]
          if kind == 'incremental-differs-from-scratch':
            kind = diagnose(h, b, G.snapshot(e2), G.snapshot(histrun.scratch_values(e2))) or kind
        except Exception:
          pass
      ctx.violation(kind, it['what'], it['replay'])
  ctx.count(('shared', ctx.seed), nontrivial=res.get('stats', {}).get('ok_bundles', 0) > 0, kind='oracle:shared-run')
  ctx.log('shared run: %d C05 issues' % sum(1 for it in res['issues'] if it['prop'] == 'C05'))
  # 2. own stream (quick tier: whatever is left of ~80 s, at least 4 s per stream)
  left = max(8.0, 80.0 - (time.time() - ctx.t0))
  t0 = time.time()
  budget = ctx.n(min(10, left / 2), 300)
  for i in range(ctx.n(30, 1500)):
    if time.time() - t0 > budget or len(ctx.violations) > 10:
      break
    oracle_history(ctx, ctx.rng.randrange(1 << 30), ctx.n(8, 12), 'c05-stream')
  # 2b. small documents of the named dependency shapes with dense edits
  t0 = time.time()
  budget = ctx.n(min(10, left / 2), 300)
  fixed = c05lib.unhashable_key_histories()      # always run, whatever the seed and the time left
  for i in range(len(fixed) + ctx.n(60, 4000)):
    if i >= len(fixed) and (time.time() - t0 > budget or len(ctx.violations) > 10):
      break
    hr = random.Random(ctx.rng.randrange(1 << 30))
    pick = hr.random()
    hist = fixed[i] if i < len(fixed) else \
      c05lib.blankref_history(hr) if pick < 0.25 else c05lib.twohop_history(hr) if pick < 0.5 else c05lib.directed_history(hr)
    e, _ = G.new_doc()
    done = []
    for b in hist:
      c05lib.apply_or_clean(e, copy.deepcopy(b))
      try:
        res = oracle(e, b)
      except Exception as ex:
        ctx.violation('scratch-raises', 'scratch recalculation raised %r' % (ex,),
                      {'history': copy.deepcopy(done), 'bundle': copy.deepcopy(b)})
        break
      ctx.count(('directed', i, len(done)), nontrivial=len(done) >= 4, kind='oracle:directed-shapes')
      if res is not None:
        report(ctx, e, res, done, b)
        break
      done.append(b)
  ctx.log('own stream done: %d violations so far' % len(ctx.violations))
  # 3. programs cyclic through a lookup (reported under C05/C18 only)
  for i in range(ctx.n(6, 60)):
    r = random.Random(ctx.rng.randrange(1 << 30))
    hist = c05lib.cyclic_history(r)
    e, _ = G.new_doc()
    done = []
    for b in hist:
      c05lib.apply_or_clean(e, copy.deepcopy(b))
      res = oracle(e, b)
      ctx.count(('cyclic', i, len(done)), nontrivial=True, kind='oracle:cyclic-lookup-stream')
      if res is not None:
        ctx.violation(res[0], res[1], {'history': copy.deepcopy(done), 'bundle': copy.deepcopy(b)})
        break
      done.append(b)

  if SUMMARY_ROWSETS[0]:
    ctx.bump('oracle:summary-table-row-set-differs (left to C12)', SUMMARY_ROWSETS[0])
    ctx.notes.append('where incremental and scratch engines disagree on WHICH rows a summary table has (rows are created '
                     'and removed by the side-effecting formulas of `group`, excluded by the property; C12), only the '
                     'rows both have are compared: %d such comparisons in this run' % SUMMARY_ROWSETS[0])
