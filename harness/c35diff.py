"""
C35: differential validation of the translator harness/sch2v*.py.  Each function of coq/gen/Schedule_gen.v is
evaluated with vm_compute under a concrete instance of the opaque primitives (coq/theories/Lib/SchedDiff.v) and
compared with what the running Python function does on the same arguments:

  sym       Delta.__init__ / add_interval / add_to run on recording mocks of datetime, timedelta and DATEADD: the
            tree of calendar operations must be the tree the generated add_to builds
  slot      _parse_slot (with the six slot parsers and _SLOT_PARSERS): regex matches of the real _SLOT_RE as tables
  interval  _parse_interval: matches of the real _INTERVAL_RE as tables
(the generated Schedule.series is run on the tables of the correspondence cases, see props/c35.py)
"""
import datetime

from harness import core

CODES = {'ValueError': 1, 'TypeError': 2, 'AttributeError': 3, 'KeyError': 4, 'OverflowError': 5}
UNITS = ('years', 'months', 'weeks', 'days', 'hours', 'minutes', 'seconds')

IMPORTS = ['Grist.Model.Schedule', 'Grist.Lib.PySched', 'Grist.Model.ScheduleCode', 'Grist.Lib.SchedDiff',
           'GristGen.Schedule_gen']

DEFS = '''
(* monomorphic constructors for the cases: cheap to elaborate *)
Definition CU (n : Z) (u : str) : Z * str := (n, u).
Record symcase := SY { y_calls : list (Z * str); y_tree : sym }.
Definition sym_check (c : symcase) : bool :=
  match fold_left (fun acc cu => bind acc (fun d => Delta_add_interval sym_prims d (fst cu) (snd cu)))
                  (y_calls c) (Val (Delta_init sym_prims)) with
  | Val d => sym_eqb (Delta_add_to sym_prims d (SV 0)) (y_tree c)
  | Exn _ => false
  end.
Definition GR (k v : str) : str * ostr := (k, Some v).
Definition SM (p : str) (g : smatchT) : str * option smatchT := (p, Some g).
Definition SN (p : str) : str * option smatchT := (p, None).
Record slotcase := SC { c_parts : list str; c_sm : list (str * option smatchT); c_s : str; c_u : str;
                        c_code : Z; c_mo : Z; c_us : Z }.
Definition slot_check (c : slotcase) : bool :=
  delta_res_eqb (parse_slot (parse_prims (c_parts c) [] (c_sm c)) (c_s c) (c_u c)) (c_code c) (c_mo c) (c_us c).
Definition IM (s num unit : str) : str * option imatch := (s, Some (num, unit)).
Definition IN (s : str) : str * option imatch := (s, None).
Record intcase := IC { i_im : list (str * option imatch); i_s : str; i_code : Z; i_n : Z; i_u : str }.
Definition interval_check (c : intcase) : bool :=
  interval_res_eqb (parse_interval (parse_prims [] (i_im c) []) (i_s c)) (i_code c) (i_n c) (i_u c).
Inductive anycase := AY (c : symcase) | AI (c : intcase) | AS (c : slotcase).
Definition any_check (c : anycase) : bool :=
  match c with AY c => sym_check c | AI c => interval_check c | AS c => slot_check c end.
'''


def S(s):
  """str literal for the case files (Z_scope is open there; no %Z per character: faster to parse)"""
  return '[' + '; '.join(str(ord(c)) for c in s) + ']'


def is_ascii(s):
  return all(ord(c) < 128 for c in s)


# ---------------------------------------------------------------------------------------------
# symbolic run of the Delta methods

class Sym(object):
  def __init__(self, kind, term):
    self.kind = kind
    self.term = term

  def __add__(self, other):
    if not isinstance(other, Sym):
      return NotImplemented
    if self.kind == 'T' and other.kind == 'TD':
      return Sym('T', '(SPlus %s %s)' % (self.term, other.term))
    if self.kind == 'TD' and other.kind == 'TD':
      return Sym('TD', '(STdAdd %s %s)' % (self.term, other.term))
    raise TypeError('mock: %s + %s' % (self.kind, other.kind))

  def timetz(self):
    return Sym('tz', '(STimetz %s)' % self.term)

  def __bool__(self):
    raise TypeError('mock: truth value of a calendar object')


def _mock_timedelta(*a, **kw):
  if a == (0,) and not kw:
    return Sym('TD', 'STd0')
  if not a and len(kw) == 1:
    (u, n), = kw.items()
    return Sym('TD', '(STdUnit %s %s)' % (S(u), core.zlit(n)))
  raise TypeError('mock: timedelta%r%r' % (a, kw))


class _MockDatetime(object):
  @staticmethod
  def combine(d, t):
    if not (isinstance(d, Sym) and d.kind == 'date' and isinstance(t, Sym) and t.kind == 'tz'):
      raise TypeError('mock: combine')
    return Sym('T', '(SCombine %s %s)' % (d.term, t.term))


def _mock_dateadd(d, **kw):
  if not (isinstance(d, Sym) and d.kind == 'T') or list(kw) != ['months']:
    raise TypeError('mock: DATEADD')
  return Sym('date', '(SDateadd %s %s)' % (d.term, core.zlit(kw['months'])))


def sym_cases(schedule, rng, n):
  """Random sequences of add_interval calls on a fresh Delta, then add_to: (calls, tree of the result)."""
  saved = (schedule.timedelta, schedule.datetime, schedule.DATEADD)
  out = []
  try:
    schedule.timedelta, schedule.datetime, schedule.DATEADD = _mock_timedelta, _MockDatetime, _mock_dateadd
    for _ in range(n):
      calls = [(rng.choice([0, 0, 1, 2, 3, 12, 31, rng.randint(0, 100)]), rng.choice(UNITS))
               for _k in range(rng.choice([0, 1, 1, 2, 3, 5]))]
      d = schedule.Delta()
      for num, unit in calls:
        r = d.add_interval(num, unit)
        if r is not d:
          raise core.TieBroken('Delta.add_interval no longer returns self')
      res = d.add_to(Sym('T', '(SV 0)'))
      if not (isinstance(res, Sym) and res.kind == 'T'):
        raise core.TieBroken('Delta.add_to on the recording mocks does not give a datetime')
      out.append('SY %s %s' % (core.coq_list(['CU %s %s' % (core.zlit(a), S(u)) for a, u in calls]), res.term))
  finally:
    schedule.timedelta, schedule.datetime, schedule.DATEADD = saved
  return out


# ---------------------------------------------------------------------------------------------
# parsers

def exc_code(e):
  return CODES.get(type(e).__name__, 9)


def ostr(v):
  return 'None' if v is None else '(Some %s)' % S(v)


def slot_case(schedule, slot_str, unit):
  parts = slot_str.split()
  sm = []
  for p in dict.fromkeys(parts):
    m = schedule._SLOT_RE.match(p)
    if m is None:
      sm.append('SN %s' % S(p))
    else:                         # groups that did not take part are absent from the table: None
      sm.append('SM %s %s' % (S(p), core.coq_list(['GR %s %s' % (S(k), S(v)) for k, v in m.groupdict().items()
                                                   if v is not None])))
  try:
    d = schedule._parse_slot(slot_str, unit)
    res = (0, d._months, d._timedelta // datetime.timedelta(microseconds=1))
  except Exception as e:          # pylint: disable=broad-except
    res = (exc_code(e), 0, 0)
  return 'SC %s %s %s %s %s %s %s' % (core.coq_list([S(p) for p in parts]), core.coq_list(sm), S(slot_str),
                                      S(unit), core.zlit(res[0]), core.zlit(res[1]), core.zlit(res[2]))


def interval_case(schedule, s):
  low = s.lower()
  m = schedule._INTERVAL_RE.match(low)
  im = 'IN %s' % S(low) if m is None else 'IM %s %s %s' % (S(low), S(m.group('num')), S(m.group('unit')))
  try:
    n, u = schedule._parse_interval(s)
    res = (0, n, u)
  except Exception as e:          # pylint: disable=broad-except
    res = (exc_code(e), 0, '')
  return 'IC %s %s %s %s %s' % (core.coq_list([im]), S(s), core.zlit(res[0]), core.zlit(res[1]), S(res[2]))


def parser_inputs(schedule, rng, specs):
  """(interval strings, (slot string, parent unit) pairs) taken from whole schedule strings."""
  intervals, slots = [], []
  for spec in specs:
    if not is_ascii(spec) or ':' not in spec:
      continue
    head, tail = spec.split(':', 1)
    intervals.append(head.strip())
    try:
      unit = schedule._parse_interval(head.strip())[1]
    except Exception:             # pylint: disable=broad-except
      unit = rng.choice(UNITS)
    for t in tail.split(','):
      slots.append((t, unit))
      if rng.random() < 0.15:
        slots.append((t, rng.choice(UNITS + ('fortnights',))))
  return intervals, slots


def monitor_parse_hypotheses(schedule, parts):
  """
  The hypotheses of C35_code_parse_slot_errors on the implementation: returns (checked, list of failures).
  """
  bad = []
  n = 0
  for p in parts:
    m = schedule._SLOT_RE.match(p)
    if m is None:
      continue
    n += 1
    g = m.group
    if g('date') and not (g('month_day') is not None and (g('month_name') or g('month_num') is not None)):
      bad.append(('re_date', p))
    if g('mday') and g('month_day2') is None:
      bad.append(('re_mday', p))
    if g('wday') and g('weekday') is None:
      bad.append(('re_wday', p))
    if g('time') and g('hours') is None:
      bad.append(('re_time', p))
    if g('mins') and g('minutes2') is None:
      bad.append(('re_mins', p))
    if g('delta') and g('count') is None:
      bad.append(('re_delta', p))
  for u in ('weeks', 'days', 'hours', 'minutes', 'seconds'):
    for k in (0, 1, 999999999, 10 ** 9, 10 ** 12, 10 ** 20, 10 ** 40, -10 ** 15):
      n += 1
      try:
        schedule.timedelta(**{u: k})
      except OverflowError:
        pass
      except Exception as e:      # pylint: disable=broad-except
        bad.append(('td_raises', (u, k, repr(e))))
  for x in ('0', '007', '12', '', 'x', '1x', '99999999999999999999999', ' 5', '٣'):
    n += 1
    try:
      int(x)
    except ValueError:
      pass
    except Exception as e:        # pylint: disable=broad-except
      bad.append(('int_raises', (x, repr(e))))
  return n, bad
